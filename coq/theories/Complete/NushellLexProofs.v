(** C17 for the nushell generator model ([NushellModel.v] / the piece specification of [NushellProofs.v]):
    whole-module structure invariance.

    The description texts of a module live in [# ...] comments only (the about above an [export extern], the
    help at the end of an argument's line).  The per-slot theorem of [EscapeProofs.v]
    ([nushell_comment_transparent]: the text written through single_line_styled_str contains no newline, so
    inside a comment it is literal payload and leaves the lexer in the comment) is composed through the
    generator: [nrun] threads the nushell lexer of [ShellLex.v] through the pieces of the module and checks
    that every [NCm] slot is met in state [NC]; when it succeeds, the events of the rendered module are the
    events of the fixed text plus literal payload per slot ([nrun_events]).  For trees whose names are plain
    (no quote of either kind, backtick, backslash or hash) [nrun] succeeds on the module of every decoration
    ([nu_file_runs]); the fixed text -- including the PADDING before a help comment, which
    [append_value_completion_and_help] computes from the line written so far -- does not depend on the texts
    ([nu_pieces_erase]).  Together: the token skeleton of the ENTIRE module is the same for any two decorations
    with the same presence shape ([nu_text_invariance]). *)
From ClapModel Require Import Base.Bytes Complete.AotTree Complete.AotProofs Complete.FishModel Complete.FishProofs.
From ClapModel Require Import Complete.FishLexProofs Complete.FishBuildProofs Complete.PathTableLex Complete.BuildTexts.
From ClapModel Require Import Complete.NushellModel Complete.NushellProofs.
From ClapModel Require Import Gen.EscapeTables Escape.EscapeModel Escape.ShellLex Escape.EscapeProofs.
From Coq Require Import String Lia.
Open Scope N_scope.
Open Scope list_scope.

(** ---- the lexer threaded through the pieces ---- *)
Fixpoint nrun (st : nstate) (l : list npiece) : option nstate :=
  match l with
  | [] => Some st
  | NFx b :: r => nrun (final nu_step st b) r
  | NCm _ :: r => match st with NC => nrun NC r | _ => None end
  end.

(** the events of the module, slot by slot: an [NCm t] slot contributes the flattened text as literal payload *)
Fixpoint npevents (st : nstate) (l : list npiece) : list ev :=
  match l with
  | [] => []
  | NFx b :: r => events nu_step st b ++ npevents (final nu_step st b) r
  | NCm t :: r => map Lit (flatten t) ++ npevents st r
  end.

(** the token skeleton of the fixed text alone *)
Fixpoint npskel (st : nstate) (l : list npiece) : list ev :=
  match l with
  | [] => []
  | NFx b :: r => skeleton (events nu_step st b) ++ npskel (final nu_step st b) r
  | NCm _ :: r => npskel st r
  end.

Lemma nrun_app a : forall st b, nrun st (a ++ b) = match nrun st a with Some st' => nrun st' b | None => None end.
Proof.
  induction a as [|p a IH]; intros st b; [reflexivity|].
  destruct p as [x|t]; cbn [nrun app].
  - apply IH.
  - destruct st; try reflexivity. apply IH.
Qed.

Lemma nrun_events l : forall st st', nrun st l = Some st' ->
  events nu_step st (nrender l) = npevents st l /\ final nu_step st (nrender l) = st'.
Proof.
  induction l as [|p l IH]; intros st st' H.
  - cbn in H. inversion H; subst. split; reflexivity.
  - rewrite nrender_cons. destruct p as [b|t]; cbn [nrun nrender1 npevents] in *.
    + destruct (IH _ _ H) as [E F]. rewrite events_app, final_app, E, F. split; reflexivity.
    + destruct st; try discriminate. destruct (IH _ _ H) as [E F].
      destruct (nushell_comment_transparent t) as [Ft Et].
      rewrite events_app, final_app, Ft, Et, E, F. split; reflexivity.
Qed.

Lemma npevents_skeleton l : forall st, skeleton (npevents st l) = npskel st l.
Proof.
  induction l as [|p l IH]; intros st; [reflexivity|].
  destruct p as [b|t]; cbn [npevents npskel]; rewrite skeleton_app.
  - now rewrite IH.
  - now rewrite skeleton_map_Lit, IH.
Qed.

(** erasing the texts changes neither [nrun] nor the skeleton of the fixed text *)
Definition nperase (p : npiece) : npiece := match p with NFx b => NFx b | NCm _ => NCm [] end.

Lemma nrun_perase l : forall st, nrun st (map nperase l) = nrun st l.
Proof.
  induction l as [|p l IH]; intros st; [reflexivity|].
  destruct p as [b|t]; cbn [map nperase nrun]; [apply IH|]. destruct st; try reflexivity; apply IH.
Qed.

Lemma npskel_perase l : forall st, npskel st (map nperase l) = npskel st l.
Proof.
  induction l as [|p l IH]; intros st; [reflexivity|].
  destruct p as [b|t]; cbn [map nperase npskel]; now rewrite IH.
Qed.

(** ---- the fixed text does not depend on the texts ---- *)
Lemma help_pieces_erase cur h : map nperase (help_pieces cur h) = help_pieces cur (erase_opt h).
Proof. destruct h; reflexivity. Qed.

Lemma arg_line_erase a h name st : map nperase (arg_line a h name st) = arg_line a (erase_opt h) name st.
Proof. unfold arg_line. cbn [map nperase]. rewrite map_app, help_pieces_erase. reflexivity. Qed.

Lemma arg_pieces_erase a ad name : map nperase (arg_pieces (a, ad) name) = arg_pieces (a, erase_adesc ad) name.
Proof.
  unfold arg_pieces. cbn [fst snd erase_adesc ad_help]. rewrite map_flat_map.
  apply flat_map_ext. intros st. apply arg_line_erase.
Qed.

Lemma about_pieces_erase o : map nperase (about_pieces o) = about_pieces (erase_opt o).
Proof. destruct o; reflexivity. Qed.

Lemma node_pieces_erase name c d sub :
  map nperase (node_pieces name c d sub) = node_pieces name c (erase_desc d) sub.
Proof.
  unfold node_pieces. cbv zeta. rewrite erase_desc_args, erase_desc_about.
  rewrite !flat_map_defs_zipd.
  rewrite (zipd_map erase_adesc ad0 (c_args c) erase_adesc_ad0).
  cbn [map nperase]. rewrite map_app, about_pieces_erase. cbn [map nperase]. rewrite map_app. cbn [map nperase].
  do 3 f_equal. rewrite map_flat_map, flat_map_map. f_equal. apply flat_map_ext. intros [a ad]. apply arg_pieces_erase.
Qed.

Lemma subs_pieces_erase_aux c d :
  Forall (fun sc => forall d', map nperase (tree_pieces sc d') = tree_pieces sc (erase_desc d')) (c_subs c) ->
  map nperase (subs_pieces c d) = subs_pieces c (erase_desc d).
Proof.
  intros IH. unfold subs_pieces. rewrite erase_desc_subs, (zipd_map erase_desc cd0 (c_subs c) erase_desc_cd0).
  rewrite map_flat_map, flat_map_map. apply flat_map_ext_in. intros [sc dsc] Hin. cbn [fst snd].
  rewrite Forall_forall in IH. apply IH.
  exact (zipd_in_fst' cd0 (c_subs c) (cd_subs d) (sc, dsc) Hin).
Qed.

Lemma tree_pieces_erase : forall c d, map nperase (tree_pieces c d) = tree_pieces c (erase_desc d).
Proof.
  induction c as [n al args subs bin h v s g IH] using cmd_ind'. intros d.
  set (c := mkCmd n al args subs bin h v s g) in *.
  rewrite !tree_pieces_unfold, map_app, node_pieces_erase. f_equal.
  apply subs_pieces_erase_aux. exact IH.
Qed.

Theorem nu_pieces_erase c d : nu_pieces c (erase_desc d) = map nperase (nu_pieces c d).
Proof.
  unfold nu_pieces. cbn [map nperase]. rewrite !map_app, node_pieces_erase. cbn [map nperase]. do 3 f_equal.
  symmetry. apply subs_pieces_erase_aux. apply Forall_forall. intros sc _. apply tree_pieces_erase.
Qed.

(** ---- plain names ---- *)
Definition nu_bare (st : nstate) : bool := match st with NB | NW => true | _ => false end.
(** none of: double quote, single quote, backtick, backslash, hash *)
Definition nu_plain (c : N) : bool := negb ((c =? 34) || (c =? 39) || (c =? 96) || (c =? 92) || (c =? 35)).
Notation ntame := (plainl nu_plain).

(** [b] read between / inside bare words leaves the lexer between / inside bare words *)
Definition nbare_pres (b : bytes) : Prop := forall st, nu_bare st = true -> nu_bare (final nu_step st b) = true.
(** [b] read inside "..." leaves the lexer inside "..." *)
Definition ndq_pres (b : bytes) : Prop := final nu_step NDQ b = NDQ.

Lemma nbare_pres_nil : nbare_pres [].
Proof. intros st H. exact H. Qed.
Lemma nbare_pres_app a b : nbare_pres a -> nbare_pres b -> nbare_pres (a ++ b).
Proof. intros Ha Hb st H. rewrite final_app. apply Hb, Ha, H. Qed.
Definition nbare_check (b : bytes) : bool := nu_bare (final nu_step NB b) && nu_bare (final nu_step NW b).
Lemma nbare_pres_check b : nbare_check b = true -> nbare_pres b.
Proof.
  unfold nbare_check. intros H. apply andb_true_iff in H. destruct H as [H1 H2].
  intros [] Hst; try discriminate; assumption.
Qed.
Lemma ndq_pres_app a b : ndq_pres a -> ndq_pres b -> ndq_pres (a ++ b).
Proof. unfold ndq_pres. intros Ha Hb. rewrite final_app, Ha. exact Hb. Qed.

Lemma nu_plain_step c : nu_plain c = true ->
  (forall st, nu_bare st = true -> nu_bare (fst (nu_step st c)) = true) /\ fst (nu_step NDQ c) = NDQ.
Proof.
  unfold nu_plain. intros H. apply negb_true_iff in H.
  apply orb_false_iff in H. destruct H as [H H35]. apply orb_false_iff in H. destruct H as [H H92].
  apply orb_false_iff in H. destruct H as [H H96]. apply orb_false_iff in H. destruct H as [H34 H39]. split.
  - intros [] Hst; try discriminate; cbn [nu_step]; rewrite H39, H96, H34, H35; cbn [andb];
      match goal with |- nu_bare (fst (if ?b then _ else _)) = true => destruct b; reflexivity end.
  - cbn [nu_step]. rewrite H34, H92. reflexivity.
Qed.

Lemma nbare_pres_plain s : ntame s = true -> nbare_pres s.
Proof.
  induction s as [|c s IH]; intros H; [apply nbare_pres_nil|].
  cbn [plainl forallb] in H. apply andb_true_iff in H. destruct H as [Hc Hs].
  intros st Hst. cbn [final]. apply (IH Hs). apply (proj1 (nu_plain_step c Hc)). exact Hst.
Qed.

Lemma ndq_pres_plain s : ntame s = true -> ndq_pres s.
Proof.
  unfold ndq_pres. induction s as [|c s IH]; intros H; [reflexivity|].
  cbn [plainl forallb] in H. apply andb_true_iff in H. destruct H as [Hc Hs].
  cbn [final]. rewrite (proj2 (nu_plain_step c Hc)). apply IH. exact Hs.
Qed.

(** a double-quoted string after a bare prefix *)
Lemma nbare_quoted x : ndq_pres x -> nbare_pres (dquote ++ x ++ dquote).
Proof.
  intros Hx st Hst. rewrite !final_app.
  assert (E : final nu_step st dquote = NDQ) by (destruct st; try discriminate; reflexivity).
  rewrite E. unfold ndq_pres in Hx. rewrite Hx. reflexivity.
Qed.

(** ---- the class of trees ---- *)
(** ids and possible values (the names [PathTableLex.arg_plain] does not speak about) *)
Definition id_plain (a : arg) : bool :=
  ntame (a_id a) && match a_pvs a with Some l => forallb (fun v => ntame (pv_name v)) l | None => true end.
(** a predicate on arguments, at every node of the tree; [Command::build] keeps it (the two generated
    arguments satisfy it, global arguments are copied, the help tree has no arguments) *)
Section BuildArgs.
  Variable P : arg -> bool.
  Hypothesis Phelp : P help_arg = true.
  Hypothesis Pversion : P version_arg = true.

  Fixpoint args_all (c : cmd) : bool :=
    match c with
    | mkCmd _ _ args subs _ _ _ _ _ =>
        forallb P args && (fix go (l : list cmd) : bool := match l with [] => true | s :: l' => args_all s && go l' end) subs
    end.
  Lemma aa_unfold c : args_all c = forallb P (c_args c) && forallb args_all (c_subs c).
  Proof. destruct c; reflexivity. Qed.
  Lemma aa_iff c :
    args_all c = true <-> forallb P (c_args c) = true /\ (forall sc, In sc (c_subs c) -> args_all sc = true).
  Proof.
    rewrite aa_unfold, andb_true_iff. split.
    - intros [A B]. split; [exact A|]. intros sc Hsc. rewrite forallb_forall in B. exact (B sc Hsc).
    - intros [A B]. split; [exact A|]. apply forallb_forall. exact B.
  Qed.
  Lemma aa_mk n al args subs bin h v s g n' al' bin' h' v' s' g' :
    args_all (mkCmd n al args subs bin h v s g) = true -> args_all (mkCmd n' al' args subs bin' h' v' s' g') = true.
  Proof. rewrite !aa_iff. cbn. tauto. Qed.
  Lemma aa_with_sets c s g : args_all c = true -> args_all (with_sets c s g) = true.
  Proof. destruct c. apply aa_mk. Qed.
  Lemma aa_with_version c v : args_all c = true -> args_all (with_version c v) = true.
  Proof. destruct c. apply aa_mk. Qed.
  Lemma aa_with_bin c b : args_all c = true -> args_all (with_bin c b) = true.
  Proof. destruct c. apply aa_mk. Qed.
  Lemma aa_with_subs c l : args_all c = true -> (forall sc, In sc l -> args_all sc = true) -> args_all (with_subs c l) = true.
  Proof. rewrite !aa_iff. destruct c; cbn. intros (A & _) H. auto. Qed.
  Lemma aa_with_args c l : args_all c = true -> forallb P l = true -> args_all (with_args c l) = true.
  Proof. rewrite !aa_iff. destruct c; cbn. intros (_ & E) H. auto. Qed.
  Lemma aa_args c : args_all c = true -> forallb P (c_args c) = true.
  Proof. rewrite aa_iff. tauto. Qed.
  Lemma aa_subs c sc : args_all c = true -> In sc (c_subs c) -> args_all sc = true.
  Proof. rewrite aa_iff. intros (_ & H). apply H. Qed.
  Lemma aa_add_arg c a : args_all c = true -> P a = true -> args_all (with_args c (c_args c ++ [a])) = true.
  Proof.
    intros Hc Ha. apply aa_with_args; [exact Hc|]. rewrite forallb_app, (aa_args c Hc). cbn. now rewrite Ha.
  Qed.
  Lemma aa_propagate_subcommand p sc : args_all sc = true -> args_all (propagate_subcommand p sc) = true.
  Proof.
    intros H. unfold propagate_subcommand. apply aa_with_sets.
    destruct (s_pver (c_set p) && c_version p); [apply aa_with_version|]; exact H.
  Qed.
  Lemma aa_copy : forall c, args_all (copy_subtree_for_help c) = true.
  Proof.
    induction c as [n al args subs bin h v s g IH] using cmd_ind'.
    cbn [copy_subtree_for_help]. rewrite aa_iff. cbn. split; [reflexivity|].
    intros sc Hsc. apply in_map_iff in Hsc. destruct Hsc as (x & <- & Hx).
    rewrite Forall_forall in IH. apply IH; auto.
  Qed.
  Lemma aa_help_subcommand p : args_all (help_subcommand p) = true.
  Proof.
    unfold help_subcommand. apply aa_with_sets, aa_with_version, aa_propagate_subcommand.
    rewrite aa_iff. cbn. split; [reflexivity|].
    intros sc Hsc. apply in_app_iff in Hsc. destruct Hsc as [Hsc|[<-|[]]].
    - apply in_map_iff in Hsc. destruct Hsc as (x & <- & Hx). apply aa_copy.
    - reflexivity.
  Qed.
  Lemma aa_bs_settings c : args_all c = true -> args_all (bs_settings c) = true.
  Proof. intros H. unfold bs_settings. apply aa_with_sets, H. Qed.
  Lemma aa_bs_propagate c : args_all c = true -> args_all (bs_propagate c) = true.
  Proof.
    intros H. unfold bs_propagate. apply aa_with_subs; [exact H|].
    intros sc Hsc. apply in_map_iff in Hsc. destruct Hsc as (x & <- & Hx).
    apply aa_propagate_subcommand, (aa_subs c x H Hx).
  Qed.
  Lemma aa_bs_help_version c : args_all c = true -> args_all (bs_help_version c) = true.
  Proof.
    intros H. unfold bs_help_version.
    set (c1 := if negb (is_set s_dhf c) then with_args c (c_args c ++ [help_arg]) else c).
    assert (H1 : args_all c1 = true) by (unfold c1; destruct (negb (is_set s_dhf c)); [apply aa_add_arg|]; auto).
    set (c2 := if negb (is_disable_version_flag_set c1) then with_args c1 (c_args c1 ++ [version_arg]) else c1).
    assert (H2 : args_all c2 = true)
      by (unfold c2; destruct (negb (is_disable_version_flag_set c1)); [apply aa_add_arg|]; auto).
    destruct (negb (is_set s_dhs c2)); [|exact H2].
    apply aa_with_subs; [exact H2|]. intros sc Hsc. apply in_app_iff in Hsc.
    destruct Hsc as [Hsc|[<-|[]]]; [exact (aa_subs c2 sc H2 Hsc)|apply aa_help_subcommand].
  Qed.
  Lemma aa_bs_globals c : args_all c = true -> args_all (bs_globals c) = true.
  Proof.
    intros H. unfold bs_globals. apply aa_with_subs; [exact H|].
    intros sc Hsc. apply in_map_iff in Hsc. destruct Hsc as (x & <- & Hx).
    pose proof (aa_subs c x H Hx) as Hxp.
    destruct (beq (c_name x) (lit "help") && negb (is_set s_dhs c)); [exact Hxp|].
    assert (Hg : forall a, In a (filter a_global (c_args c)) -> P a = true).
    { intros a Ha. apply filter_In in Ha. destruct Ha as [Ha _].
      pose proof (aa_args c H) as Hargs. rewrite forallb_forall in Hargs. exact (Hargs a Ha). }
    clear Hx. revert x Hxp Hg. generalize (filter a_global (c_args c)) as gl.
    induction gl as [|a gl IH]; intros x Hxp Hg; [exact Hxp|].
    cbn [fold_left]. apply IH.
    - destruct (is_some (find_arg x (a_id a))); [exact Hxp|apply aa_add_arg; [exact Hxp|apply Hg; now left]].
    - intros a' Ha'. apply Hg. now right.
  Qed.
  Lemma aa_build_self c : args_all c = true -> args_all (build_self c) = true.
  Proof.
    intros H. unfold build_self. apply aa_bs_globals, aa_bs_help_version, aa_bs_propagate, aa_bs_settings, H.
  Qed.
  Lemma aa_build_recursive : forall fuel c b, build_recursive fuel c = Some b -> args_all c = true -> args_all b = true.
  Proof.
    induction fuel as [|f IH]; intros c b H Hc; [discriminate|].
    cbn [build_recursive] in H.
    destruct (map_opt (build_recursive f) (c_subs (build_self c))) as [subs|] eqn:E; [|discriminate].
    inversion H; subst b; clear H. pose proof (aa_build_self c Hc) as Hs.
    apply aa_with_subs; [exact Hs|].
    apply map_opt_Forall2 in E.
    assert (Hl : forall z, In z (c_subs (build_self c)) -> args_all z = true) by (intros z Hz; exact (aa_subs _ z Hs Hz)).
    clear Hs. revert subs E Hl. generalize (c_subs (build_self c)) as l.
    induction l as [|x l IHl]; intros subs E Hl sc Hsc.
    - inversion E; subst. destruct Hsc.
    - inversion E as [|x' y l' r Hxy Hrest]; subst. destruct Hsc as [<-|Hsc].
      + apply (IH x y Hxy). apply Hl. now left.
      + apply (IHl r Hrest); [|exact Hsc]. intros z Hz. apply Hl. now right.
  Qed.
  Lemma aa_assign_bins : forall c inh, args_all c = true -> args_all (assign_bins inh c) = true.
  Proof.
    induction c as [n al args subs bin h v s g IH] using cmd_ind'. intros inh Hc.
    rewrite aa_iff in Hc. cbn in Hc. destruct Hc as (Hargs & Hsubs).
    cbn [assign_bins]. rewrite aa_iff. cbn [c_args c_subs]. split; [exact Hargs|].
    intros sc Hsc. apply in_map_iff in Hsc. destruct Hsc as (x & <- & Hx).
    rewrite Forall_forall in IH. apply IH; [exact Hx|exact (Hsubs x Hx)].
  Qed.
  Theorem aa_build c b : build c = Some b -> args_all c = true -> args_all b = true.
  Proof.
    unfold build. destruct (build_recursive (build_fuel c) c) as [c'|] eqn:E; [|discriminate].
    intros H Hc. inversion H; subst b. apply aa_assign_bins.
    exact (aa_build_recursive _ c c' E Hc).
  Qed.
  Lemma aa_set_bin_name c bin : args_all c = true -> args_all (set_bin_name c bin) = true.
  Proof. unfold set_bin_name. apply aa_with_bin. Qed.
End BuildArgs.

Definition ids_plain (c : cmd) : bool := args_all id_plain c.
Lemma ids_plain_unfold c : ids_plain c = forallb id_plain (c_args c) && forallb ids_plain (c_subs c).
Proof. apply aa_unfold. Qed.

(** every name the generator writes is plain: bin names, shorts, longs, their aliases ([cmd_plain]; it also
    constrains command names and aliases, from which [build] makes the bin names), ids, possible values *)
Definition nu_class (c : cmd) : bool := cmd_plain nu_plain c && ids_plain c.

Lemma nu_class_parts c : nu_class c = true ->
  opt_plain nu_plain (c_bin c) = true /\
  (forall a, In a (c_args c) -> arg_plain nu_plain a = true /\ id_plain a = true) /\
  (forall sc, In sc (c_subs c) -> nu_class sc = true).
Proof.
  unfold nu_class. rewrite cmd_plain_unfold, ids_plain_unfold, !andb_true_iff.
  intros [[[[[_ _] Ha] Hb] Hs] [Hi Hsi]]. split; [exact Hb|]. split.
  - intros a Hin. split; [exact (forallb_in _ _ _ Ha Hin)|exact (forallb_in _ _ _ Hi Hin)].
  - intros sc Hin. rewrite (forallb_in _ _ _ Hs Hin), (forallb_in _ _ _ Hsi Hin). reflexivity.
Qed.

Lemma bin_of_plain c : opt_plain nu_plain (c_bin c) = true -> ntame (bin_of c) = true.
Proof. unfold bin_of, opt_plain. destruct (c_bin c); [auto|reflexivity]. Qed.

Lemma pvs_plain a v : id_plain a = true -> In v (get_possible_values a) -> ntame (pv_name v) = true.
Proof.
  unfold id_plain, get_possible_values. intros H Hv. apply andb_true_iff in H. destruct H as [_ H].
  destruct (negb (a_takes_values a)); [destruct Hv|]. destruct (a_pvs a) as [l|]; [|destruct Hv].
  exact (forallb_in _ _ _ H Hv).
Qed.

(** ---- pieces ---- *)
Definition nrun_bare (l : list npiece) : Prop :=
  forall st, nu_bare st = true -> exists st', nrun st l = Some st' /\ nu_bare st' = true.
(** a line: from between / inside bare words back to between words *)
Definition nline_ok (l : list npiece) : Prop := forall st, nu_bare st = true -> nrun st l = Some NB.

Lemma nline_ok_bare l : nline_ok l -> nrun_bare l.
Proof. intros H st Hst. exists NB. split; [apply H; exact Hst|reflexivity]. Qed.
Lemma nrun_bare_nil : nrun_bare [].
Proof. intros st H. exists st. split; [reflexivity|exact H]. Qed.
Lemma nrun_bare_app a b : nrun_bare a -> nrun_bare b -> nrun_bare (a ++ b).
Proof.
  intros Ha Hb st H. destruct (Ha st H) as (s1 & R1 & B1). destruct (Hb s1 B1) as (s2 & R2 & B2).
  exists s2. rewrite nrun_app, R1. split; assumption.
Qed.
Lemma nrun_bare_fx b : nbare_pres b -> nrun_bare [NFx b].
Proof. intros Hb st H. eexists. split; [reflexivity|]. apply Hb, H. Qed.
Lemma nrun_bare_flat {A} (f : A -> list npiece) l : (forall a, In a l -> nrun_bare (f a)) -> nrun_bare (flat_map f l).
Proof.
  induction l as [|a l IH]; intros H; [apply nrun_bare_nil|]. cbn [flat_map].
  apply nrun_bare_app; [apply H; left; reflexivity|apply IH; intros x Hx; apply H; right; exact Hx].
Qed.

(** the padding and the hash: at least one blank, so the hash is at a token start *)
Lemma pad_hash_opens w : forall st, nu_bare st = true ->
  final nu_step st (pad_right_aligned w (lit " ") ++ lit "# ") = NC.
Proof.
  unfold pad_right_aligned. generalize (N.to_nat (w - N.of_nat (List.length (lit " ")))) as k.
  induction k as [|k IH]; intros st Hst.
  - destruct st; try discriminate; reflexivity.
  - cbn [repeat app final]. apply IH. destruct st; try discriminate; reflexivity.
Qed.

Lemma help_pieces_run cur h : forall st, nu_bare st = true ->
  exists st', nrun st (help_pieces cur h) = Some st' /\ final nu_step st' lf = NB.
Proof.
  intros st Hst. destruct h as [t|].
  - exists NC. cbn [help_pieces nrun]. rewrite (pad_hash_opens _ st Hst). split; reflexivity.
  - exists st. split; [reflexivity|]. destruct st; try discriminate; reflexivity.
Qed.

Lemma arg_line_ok a h name start : nbare_pres (start ++ type_suffix a name) -> nline_ok (arg_line a h name start).
Proof.
  intros Hb st Hst. unfold arg_line. cbn [nrun].
  destruct (help_pieces_run (start ++ type_suffix a name) h _ (Hb st Hst)) as (st' & R & F).
  rewrite nrun_app, R. cbn [nrun]. rewrite F. reflexivity.
Qed.

Lemma about_pieces_bare o : nrun_bare (about_pieces o).
Proof.
  destruct o as [t|]; [|apply nrun_bare_nil].
  intros st Hst. exists NB. split; [|reflexivity]. destruct st; try discriminate; reflexivity.
Qed.

(** the names *)
Lemma complete_ref_pres a name : ntame name = true -> ntame (a_id a) = true -> nbare_pres (complete_ref a name).
Proof.
  intros Hn Hi. unfold complete_ref. apply nbare_pres_app; [apply nbare_pres_check; reflexivity|].
  rewrite !app_assoc. rewrite <- (app_assoc dquote). apply nbare_quoted.
  apply ndq_pres_app; [apply ndq_pres_app; [apply ndq_pres_app|]|];
    [reflexivity|apply ndq_pres_plain; exact Hn|reflexivity|apply ndq_pres_plain; exact Hi].
Qed.

Lemma nu_type_pres h : nbare_pres (nu_type h).
Proof. destruct h; apply nbare_pres_check; reflexivity. Qed.

Lemma type_suffix_pres a name : ntame name = true -> ntame (a_id a) = true -> nbare_pres (type_suffix a name).
Proof.
  intros Hn Hi. unfold type_suffix. destruct (a_takes_values a); [|apply nbare_pres_nil].
  apply nbare_pres_app; [apply nbare_pres_check; reflexivity|].
  apply nbare_pres_app; [apply nu_type_pres|].
  destruct (negb (is_nil (get_possible_values a))); [apply complete_ref_pres; assumption|apply nbare_pres_nil].
Qed.

Lemma pos_start_pres a : ntame (a_id a) = true -> nbare_pres (pos_start a).
Proof.
  intros Hi. unfold pos_start.
  destruct (a_action a);
    try (apply nbare_pres_app; [apply nbare_pres_check; reflexivity|];
         apply nbare_pres_app; [apply nbare_pres_plain; exact Hi|];
         destruct (negb (a_required a)); [apply nbare_pres_check; reflexivity|apply nbare_pres_nil]).
  apply nbare_pres_app; [apply nbare_pres_check; reflexivity|apply nbare_pres_plain; exact Hi].
Qed.

Lemma long_start_pres l : ntame l = true -> nbare_pres (long_start l).
Proof. intros H. apply nbare_pres_app; [apply nbare_pres_check; reflexivity|apply nbare_pres_plain; exact H]. Qed.
Lemma short_start_pres s : ntame s = true -> nbare_pres (short_start s).
Proof. intros H. apply nbare_pres_app; [apply nbare_pres_check; reflexivity|apply nbare_pres_plain; exact H]. Qed.
Lemma both_start_pres l s : ntame l = true -> ntame s = true -> nbare_pres (both_start l s).
Proof.
  intros Hl Hs. unfold both_start.
  apply nbare_pres_app; [apply nbare_pres_check; reflexivity|].
  apply nbare_pres_app; [apply nbare_pres_plain; exact Hl|].
  apply nbare_pres_app; [apply nbare_pres_check; reflexivity|].
  apply nbare_pres_app; [apply nbare_pres_plain; exact Hs|apply nbare_pres_check; reflexivity].
Qed.

Lemma arg_starts_pres a st : arg_plain nu_plain a = true -> ntame (a_id a) = true ->
  In st (arg_starts a) -> nbare_pres st.
Proof.
  intros Ha Hi Hst. unfold arg_starts in Hst. destruct (a_is_positional a).
  - destruct Hst as [<-|[]]. apply pos_start_pres. exact Hi.
  - unfold opt_starts in Hst.
    destruct (get_short_and_visible_aliases a) as [shorts|] eqn:Es;
      destruct (get_long_and_visible_aliases a) as [longs|] eqn:El.
    + assert (HS := short_names_plain nu_plain a shorts Ha Es). assert (HL := long_names_plain nu_plain a longs Ha El).
      destruct longs as [|l0 ls]; [destruct Hst|]. destruct shorts as [|s0 ss]; [destruct Hst|].
      destruct Hst as [<-|Hst].
      * apply both_start_pres; [apply HL|apply HS]; left; reflexivity.
      * apply in_app_or in Hst. destruct Hst as [Hst|Hst]; apply in_map_iff in Hst; destruct Hst as (x & <- & Hx).
        -- apply long_start_pres, HL. right. exact Hx.
        -- apply short_start_pres, HS. right. exact Hx.
    + apply in_map_iff in Hst. destruct Hst as (x & <- & Hx).
      apply short_start_pres. exact (short_names_plain nu_plain a shorts Ha Es x Hx).
    + apply in_map_iff in Hst. destruct Hst as (x & <- & Hx).
      apply long_start_pres. exact (long_names_plain nu_plain a longs Ha El x Hx).
    + destruct Hst.
Qed.

Lemma arg_pieces_ok p name : ntame name = true -> arg_plain nu_plain (fst p) = true -> id_plain (fst p) = true ->
  forall l, In l (map (arg_line (fst p) (ad_help (snd p)) name) (arg_starts (fst p))) -> nline_ok l.
Proof.
  intros Hn Ha Hi l Hl. apply in_map_iff in Hl. destruct Hl as (st & <- & Hst).
  assert (Hid : ntame (a_id (fst p)) = true) by (unfold id_plain in Hi; apply andb_true_iff in Hi; apply Hi).
  apply arg_line_ok. apply nbare_pres_app; [eapply arg_starts_pres; eassumption|apply type_suffix_pres; assumption].
Qed.

Lemma nlines_ok_concat ls : Forall nline_ok ls -> forall st, st = NB -> nrun st (List.concat ls) = Some NB.
Proof.
  induction 1 as [|l ls Hl Hls IH]; intros st ->; [reflexivity|].
  cbn [List.concat]. rewrite nrun_app, (Hl NB eq_refl). apply IH. reflexivity.
Qed.

Lemma flat_map_concat_map {A B} (f : A -> list B) l : flat_map f l = List.concat (map f l).
Proof. induction l as [|a l IH]; [reflexivity|]. cbn [flat_map map List.concat]. rewrite IH. reflexivity. Qed.

Lemma value_word_pres v : ntame (pv_name v) = true -> nbare_pres (value_word v).
Proof.
  intros Hv. assert (Hd := ndq_pres_plain _ Hv). unfold ndq_pres in Hd. unfold value_word.
  destruct (contains_whitespace (pv_name v)); intros st Hst; rewrite !final_app.
  - assert (E : final nu_step (final nu_step (final nu_step (final nu_step st (lit " ")) dquote) [92]) dquote = NDQ)
      by (destruct st; try discriminate; reflexivity).
    rewrite E, Hd. reflexivity.
  - assert (E : final nu_step (final nu_step st (lit " ")) dquote = NDQ) by (destruct st; try discriminate; reflexivity).
    rewrite E, Hd. reflexivity.
Qed.

Lemma defs_bytes_pres a name : ntame name = true -> id_plain a = true -> nbare_pres (defs_bytes a name).
Proof.
  intros Hn Hi. unfold defs_bytes. destruct (is_nil (get_possible_values a)); [apply nbare_pres_nil|].
  assert (Hid : ntame (a_id a) = true) by (unfold id_plain in Hi; apply andb_true_iff in Hi; apply Hi).
  apply nbare_pres_app; [apply nbare_pres_check; reflexivity|].
  rewrite !app_assoc. rewrite <- !(app_assoc dquote).
  repeat rewrite <- app_assoc.
  change (dquote ++ lit "nu-complete " ++ name ++ lit " " ++ a_id a ++ dquote ++ lit " [] {" ++ lf ++ lit "    [" ++
          flat_map value_word (get_possible_values a) ++ lit " ]" ++ lf ++ lit "  }" ++ lf ++ lf)
    with (dquote ++ lit "nu-complete " ++ name ++ lit " " ++ a_id a ++ dquote ++ (lit " [] {" ++ lf ++ lit "    [" ++
          flat_map value_word (get_possible_values a) ++ lit " ]" ++ lf ++ lit "  }" ++ lf ++ lf)).
  assert (Hq : nbare_pres (dquote ++ (lit "nu-complete " ++ name ++ lit " " ++ a_id a) ++ dquote)).
  { apply nbare_quoted. apply ndq_pres_app; [reflexivity|]. apply ndq_pres_app; [apply ndq_pres_plain; exact Hn|].
    apply ndq_pres_app; [reflexivity|apply ndq_pres_plain; exact Hid]. }
  assert (Hrest : nbare_pres (lit " [] {" ++ lf ++ lit "    [" ++ flat_map value_word (get_possible_values a)
                              ++ lit " ]" ++ lf ++ lit "  }" ++ lf ++ lf)).
  { apply nbare_pres_app; [apply nbare_pres_check; reflexivity|].
    apply nbare_pres_app; [apply nbare_pres_check; reflexivity|].
    apply nbare_pres_app; [apply nbare_pres_check; reflexivity|].
    apply nbare_pres_app.
    - assert (H : forall v, In v (get_possible_values a) -> ntame (pv_name v) = true) by (intros v; apply pvs_plain; exact Hi).
      induction (get_possible_values a) as [|v l IHl]; [apply nbare_pres_nil|]. cbn [flat_map].
      apply nbare_pres_app; [apply value_word_pres, H; left; reflexivity|apply IHl; intros x Hx; apply H; right; exact Hx].
    - apply nbare_pres_check; reflexivity. }
  intros st Hst.
  replace (dquote ++ lit "nu-complete " ++ name ++ lit " " ++ a_id a ++ dquote ++
           (lit " [] {" ++ lf ++ lit "    [" ++ flat_map value_word (get_possible_values a) ++ lit " ]" ++ lf ++ lit "  }" ++ lf ++ lf))
    with ((dquote ++ (lit "nu-complete " ++ name ++ lit " " ++ a_id a) ++ dquote) ++
          (lit " [] {" ++ lf ++ lit "    [" ++ flat_map value_word (get_possible_values a) ++ lit " ]" ++ lf ++ lit "  }" ++ lf ++ lf))
    by (rewrite <- !app_assoc; reflexivity).
  apply (nbare_pres_app _ _ Hq Hrest st Hst).
Qed.

Lemma extern_line_run sub name : ntame name = true -> forall st, nu_bare st = true ->
  final nu_step st (extern_line sub name) = NB.
Proof.
  intros Hn st Hst. unfold extern_line. destruct sub.
  - rewrite final_app.
    assert (H1 : nu_bare (final nu_step st (lit "  export extern ")) = true) by (destruct st; try discriminate; reflexivity).
    replace (dquote ++ name ++ dquote ++ lit " [" ++ lf) with ((dquote ++ name ++ dquote) ++ lit " [" ++ lf)
      by (rewrite <- !app_assoc; reflexivity).
    rewrite final_app.
    assert (H2 := nbare_quoted name (ndq_pres_plain _ Hn) _ H1).
    destruct (final nu_step (final nu_step st (lit "  export extern ")) (dquote ++ name ++ dquote)); try discriminate; reflexivity.
  - rewrite final_app.
    assert (H1 : nu_bare (final nu_step st (lit "  export extern ")) = true) by (destruct st; try discriminate; reflexivity).
    rewrite final_app. assert (H2 := nbare_pres_plain name Hn _ H1).
    destruct (final nu_step (final nu_step st (lit "  export extern ")) name); try discriminate; reflexivity.
Qed.

(** the block of one command: from a bare state to between words *)
Lemma node_pieces_ok name c d sub : ntame name = true ->
  (forall a, In a (c_args c) -> arg_plain nu_plain a = true /\ id_plain a = true) ->
  nline_ok (node_pieces name c d sub).
Proof.
  intros Hn Hargs st Hst. unfold node_pieces. cbv zeta. cbn [nrun].
  assert (Hin : forall p, In p (zipd ad0 (c_args c) (cd_args d)) -> In (fst p) (c_args c))
    by (intros p Hp; exact (zipd_in_fst' ad0 (c_args c) (cd_args d) p Hp)).
  assert (H1 : nu_bare (final nu_step st (flat_map (fun p : arg * adesc => defs_bytes (fst p) name)
                                                   (zipd ad0 (c_args c) (cd_args d)))) = true).
  { revert Hin st Hst. induction (zipd ad0 (c_args c) (cd_args d)) as [|p l IHl]; intros Hin st Hst; [exact Hst|].
    cbn [flat_map]. rewrite final_app. apply IHl; [intros q Hq; apply Hin; right; exact Hq|].
    apply defs_bytes_pres; [exact Hn| |exact Hst]. apply (Hargs (fst p)). apply Hin. left. reflexivity. }
  destruct (about_pieces_bare (cd_about d) _ H1) as (s2 & R2 & B2).
  rewrite nrun_app, R2. cbn [nrun]. rewrite (extern_line_run sub name Hn s2 B2).
  rewrite nrun_app. unfold arg_pieces.
  assert (R3 : nrun NB (flat_map (fun p : arg * adesc => flat_map (arg_line (fst p) (ad_help (snd p)) name) (arg_starts (fst p)))
                                 (zipd ad0 (c_args c) (cd_args d))) = Some NB).
  { clear H1 R2. revert Hin. induction (zipd ad0 (c_args c) (cd_args d)) as [|p l IHl]; intros Hin; [reflexivity|].
    cbn [flat_map]. rewrite nrun_app.
    destruct (Hargs (fst p) (Hin p (or_introl eq_refl))) as [Ha Hi].
    rewrite (flat_map_concat_map (arg_line (fst p) (ad_help (snd p)) name) (arg_starts (fst p))).
    rewrite (nlines_ok_concat _ (proj2 (Forall_forall _ _) (arg_pieces_ok p name Hn Ha Hi)) NB eq_refl).
    apply IHl. intros q Hq. apply Hin. right. exact Hq. }
  rewrite R3. reflexivity.
Qed.

Lemma tree_pieces_ok : forall c d, nu_class c = true -> nline_ok (tree_pieces c d).
Proof.
  induction c as [n al args subs bin h v s g IH] using cmd_ind'. intros d Hc st Hst.
  set (c := mkCmd n al args subs bin h v s g) in *.
  destruct (nu_class_parts c Hc) as (Hb & Ha & Hs).
  rewrite tree_pieces_unfold, nrun_app, (node_pieces_ok (bin_of c) c d true (bin_of_plain c Hb) Ha st Hst).
  unfold subs_pieces.
  assert (Hin : forall q, In q (zipd cd0 (c_subs c) (cd_subs d)) -> In (fst q) (c_subs c))
    by (intros q Hq; exact (zipd_in_fst' cd0 (c_subs c) (cd_subs d) q Hq)).
  revert Hin. induction (zipd cd0 (c_subs c) (cd_subs d)) as [|q l IHl]; intros Hin; [reflexivity|].
  cbn [flat_map]. rewrite nrun_app.
  assert (Hq : In (fst q) (c_subs c)) by (apply Hin; left; reflexivity).
  rewrite Forall_forall in IH. rewrite (IH (fst q) Hq (snd q) (Hs _ Hq) NB eq_refl).
  apply IHl. intros x Hx. apply Hin. right. exact Hx.
Qed.

Theorem nu_file_runs c d : nu_class c = true -> nrun NB (nu_pieces c d) = Some NB.
Proof.
  intros Hc. destruct (nu_class_parts c Hc) as (Hb & Ha & Hs).
  unfold nu_pieces. cbn [nrun]. change (final nu_step NB module_open) with NB.
  rewrite nrun_app, (node_pieces_ok (bin_of c) c d false (bin_of_plain c Hb) Ha NB eq_refl).
  rewrite nrun_app.
  assert (R : nrun NB (subs_pieces c d) = Some NB).
  { unfold subs_pieces.
    assert (Hin : forall q, In q (zipd cd0 (c_subs c) (cd_subs d)) -> In (fst q) (c_subs c))
      by (intros q Hq; exact (zipd_in_fst' cd0 (c_subs c) (cd_subs d) q Hq)).
    revert Hin. induction (zipd cd0 (c_subs c) (cd_subs d)) as [|q l IHl]; intros Hin; [reflexivity|].
    cbn [flat_map]. rewrite nrun_app.
    rewrite (tree_pieces_ok (fst q) (snd q) (Hs _ (Hin q (or_introl eq_refl))) NB eq_refl).
    apply IHl. intros x Hx. apply Hin. right. exact Hx. }
  rewrite R. reflexivity.
Qed.

(** ---- the theorems ---- *)
(** every description text of the module is read as literal payload only: the events of the whole module are
    those of the fixed text with, for every slot, [Lit] events carrying the flattened text; the module ends
    between words (every string literal and comment is closed) *)
Theorem nu_texts_literal c d :
  c_bin c <> None -> bins_built c -> nu_class c = true ->
  exists s, nushell_script c d = Some s /\
    events nu_step NB s = npevents NB (nu_pieces c d) /\
    skeleton (events nu_step NB s) = npskel NB (nu_pieces c d) /\
    final nu_step NB s = NB.
Proof.
  intros Hb Hbb Hc. exists (nrender (nu_pieces c d)). split; [apply nushell_script_spec; assumption|].
  destruct (nrun_events _ NB NB (nu_file_runs c d Hc)) as [E F]. rewrite E, F, npevents_skeleton. auto.
Qed.

(** whole-module structure invariance *)
Theorem nu_text_invariance c d1 d2 :
  c_bin c <> None -> bins_built c -> nu_class c = true -> erase_desc d1 = erase_desc d2 ->
  exists s1 s2, nushell_script c d1 = Some s1 /\ nushell_script c d2 = Some s2 /\
    skeleton (events nu_step NB s1) = skeleton (events nu_step NB s2) /\
    final nu_step NB s1 = final nu_step NB s2.
Proof.
  intros Hb Hbb Hc He.
  destruct (nu_texts_literal c d1 Hb Hbb Hc) as (s1 & E1 & _ & K1 & F1).
  destruct (nu_texts_literal c d2 Hb Hbb Hc) as (s2 & E2 & _ & K2 & F2).
  exists s1, s2. split; [exact E1|]. split; [exact E2|]. split; [|rewrite F1, F2; reflexivity].
  rewrite K1, K2, <- (npskel_perase (nu_pieces c d1)), <- (npskel_perase (nu_pieces c d2)), <- !nu_pieces_erase, He.
  reflexivity.
Qed.

(** the pair of modules the harness generates for the oracle (the texts as given / innocuous text of the same
    emptiness) is an instance *)
Theorem nu_adversarial_innocuous c d :
  c_bin c <> None -> bins_built c -> nu_class c = true ->
  exists s1 s2, nushell_script c d = Some s1 /\ nushell_script c (innocuous_desc d) = Some s2 /\
    skeleton (events nu_step NB s1) = skeleton (events nu_step NB s2) /\
    final nu_step NB s1 = final nu_step NB s2.
Proof.
  intros Hb Hbb Hc. apply (nu_text_invariance c d (innocuous_desc d) Hb Hbb Hc). symmetry. apply erase_innocuous.
Qed.

(** at the level of [generate]: the class stated on the BUILT tree *)
Theorem generate_nushell_text_invariance c d1 d2 bin b :
  build (set_bin_name c bin) = Some b -> nu_class b = true -> erase_desc d1 = erase_desc d2 ->
  exists s1 s2, generate_nushell c d1 bin = Some s1 /\ generate_nushell c d2 bin = Some s2 /\
    skeleton (events nu_step NB s1) = skeleton (events nu_step NB s2) /\
    final nu_step NB s1 = final nu_step NB s2.
Proof.
  intros Eb Hc He. unfold generate_nushell. rewrite Eb.
  apply nu_text_invariance.
  - rewrite (BuildTexts.build_root_bin c bin b Eb). discriminate.
  - exact (build_bins_built _ _ Eb).
  - exact Hc.
  - apply dbuild_erase_congr. exact He.
Qed.

(** [Command::build] keeps a tree in the class: the names it generates (help, version, h, V) and the blank in
    the bin paths are plain, global arguments are copied with their ids and values *)
Theorem build_nu_class c bin b :
  build (set_bin_name c bin) = Some b -> nu_class c = true -> ntame bin = true -> nu_class b = true.
Proof.
  unfold nu_class. rewrite !andb_true_iff. intros Eb [Hc Hi] Hbin. split.
  - apply (cp_build nu_plain eq_refl eq_refl eq_refl eq_refl _ b Eb). apply cp_set_bin_name; assumption.
  - apply (aa_build id_plain eq_refl eq_refl _ b Eb). apply aa_set_bin_name. exact Hi.
Qed.

(** the class stated on the SOURCE tree (what the user wrote) and the bin name; [generate] always succeeds *)
Theorem generate_nushell_text_invariance_src c d1 d2 bin :
  nu_class c = true -> ntame bin = true -> erase_desc d1 = erase_desc d2 ->
  exists s1 s2, generate_nushell c d1 bin = Some s1 /\ generate_nushell c d2 bin = Some s2 /\
    skeleton (events nu_step NB s1) = skeleton (events nu_step NB s2) /\
    final nu_step NB s1 = final nu_step NB s2.
Proof.
  intros Hc Hbin He. destruct (build (set_bin_name c bin)) as [b|] eqn:Eb.
  - apply (generate_nushell_text_invariance c d1 d2 bin b Eb); [|exact He].
    exact (build_nu_class c bin b Eb Hc Hbin).
  - exfalso. exact (BuildTexts.build_total _ Eb).
Qed.

(** ---- non-vacuity, and the class boundary ---- *)
(** a user tree with an option (short, long, visible alias, possible values), a POSITIONAL (the second call path
    of a help text) and a subcommand with a flag; one decoration with quotes of all kinds, backticks, hashes,
    backslashes, command substitutions and newlines in every slot, one with innocuous text *)
Definition nx_pos : arg := mkArg (lit "file") None None [] [] ASet None None (Some HFilePath) false false false.
Definition nx_user : cmd := mkCmd (lit "my-app") [] [lx_opt; nx_pos] [lx_sub] None false false sets0 sets0.
Definition nx_adv : cdesc :=
  mkCd (Some (lit "root # ""q"" 'x' `y` \")) false
       [mkAd (Some (lit "it's $(rm -rf) \ ""x""")) false [Some (lit "a'$(x)""\"); None; Some [10; 39]];
        mkAd (Some [39; 10; 34; 96; 35; 13; 10; 92]) false []]
       [mkCd (Some [39; 10; 36; 40; 41; 34]) false [mkAd (Some (lit "\'")) false []] []].
Definition nx_inn : cdesc := innocuous_desc nx_adv.

Example generate_nushell_text_invariance_hyps :
  nu_class nx_user = true /\ ntame (lit "my-app") = true /\ erase_desc nx_adv = erase_desc nx_inn /\ nx_adv <> nx_inn /\
  exists s1 s2, generate_nushell nx_user nx_adv (lit "my-app") = Some s1 /\
                generate_nushell nx_user nx_inn (lit "my-app") = Some s2 /\ s1 <> s2.
Proof.
  split; [reflexivity|]. split; [reflexivity|]. split; [reflexivity|].
  split; [intros H; vm_compute in H; discriminate|].
  destruct (generate_nushell nx_user nx_adv (lit "my-app")) as [s1|] eqn:E1; [|vm_compute in E1; discriminate].
  destruct (generate_nushell nx_user nx_inn (lit "my-app")) as [s2|] eqn:E2; [|vm_compute in E2; discriminate].
  exists s1, s2. split; [reflexivity|]. split; [reflexivity|].
  intros ->. rewrite <- E1 in E2. vm_compute in E2. discriminate.
Qed.

(** the hypotheses of the theorems about a built tree *)
Example nu_text_invariance_hyps :
  exists b, build (set_bin_name nx_user (lit "my-app")) = Some b /\
    c_bin b <> None /\ bins_built b /\ nu_class b = true /\
    erase_desc (dbuild (set_bin_name nx_user (lit "my-app")) nx_adv) = erase_desc (dbuild (set_bin_name nx_user (lit "my-app")) nx_inn) /\
    nushell_script b (dbuild (set_bin_name nx_user (lit "my-app")) nx_adv) <>
    nushell_script b (dbuild (set_bin_name nx_user (lit "my-app")) nx_inn).
Proof.
  destruct (build (set_bin_name nx_user (lit "my-app"))) as [b|] eqn:Eb; [|exfalso; exact (BuildTexts.build_total _ Eb)].
  exists b. split; [reflexivity|].
  split; [rewrite (BuildTexts.build_root_bin _ _ _ Eb); discriminate|].
  split; [exact (build_bins_built _ _ Eb)|].
  split; [exact (build_nu_class _ _ _ Eb eq_refl eq_refl)|].
  split; [apply dbuild_erase_congr; reflexivity|].
  intros H. assert (G : generate_nushell nx_user nx_adv (lit "my-app") = generate_nushell nx_user nx_inn (lit "my-app"))
    by (unfold generate_nushell; rewrite Eb; exact H).
  vm_compute in G. discriminate.
Qed.

(** outside the class: an argument id with a double quote is written unescaped; the help comment that follows
    is then read inside "..." and a double quote in the TEXT closes the string -- the skeleton depends on the text *)
Definition nx_bad_arg : arg := mkArg (lit "a""b") None None [] [] ASet None None None false false false.
Definition nx_bad_cmd : cmd := mkCmd (lit "p") [] [nx_bad_arg] [] None false false sets0 sets0.
Lemma nushell_quote_in_name_refuted :
  exists c d1 d2 bin s1 s2,
    nu_class c = false /\ erase_desc d1 = erase_desc d2 /\
    generate_nushell c d1 bin = Some s1 /\ generate_nushell c d2 bin = Some s2 /\
    skeleton (events nu_step NB s1) <> skeleton (events nu_step NB s2).
Proof.
  exists nx_bad_cmd, (mkCd None false [mkAd (Some (lit """ x")) false []] []),
         (mkCd None false [mkAd (Some (lit "xx")) false []] []), (lit "p").
  eexists. eexists. split; [reflexivity|]. split; [reflexivity|].
  split; [vm_compute; reflexivity|]. split; [vm_compute; reflexivity|].
  intros H. vm_compute in H. discriminate.
Qed.
