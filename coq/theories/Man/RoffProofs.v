(** Proofs about the roff rendering model: which physical lines of the output are control lines.

    [ctl_scan] is a one-pass reader of the output (state: "at the start of a physical line");
    it is shown equal to the transparent specification [control_lines] (= lines of [split_lines]
    that start with a control character).  The main results:

    - [escape_leading_cc_safe]: after [escape_leading_cc], no newline is followed by a control
      character (for every string);
    - [text_line_scan]: a text line satisfying the boolean criterion [line_ok] contributes exactly
      one [.br] per [LineBreak] and nothing else to the control lines;
    - [doc_control_lines]: for a document all of whose lines are [line_good], the control lines of
      [to_writer] are the preamble's two plus the generator's own ([own_controls]). *)
From ClapModel Require Import Base.Bytes Gen.RoffTables Man.RoffModel.
Open Scope N_scope.

(** * The scanner and its specification *)

Fixpoint take_line (s : bytes) : bytes :=
  match s with
  | [] => []
  | c :: t => if c =? 10 then [] else c :: take_line t
  end.

Fixpoint ctl_scan (p : bool) (s : bytes) : list bytes :=
  match s with
  | [] => []
  | c :: t =>
      if c =? 10 then ctl_scan true t
      else if p && is_cc c then take_line s :: ctl_scan false t
      else ctl_scan false t
  end.

Lemma is_cc_spec c : is_cc c = (c =? 46) || (c =? 39).
Proof. unfold is_cc, cc_chars. cbn [existsb]. rewrite orb_false_r. reflexivity. Qed.

Lemma is_cc_nl c : c =? 10 = true -> is_cc c = false.
Proof. intros H. apply N.eqb_eq in H. subst. reflexivity. Qed.

Lemma split_lines_hd s : split_lines s = take_line s :: tl (split_lines s).
Proof.
  induction s as [|c t IH]; cbn [split_lines take_line]; [reflexivity|].
  destruct (c =? 10); [reflexivity|].
  rewrite IH. reflexivity.
Qed.

Lemma ctl_scan_spec s :
  ctl_scan true s = filter starts_with_cc (split_lines s)
  /\ ctl_scan false s = filter starts_with_cc (tl (split_lines s)).
Proof.
  induction s as [|c t [IHt IHf]]; [split; reflexivity|].
  cbn [ctl_scan split_lines].
  destruct (c =? 10) eqn:E.
  - cbn [filter starts_with_cc tl]. split; exact IHt.
  - rewrite (split_lines_hd t). cbn [tl filter starts_with_cc andb].
    rewrite (split_lines_hd t) in IHt. cbn [tl] in IHf.
    split.
    + destruct (is_cc c); cbn [take_line]; rewrite ?E, IHf; reflexivity.
    + exact IHf.
Qed.

Lemma control_lines_scan s : control_lines s = ctl_scan true s.
Proof. unfold control_lines. symmetry. apply ctl_scan_spec. Qed.

(** * Text that cannot start a control line *)

(** [no_ctl p s]: reading [s] from state [p], no physical line starts with a control character. *)
Fixpoint no_ctl (p : bool) (s : bytes) : bool :=
  match s with
  | [] => true
  | c :: t => negb (p && is_cc c) && no_ctl (c =? 10) t
  end.

Fixpoint end_state (p : bool) (s : bytes) : bool :=
  match s with
  | [] => p
  | c :: t => end_state (c =? 10) t
  end.

Definition no_nl (s : bytes) : bool := forallb (fun c => negb (c =? 10)) s.

Lemma end_state_app p a b : end_state p (a ++ b) = end_state (end_state p a) b.
Proof. revert p. induction a as [|c a IH]; intros p; cbn [app end_state]; [reflexivity|apply IH]. Qed.

Lemma end_state_nonempty p q s : s <> [] -> end_state p s = end_state q s.
Proof. destruct s; [congruence|reflexivity]. Qed.

Lemma no_ctl_app p a b : no_ctl p (a ++ b) = no_ctl p a && no_ctl (end_state p a) b.
Proof.
  revert p. induction a as [|c a IH]; intros p; cbn [app no_ctl end_state]; [reflexivity|].
  rewrite IH. rewrite andb_assoc. reflexivity.
Qed.

Lemma no_ctl_true s : no_ctl true s = negb (starts_with_cc s) && no_ctl false s.
Proof. destruct s as [|c t]; cbn [no_ctl starts_with_cc andb negb]; reflexivity. Qed.

Lemma no_ctl_weaken p s : no_ctl true s = true -> no_ctl p s = true.
Proof.
  destruct p; [tauto|]. rewrite no_ctl_true. intros H. apply andb_true_iff in H. tauto.
Qed.

(** Appending text that contains no control-line start does not change what is found after it. *)
Lemma scan_skip a : forall p b, no_ctl p a = true -> ctl_scan p (a ++ b) = ctl_scan (end_state p a) b.
Proof.
  induction a as [|c a IH]; intros p b H; cbn [app ctl_scan end_state]; [reflexivity|].
  cbn [no_ctl] in H. apply andb_true_iff in H. destruct H as [H1 H2].
  destruct (c =? 10) eqn:E.
  - apply IH. exact H2.
  - apply negb_true_iff in H1. rewrite H1. apply IH. exact H2.
Qed.

Lemma take_line_no_nl l b : no_nl l = true -> take_line (l ++ 10 :: b) = l.
Proof.
  induction l as [|c l IH]; intros H; cbn [app take_line]; [reflexivity|].
  cbn [no_nl forallb] in H. apply andb_true_iff in H. destruct H as [H1 H2].
  apply negb_true_iff in H1. rewrite H1. f_equal. apply IH. exact H2.
Qed.

Lemma scan_rest_of_line l b : no_nl l = true -> ctl_scan false (l ++ 10 :: b) = ctl_scan true b.
Proof.
  induction l as [|c l IH]; intros H; cbn [app ctl_scan]; [reflexivity|].
  cbn [no_nl forallb] in H. apply andb_true_iff in H. destruct H as [H1 H2].
  apply negb_true_iff in H1. rewrite H1. cbn [andb]. apply IH. exact H2.
Qed.

(** A complete one-line chunk that starts with a control character, emitted at a line start. *)
Lemma scan_control_line l b :
  no_nl l = true -> starts_with_cc l = true -> ctl_scan true (l ++ 10 :: b) = l :: ctl_scan true b.
Proof.
  intros Hn Hc. destruct l as [|c l]; [discriminate|].
  cbn [starts_with_cc] in Hc.
  pose proof Hn as Hn'. cbn [no_nl forallb] in Hn'. apply andb_true_iff in Hn'. destruct Hn' as [H1 H2].
  apply negb_true_iff in H1.
  change ((c :: l) ++ 10 :: b) with (c :: (l ++ 10 :: b)).
  cbn [ctl_scan]. rewrite H1, Hc. cbn [andb].
  change (c :: l ++ 10 :: b) with ((c :: l) ++ 10 :: b).
  rewrite take_line_no_nl by exact Hn.
  rewrite scan_rest_of_line by exact H2. reflexivity.
Qed.

(** * escape_leading_cc *)

(** [np b p s]: reading [s] from state [p], no physical line starts with the byte [b]. *)
Fixpoint np (b : N) (p : bool) (s : bytes) : bool :=
  match s with
  | [] => true
  | c :: t => negb (p && (c =? b)) && np b (c =? 10) t
  end.

Lemma no_ctl_np p s : no_ctl p s = np 46 p s && np 39 p s.
Proof.
  revert p. induction s as [|c t IH]; intros p; cbn [no_ctl np]; [reflexivity|].
  rewrite IH, is_cc_spec.
  destruct p, (c =? 46), (c =? 39); cbn [andb orb negb];
    try reflexivity; try (rewrite andb_false_r; reflexivity);
    destruct (np 46 (c =? 10) t), (np 39 (c =? 10) t); reflexivity.
Qed.

Definition cc_rep (b : N) : bytes := [10; 92; 38; b].

Lemma np_cc_rep b b' p x :
  b' <> 10 -> b' <> 92 -> np b' p (cc_rep b ++ x) = np b' (b =? 10) x.
Proof.
  intros H10 H92. unfold cc_rep. cbn [app np].
  assert (10 =? b' = false) as E1 by (apply N.eqb_neq; congruence).
  assert (92 =? b' = false) as E2 by (apply N.eqb_neq; congruence).
  rewrite E1, E2, (N.eqb_refl 10).
  change (92 =? 10) with false. change (38 =? 10) with false.
  rewrite !andb_false_r. cbn [andb negb]. reflexivity.
Qed.

(** (A) after replacing "\n b" by "\n \ & b" no line starts with [b] any more. *)
Lemma replace2_kills b (Hb10 : b <> 10) (Hb92 : b <> 92) :
  forall n s, (length s <= n)%nat ->
    np b false (replace2 10 b (cc_rep b) s) = true
    /\ (match s with c :: _ => c <> b | [] => True end -> np b true (replace2 10 b (cc_rep b) s) = true).
Proof.
  assert (10 =? b = false) as E10 by (apply N.eqb_neq; congruence).
  assert (b =? 10 = false) as Eb10 by (apply N.eqb_neq; congruence).
  induction n as [|n IH]; intros s Hl.
  - destruct s; [|cbn in Hl; lia]. split; reflexivity.
  - destruct s as [|c t]; [split; reflexivity|].
    cbn [length] in Hl.
    cbn [replace2].
    destruct (c =? 10) eqn:Ec.
    + apply N.eqb_eq in Ec. subst c.
      destruct t as [|d t'].
      * cbn [np]. rewrite E10, !andb_false_r. split; reflexivity.
      * destruct (d =? b) eqn:Ed.
        -- rewrite !np_cc_rep by assumption. rewrite Eb10.
           destruct (IH t') as [IH1 _]; [cbn [length] in Hl; lia|].
           rewrite IH1. split; reflexivity.
        -- cbn [np]. rewrite E10, (N.eqb_refl 10), !andb_false_r. cbn [andb negb].
           destruct (IH (d :: t')) as [_ IH2]; [lia|].
           rewrite IH2 by (apply N.eqb_neq; exact Ed).
           split; reflexivity.
    + cbn [np]. rewrite Ec.
      destruct (IH t) as [IH1 _]; [lia|]. rewrite IH1.
      split; [reflexivity|].
      intros Hne. apply N.eqb_neq in Hne. rewrite Hne. reflexivity.
Qed.

(** (B) replacing "\n b" keeps "no line starts with b'" for another byte b'. *)
Lemma replace2_keeps b b' (Hb'10 : b' <> 10) (Hb'92 : b' <> 92) (Hbb : b' <> b) :
  forall n s p, (length s <= n)%nat ->
    np b' p s = true -> np b' p (replace2 10 b (cc_rep b) s) = true.
Proof.
  induction n as [|n IH]; intros s p Hl H.
  - destruct s; [reflexivity|cbn in Hl; lia].
  - destruct s as [|c t]; [reflexivity|].
    cbn [length] in Hl. cbn [np] in H. apply andb_true_iff in H. destruct H as [H1 H2].
    cbn [replace2].
    destruct (c =? 10) eqn:Ec.
    + destruct t as [|d t'].
      * cbn [np]. rewrite H1. reflexivity.
      * destruct (d =? b) eqn:Ed.
        -- apply N.eqb_eq in Ed. subst d.
           cbn [np] in H2. apply andb_true_iff in H2. destruct H2 as [_ H3].
           rewrite np_cc_rep by assumption.
           apply IH; [cbn [length] in Hl; lia|exact H3].
        -- cbn [np]. rewrite H1, Ec. cbn [andb].
           apply IH; [lia|exact H2].
    + cbn [np]. rewrite H1, Ec. cbn [andb].
      apply IH; [lia|exact H2].
Qed.

Lemma leading_cc_rules_eq :
  leading_cc_rules = [([10; 46], cc_rep 46); ([10; 39], cc_rep 39)].
Proof. reflexivity. Qed.

Lemma escape_leading_cc_unfold s :
  escape_leading_cc s = replace2 10 39 (cc_rep 39) (replace2 10 46 (cc_rep 46) s).
Proof. unfold escape_leading_cc. rewrite leading_cc_rules_eq. reflexivity. Qed.

(** After [escape_leading_cc] no newline is followed by a control character: for EVERY string. *)
Lemma replace2_kills_false b s : b <> 10 -> b <> 92 -> np b false (replace2 10 b (cc_rep b) s) = true.
Proof. intros H1 H2. apply (replace2_kills b H1 H2 (length s) s). apply Nat.le_refl. Qed.

Lemma escape_leading_cc_safe s : no_ctl false (escape_leading_cc s) = true.
Proof.
  rewrite escape_leading_cc_unfold, no_ctl_np.
  apply andb_true_iff. split.
  - eapply (replace2_keeps 39 46); try (intro; discriminate); [apply Nat.le_refl|].
    apply replace2_kills_false; intro; discriminate.
  - apply replace2_kills_false; intro; discriminate.
Qed.

Lemma escape_text_safe h t : no_ctl false (escape_text h t) = true.
Proof. unfold escape_text. apply escape_leading_cc_safe. Qed.

(** * Text lines *)

(** Boolean criterion on a text line, computed from the inlines alone.  [f] is the crate's
    [at_line_start] flag, [q] over-approximates "the output may be at the start of a physical line":
    after a line break, and after a roman inline whose rendering is empty or ends in a newline.
    A roman inline that may sit at a line start without the crate's guard must not begin with a
    control character. *)
Fixpoint line_ok (h : bool) (f q : bool) (l : list inline) : bool :=
  match l with
  | [] => true
  | LineBreak :: r => line_ok h false true r
  | Roman t :: r =>
      (f || negb q || negb (starts_with_cc (escape_text h t)))
      && line_ok h false (end_state true (escape_text h t)) r
  | Bold _ :: r | Italic _ :: r => line_ok h false false r
  end.

Lemma br_at_start_eq : br_at_start = br_line ++ [10].
Proof. reflexivity. Qed.
Lemma br_mid_line_eq : br_mid_line = 10 :: br_at_start.
Proof. reflexivity. Qed.
Lemma br_line_ok : no_nl br_line = true /\ starts_with_cc br_line = true.
Proof. split; reflexivity. Qed.

Lemma font_wrap_no_ctl p o text :
  (o = bold_open \/ o = italic_open) ->
  no_ctl false text = true ->
  no_ctl p (o ++ text ++ font_close) = true /\ end_state p (o ++ text ++ font_close) = false.
Proof.
  intros Ho Ht.
  assert (no_ctl p o = true /\ end_state p o = false) as [A B]
    by (destruct Ho; subst o; destruct p; split; reflexivity).
  split.
  - rewrite no_ctl_app, A, B. cbn [andb]. rewrite no_ctl_app, Ht. cbn [andb].
    destruct (end_state false text); reflexivity.
  - rewrite end_state_app, end_state_app. reflexivity.
Qed.

Lemma roman_chunk p f q h t :
  (p = true -> q = true) -> (f = true -> p = true) ->
  (f || negb q || negb (starts_with_cc (escape_text h t))) = true ->
  let text := escape_text h t in
  let chunk := (if f && starts_with_cc text then cc_guard else []) ++ text in
  no_ctl p chunk = true /\ (end_state p chunk = true -> end_state true text = true).
Proof.
  intros Hpq Hfp Hok text chunk. subst chunk.
  pose proof (escape_text_safe h t) as Hs. fold text in Hs, Hok.
  split.
  - destruct (f && starts_with_cc text) eqn:G.
    + unfold cc_guard. cbn [app no_ctl]. change (92 =? 10) with false. change (38 =? 10) with false.
      rewrite Hs. change (is_cc 92) with false. rewrite andb_false_r. reflexivity.
    + cbn [app]. destruct p; [|exact Hs].
      rewrite no_ctl_true, Hs, andb_true_r.
      destruct f.
      * cbn [andb] in G. rewrite G. reflexivity.
      * rewrite (Hpq eq_refl) in Hok. cbn [orb negb] in Hok. exact Hok.
  - destruct text as [|c u] eqn:Et.
    + reflexivity.
    + rewrite end_state_app. intros H. rewrite <- H. apply end_state_nonempty. discriminate.
Qed.

(** Main lemma for one text line. *)
Lemma text_line_scan h : forall l f p q rest,
  (p = true -> q = true) -> (f = true -> p = true) ->
  line_ok h f q l = true ->
  ctl_scan p (render_inlines h f l ++ 10 :: rest)
  = map (fun _ => br_line) (filter is_break l) ++ ctl_scan true rest.
Proof.
  induction l as [|i r IH]; intros f p q rest Hpq Hfp Hok.
  - cbn [render_inlines app filter map ctl_scan]. reflexivity.
  - cbn [render_inlines]. rewrite <- app_assoc.
    destruct i as [t|t|t|].
    + (* Roman *)
      cbn [line_ok] in Hok. apply andb_true_iff in Hok. destruct Hok as [Hg Hr].
      cbn [render_inline filter is_break].
      destruct (roman_chunk p f q h t Hpq Hfp Hg) as [Hn He].
      rewrite scan_skip by exact Hn.
      apply (IH false _ (end_state true (escape_text h t))); [exact He|discriminate|exact Hr].
    + (* Italic *)
      cbn [line_ok] in Hok. cbn [render_inline filter is_break].
      destruct (font_wrap_no_ctl p italic_open (escape_text h t) (or_intror eq_refl) (escape_text_safe h t)) as [Hn He].
      rewrite scan_skip by exact Hn. rewrite He.
      apply (IH false false false); [discriminate|discriminate|exact Hok].
    + (* Bold *)
      cbn [line_ok] in Hok. cbn [render_inline filter is_break].
      destruct (font_wrap_no_ctl p bold_open (escape_text h t) (or_introl eq_refl) (escape_text_safe h t)) as [Hn He].
      rewrite scan_skip by exact Hn. rewrite He.
      apply (IH false false false); [discriminate|discriminate|exact Hok].
    + (* LineBreak *)
      cbn [line_ok] in Hok. cbn [render_inline filter is_break map app].
      assert (forall X, ctl_scan p ((if f then br_at_start else br_mid_line) ++ X)
                        = ctl_scan true (br_line ++ 10 :: X)) as Hbr.
      { intros X. destruct f.
        - rewrite (Hfp eq_refl), br_at_start_eq, <- app_assoc. reflexivity.
        - rewrite br_mid_line_eq, br_at_start_eq. cbn [app ctl_scan]. rewrite (N.eqb_refl 10).
          rewrite <- app_assoc. reflexivity. }
      rewrite Hbr.
      rewrite scan_control_line by apply br_line_ok.
      f_equal. apply (IH false true true); [reflexivity|discriminate|exact Hok].
Qed.

(** * Whole documents *)

Definition ctl_clean (name : bytes) (args : list bytes) : bool := no_nl name && forallb no_nl args.

Definition line_good (l : line) : bool :=
  match l with
  | Control name args => ctl_clean name args
  | Text inlines => line_ok true true true inlines
  end.

Definition doc_good (d : roff) : bool := forallb line_good d.

Lemma no_nl_app a b : no_nl (a ++ b) = no_nl a && no_nl b.
Proof. apply forallb_app. Qed.

Lemma escape_spaces_no_nl w : no_nl w = true -> no_nl (escape_spaces w) = true.
Proof.
  intros H. unfold escape_spaces. destruct (existsb (N.eqb 32) w); [|exact H].
  cbn [app no_nl forallb]. change (34 =? 10) with false. cbn [negb andb].
  fold (no_nl (w ++ [34])). rewrite no_nl_app, H. reflexivity.
Qed.

Lemma render_args_no_nl args : forallb no_nl args = true -> no_nl (render_args args) = true.
Proof.
  induction args as [|a r IH]; intros H; [reflexivity|].
  cbn [forallb] in H. apply andb_true_iff in H. destruct H as [H1 H2].
  unfold render_args. cbn [flat_map]. fold (render_args r).
  change ((32 :: escape_spaces a) ++ render_args r) with (32 :: (escape_spaces a ++ render_args r)).
  cbn [no_nl forallb]. change (32 =? 10) with false. cbn [negb andb].
  fold (no_nl (escape_spaces a ++ render_args r)).
  rewrite no_nl_app, escape_spaces_no_nl, IH by assumption. reflexivity.
Qed.

Lemma line_scan l rest :
  line_good l = true ->
  ctl_scan true (render_line true l ++ rest) = own_controls l ++ ctl_scan true rest.
Proof.
  intros H. unfold render_line. rewrite <- app_assoc. cbn [app].
  destruct l as [name args|inl]; cbn [render_body own_controls line_good] in *.
  - unfold ctl_clean in H. apply andb_true_iff in H. destruct H as [H1 H2].
    rewrite scan_control_line; [reflexivity| |reflexivity].
    change (46 :: name ++ render_args args) with ([46] ++ name ++ render_args args).
    rewrite !no_nl_app, H1, render_args_no_nl by exact H2. reflexivity.
  - apply (text_line_scan true inl true true true); [reflexivity|reflexivity|exact H].
Qed.

Lemma doc_scan d rest :
  doc_good d = true ->
  ctl_scan true (flat_map (render_line true) d ++ rest) = flat_map own_controls d ++ ctl_scan true rest.
Proof.
  induction d as [|l d IH]; intros H; [reflexivity|].
  cbn [doc_good forallb] in H. apply andb_true_iff in H. destruct H as [H1 H2].
  cbn [flat_map]. rewrite <- !app_assoc. rewrite line_scan by exact H1. rewrite IH by exact H2. reflexivity.
Qed.

Lemma preamble_scan rest : ctl_scan true (preamble ++ rest) = preamble_controls ++ ctl_scan true rest.
Proof.
  unfold preamble_controls. rewrite control_lines_scan.
  unfold preamble. cbn [app ctl_scan take_line N.eqb Pos.eqb andb is_cc existsb cc_chars orb].
  reflexivity.
Qed.

(** The control lines of a rendered document are the preamble's and the generator's own. *)
Theorem doc_control_lines d :
  doc_good d = true ->
  control_lines (to_writer d) = preamble_controls ++ flat_map own_controls d.
Proof.
  intros H. rewrite control_lines_scan. unfold to_writer.
  rewrite preamble_scan. f_equal.
  rewrite <- (app_nil_r (flat_map (render_line true) d)).
  rewrite doc_scan by exact H. cbn [ctl_scan]. apply app_nil_r.
Qed.

(** Non-vacuity and sharpness: a text line that violates the criterion does produce a control line
    out of user text (a line break directly followed by roman text starting with a period). *)
Example line_ok_needed :
  control_lines (to_writer [Text [LineBreak; Roman [46; 115; 111]]])
  = preamble_controls ++ [br_line; [46; 115; 111]].
Proof. reflexivity. Qed.

Example doc_good_example :
  doc_good [Control [84; 72] [[97; 32; 98]]; Text [Roman [46; 120; 10; 39; 121]; LineBreak; Bold [46]]] = true.
Proof. reflexivity. Qed.

(** Transparent reading of [escape_leading_cc_safe]: whatever follows a newline in the escaped text
    does not begin with a control character. *)
Lemma escape_leading_cc_after_newline s a b :
  escape_leading_cc s = a ++ 10 :: b -> starts_with_cc b = false.
Proof.
  intros E. pose proof (escape_leading_cc_safe s) as H. rewrite E, no_ctl_app in H.
  apply andb_true_iff in H. destruct H as [_ H]. cbn [no_ctl] in H. rewrite (N.eqb_refl 10) in H.
  apply andb_true_iff in H. destruct H as [_ H]. rewrite no_ctl_true in H.
  apply andb_true_iff in H. destruct H as [H _]. apply negb_true_iff in H. exact H.
Qed.

(** * User text stays text: reading the escapes back

    [read_text] is how a roff processor reads the escapes the crate emits inside text: backslash
    followed by [*(Aq] is the apostrophe string, backslash followed by any other character is that
    character (backslash-backslash, backslash-dash).  Reading back the escaped text gives the author's
    string, for every string: no backslash of the author survives as the start of an escape. *)
Fixpoint read_text (s : bytes) : bytes :=
  match s with
  | [] => []
  | c :: t =>
      if c =? 92 then
        match t with
        | 42 :: 40 :: 65 :: 113 :: t' => 39 :: read_text t'
        | d :: t' => d :: read_text t'
        | [] => [c]
        end
      else c :: read_text t
  end.

Lemma replace1_app a r x y : replace1 a r (x ++ y) = replace1 a r x ++ replace1 a r y.
Proof.
  induction x as [|c x IH]; [reflexivity|]. cbn [app replace1]. rewrite IH.
  destruct (c =? a); [rewrite app_assoc|]; reflexivity.
Qed.

Lemma escape_rules_eq :
  inline_rules = [([92], [92; 92]); ([45], [92; 45])] /\ apostrophe_rules = [([39], [92; 42; 40; 65; 113])].
Proof. split; reflexivity. Qed.

Definition esc_ia (s : bytes) : bytes := escape_apostrophes (escape_inline s).

Lemma esc_ia_unfold s :
  esc_ia s = replace1 39 [92; 42; 40; 65; 113] (replace1 45 [92; 45] (replace1 92 [92; 92] s)).
Proof. reflexivity. Qed.

Lemma esc_ia_cons c t :
  esc_ia (c :: t) =
  (if c =? 92 then [92; 92] else if c =? 45 then [92; 45] else if c =? 39 then [92; 42; 40; 65; 113] else [c])
  ++ esc_ia t.
Proof.
  rewrite !esc_ia_unfold. cbn [replace1].
  destruct (c =? 92) eqn:E92.
  - rewrite !replace1_app. reflexivity.
  - cbn [replace1]. destruct (c =? 45) eqn:E45.
    + rewrite !replace1_app. reflexivity.
    + cbn [replace1]. destruct (c =? 39) eqn:E39; reflexivity.
Qed.

Theorem escape_read_back s : read_text (escape_apostrophes (escape_inline s)) = s.
Proof.
  change (read_text (esc_ia s) = s).
  induction s as [|c t IH]; [reflexivity|].
  rewrite esc_ia_cons.
  destruct (c =? 92) eqn:E92; [apply N.eqb_eq in E92; subst c; cbn [app read_text]|].
  - change (92 =? 92) with true. cbv iota. rewrite IH. reflexivity.
  - destruct (c =? 45) eqn:E45; [apply N.eqb_eq in E45; subst c; cbn [app read_text]|].
    + change (92 =? 92) with true. cbv iota. rewrite IH. reflexivity.
    + destruct (c =? 39) eqn:E39; [apply N.eqb_eq in E39; subst c; cbn [app read_text]|].
      * change (92 =? 92) with true. cbv iota. rewrite IH. reflexivity.
      * cbn [app read_text]. rewrite E92, IH. reflexivity.
Qed.
