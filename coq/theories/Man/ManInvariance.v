(** The control lines do not depend on the text-only slots (beyond the blank-line pattern of the
    description): [controls_invariant].  [sigma] is an arbitrary rewriting of author text applied to
    every slot that is only ever placed into text lines; the slots that reach control-line arguments
    (name, display name, version, help headings, subcommand heading, the Man overrides) are kept. *)
From ClapModel Require Import Base.Bytes Gen.RoffTables Gen.ManTables Man.RoffModel Man.RoffProofs Man.ManModel Man.ManProofs.
Open Scope N_scope.

(** the generator's own control lines of a document *)
Definition oc (d : list line) : list bytes := flat_map own_controls d.

Definition ctl_of (r : res (list line)) : res (list bytes) :=
  match r with Ok d => Ok (oc d) | Panic s => Panic s end.

Lemma oc_app a b : oc (a ++ b) = oc a ++ oc b.
Proof. apply flat_map_app. Qed.

Lemma oc_cons l d : oc (l :: d) = own_controls l ++ oc d.
Proof. reflexivity. Qed.

Definition no_break (l : list inline) : Prop := filter is_break l = [].

Lemma oc_text l : no_break l -> own_controls (Text l) = [].
Proof. unfold no_break. intros H. cbn [own_controls]. rewrite H. reflexivity. Qed.

Lemma no_break_app a b : no_break a -> no_break b -> no_break (a ++ b).
Proof. unfold no_break. intros Ha Hb. rewrite filter_app, Ha, Hb. reflexivity. Qed.

Lemma no_break_flat_map {A} (f : A -> list inline) l : (forall x, no_break (f x)) -> no_break (flat_map f l).
Proof.
  intros H. induction l as [|x l IH]; [reflexivity|]. cbn [flat_map]. apply no_break_app; [apply H|exact IH].
Qed.

Lemma oc_text_lines ls : oc (map (fun l => Text [Roman l]) ls) = [].
Proof. induction ls as [|x ls IH]; [reflexivity|]. cbn [map]. rewrite oc_cons, IH. reflexivity. Qed.

Section Sigma.
Variable sigma : bytes -> bytes.

Definition omap (o : option bytes) : option bytes := option_map sigma o.

Definition map_pv (p : mpv) : mpv :=
  {| pv_name := sigma (pv_name p); pv_help := omap (pv_help p); pv_hide := pv_hide p |}.

Definition map_arg (a : marg) : marg :=
  {| a_id := sigma (a_id a); a_short := omap (a_short a); a_long := omap (a_long a); a_action := a_action a;
     a_num_args := a_num_args a; a_value_names := map sigma (a_value_names a); a_help := omap (a_help a);
     a_long_help := omap (a_long_help a); a_hide := a_hide a; a_hide_short_help := a_hide_short_help a;
     a_hide_long_help := a_hide_long_help a; a_hide_env := a_hide_env a;
     a_hide_default := a_hide_default a; a_hide_pvs := a_hide_pvs a; a_required := a_required a;
     a_defaults := map sigma (a_defaults a); a_env := omap (a_env a); a_pvs := map map_pv (a_pvs a);
     a_heading := a_heading a |}.

Definition map_sub (s : msub) : msub :=
  {| s_name := sigma (s_name s); s_about := omap (s_about s); s_long_about := omap (s_long_about s);
     s_hide := s_hide s |}.

(** every text-only slot rewritten; name, display name, version, headings kept *)
Definition map_cmd (c : mcmd) : mcmd :=
  {| c_name := c_name c; c_display_name := c_display_name c; c_bin_name := omap (c_bin_name c);
     c_version := c_version c; c_long_version := omap (c_long_version c); c_author := omap (c_author c);
     c_about := omap (c_about c); c_long_about := omap (c_long_about c); c_after_help := omap (c_after_help c);
     c_after_long_help := omap (c_after_long_help c); c_before_long_help := omap (c_before_long_help c);
     c_sub_heading := c_sub_heading c; c_sub_value_name := omap (c_sub_value_name c);
     c_sub_required := c_sub_required c; c_no_help_flag := c_no_help_flag c;
     c_no_version_flag := c_no_version_flag c; c_no_help_sub := c_no_help_sub c;
     c_args := map map_arg (c_args c); c_subs := map map_sub (c_subs c) |}.

Definition map_man (m : mman) : mman := with_cmd m (map_cmd (m_cmd m)).

Lemma or_else_omap a b : or_else (omap a) (omap b) = omap (or_else a b).
Proof. destruct a, b; reflexivity. Qed.

Lemma is_some_omap a : is_some (omap a) = is_some a.
Proof. destruct a; reflexivity. Qed.

Lemma filter_map_comm {A B} (f : B -> bool) (g : A -> B) l : filter f (map g l) = map g (filter (fun x => f (g x)) l).
Proof.
  induction l as [|x l IH]; [reflexivity|]. cbn [map filter]. rewrite IH. destruct (f (g x)); reflexivity.
Qed.

Lemma filter_ext' {A} (f g : A -> bool) l : (forall x, f x = g x) -> filter f l = filter g l.
Proof. intros H. induction l as [|x l IH]; [reflexivity|]. cbn [filter]. rewrite H, IH. reflexivity. Qed.

(** ** possible values, environment, help: only their shape matters *)

Definition pv_shape (a : marg) : option (nat * bool) :=
  match get_possible_values a with
  | Some (text, with_help) => Some (length text, with_help)
  | None => None
  end.

Definition oc_pvs (shape : option (nat * bool)) (written : bool) : list bytes :=
  match shape with
  | None => []
  | Some (n, with_help) =>
      (if written then [br_line] else [])
      ++ (if with_help
          then br_line :: own_controls (Control rq_RS [rs_indent])
               ++ flat_map (fun _ => own_controls (Control rq_IP [ip_bullet; ip_width])) (seq 0 n)
               ++ own_controls (Control rq_RE [])
          else [br_line])
  end.

Lemma flat_map_const {A B C} (l : list A) (l' : list B) (v : list C) :
  length l = length l' -> flat_map (fun _ => v) l = flat_map (fun _ => v) l'.
Proof.
  revert l'. induction l as [|x l IH]; intros [|y l'] H; try discriminate; [reflexivity|].
  cbn [flat_map]. f_equal. apply IH. cbn in H. lia.
Qed.

Lemma flat_map_flat_map {A B C} (f : B -> list C) (g : A -> list B) l :
  flat_map f (flat_map g l) = flat_map (fun x => flat_map f (g x)) l.
Proof.
  induction l as [|x l IH]; [reflexivity|]. cbn [flat_map]. rewrite flat_map_app, IH. reflexivity.
Qed.

Lemma oc_possible_options a w : oc (possible_options a w) = oc_pvs (pv_shape a) w.
Proof.
  unfold possible_options, pv_shape, oc_pvs.
  destruct (get_possible_values a) as [[text with_help]|]; [|reflexivity].
  rewrite oc_app. f_equal; [destruct w; reflexivity|].
  destruct with_help; [|reflexivity].
  cbn [app]. rewrite !oc_cons. cbn [own_controls filter is_break map app].
  f_equal. f_equal. rewrite oc_app. f_equal.
  unfold oc. rewrite flat_map_flat_map.
  cbn [flat_map own_controls filter is_break map app].
  apply flat_map_const. rewrite seq_length. reflexivity.
Qed.

Lemma pv_shape_map a : pv_shape (map_arg a) = pv_shape a.
Proof.
  unfold pv_shape, get_possible_values, get_possible_values_arg, is_takes_value_set.
  cbn [map_arg a_hide_pvs a_num_args a_pvs].
  destruct (a_hide_pvs a); [reflexivity|].
  destruct (match a_num_args a with Some na => takes_values na | None => true end); [|reflexivity].
  rewrite filter_map_comm. cbn [map_pv pv_hide].
  destruct (filter (fun x => negb (pv_hide x)) (a_pvs a)) as [|p ps]; [reflexivity|].
  cbn [map]. unfold format_possible_values.
  assert (existsb (fun p0 => is_some (pv_help p0)) (map_pv p :: map map_pv ps)
          = existsb (fun p0 => is_some (pv_help p0)) (p :: ps)) as ->.
  { change (map_pv p :: map map_pv ps) with (map map_pv (p :: ps)).
    induction (p :: ps) as [|q qs IH]; [reflexivity|]. cbn [map existsb]. rewrite IH.
    cbn [map_pv pv_help]. rewrite is_some_omap. reflexivity. }
  destruct (existsb _ (p :: ps)); cbn [length map]; rewrite !map_length; reflexivity.
Qed.

Lemma option_help_map a : option_help (map_arg a) = omap (option_help a).
Proof.
  unfold option_help. cbn [map_arg a_hide_long_help a_long_help a_hide_short_help a_help].
  destruct (a_hide_long_help a), (a_long_help a), (a_hide_short_help a), (a_help a); reflexivity.
Qed.

Lemma oc_env_lines a : oc (env_lines a) = if is_some (option_environment a) then own_controls (Control rq_RS []) ++ own_controls (Control rq_RE []) else [].
Proof.
  unfold env_lines, option_environment. destruct (a_hide_env a); [reflexivity|]. destruct (a_env a); reflexivity.
Qed.

Lemma env_some_map a : is_some (option_environment (map_arg a)) = is_some (option_environment a).
Proof.
  unfold option_environment. cbn [map_arg a_hide_env a_env]. destruct (a_hide_env a); [reflexivity|].
  destruct (a_env a); reflexivity.
Qed.

(** ** one entry of the options list *)

Definition k_entry (a : marg) (pos : bool) : res (list bytes) :=
  match a_num_args a with
  | None => Panic NumArgsNotBuilt
  | Some _ =>
      let w := is_some (option_help a) in
      let e := if is_some (option_environment a)
               then own_controls (Control rq_RS []) ++ own_controls (Control rq_RE []) else [] in
      Ok (own_controls (Control rq_TP []) ++ (if pos then e ++ oc_pvs (pv_shape a) w else oc_pvs (pv_shape a) w ++ e))
  end.

Lemma k_entry_map a pos : k_entry (map_arg a) pos = k_entry a pos.
Proof.
  unfold k_entry. rewrite pv_shape_map, option_help_map, is_some_omap, env_some_map. reflexivity.
Qed.

Lemma help_body_shape a : no_break (fst (help_body a)) /\ snd (help_body a) = is_some (option_help a).
Proof. unfold help_body. destruct (option_help a); split; reflexivity. Qed.

Lemma markers_no_break r : no_break [Roman (fst (markers r))] /\ no_break [Roman (snd (markers r))].
Proof. split; reflexivity. Qed.

Lemma ctl_options_opt a : ctl_of (options_opt a) = k_entry a false.
Proof.
  unfold options_opt, k_entry, option_default_values.
  destruct (a_num_args a) as [na|]; [|reflexivity].
  destruct (help_body_shape a) as [Hb Hw].
  assert (forall header, no_break header ->
     ctl_of (let (body, written) := help_body a in
             Ok ([Control rq_TP []; Text header; Text body] ++ possible_options a written ++ env_lines a))
     = Ok (own_controls (Control rq_TP []) ++ oc_pvs (pv_shape a) (is_some (option_help a)) ++
           (if is_some (option_environment a) then own_controls (Control rq_RS []) ++ own_controls (Control rq_RE []) else []))) as Hfin.
  { intros header Hh. destruct (help_body a) as [body written]. cbn [fst snd] in Hb, Hw. subst written.
    cbn [ctl_of]. f_equal. cbn [app]. rewrite !oc_cons, oc_app, oc_possible_options, oc_env_lines.
    rewrite (oc_text header Hh), (oc_text body Hb). reflexivity. }
  assert (no_break (match a_short a, a_long a with
                    | Some short, Some long => [Bold (dash ++ short); Roman opt_comma; Bold (dashdash ++ long)]
                    | Some short, None => [Bold (dash ++ short)]
                    | None, Some long => [Bold (dashdash ++ long)]
                    | None, None => []
                    end ++ (if takes_values na then match a_value_names a with [] => [] | v => [Roman opt_eq; Italic (intercalate vn_sep v)] end else []))) as H1.
  { apply no_break_app; [destruct (a_short a), (a_long a); reflexivity|].
    destruct (takes_values na); [destruct (a_value_names a)|]; reflexivity. }
  destruct (a_hide_default a || negb (takes_values na)); cbn [bind].
  - apply Hfin. apply no_break_app; [exact H1|reflexivity].
  - destruct (a_defaults a); cbn [bind]; apply Hfin; (apply no_break_app; [exact H1|reflexivity]).
Qed.

Lemma ctl_options_pos a : ctl_of (options_pos a) = k_entry a true.
Proof.
  unfold options_pos, k_entry, option_default_values, option_markers.
  destruct (markers (a_required a)) as [lhs rhs].
  destruct (a_num_args a) as [na|]; [|reflexivity].
  destruct (help_body_shape a) as [Hb Hw].
  assert (forall header, no_break header ->
     ctl_of (let (body, written) := help_body a in
             Ok ([Control rq_TP []; Text header; Text body] ++ env_lines a ++ possible_options a written))
     = Ok (own_controls (Control rq_TP []) ++
           (if is_some (option_environment a) then own_controls (Control rq_RS []) ++ own_controls (Control rq_RE []) else [])
           ++ oc_pvs (pv_shape a) (is_some (option_help a)))) as Hfin.
  { intros header Hh. destruct (help_body a) as [body written]. cbn [fst snd] in Hb, Hw. subst written.
    cbn [ctl_of]. f_equal. cbn [app]. rewrite !oc_cons, oc_app, oc_possible_options, oc_env_lines.
    rewrite (oc_text header Hh), (oc_text body Hb). reflexivity. }
  destruct (a_hide_default a || negb (takes_values na)); cbn [bind].
  - apply Hfin. reflexivity.
  - destruct (a_defaults a); cbn [bind]; apply Hfin; reflexivity.
Qed.

(** ** lists of entries *)

Lemma oc_concat ls : oc (concat ls) = concat (map oc ls).
Proof. induction ls as [|x ls IH]; [reflexivity|]. cbn [concat map]. rewrite oc_app, IH. reflexivity. Qed.

Lemma map_res_ctl {A} (f : A -> res (list line)) l :
  map_res (fun x => ctl_of (f x)) l = match map_res f l with Ok ys => Ok (map oc ys) | Panic s => Panic s end.
Proof.
  induction l as [|x l IH]; [reflexivity|]. cbn [map_res]. rewrite IH.
  destruct (f x); [|reflexivity]. cbn [ctl_of bind]. destruct (map_res f l); reflexivity.
Qed.

Lemma ctl_concat_res {A} (f : A -> res (list line)) l :
  ctl_of (concat_res f l) = concat_res (fun x => ctl_of (f x)) l.
Proof.
  unfold concat_res. rewrite map_res_ctl. destruct (map_res f l); [|reflexivity].
  cbn [bind ctl_of]. rewrite oc_concat. reflexivity.
Qed.

Lemma map_res_ext {A B} (f g : A -> res B) l : (forall x, f x = g x) -> map_res f l = map_res g l.
Proof. intros H. induction l as [|x l IH]; [reflexivity|]. cbn [map_res]. rewrite H, IH. reflexivity. Qed.

Lemma map_res_map {A B C} (f : B -> res C) (g : A -> B) l : map_res f (map g l) = map_res (fun x => f (g x)) l.
Proof. induction l as [|x l IH]; [reflexivity|]. cbn [map map_res]. rewrite IH. reflexivity. Qed.

Definition k_options (items : list marg) : res (list bytes) :=
  bind (concat_res (fun a => k_entry a false) (filter (fun a => negb (is_positional a)) items)) (fun o =>
  bind (concat_res (fun a => k_entry a true) (filter is_positional items)) (fun p =>
  Ok (o ++ p))).

Lemma concat_res_ext {A B} (f g : A -> res (list B)) l : (forall x, f x = g x) -> concat_res f l = concat_res g l.
Proof. intros H. unfold concat_res. rewrite (map_res_ext f g l H). reflexivity. Qed.

Lemma ctl_options items : ctl_of (options items) = k_options items.
Proof.
  unfold options, k_options.
  rewrite (concat_res_ext (fun a => k_entry a false) (fun x => ctl_of (options_opt x)))
    by (intros; symmetry; apply ctl_options_opt).
  rewrite (concat_res_ext (fun a => k_entry a true) (fun x => ctl_of (options_pos x)))
    by (intros; symmetry; apply ctl_options_pos).
  rewrite <- !ctl_concat_res.
  destruct (concat_res options_opt _); [|reflexivity]. cbn [bind ctl_of].
  destruct (concat_res options_pos _); [|reflexivity]. cbn [bind ctl_of]. rewrite oc_app. reflexivity.
Qed.

Lemma is_positional_map a : is_positional (map_arg a) = is_positional a.
Proof. unfold is_positional. cbn [map_arg a_long a_short]. rewrite !is_some_omap. reflexivity. Qed.

Lemma k_options_map items : k_options (map map_arg items) = k_options items.
Proof.
  unfold k_options, concat_res. rewrite !filter_map_comm, !map_res_map.
  rewrite (filter_ext' (fun x => negb (is_positional (map_arg x))) (fun a => negb (is_positional a)))
    by (intros; rewrite is_positional_map; reflexivity).
  rewrite (filter_ext' (fun x => is_positional (map_arg x)) is_positional) by apply is_positional_map.
  rewrite (map_res_ext (fun x => k_entry (map_arg x) false) (fun a => k_entry a false)) by (intros; apply k_entry_map).
  rewrite (map_res_ext (fun x => k_entry (map_arg x) true) (fun a => k_entry a true)) by (intros; apply k_entry_map).
  reflexivity.
Qed.

Fixpoint k_heading_sections (headings : list bytes) (rest : list marg) : res (list bytes) :=
  match headings with
  | [] => Ok []
  | heading :: hs =>
      let (args, rest') := partition (fun a => opt_beq (a_heading a) (Some heading)) rest in
      bind (k_options args) (fun o =>
      bind (k_heading_sections hs rest') (fun r =>
      Ok (own_controls (Control rq_SH [control_arg (to_uppercase heading)]) ++ o ++ r)))
  end.

Lemma ctl_heading_sections hs : forall rest, ctl_of (heading_sections hs rest) = k_heading_sections hs rest.
Proof.
  induction hs as [|h hs IH]; intros rest; [reflexivity|]. cbn [heading_sections k_heading_sections].
  destruct (partition _ rest) as [args rest'].
  rewrite <- ctl_options, <- IH.
  destruct (options args); [|reflexivity]. cbn [bind ctl_of].
  destruct (heading_sections hs rest'); [|reflexivity]. cbn [bind ctl_of].
  rewrite oc_cons, oc_app. reflexivity.
Qed.

Lemma partition_map {A B} (f : B -> bool) (g : A -> B) l :
  partition f (map g l) = (map g (fst (partition (fun x => f (g x)) l)), map g (snd (partition (fun x => f (g x)) l))).
Proof.
  rewrite !partition_as_filter. cbn [fst snd]. rewrite !filter_map_comm. reflexivity.
Qed.

Lemma k_heading_sections_map hs : forall rest, k_heading_sections hs (map map_arg rest) = k_heading_sections hs rest.
Proof.
  induction hs as [|h hs IH]; intros rest; [reflexivity|]. cbn [k_heading_sections].
  rewrite partition_map. cbn [map_arg a_heading].
  destruct (partition (fun x => opt_beq (a_heading x) (Some h)) rest) as [args rest']. cbn [fst snd].
  rewrite k_options_map, IH. reflexivity.
Qed.

Lemma visible_map a : visible (map_arg a) = visible a.
Proof. reflexivity. Qed.

Lemma help_headings_map l : help_headings (map map_arg l) = help_headings l.
Proof.
  unfold help_headings, filter_map. f_equal.
  induction l as [|x l IH]; [reflexivity|]. cbn [map flat_map]. rewrite IH. reflexivity.
Qed.

Definition k_options_section (args : list marg) : res (list bytes) :=
  let vis := filter visible args in
  let (args0, awh) := partition (fun a => negb (is_some (a_heading a))) vis in
  bind (match args0 with
        | [] => Ok []
        | _ => bind (k_options args0) (fun o => Ok (own_controls (Control rq_SH [h_OPTIONS]) ++ o))
        end) (fun s0 =>
  bind (k_heading_sections (help_headings vis) awh) (fun s1 => Ok (s0 ++ s1))).

Lemma ctl_options_section m : ctl_of (render_options_section m) = k_options_section (c_args (m_cmd m)).
Proof.
  unfold render_options_section, k_options_section.
  destruct (partition _ (filter visible (c_args (m_cmd m)))) as [args0 awh].
  rewrite <- ctl_heading_sections.
  destruct args0 as [|a0 args0].
  - cbn [bind]. destruct (heading_sections _ awh); reflexivity.
  - rewrite <- ctl_options. destruct (options (a0 :: args0)); [|reflexivity]. cbn [bind ctl_of].
    destruct (heading_sections _ awh); [|reflexivity]. cbn [bind ctl_of]. rewrite oc_app, oc_cons. reflexivity.
Qed.

Lemma k_options_section_map args : k_options_section (map map_arg args) = k_options_section args.
Proof.
  unfold k_options_section. rewrite filter_map_comm.
  rewrite (filter_ext' (fun x => visible (map_arg x)) visible) by reflexivity.
  rewrite help_headings_map, partition_map. cbn [map_arg a_heading].
  destruct (partition (fun x => negb (is_some (a_heading x))) (filter visible args)) as [args0 awh]. cbn [fst snd].
  rewrite k_heading_sections_map.
  destruct args0 as [|a0 args0]; [reflexivity|].
  change (map map_arg (a0 :: args0)) with (map map_arg (a0 :: args0)).
  cbn [map]. change (map_arg a0 :: map map_arg args0) with (map map_arg (a0 :: args0)).
  rewrite k_options_map. reflexivity.
Qed.

(** ** the sections that consist of text only, or whose controls depend on shape only *)

Lemma oc_about c : oc (about c) = [].
Proof. reflexivity. Qed.

Lemma synopsis_opt_no_break a : no_break (synopsis_opt a).
Proof.
  unfold synopsis_opt, option_markers. destruct (markers (a_required a)).
  destruct (a_short a), (a_long a), (is_count a); reflexivity.
Qed.

Lemma synopsis_pos_no_break a : no_break (synopsis_pos a).
Proof. unfold synopsis_pos, option_markers. destruct (markers (a_required a)). reflexivity. Qed.

Lemma oc_synopsis c : oc (synopsis c) = [].
Proof.
  unfold synopsis. rewrite oc_cons. cbn [oc flat_map]. rewrite app_nil_r. apply oc_text.
  apply (no_break_app [_; _]); [reflexivity|].
  apply no_break_app; [apply no_break_flat_map, synopsis_opt_no_break|].
  apply no_break_app; [apply no_break_flat_map, synopsis_pos_no_break|].
  unfold synopsis_sub, subcommand_markers. destruct (c_subs c); [reflexivity|]. destruct (markers _). reflexivity.
Qed.

Definition pp_if (b : bool) : list bytes := if b then own_controls (Control rq_PP []) else [].

Lemma oc_description_lines ls :
  oc (map (fun l => if is_blank l then Control rq_PP [] else Text [Roman l]) ls) = flat_map pp_if (map is_blank ls).
Proof.
  induction ls as [|x ls IH]; [reflexivity|]. cbn [map flat_map]. rewrite oc_cons, IH.
  destruct (is_blank x); reflexivity.
Qed.

Hypothesis sigma_blank : forall s, map is_blank (lines (sigma s)) = map is_blank (lines s).

Lemma oc_description_map c : oc (description (map_cmd c)) = oc (description c).
Proof.
  unfold description. cbn [map_cmd c_long_about c_about]. rewrite or_else_omap.
  destruct (or_else (c_long_about c) (c_about c)) as [a|]; [|reflexivity].
  cbn [omap option_map]. rewrite !oc_description_lines, sigma_blank. reflexivity.
Qed.

Lemma oc_subcommands c sect :
  oc (subcommands c sect) = flat_map (fun _ => own_controls (Control rq_TP [])) (filter sub_visible (c_subs c)).
Proof.
  unfold subcommands, oc. rewrite flat_map_flat_map. apply flat_map_ext. intros s.
  fold (oc ([Control rq_TP []; Text [Roman (display_or_name c ++ dash ++ s_name s ++ lparen ++ sect ++ rparen)]]
            ++ match or_else (s_about s) (s_long_about s) with
               | Some a => map (fun l => Text [Roman l]) (lines a)
               | None => []
               end)).
  rewrite oc_app. destruct (or_else (s_about s) (s_long_about s)); [rewrite oc_text_lines|]; reflexivity.
Qed.

Lemma oc_subcommands_map c sect : oc (subcommands (map_cmd c) sect) = oc (subcommands c sect).
Proof.
  rewrite !oc_subcommands. cbn [map_cmd c_subs]. rewrite filter_map_comm.
  apply flat_map_const. rewrite map_length. reflexivity.
Qed.

Lemma oc_after_help c : oc (after_help c) = [].
Proof. unfold after_help. destruct (or_else _ _); [apply oc_text_lines|reflexivity]. Qed.

Lemma ctl_version_section m :
  ctl_of (render_version_section m)
  = if is_some (or_else (c_long_version (m_cmd m)) (c_version (m_cmd m)))
    then Ok (own_controls (Control rq_SH [h_VERSION])) else Panic VersionUnwrap.
Proof.
  unfold render_version_section, version. destruct (or_else _ _); reflexivity.
Qed.

(** ** the whole page *)

Lemma existsb_map {A B} (f : B -> bool) (g : A -> B) l : existsb f (map g l) = existsb (fun x => f (g x)) l.
Proof. induction l as [|x l IH]; [reflexivity|]. cbn [map existsb]. rewrite IH. reflexivity. Qed.

Lemma ctl_man_doc m :
  ctl_of (man_doc m) =
  bind (if app_has_arguments (m_cmd m) then k_options_section (c_args (m_cmd m)) else Ok []) (fun opts =>
  bind (if app_has_version (m_cmd m) then ctl_of (render_version_section m) else Ok []) (fun vers =>
  Ok (oc (render_title m) ++ own_controls (Control rq_SH [h_NAME])
      ++ own_controls (Control rq_SH [h_SYNOPSIS])
      ++ own_controls (Control rq_SH [h_DESCRIPTION]) ++ oc (description (m_cmd m))
      ++ opts
      ++ (if app_has_subcommands (m_cmd m)
          then own_controls (Control rq_SH [control_arg (subcommand_heading (m_cmd m))]) ++ oc (subcommands (m_cmd m) (m_sect m))
          else [])
      ++ (if is_some (c_after_long_help (m_cmd m)) || is_some (c_after_help (m_cmd m))
          then own_controls (Control rq_SH [h_EXTRA]) else [])
      ++ vers
      ++ (if is_some (c_author (m_cmd m)) then own_controls (Control rq_SH [h_AUTHORS]) else [])))).
Proof.
  unfold man_doc. rewrite <- ctl_options_section.
  assert (forall (b : bool) (r : res (list line)), (if b then ctl_of r else Ok []) = ctl_of (if b then r else Ok [])) as Hif
    by (intros [|] r; reflexivity).
  rewrite !Hif.
  destruct (if app_has_arguments (m_cmd m) then render_options_section m else Ok []) as [opts|]; [|reflexivity].
  cbn [bind ctl_of].
  destruct (if app_has_version (m_cmd m) then render_version_section m else Ok []) as [vers|]; [|reflexivity].
  cbn [bind ctl_of]. f_equal.
  rewrite !oc_app. f_equal.
  assert (oc (if app_has_subcommands (m_cmd m) then render_subcommands_section m else [])
          = (if app_has_subcommands (m_cmd m)
             then own_controls (Control rq_SH [control_arg (subcommand_heading (m_cmd m))]) ++ oc (subcommands (m_cmd m) (m_sect m))
             else [])) as ->
    by (destruct (app_has_subcommands (m_cmd m)); reflexivity).
  assert (oc (if is_some (c_after_long_help (m_cmd m)) || is_some (c_after_help (m_cmd m)) then render_extra_section m else [])
          = (if is_some (c_after_long_help (m_cmd m)) || is_some (c_after_help (m_cmd m))
             then own_controls (Control rq_SH [h_EXTRA]) else [])) as ->.
  { destruct (_ || _); [|reflexivity]. unfold render_extra_section. rewrite oc_cons, oc_after_help, app_nil_r. reflexivity. }
  assert (oc (if is_some (c_author (m_cmd m)) then render_authors_section m else [])
          = (if is_some (c_author (m_cmd m)) then own_controls (Control rq_SH [h_AUTHORS]) else [])) as ->
    by (destruct (is_some (c_author (m_cmd m))); reflexivity).
  unfold render_name_section, render_synopsis_section, render_description_section.
  rewrite !oc_cons, oc_about, oc_synopsis, !app_nil_r, <- !app_assoc. reflexivity.
Qed.

(** The control lines of the page do not depend on the text-only slots, beyond the blank-line pattern
    of the description. *)
Theorem controls_invariant m : ctl_of (man_doc (map_man m)) = ctl_of (man_doc m).
Proof.
  rewrite !ctl_man_doc. unfold map_man. cbn [m_cmd with_cmd m_sect].
  assert (app_has_arguments (map_cmd (m_cmd m)) = app_has_arguments (m_cmd m)) as ->
    by (unfold app_has_arguments; cbn [map_cmd c_args]; rewrite existsb_map; reflexivity).
  assert (app_has_version (map_cmd (m_cmd m)) = app_has_version (m_cmd m)) as ->.
  { unfold app_has_version. cbn [map_cmd c_version c_long_version].
    destruct (c_version (m_cmd m)), (c_long_version (m_cmd m)); reflexivity. }
  assert (app_has_subcommands (map_cmd (m_cmd m)) = app_has_subcommands (m_cmd m)) as ->
    by (unfold app_has_subcommands; cbn [map_cmd c_subs]; rewrite existsb_map; reflexivity).
  cbn [map_cmd c_args]. rewrite k_options_section_map.
  rewrite !ctl_version_section. cbn [m_cmd with_cmd map_cmd c_long_version c_version].
  assert (is_some (or_else (omap (c_long_version (m_cmd m))) (c_version (m_cmd m)))
          = is_some (or_else (c_long_version (m_cmd m)) (c_version (m_cmd m)))) as ->
    by (destruct (c_long_version (m_cmd m)), (c_version (m_cmd m)); reflexivity).
  change (oc (description (map_cmd (m_cmd m)))) with (oc (description (map_cmd (m_cmd m)))).
  rewrite oc_description_map, oc_subcommands_map.
  unfold subcommand_heading, render_title, title_args.
  cbn [map_cmd with_cmd c_after_long_help c_after_help c_author c_sub_heading m_title m_sect m_dat m_source m_manu].
  rewrite !is_some_omap.
  reflexivity.
Qed.

End Sigma.

(** Non-vacuity of the hypothesis: a rewriting that turns every non-blank single-line text into a
    would-be request keeps the blank-line pattern. *)
Definition evil (s : bytes) : bytes :=
  if existsb (N.eqb 10) s || is_blank s then s else [46; 115; 111; 32] ++ s.   (* ".so " ++ s *)

Lemma split_inclusive_no_nl s : existsb (N.eqb 10) s = false -> s <> [] -> split_inclusive s = [s].
Proof.
  induction s as [|c t IH]; [congruence|]. intros H _. cbn [existsb] in H. apply orb_false_iff in H.
  destruct H as [H1 H2]. cbn [split_inclusive]. rewrite N.eqb_sym, H1.
  destruct t as [|d t]; [reflexivity|]. rewrite IH by (assumption || discriminate). reflexivity.
Qed.

Lemma strip_suffix1_none c s : existsb (N.eqb c) s = false -> strip_suffix1 c s = None.
Proof.
  intros H. unfold strip_suffix1. destruct (rev s) as [|d r] eqn:E; [reflexivity|].
  destruct (d =? c) eqn:Ed; [|reflexivity]. exfalso.
  assert (In d s) as Hin by (apply in_rev; rewrite E; left; reflexivity).
  apply N.eqb_eq in Ed. subst d.
  assert (existsb (N.eqb c) s = true) by (apply existsb_exists; exists c; split; [exact Hin|apply N.eqb_refl]).
  congruence.
Qed.

Lemma lines_no_nl s : existsb (N.eqb 10) s = false -> s <> [] -> lines s = [s].
Proof.
  intros H Hn. unfold lines. rewrite split_inclusive_no_nl by assumption. cbn [map]. unfold lines_map.
  rewrite strip_suffix1_none by exact H. reflexivity.
Qed.

Lemma evil_blank : forall s, map is_blank (lines (evil s)) = map is_blank (lines s).
Proof.
  intros s. unfold evil. destruct (existsb (N.eqb 10) s) eqn:En; [reflexivity|]. cbn [orb].
  destruct (is_blank s) eqn:Eb; [reflexivity|].
  assert (s <> []) as Hs by (intros ->; discriminate).
  rewrite (lines_no_nl s En Hs).
  rewrite lines_no_nl; [| |discriminate].
  - cbn [map app is_blank]. rewrite Eb. reflexivity.
  - cbn [app existsb]. exact En.
Qed.

(** Page level: rewriting the text-only slots does not change the control lines of the page. *)
Theorem page_controls_invariant (sigma : bytes -> bytes) :
  (forall s, map is_blank (lines (sigma s)) = map is_blank (lines s)) ->
  forall m d d', man_doc m = Ok d -> man_doc (map_man sigma m) = Ok d' ->
  control_lines (to_writer d') = control_lines (to_writer d).
Proof.
  intros Hs m d d' H H'.
  rewrite (page_control_lines _ _ H), (page_control_lines _ _ H').
  pose proof (controls_invariant sigma Hs m) as E. rewrite H, H' in E. cbn [ctl_of] in E.
  apply Ok_inj in E. unfold oc in E. rewrite E. reflexivity.
Qed.

(** ... and rendering succeeds for the rewritten command exactly when it does for the original. *)
Lemma map_man_total (sigma : bytes -> bytes) :
  (forall s, map is_blank (lines (sigma s)) = map is_blank (lines s)) ->
  forall m d, man_doc m = Ok d -> exists d', man_doc (map_man sigma m) = Ok d'.
Proof.
  intros Hs m d H. pose proof (controls_invariant sigma Hs m) as E. rewrite H in E.
  destruct (man_doc (map_man sigma m)) as [d'|]; [exists d'; reflexivity|discriminate].
Qed.

Example evil_example :
  let m := man_new (mbuild (ex_cmd [ex_arg [118] (Some [118]) false] [])) in
  exists d d', man_doc m = Ok d /\ man_doc (map_man evil m) = Ok d' /\ d <> d'
               /\ control_lines (to_writer d') = control_lines (to_writer d).
Proof.
  eexists. eexists. split; [vm_compute; reflexivity|]. split; [vm_compute; reflexivity|].
  split; [intro H; discriminate H|vm_compute; reflexivity].
Qed.
