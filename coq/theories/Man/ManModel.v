(** Model of clap_mangen (src/lib.rs, src/render.rs): which roff lines [Man::render] produces for a
    command.  One Gallina function per Rust function, same branch structure; the three panic sites
    ([get_num_args().expect("built")] twice, the [unwrap] in [render::version]) are visible
    [Panic] results.  The command record below is the view clap_mangen has of a [clap::Command]
    through its getters; [mbuild] models the part of [Command::build] that this view depends on
    (generated help/version arguments, help subcommand, [Arg::_build]).

    Modelling assumptions (stated in docs/notes/C19.md, checked by the differential run on every
    case): [StyledStr::to_string] (ANSI stripping) and [to_string_lossy] are the identity (strings
    without C0 controls other than TAB/LF/FF/CR and without DEL; valid UTF-8); [to_uppercase] /
    [to_lowercase] act on ASCII letters only. *)
From ClapModel Require Import Base.Bytes Gen.RoffTables Gen.ManTables Man.RoffModel.
Open Scope N_scope.

(** * Results with visible panic sites *)
Inductive psite := NumArgsNotBuilt | VersionUnwrap.

Inductive res (A : Type) :=
| Ok (a : A)
| Panic (site : psite).
Arguments Ok {A} a.
Arguments Panic {A} site.

Definition bind {A B} (r : res A) (f : A -> res B) : res B :=
  match r with Ok a => f a | Panic s => Panic s end.

Fixpoint map_res {A B} (f : A -> res B) (l : list A) : res (list B) :=
  match l with
  | [] => Ok []
  | x :: r => bind (f x) (fun y => bind (map_res f r) (fun ys => Ok (y :: ys)))
  end.

Definition concat_res {A B} (f : A -> res (list B)) (l : list A) : res (list B) :=
  bind (map_res f l) (fun ls => Ok (concat ls)).

(** * The command as clap_mangen sees it *)
Record mpv := { pv_name : bytes; pv_help : option bytes; pv_hide : bool }.

Inductive maction := ASet | AAppend | ASetTrue | ASetFalse | ACount | AHelp | AHelpShort | AHelpLong | AVersion.

Record marg := {
  a_id : bytes;
  a_short : option bytes;            (* one char, UTF-8 *)
  a_long : option bytes;
  a_action : maction;
  a_num_args : option (N * option N); (* (min, max); max = None is unbounded; outer None = not built *)
  a_value_names : list bytes;
  a_help : option bytes;
  a_long_help : option bytes;
  a_hide : bool;
  a_hide_short_help : bool;
  a_hide_long_help : bool;
  a_hide_env : bool;
  a_hide_default : bool;
  a_hide_pvs : bool;
  a_required : bool;
  a_defaults : list bytes;
  a_env : option bytes;
  a_pvs : list mpv;                  (* the value parser's possible values *)
  a_heading : option bytes
}.

Record msub := { s_name : bytes; s_about : option bytes; s_long_about : option bytes; s_hide : bool }.

Record mcmd := {
  c_name : bytes;
  c_display_name : option bytes;
  c_bin_name : option bytes;
  c_version : option bytes;
  c_long_version : option bytes;
  c_author : option bytes;
  c_about : option bytes;
  c_long_about : option bytes;
  c_after_help : option bytes;
  c_after_long_help : option bytes;
  c_before_long_help : option bytes;
  c_sub_heading : option bytes;
  c_sub_value_name : option bytes;
  c_sub_required : bool;
  c_no_help_flag : bool;
  c_no_version_flag : bool;
  c_no_help_sub : bool;
  c_args : list marg;
  c_subs : list msub
}.

(** struct Man *)
Record mman := {
  m_cmd : mcmd;
  m_title : bytes;
  m_sect : bytes;
  m_dat : bytes;
  m_source : bytes;
  m_manu : bytes
}.

(** * Small std helpers *)
Definition or_else {A} (a b : option A) : option A := match a with Some x => Some x | None => b end.
Definition is_some {A} (a : option A) : bool := match a with Some _ => true | None => false end.
Definition unwrap_or_default (a : option bytes) : bytes := match a with Some x => x | None => [] end.
Definition opt_beq (a b : option bytes) : bool :=
  match a, b with
  | Some x, Some y => beq x y
  | None, None => true
  | _, _ => false
  end.

(** [str::to_uppercase] / [to_lowercase], ASCII letters only (modelling assumption). *)
Definition to_uppercase (s : bytes) : bytes := map (fun c => if (97 <=? c) && (c <=? 122) then c - 32 else c) s.
Definition to_lowercase (s : bytes) : bytes := map (fun c => if (65 <=? c) && (c <=? 90) then c + 32 else c) s.

(** [str::split_inclusive('\n')] *)
Fixpoint split_inclusive (s : bytes) : list bytes :=
  match s with
  | [] => []
  | c :: t =>
      if c =? 10 then [10] :: split_inclusive t
      else match split_inclusive t with
           | l :: r => (c :: l) :: r
           | [] => [[c]]
           end
  end.

Definition strip_suffix1 (c : N) (s : bytes) : option bytes :=
  match rev s with
  | d :: r => if d =? c then Some (rev r) else None
  | [] => None
  end.

(** [str::lines]: pieces of [split_inclusive], each without its ["\n"] and then without one ["\r"]
    (a bare trailing ["\r"] on an unterminated last line is kept). *)
Definition lines_map (piece : bytes) : bytes :=
  match strip_suffix1 10 piece with
  | None => piece
  | Some l => match strip_suffix1 13 l with
              | None => l
              | Some l' => l'
              end
  end.
Definition lines (s : bytes) : list bytes := map lines_map (split_inclusive s).

(** [line.trim().is_empty()]: every char has the Unicode White_Space property
    (U+0009-000D, 0020, 0085, 00A0, 1680, 2000-200A, 2028, 2029, 202F, 205F, 3000), read on UTF-8. *)
Fixpoint is_blank (s : bytes) : bool :=
  match s with
  | [] => true
  | c :: t =>
      if ((9 <=? c) && (c <=? 13)) || (c =? 32) then is_blank t
      else if c =? 194 then
        match t with
        | d :: t' => ((d =? 133) || (d =? 160)) && is_blank t'
        | [] => false
        end
      else if c =? 225 then
        match t with
        | 154 :: 128 :: t' => is_blank t'
        | _ => false
        end
      else if c =? 226 then
        match t with
        | 128 :: e :: t' => (((128 <=? e) && (e <=? 138)) || (e =? 168) || (e =? 169) || (e =? 175)) && is_blank t'
        | 129 :: 159 :: t' => is_blank t'
        | _ => false
        end
      else if c =? 227 then
        match t with
        | 128 :: 128 :: t' => is_blank t'
        | _ => false
        end
      else false
  end.

(** * Getters of [Arg] *)
Definition takes_values (na : N * option N) : bool :=
  match snd na with Some hi => negb (hi =? 0) | None => true end.

(** Arg::is_takes_value_set: [get_num_args().unwrap_or(1).takes_values()] *)
Definition is_takes_value_set (a : marg) : bool :=
  match a_num_args a with Some na => takes_values na | None => true end.

(** Arg::is_positional *)
Definition is_positional (a : marg) : bool := negb (is_some (a_long a)) && negb (is_some (a_short a)).

(** Arg::get_possible_values *)
Definition get_possible_values_arg (a : marg) : list mpv :=
  if is_takes_value_set a then a_pvs a else [].

(** Command::get_display_name().unwrap_or_else(|| get_name()) *)
Definition display_or_name (c : mcmd) : bytes :=
  match c_display_name c with Some d => d | None => c_name c end.

(** * render.rs *)

Definition subcommand_heading (c : mcmd) : bytes :=
  match c_sub_heading c with Some t => t | None => h_SUBCOMMANDS end.

Definition about (c : mcmd) : list line :=
  let name := display_or_name c in
  let s := match or_else (c_about c) (c_long_about c) with
           | Some a => name ++ name_sep ++ a
           | None => name
           end in
  [Text [Roman s]].

Definition description (c : mcmd) : list line :=
  match or_else (c_long_about c) (c_about c) with
  | Some a => map (fun l => if is_blank l then Control rq_PP [] else Text [Roman l]) (lines a)
  | None => []
  end.

Definition markers (required : bool) : bytes * bytes :=
  if required then (mk_req_l, mk_req_r) else (mk_opt_l, mk_opt_r).
Definition option_markers (a : marg) := markers (a_required a).
Definition subcommand_markers (c : mcmd) := markers (c_sub_required c).

Definition is_count (a : marg) : bool := match a_action a with ACount => true | _ => false end.

(** value names joined, else the id *)
Definition pos_name (a : marg) : bytes :=
  match a_value_names a with
  | [] => a_id a
  | v => intercalate vn_sep v
  end.

(** one iteration of the first loop of [synopsis] *)
Definition synopsis_opt (opt : marg) : list inline :=
  let (lhs, rhs) := option_markers opt in
  let tail := (if is_count opt then [Roman syn_dots] else []) ++ [Roman syn_space] in
  match a_short opt, a_long opt with
  | Some short, Some long =>
      [Roman lhs; Bold (dash ++ short); Roman syn_bar; Bold (dashdash ++ long); Roman rhs] ++ tail
  | Some short, None => [Roman lhs; Bold (dash ++ short ++ [32]); Roman rhs] ++ tail
  | None, Some long => [Roman lhs; Bold (dashdash ++ long); Roman rhs] ++ tail
  | None, None => []
  end.

(** one iteration of the second loop *)
Definition synopsis_pos (arg : marg) : list inline :=
  let (lhs, rhs) := option_markers arg in
  [Roman lhs; Italic (pos_name arg); Roman rhs; Roman syn_space].

Definition synopsis_sub (c : mcmd) : list inline :=
  match c_subs c with
  | [] => []
  | _ =>
      let (lhs, rhs) := subcommand_markers c in
      [Roman lhs;
       Italic (to_lowercase (match c_sub_value_name c with Some v => v | None => subcommand_heading c end));
       Roman rhs]
  end.

Definition visible (a : marg) : bool := negb (a_hide a).

(** The positionals the second loop of [synopsis] iterates over:
    [cmd.get_positionals().filter(|i| !i.is_hide_set())] (the filter was added by the repair of
    defect I2, see docs/notes/C19.md). *)
Definition synopsis_positionals (c : mcmd) : list marg := filter visible (filter is_positional (c_args c)).

Definition synopsis (c : mcmd) : list line :=
  let name := match c_bin_name c with Some b => b | None => c_name c end in
  [Text ([Bold name; Roman syn_space]
         ++ flat_map synopsis_opt (filter visible (c_args c))
         ++ flat_map synopsis_pos (synopsis_positionals c)
         ++ synopsis_sub c)].

Definition option_help (opt : marg) : option bytes :=
  match (if negb (a_hide_long_help opt) then a_long_help opt else None) with
  | Some h => Some h
  | None => if negb (a_hide_short_help opt) then a_help opt else None
  end.

Definition option_environment (opt : marg) : option (list inline) :=
  if a_hide_env opt then None
  else match a_env opt with
       | Some env => Some [Roman env_pre; Bold env; Roman env_post]
       | None => None
       end.

Definition option_default_values (opt : marg) : res (option bytes) :=
  match a_num_args opt with
  | None => Panic NumArgsNotBuilt
  | Some na =>
      if a_hide_default opt || negb (takes_values na) then Ok None
      else match a_defaults opt with
           | [] => Ok None
           | vs => Ok (Some (def_open ++ intercalate def_sep vs ++ def_close))
           end
  end.

Definition format_possible_values (possibles : list mpv) : list bytes * bool :=
  let with_help := existsb (fun p => is_some (pv_help p)) possibles in
  if with_help then
    (map (fun v => match pv_help v with
                   | Some h => pv_name v ++ pv_help_sep ++ h
                   | None => pv_name v
                   end) possibles, true)
  else (map pv_name possibles, false).

Definition get_possible_values (arg : marg) : option (list bytes * bool) :=
  if a_hide_pvs arg then None
  else match filter (fun p => negb (pv_hide p)) (get_possible_values_arg arg) with
       | [] => None
       | ps => Some (format_possible_values ps)
       end.

Definition possible_options (arg : marg) (arg_help_written : bool) : list line :=
  match get_possible_values arg with
  | None => []
  | Some (text, with_help) =>
      (if arg_help_written then [Text [LineBreak]] else [])
      ++ (if with_help then
            [Text [LineBreak; Italic pv_title]; Control rq_RS [rs_indent]]
            ++ flat_map (fun l => [Control rq_IP [ip_bullet; ip_width]; Text [Roman l]]) text
            ++ [Control rq_RE []]
          else
            [Text [LineBreak; Roman pv_open; Italic pv_label; Roman (intercalate pv_sep text); Roman pv_close]])
  end.

Definition env_lines (a : marg) : list line :=
  match option_environment a with
  | Some env => [Control rq_RS []; Text env; Control rq_RE []]
  | None => []
  end.

Definition help_body (a : marg) : list inline * bool :=
  match option_help a with
  | Some h => ([Roman h], true)
  | None => ([], false)
  end.

(** body of the first loop of [options] *)
Definition options_opt (opt : marg) : res (list line) :=
  let header0 :=
    match a_short opt, a_long opt with
    | Some short, Some long => [Bold (dash ++ short); Roman opt_comma; Bold (dashdash ++ long)]
    | Some short, None => [Bold (dash ++ short)]
    | None, Some long => [Bold (dashdash ++ long)]
    | None, None => []
    end in
  match a_num_args opt with
  | None => Panic NumArgsNotBuilt
  | Some na =>
      let header1 := header0 ++
        (if takes_values na then
           match a_value_names opt with
           | [] => []
           | v => [Roman opt_eq; Italic (intercalate vn_sep v)]
           end
         else []) in
      bind (option_default_values opt) (fun defs =>
        let header := header1 ++ match defs with Some d => [Roman [32]; Roman d] | None => [] end in
        let (body, written) := help_body opt in
        Ok ([Control rq_TP []; Text header; Text body]
            ++ possible_options opt written
            ++ env_lines opt))
  end.

(** body of the second loop of [options] *)
Definition options_pos (pos : marg) : res (list line) :=
  let (lhs, rhs) := option_markers pos in
  let header0 := [Roman lhs; Italic (pos_name pos); Roman rhs] in
  bind (option_default_values pos) (fun defs =>
    let header := header0 ++ match defs with Some d => [Roman (32 :: d)] | None => [] end in
    let (body, written) := help_body pos in
    Ok ([Control rq_TP []; Text header; Text body]
        ++ env_lines pos
        ++ possible_options pos written)).

Definition options (items : list marg) : res (list line) :=
  bind (concat_res options_opt (filter (fun a => negb (is_positional a)) items)) (fun o =>
  bind (concat_res options_pos (filter is_positional items)) (fun p =>
  Ok (o ++ p))).

Definition sub_visible (s : msub) : bool := negb (s_hide s).

Definition subcommands (c : mcmd) (section : bytes) : list line :=
  flat_map (fun sub =>
    [Control rq_TP [];
     Text [Roman (display_or_name c ++ dash ++ s_name sub ++ lparen ++ section ++ rparen)]]
    ++ match or_else (s_about sub) (s_long_about sub) with
       | Some a => map (fun l => Text [Roman l]) (lines a)
       | None => []
       end) (filter sub_visible (c_subs c)).

Definition version (c : mcmd) : res bytes :=
  match or_else (c_long_version c) (c_version c) with
  | Some v => Ok (ver_prefix ++ v)
  | None => Panic VersionUnwrap
  end.

Definition after_help (c : mcmd) : list line :=
  match or_else (c_after_long_help c) (c_after_help c) with
  | Some a => map (fun l => Text [Roman l]) (lines a)
  | None => []
  end.

(** * lib.rs *)

Definition app_has_version (c : mcmd) : bool := is_some (or_else (c_version c) (c_long_version c)).
Definition app_has_arguments (c : mcmd) : bool := existsb visible (c_args c).
Definition app_has_subcommands (c : mcmd) : bool := existsb sub_visible (c_subs c).

(** Man::new on a built command *)
Definition man_new (c : mcmd) : mman :=
  {| m_cmd := c;
     m_title := display_or_name c;
     m_sect := m_section;
     m_dat := m_date;
     m_source := c_name c ++ [32] ++ unwrap_or_default (c_version c);
     m_manu := m_manual |}.

(** fn control_arg: author-supplied text placed into a control line has its line breaks replaced by a
    space (added by the repair of defect I, see docs/notes/C19.md). *)
Definition control_arg (s : bytes) : bytes := replace control_arg_rule s.

Definition title_args (m : mman) : list bytes :=
  map control_arg [m_title m; m_sect m; m_dat m; m_source m; m_manu m].

Definition render_title (m : mman) : list line := [Control rq_TH (title_args m)].
Definition render_name_section (m : mman) : list line := Control rq_SH [h_NAME] :: about (m_cmd m).
Definition render_synopsis_section (m : mman) : list line := Control rq_SH [h_SYNOPSIS] :: synopsis (m_cmd m).
Definition render_description_section (m : mman) : list line :=
  Control rq_SH [h_DESCRIPTION] :: description (m_cmd m).

Definition filter_map {A B} (f : A -> option B) (l : list A) : list B :=
  flat_map (fun x => match f x with Some y => [y] | None => [] end) l.

Definition help_headings (vis : list marg) : list bytes :=
  fold_left (fun acc h => if existsb (beq h) acc then acc else acc ++ [h]) (filter_map a_heading vis) [].

(** the [for heading in help_headings] loop with its shrinking [args_with_heading] *)
Fixpoint heading_sections (headings : list bytes) (args_with_heading : list marg) : res (list line) :=
  match headings with
  | [] => Ok []
  | heading :: hs =>
      let (args, rest) := partition (fun a => opt_beq (a_heading a) (Some heading)) args_with_heading in
      bind (options args) (fun o =>
      bind (heading_sections hs rest) (fun r =>
      Ok (Control rq_SH [control_arg (to_uppercase heading)] :: o ++ r)))
  end.

Definition render_options_section (m : mman) : res (list line) :=
  let vis := filter visible (c_args (m_cmd m)) in
  let (args, args_with_heading) := partition (fun a => negb (is_some (a_heading a))) vis in
  bind (match args with
        | [] => Ok []
        | _ => bind (options args) (fun o => Ok (Control rq_SH [h_OPTIONS] :: o))
        end) (fun s0 =>
  bind (heading_sections (help_headings vis) args_with_heading) (fun s1 =>
  Ok (s0 ++ s1))).

Definition render_subcommands_section (m : mman) : list line :=
  Control rq_SH [control_arg (subcommand_heading (m_cmd m))] :: subcommands (m_cmd m) (m_sect m).

Definition render_extra_section (m : mman) : list line := Control rq_SH [h_EXTRA] :: after_help (m_cmd m).

Definition render_version_section (m : mman) : res (list line) :=
  bind (version (m_cmd m)) (fun v => Ok [Control rq_SH [h_VERSION]; Text [Roman v]]).

Definition render_authors_section (m : mman) : list line :=
  [Control rq_SH [h_AUTHORS]; Text [Roman (unwrap_or_default (c_author (m_cmd m)))]].

(** Man::render: the roff document *)
Definition man_doc (m : mman) : res roff :=
  let c := m_cmd m in
  bind (if app_has_arguments c then render_options_section m else Ok []) (fun opts =>
  bind (if app_has_version c then render_version_section m else Ok []) (fun vers =>
  Ok (render_title m
      ++ render_name_section m
      ++ render_synopsis_section m
      ++ render_description_section m
      ++ opts
      ++ (if app_has_subcommands c then render_subcommands_section m else [])
      ++ (if is_some (c_after_long_help c) || is_some (c_after_help c) then render_extra_section m else [])
      ++ vers
      ++ (if is_some (c_author c) then render_authors_section m else [])))).

(** Man::render: the bytes written *)
Definition man_render (m : mman) : res bytes := bind (man_doc m) (fun d => Ok (to_writer d)).

(** * The part of Command::build the view depends on *)

Definition default_num_args (a : maction) : N * option N :=
  match a with
  | ASet | AAppend => (1, Some 1)
  | _ => (0, Some 0)
  end.

Definition action_default_value (a : maction) : option bytes :=
  match a with
  | ASetTrue => Some [102; 97; 108; 115; 101]   (* false *)
  | ASetFalse => Some [116; 114; 117; 101]      (* true *)
  | ACount => Some [48]                         (* 0 *)
  | _ => None
  end.

(** Arg::_build (the action is explicit in the spec) *)
Definition arg_build (a : marg) : marg :=
  let defaults := match action_default_value (a_action a) with
                  | Some d => match a_defaults a with [] => [d] | l => l end
                  | None => a_defaults a
                  end in
  let n := N.of_nat (length (a_value_names a)) in
  let na := match a_num_args a with
            | Some x => x
            | None => if 1 <? n then (n, Some n) else default_num_args (a_action a)
            end in
  {| a_id := a_id a; a_short := a_short a; a_long := a_long a; a_action := a_action a;
     a_num_args := Some na; a_value_names := a_value_names a; a_help := a_help a;
     a_long_help := a_long_help a; a_hide := a_hide a; a_hide_short_help := a_hide_short_help a;
     a_hide_long_help := a_hide_long_help a; a_hide_env := a_hide_env a;
     a_hide_default := a_hide_default a; a_hide_pvs := a_hide_pvs a; a_required := a_required a;
     a_defaults := defaults; a_env := a_env a; a_pvs := a_pvs a; a_heading := a_heading a |}.

(** Command::long_help_exists_ (evaluated before the arguments are built) *)
Definition should_long (v : marg) : bool :=
  negb (a_hide v)
  && (is_some (a_long_help v) || a_hide_long_help v || a_hide_short_help v
      || (negb (a_hide_pvs v)
          && existsb (fun p => negb (pv_hide p) && is_some (pv_help p)) (get_possible_values_arg v))).

Definition long_help_exists (c : mcmd) : bool :=
  is_some (c_long_about c) || is_some (c_before_long_help c) || is_some (c_after_long_help c)
  || existsb should_long (c_args c).

Definition plain_arg (id : bytes) (short long : bytes) (act : maction) (help : bytes) (long_help : option bytes) : marg :=
  {| a_id := id; a_short := Some short; a_long := Some long; a_action := act; a_num_args := None;
     a_value_names := []; a_help := Some help; a_long_help := long_help; a_hide := false;
     a_hide_short_help := false; a_hide_long_help := false; a_hide_env := false;
     a_hide_default := false; a_hide_pvs := false; a_required := false; a_defaults := [];
     a_env := None; a_pvs := []; a_heading := None |}.

(** Command::_check_help_and_version + the [a._build()] loop of _build_self *)
Definition mbuild (c : mcmd) : mcmd :=
  let help_arg :=
    if c_no_help_flag c then []
    else if long_help_exists c
         then [plain_arg id_help help_short help_long AHelp help_help_long_exists (Some help_long_help)]
         else [plain_arg id_help help_short help_long AHelp help_help None] in
  let version_arg :=
    if c_no_version_flag c || (negb (is_some (c_version c)) && negb (is_some (c_long_version c))) then []
    else [plain_arg id_version version_short version_long AVersion version_help None] in
  let help_sub :=
    if c_no_help_sub c || match c_subs c with [] => true | _ => false end then []
    else [{| s_name := help_sub_name; s_about := Some help_sub_about; s_long_about := None; s_hide := false |}] in
  {| c_name := c_name c; c_display_name := c_display_name c; c_bin_name := c_bin_name c;
     c_version := c_version c; c_long_version := c_long_version c; c_author := c_author c;
     c_about := c_about c; c_long_about := c_long_about c; c_after_help := c_after_help c;
     c_after_long_help := c_after_long_help c; c_before_long_help := c_before_long_help c;
     c_sub_heading := c_sub_heading c; c_sub_value_name := c_sub_value_name c;
     c_sub_required := c_sub_required c; c_no_help_flag := c_no_help_flag c;
     c_no_version_flag := c_no_version_flag c; c_no_help_sub := c_no_help_sub c;
     c_args := map arg_build (c_args c ++ help_arg ++ version_arg);
     c_subs := c_subs c ++ help_sub |}.

(** Optional overrides of the Man builder ([title], [section], [date], [source], [manual]). *)
Record moverrides := {
  o_title : option bytes; o_section : option bytes; o_date : option bytes;
  o_source : option bytes; o_manual : option bytes
}.

Definition apply_overrides (o : moverrides) (m : mman) : mman :=
  let pick (x : option bytes) (d : bytes) := match x with Some v => v | None => d end in
  {| m_cmd := m_cmd m;
     m_title := pick (o_title o) (m_title m);
     m_sect := pick (o_section o) (m_sect m);
     m_dat := pick (o_date o) (m_dat m);
     m_source := pick (o_source o) (m_source m);
     m_manu := pick (o_manual o) (m_manu m) |}.

(** The whole pipeline the harness runs: Man::new(cmd) (which builds), overrides, render. *)
Definition man_page (c : mcmd) (o : moverrides) : res bytes :=
  man_render (apply_overrides o (man_new (mbuild c))).
