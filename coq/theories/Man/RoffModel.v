(** Model of the vendored [roff] crate (0.2.1), src/lib.rs: a document is a list of lines, each a
    control line (request name + arguments) or a text line (list of inlines); [Line::render] with
    its escaping.  One Gallina function per Rust function, same branch structure.  Strings are
    UTF-8 byte lists; every pattern the crate replaces is ASCII, so byte-level replacement equals
    [str::replace].  The constants (escape chains, preamble, font escapes) are regenerated from the
    crate's source on every run ([Gen/RoffTables.v]). *)
From ClapModel Require Import Base.Bytes Gen.RoffTables.
Open Scope N_scope.

(** enum Inline *)
Inductive inline :=
| Roman (s : bytes)
| Italic (s : bytes)
| Bold (s : bytes)
| LineBreak.

(** enum Line *)
Inductive line :=
| Control (name : bytes) (args : list bytes)
| Text (parts : list inline).

(** struct Roff { lines } *)
Definition roff := list line.

(** [str::replace] for a one-byte pattern. *)
Fixpoint replace1 (a : N) (rep : bytes) (s : bytes) : bytes :=
  match s with
  | [] => []
  | c :: t => if c =? a then rep ++ replace1 a rep t else c :: replace1 a rep t
  end.

(** [str::replace] for a two-byte pattern: non-overlapping matches, left to right. *)
Fixpoint replace2 (a b : N) (rep : bytes) (s : bytes) : bytes :=
  match s with
  | [] => []
  | c :: t =>
      if c =? a then
        match t with
        | d :: t' => if d =? b then rep ++ replace2 a b rep t' else c :: replace2 a b rep t
        | [] => [c]
        end
      else c :: replace2 a b rep t
  end.

(** [str::replace(pat, rep)] for the pattern lengths that occur in the crate (the table generator
    refuses any other length). *)
Definition replace (rule : bytes * bytes) (s : bytes) : bytes :=
  match fst rule with
  | [a] => replace1 a (snd rule) s
  | [a; b] => replace2 a b (snd rule) s
  | _ => s
  end.

(** [s.replace(p1, r1).replace(p2, r2)...] *)
Definition replace_chain (rules : list (bytes * bytes)) (s : bytes) : bytes :=
  fold_left (fun acc r => replace r acc) rules s.

(** fn starts_with_cc *)
Definition is_cc (c : N) : bool := existsb (N.eqb c) cc_chars.
Definition starts_with_cc (s : bytes) : bool :=
  match s with
  | c :: _ => is_cc c
  | [] => false
  end.

(** fn escape_spaces *)
Definition escape_spaces (w : bytes) : bytes :=
  if existsb (N.eqb 32) w then [34] ++ w ++ [34] else w.

(** fn escape_leading_cc / escape_inline / escape_apostrophes *)
Definition escape_leading_cc (s : bytes) : bytes := replace_chain leading_cc_rules s.
Definition escape_inline (s : bytes) : bytes := replace_chain inline_rules s.
Definition escape_apostrophes (s : bytes) : bytes := replace_chain apostrophe_rules s.

(** The three escapes in the order of [Line::render]; [handle] = [Apostrophes::Handle]. *)
Definition escape_text (handle : bool) (t : bytes) : bytes :=
  let text := escape_inline t in
  let text := if handle then escape_apostrophes text else text in
  escape_leading_cc text.

(** One inline of a text line; [at_line_start] is the crate's flag (true only for the first inline). *)
Definition render_inline (handle at_line_start : bool) (i : inline) : bytes :=
  match i with
  | LineBreak => if at_line_start then br_at_start else br_mid_line
  | Bold t => bold_open ++ escape_text handle t ++ font_close
  | Italic t => italic_open ++ escape_text handle t ++ font_close
  | Roman t =>
      let text := escape_text handle t in
      (if at_line_start && starts_with_cc text then cc_guard else []) ++ text
  end.

Fixpoint render_inlines (handle at_line_start : bool) (l : list inline) : bytes :=
  match l with
  | [] => []
  | i :: r => render_inline handle at_line_start i ++ render_inlines handle false r
  end.

(** The part of a control line after the request name. *)
Definition render_args (args : list bytes) : bytes :=
  flat_map (fun a => 32 :: escape_spaces a) args.

(** fn Line::render (without the final newline) *)
Definition render_body (handle : bool) (l : line) : bytes :=
  match l with
  | Control name args => 46 :: name ++ render_args args
  | Text inlines => render_inlines handle true inlines
  end.

Definition render_line (handle : bool) (l : line) : bytes := render_body handle l ++ [10].

(** fn Roff::to_writer (= render): preamble, then every line with apostrophe handling. *)
Definition to_writer (r : roff) : bytes := preamble ++ flat_map (render_line true) r.

(** fn Roff::to_roff: no preamble, apostrophes not handled. *)
Definition to_roff (r : roff) : bytes := flat_map (render_line false) r.

(** * Reading the output back: physical lines and control lines

    A roff processor treats a line as a request exactly when its first character is a control
    character.  [split_lines] cuts at every newline (the piece after the last newline included). *)
Fixpoint split_lines (s : bytes) : list bytes :=
  match s with
  | [] => [[]]
  | c :: t =>
      if c =? 10 then [] :: split_lines t
      else match split_lines t with
           | l :: r => (c :: l) :: r
           | [] => [[c]]
           end
  end.

Definition control_lines (out : bytes) : list bytes := filter starts_with_cc (split_lines out).

(** What the generator itself contributes as control lines: one per [Control] element, one [.br]
    per [LineBreak]. *)
Definition is_break (i : inline) : bool := match i with LineBreak => true | _ => false end.
Definition br_line : bytes := removelast br_at_start.

Definition own_controls (l : line) : list bytes :=
  match l with
  | Control name args => [46 :: name ++ render_args args]
  | Text inlines => map (fun _ => br_line) (filter is_break inlines)
  end.

Definition preamble_controls : list bytes := control_lines preamble.
