(** Proofs about the clap_mangen model: every document [man_doc] builds is "fine" -- each text line
    satisfies the roff criterion [line_ok], each control line is one of the generator's fixed
    requests with single-line arguments -- for EVERY command and EVERY string in every slot; hence
    the control lines of the page are exactly the generator's own ([page_control_lines]).
    Totality ([man_page_total]), listing of visible items, independence of hidden items. *)
From ClapModel Require Import Base.Bytes Gen.RoffTables Gen.ManTables Man.RoffModel Man.RoffProofs Man.ManModel.
Open Scope N_scope.

Lemma Ok_inj {A} (a b : A) : Ok a = Ok b -> a = b.
Proof. intros H. injection H. tauto. Qed.

(** * Composition of text-line pieces *)

(** worst case for a piece in the middle of a line: no guard, possibly at a line start *)
Definition worst (l : list inline) : bool := line_ok true false true l.

Lemma line_ok_mono l : forall f q, worst l = true -> line_ok true f q l = true.
Proof.
  unfold worst. destruct l as [|i r]; intros f q H; [reflexivity|].
  destruct i; cbn [line_ok] in *; try exact H.
  apply andb_true_iff in H. destruct H as [H1 H2]. rewrite H2, andb_true_r.
  cbn [orb negb] in H1. rewrite H1. apply orb_true_r.
Qed.

Lemma line_ok_app a : forall f q b, line_ok true f q a = true -> worst b = true -> line_ok true f q (a ++ b) = true.
Proof.
  induction a as [|i a IH]; intros f q b Ha Hb; cbn [app]; [apply line_ok_mono; exact Hb|].
  destruct i; cbn [line_ok] in *; try (apply IH; assumption).
  apply andb_true_iff in Ha. destruct Ha as [H1 H2]. rewrite H1. cbn [andb]. apply IH; assumption.
Qed.

Lemma worst_app a b : worst a = true -> worst b = true -> worst (a ++ b) = true.
Proof. unfold worst at 1 3. intros. apply line_ok_app; assumption. Qed.

Lemma worst_flat_map {A} (f : A -> list inline) l : (forall x, worst (f x) = true) -> worst (flat_map f l) = true.
Proof.
  intros H. induction l as [|x l IH]; [reflexivity|]. cbn [flat_map]. apply worst_app; [apply H|exact IH].
Qed.

(** a roman literal in the middle of a line *)
Lemma worst_roman t r :
  starts_with_cc (escape_text true t) = false ->
  line_ok true false (end_state true (escape_text true t)) r = true ->
  worst (Roman t :: r) = true.
Proof. intros H1 H2. unfold worst. cbn [line_ok]. rewrite H1, H2. reflexivity. Qed.

(** * Fine documents *)

Fixpoint args_beq (a b : list bytes) : bool :=
  match a, b with
  | [], [] => true
  | x :: a', y :: b' => beq x y && args_beq a' b'
  | _, _ => false
  end.

(** the requests whose arguments are fixed by the generator *)
Definition fixed_controls : list (bytes * list bytes) :=
  [(rq_PP, []); (rq_TP, []); (rq_RS, []); (rq_RS, [rs_indent]); (rq_RE, []); (rq_IP, [ip_bullet; ip_width])].

(** the requests that carry author-supplied arguments *)
Definition user_arg_requests : list bytes := [rq_TH; rq_SH].

Definition ctl_fixed (name : bytes) (args : list bytes) : bool :=
  existsb (beq name) user_arg_requests
  || existsb (fun p => beq name (fst p) && args_beq args (snd p)) fixed_controls.

Definition line_fine (l : line) : bool :=
  line_good l && match l with Control n a => ctl_fixed n a | Text _ => true end.

Definition doc_fine (d : roff) : bool := forallb line_fine d.

Lemma doc_fine_app a b : doc_fine (a ++ b) = doc_fine a && doc_fine b.
Proof. apply forallb_app. Qed.

Lemma doc_fine_cons l d : doc_fine (l :: d) = line_fine l && doc_fine d.
Proof. reflexivity. Qed.

Lemma doc_fine_flat_map {A} (f : A -> roff) l : (forall x, doc_fine (f x) = true) -> doc_fine (flat_map f l) = true.
Proof.
  intros H. induction l as [|x l IH]; [reflexivity|]. cbn [flat_map]. rewrite doc_fine_app, H, IH. reflexivity.
Qed.

Lemma doc_fine_map {A} (f : A -> line) l : (forall x, line_fine (f x) = true) -> doc_fine (map f l) = true.
Proof.
  intros H. induction l as [|x l IH]; [reflexivity|]. cbn [map]. rewrite doc_fine_cons, H, IH. reflexivity.
Qed.

Lemma doc_fine_good d : doc_fine d = true -> doc_good d = true.
Proof.
  induction d as [|l d IH]; [reflexivity|]. rewrite doc_fine_cons. cbn [doc_good forallb].
  intros H. apply andb_true_iff in H. destruct H as [H1 H2].
  unfold line_fine in H1. apply andb_true_iff in H1. destruct H1 as [H1 _].
  rewrite H1. cbn [andb]. apply IH. exact H2.
Qed.

Lemma single_roman_fine s : line_fine (Text [Roman s]) = true.
Proof. reflexivity. Qed.

Lemma text_fine l : line_ok true true true l = true -> line_fine (Text l) = true.
Proof. intros H. unfold line_fine, line_good. rewrite H. reflexivity. Qed.

Lemma text_fine_worst l : worst l = true -> line_fine (Text l) = true.
Proof. intros H. apply text_fine. apply line_ok_mono. exact H. Qed.

(** * control_arg *)

Lemma no_nl_replace1 s : no_nl (replace1 10 [32] s) = true.
Proof.
  induction s as [|c s IH]; [reflexivity|]. cbn [replace1].
  destruct (c =? 10) eqn:E; cbn [app no_nl forallb]; [exact IH|].
  rewrite E. exact IH.
Qed.

Lemma control_arg_clean s : no_nl (control_arg s) = true.
Proof. unfold control_arg, control_arg_rule, replace. cbn [fst snd]. apply no_nl_replace1. Qed.

Lemma user_sh_fine h : line_fine (Control rq_SH [control_arg h]) = true.
Proof.
  unfold line_fine, line_good, ctl_clean. cbn [forallb]. rewrite control_arg_clean. reflexivity.
Qed.

(** * render.rs *)

Lemma about_fine c : doc_fine (about c) = true.
Proof. reflexivity. Qed.

Lemma description_fine c : doc_fine (description c) = true.
Proof.
  unfold description. destruct (or_else (c_long_about c) (c_about c)); [|reflexivity].
  apply doc_fine_map. intros x. destruct (is_blank x); reflexivity.
Qed.

Lemma markers_lit req : let (l, r) := markers req in
  starts_with_cc (escape_text true l) = false /\ end_state true (escape_text true l) = false
  /\ starts_with_cc (escape_text true r) = false /\ end_state true (escape_text true r) = false.
Proof. destruct req; cbn; repeat split; reflexivity. Qed.

Lemma synopsis_opt_worst opt : worst (synopsis_opt opt) = true.
Proof.
  unfold synopsis_opt, option_markers.
  pose proof (markers_lit (a_required opt)) as M.
  destruct (markers (a_required opt)) as [lhs rhs]. destruct M as (L1 & L2 & R1 & R2).
  assert (forall X, line_ok true false false X = true -> worst (Roman rhs :: X) = true) as Hr.
  { intros X HX. apply worst_roman; [exact R1|]. rewrite R2. exact HX. }
  assert (line_ok true false false ((if is_count opt then [Roman syn_dots] else []) ++ [Roman syn_space]) = true) as Ht
    by (destruct (is_count opt); reflexivity).
  set (tail := (if is_count opt then [Roman syn_dots] else []) ++ [Roman syn_space]) in *.
  assert (forall t, line_ok true false false (Bold t :: Roman rhs :: tail) = true) as Hb.
  { intros t. change (line_ok true false false (Roman rhs :: tail) = true). apply line_ok_mono, Hr, Ht. }
  destruct (a_short opt) as [sh|], (a_long opt) as [lo|]; try reflexivity;
    (apply worst_roman; [exact L1|]; rewrite L2).
  - change (line_ok true false (end_state true (escape_text true syn_bar))
              (Bold (dashdash ++ lo) :: Roman rhs :: tail) = true).
    change (line_ok true false false (Roman rhs :: tail) = true). apply line_ok_mono, Hr, Ht.
  - apply Hb.
  - apply Hb.
Qed.

Lemma synopsis_pos_worst a : worst (synopsis_pos a) = true.
Proof.
  unfold synopsis_pos, option_markers.
  pose proof (markers_lit (a_required a)) as M.
  destruct (markers (a_required a)) as [lhs rhs]. destruct M as (L1 & L2 & R1 & R2).
  apply worst_roman; [exact L1|]. rewrite L2.
  change (line_ok true false false [Roman rhs; Roman syn_space] = true).
  apply line_ok_mono. apply worst_roman; [exact R1|]. rewrite R2. reflexivity.
Qed.

Lemma synopsis_sub_worst c : worst (synopsis_sub c) = true.
Proof.
  unfold synopsis_sub, subcommand_markers. destruct (c_subs c); [reflexivity|].
  pose proof (markers_lit (c_sub_required c)) as M.
  destruct (markers (c_sub_required c)) as [lhs rhs]. destruct M as (L1 & L2 & R1 & R2).
  apply worst_roman; [exact L1|]. rewrite L2.
  match goal with |- line_ok _ _ _ (Italic ?x :: ?r) = true => change (line_ok true false false r = true) end.
  apply line_ok_mono. apply worst_roman; [exact R1|]. reflexivity.
Qed.

Lemma synopsis_fine c : doc_fine (synopsis c) = true.
Proof.
  unfold synopsis. rewrite doc_fine_cons, andb_true_r. apply text_fine.
  change (line_ok true true true (Bold (match c_bin_name c with Some b => b | None => c_name c end) ::
            ([Roman syn_space] ++ flat_map synopsis_opt (filter visible (c_args c))
              ++ flat_map synopsis_pos (synopsis_positionals c) ++ synopsis_sub c)) = true).
  cbn [line_ok]. apply line_ok_mono.
  apply worst_app; [reflexivity|].
  apply worst_app; [apply worst_flat_map, synopsis_opt_worst|].
  apply worst_app; [apply worst_flat_map, synopsis_pos_worst|apply synopsis_sub_worst].
Qed.

Lemma possible_options_fine a w : doc_fine (possible_options a w) = true.
Proof.
  unfold possible_options. destruct (get_possible_values a) as [[text with_help]|]; [|reflexivity].
  rewrite doc_fine_app. apply andb_true_iff. split; [destruct w; reflexivity|].
  destruct with_help.
  - rewrite !doc_fine_app. rewrite doc_fine_flat_map by (intros x; reflexivity). reflexivity.
  - rewrite doc_fine_cons, andb_true_r. apply text_fine.
    cbn [line_ok orb negb andb].
    change (line_ok true false (end_state true (escape_text true pv_open))
              [Italic pv_label; Roman (intercalate pv_sep text); Roman pv_close] = true).
    cbn [line_ok orb negb andb].
    replace (starts_with_cc (escape_text true pv_close)) with false by reflexivity.
    cbn [negb]. rewrite orb_true_r. reflexivity.
Qed.

Lemma env_lines_fine a : doc_fine (env_lines a) = true.
Proof.
  unfold env_lines, option_environment. destruct (a_hide_env a); [reflexivity|].
  destruct (a_env a); reflexivity.
Qed.

Lemma help_body_fine a : line_fine (Text (fst (help_body a))) = true.
Proof. unfold help_body. destruct (option_help a); reflexivity. Qed.

Lemma defs_opt_worst d : worst [Roman [32]; Roman d] = true.
Proof. reflexivity. Qed.

Lemma options_opt_fine opt d : options_opt opt = Ok d -> doc_fine d = true.
Proof.
  unfold options_opt. destruct (a_num_args opt) as [na|] eqn:En; [|discriminate].
  unfold option_default_values. rewrite En.
  set (header0 := match a_short opt, a_long opt with
                  | Some short, Some long => [Bold (dash ++ short); Roman opt_comma; Bold (dashdash ++ long)]
                  | Some short, None => [Bold (dash ++ short)]
                  | None, Some long => [Bold (dashdash ++ long)]
                  | None, None => []
                  end).
  assert (worst header0 = true) as H0 by (subst header0; destruct (a_short opt), (a_long opt); reflexivity).
  set (vn := if takes_values na then match a_value_names opt with [] => [] | v => [Roman opt_eq; Italic (intercalate vn_sep v)] end else []).
  assert (worst vn = true) as H1 by (subst vn; destruct (takes_values na); [destruct (a_value_names opt)|]; reflexivity).
  assert (forall defs : option bytes, worst (match defs with Some d => [Roman [32]; Roman d] | None => [] end) = true) as H2
    by (intros [x|]; reflexivity).
  assert (forall defs d,
    (let header := (header0 ++ vn) ++ match defs with Some d => [Roman [32]; Roman d] | None => [] end in
     let (body, written) := help_body opt in
     Ok ([Control rq_TP []; Text header; Text body] ++ possible_options opt written ++ env_lines opt)) = Ok d ->
    doc_fine d = true) as Hfin.
  { intros defs d0. cbv zeta. pose proof (help_body_fine opt) as Hb.
    destruct (help_body opt) as [body written]. cbn [fst] in Hb.
    intros E. inversion E; subst d0; clear E.
    cbn [app]. rewrite !doc_fine_cons, doc_fine_app, possible_options_fine, env_lines_fine, Hb.
    rewrite text_fine_worst by (apply worst_app; [apply worst_app; assumption|apply H2]).
    reflexivity. }
  destruct (a_hide_default opt || negb (takes_values na)); cbn [bind]; [apply (Hfin None)|].
  destruct (a_defaults opt); cbn [bind]; [apply (Hfin None)|apply (Hfin (Some _))].
Qed.

Lemma options_pos_fine pos d : options_pos pos = Ok d -> doc_fine d = true.
Proof.
  unfold options_pos, option_markers.
  pose proof (markers_lit (a_required pos)) as M.
  destruct (markers (a_required pos)) as [lhs rhs]. destruct M as (L1 & L2 & R1 & R2).
  assert (forall defs : option bytes,
            worst ([Roman lhs; Italic (pos_name pos); Roman rhs] ++ match defs with Some d => [Roman (32 :: d)] | None => [] end) = true) as Hh.
  { intros defs. apply worst_roman; [exact L1|]. rewrite L2. cbn [app].
    match goal with |- line_ok _ _ _ (Italic ?x :: ?r) = true => change (line_ok true false false r = true) end.
    apply line_ok_mono. apply worst_roman; [exact R1|]. rewrite R2. destruct defs; reflexivity. }
  assert (forall defs d,
    (let header := [Roman lhs; Italic (pos_name pos); Roman rhs] ++ match defs with Some d => [Roman (32 :: d)] | None => [] end in
     let (body, written) := help_body pos in
     Ok ([Control rq_TP []; Text header; Text body] ++ env_lines pos ++ possible_options pos written)) = Ok d ->
    doc_fine d = true) as Hfin.
  { intros defs d0. cbv zeta. pose proof (help_body_fine pos) as Hb.
    destruct (help_body pos) as [body written]. cbn [fst] in Hb.
    intros E. inversion E; subst d0; clear E.
    cbn [app]. rewrite !doc_fine_cons, doc_fine_app, possible_options_fine, env_lines_fine, Hb.
    rewrite text_fine_worst by apply Hh. reflexivity. }
  unfold option_default_values. destruct (a_num_args pos) as [na|]; [|discriminate].
  destruct (a_hide_default pos || negb (takes_values na)); cbn [bind]; [apply (Hfin None)|].
  destruct (a_defaults pos); cbn [bind]; [apply (Hfin None)|apply (Hfin (Some _))].
Qed.

Lemma map_res_ok {A B} (f : A -> res B) l ys : map_res f l = Ok ys -> Forall2 (fun x y => f x = Ok y) l ys.
Proof.
  revert ys. induction l as [|x l IH]; intros ys H; cbn [map_res] in H.
  - inversion H. constructor.
  - destruct (f x) as [y|] eqn:E; [|cbn [bind]; discriminate]. cbn [bind] in H.
    destruct (map_res f l) as [ys'|]; [|discriminate]. cbn [bind] in H. inversion H; subst.
    constructor; [exact E|apply IH; reflexivity].
Qed.

Lemma concat_res_fine {A} (f : A -> res (list line)) l d :
  (forall x y, f x = Ok y -> doc_fine y = true) -> concat_res f l = Ok d -> doc_fine d = true.
Proof.
  intros Hf. unfold concat_res. destruct (map_res f l) as [ys|] eqn:E; [|cbn [bind]; discriminate].
  cbn [bind]. intros H. inversion H; subst d; clear H.
  apply map_res_ok in E. induction E as [|x y l ys Hxy _ IH]; [reflexivity|].
  cbn [concat]. rewrite doc_fine_app, (Hf _ _ Hxy), IH. reflexivity.
Qed.

Lemma options_fine items d : options items = Ok d -> doc_fine d = true.
Proof.
  unfold options.
  destruct (concat_res options_opt _) as [o|] eqn:Eo; [|cbn [bind]; discriminate]. cbn [bind].
  destruct (concat_res options_pos _) as [p|] eqn:Ep; [|cbn [bind]; discriminate]. cbn [bind].
  intros H. inversion H; subst d.
  rewrite doc_fine_app.
  rewrite (concat_res_fine _ _ _ options_opt_fine Eo), (concat_res_fine _ _ _ options_pos_fine Ep). reflexivity.
Qed.

Lemma lines_text_fine a : doc_fine (map (fun l => Text [Roman l]) (lines a)) = true.
Proof. apply doc_fine_map. intros; reflexivity. Qed.

Lemma subcommands_fine c sect : doc_fine (subcommands c sect) = true.
Proof.
  unfold subcommands. apply doc_fine_flat_map. intros sub.
  rewrite doc_fine_app. destruct (or_else (s_about sub) (s_long_about sub)); [|reflexivity].
  rewrite lines_text_fine. reflexivity.
Qed.

Lemma after_help_fine c : doc_fine (after_help c) = true.
Proof. unfold after_help. destruct (or_else _ _); [apply lines_text_fine|reflexivity]. Qed.

(** * lib.rs *)

Lemma render_title_fine m : doc_fine (render_title m) = true.
Proof.
  unfold render_title, title_args. rewrite doc_fine_cons, andb_true_r.
  unfold line_fine, line_good, ctl_clean. cbn [map forallb]. rewrite !control_arg_clean. reflexivity.
Qed.

Lemma heading_sections_fine hs : forall rest d, heading_sections hs rest = Ok d -> doc_fine d = true.
Proof.
  induction hs as [|h hs IH]; intros rest d; cbn [heading_sections].
  - intros H. inversion H. reflexivity.
  - destruct (partition _ rest) as [args rest'].
    destruct (options args) as [o|] eqn:Eo; [|cbn [bind]; discriminate]. cbn [bind].
    destruct (heading_sections hs rest') as [r|] eqn:Er; [|cbn [bind]; discriminate]. cbn [bind].
    intros H. inversion H; subst d.
    rewrite doc_fine_cons, doc_fine_app, user_sh_fine, (options_fine _ _ Eo), (IH _ _ Er). reflexivity.
Qed.

Lemma render_options_section_fine m d : render_options_section m = Ok d -> doc_fine d = true.
Proof.
  unfold render_options_section.
  destruct (partition _ _) as [args awh].
  destruct (match args with [] => Ok [] | _ :: _ => bind (options args) (fun o => Ok (Control rq_SH [h_OPTIONS] :: o)) end)
    as [s0|] eqn:E0; [|cbn [bind]; discriminate]. cbn [bind].
  destruct (heading_sections _ awh) as [s1|] eqn:E1; [|cbn [bind]; discriminate]. cbn [bind].
  intros H. inversion H; subst d. rewrite doc_fine_app, (heading_sections_fine _ _ _ E1), andb_true_r.
  destruct args as [|a args]; [inversion E0; reflexivity|].
  destruct (options (a :: args)) as [o|] eqn:Eo; [|discriminate]. cbn [bind] in E0. inversion E0; subst s0.
  rewrite doc_fine_cons, (options_fine _ _ Eo). reflexivity.
Qed.

Lemma render_version_section_fine m d : render_version_section m = Ok d -> doc_fine d = true.
Proof.
  unfold render_version_section. destruct (version (m_cmd m)); [|cbn [bind]; discriminate]. cbn [bind].
  intros H. inversion H. reflexivity.
Qed.

(** Every document the generator builds is fine: for every command, every string. *)
Theorem man_doc_fine m d : man_doc m = Ok d -> doc_fine d = true.
Proof.
  unfold man_doc.
  destruct (if app_has_arguments (m_cmd m) then render_options_section m else Ok []) as [opts|] eqn:Eo; [|discriminate].
  cbn [bind].
  destruct (if app_has_version (m_cmd m) then render_version_section m else Ok []) as [vers|] eqn:Ev; [|discriminate].
  cbn [bind]. intros H. apply Ok_inj in H. subst d.
  assert (doc_fine opts = true) as Ho.
  { destruct (app_has_arguments (m_cmd m)); [apply (render_options_section_fine _ _ Eo)|inversion Eo; reflexivity]. }
  assert (doc_fine vers = true) as Hv.
  { destruct (app_has_version (m_cmd m)); [apply (render_version_section_fine _ _ Ev)|inversion Ev; reflexivity]. }
  rewrite !doc_fine_app, render_title_fine, Ho, Hv.
  unfold render_name_section, render_synopsis_section, render_description_section.
  rewrite !doc_fine_cons, about_fine, synopsis_fine, description_fine.
  cbn [andb].
  repeat (apply andb_true_iff; split); try reflexivity.
  - destruct (app_has_subcommands (m_cmd m)); [|reflexivity].
    unfold render_subcommands_section. rewrite doc_fine_cons, user_sh_fine, subcommands_fine. reflexivity.
  - destruct (_ || _); [|reflexivity]. unfold render_extra_section. rewrite doc_fine_cons, after_help_fine. reflexivity.
  - destruct (is_some _); reflexivity.
Qed.

(** The control lines of the page are the preamble's and the generator's own, whatever the text. *)
Theorem page_control_lines m d :
  man_doc m = Ok d ->
  control_lines (to_writer d) = preamble_controls ++ flat_map own_controls d.
Proof. intros H. apply doc_control_lines, doc_fine_good, (man_doc_fine _ _ H). Qed.

(** * Totality: the expect/unwrap sites are unreachable for built commands *)

Definition built_arg (a : marg) : Prop := a_num_args a <> None.

Lemma map_res_total {A B} (f : A -> res B) l :
  Forall (fun x => exists y, f x = Ok y) l -> exists ys, map_res f l = Ok ys.
Proof.
  induction 1 as [|x l [y Hy] _ [ys Hys]]; [exists []; reflexivity|].
  exists (y :: ys). cbn [map_res]. rewrite Hy. cbn [bind]. rewrite Hys. reflexivity.
Qed.

Lemma concat_res_total {A B} (f : A -> res (list B)) l :
  Forall (fun x => exists y, f x = Ok y) l -> exists d, concat_res f l = Ok d.
Proof.
  intros H. destruct (map_res_total f l H) as [ys E]. unfold concat_res. rewrite E. eexists. reflexivity.
Qed.

Lemma option_default_values_total a : built_arg a -> exists r, option_default_values a = Ok r.
Proof.
  unfold built_arg, option_default_values. destruct (a_num_args a) as [na|]; [|congruence]. intros _.
  destruct (_ || _); [eexists; reflexivity|]. destruct (a_defaults a); eexists; reflexivity.
Qed.

Lemma options_opt_total a : built_arg a -> exists d, options_opt a = Ok d.
Proof.
  intros H. destruct (option_default_values_total a H) as [r E].
  unfold options_opt. rewrite E. unfold built_arg in H. destruct (a_num_args a); [|congruence].
  cbn [bind]. destruct (help_body a). eexists. reflexivity.
Qed.

Lemma options_pos_total a : built_arg a -> exists d, options_pos a = Ok d.
Proof.
  intros H. destruct (option_default_values_total a H) as [r E].
  unfold options_pos. destruct (option_markers a). rewrite E. cbn [bind]. destruct (help_body a). eexists. reflexivity.
Qed.

Lemma Forall_filter {A} (P : A -> Prop) f l : Forall P l -> Forall P (filter f l).
Proof. rewrite !Forall_forall. intros H x Hx. apply filter_In in Hx. apply H. tauto. Qed.

Lemma partition_as_filter {A} (f : A -> bool) l :
  partition f l = (filter f l, filter (fun x => negb (f x)) l).
Proof.
  induction l as [|x l IH]; [reflexivity|]. cbn [partition filter]. rewrite IH.
  destruct (f x); reflexivity.
Qed.

Lemma options_total items : Forall built_arg items -> exists d, options items = Ok d.
Proof.
  intros H. unfold options.
  destruct (concat_res_total options_opt (filter (fun a => negb (is_positional a)) items)) as [o Eo].
  { eapply Forall_impl; [|apply Forall_filter, H]. apply options_opt_total. }
  destruct (concat_res_total options_pos (filter is_positional items)) as [p Ep].
  { eapply Forall_impl; [|apply Forall_filter, H]. apply options_pos_total. }
  rewrite Eo, Ep. eexists. reflexivity.
Qed.

Lemma heading_sections_total hs : forall rest, Forall built_arg rest -> exists d, heading_sections hs rest = Ok d.
Proof.
  induction hs as [|h hs IH]; intros rest H; cbn [heading_sections]; [eexists; reflexivity|].
  rewrite partition_as_filter.
  destruct (options_total _ (Forall_filter _ (fun a => opt_beq (a_heading a) (Some h)) _ H)) as [o Eo].
  destruct (IH _ (Forall_filter _ (fun x => negb (opt_beq (a_heading x) (Some h))) _ H)) as [r Er].
  rewrite Eo. cbn [bind]. rewrite Er. eexists. reflexivity.
Qed.

Lemma render_options_section_total m :
  Forall built_arg (c_args (m_cmd m)) -> exists d, render_options_section m = Ok d.
Proof.
  intros H. unfold render_options_section. rewrite partition_as_filter.
  pose proof (Forall_filter _ visible _ H) as Hv.
  destruct (heading_sections_total (help_headings (filter visible (c_args (m_cmd m)))) _
              (Forall_filter _ (fun x => negb (negb (is_some (a_heading x)))) _ Hv)) as [s1 E1].
  destruct (filter (fun a => negb (is_some (a_heading a))) (filter visible (c_args (m_cmd m)))) as [|a0 args] eqn:Ea.
  - cbn [bind]. rewrite E1. eexists. reflexivity.
  - destruct (options_total (a0 :: args)) as [o Eo].
    { rewrite <- Ea. apply Forall_filter, Hv. }
    rewrite Eo. cbn [bind]. rewrite E1. eexists. reflexivity.
Qed.

Lemma render_version_section_total m :
  app_has_version (m_cmd m) = true -> exists d, render_version_section m = Ok d.
Proof.
  unfold app_has_version, render_version_section, version.
  destruct (c_version (m_cmd m)), (c_long_version (m_cmd m)); cbn; try discriminate; intros _; eexists; reflexivity.
Qed.

Lemma man_doc_total m : Forall built_arg (c_args (m_cmd m)) -> exists d, man_doc m = Ok d.
Proof.
  intros H. unfold man_doc.
  assert (exists opts, (if app_has_arguments (m_cmd m) then render_options_section m else Ok []) = Ok opts) as [opts Eo]
    by (destruct (app_has_arguments (m_cmd m)); [apply render_options_section_total, H|eexists; reflexivity]).
  assert (exists vers, (if app_has_version (m_cmd m) then render_version_section m else Ok []) = Ok vers) as [vers Ev]
    by (destruct (app_has_version (m_cmd m)) eqn:E; [apply render_version_section_total, E|eexists; reflexivity]).
  rewrite Eo. cbn [bind]. rewrite Ev. cbn [bind]. eexists. reflexivity.
Qed.

Lemma mbuild_built c : Forall built_arg (c_args (mbuild c)).
Proof.
  unfold mbuild. cbn [c_args]. apply Forall_forall. intros a Ha. apply in_map_iff in Ha.
  destruct Ha as [a0 [<- _]]. unfold built_arg, arg_build. cbn [a_num_args]. discriminate.
Qed.

(** Man::new(cmd).render never reaches an expect/unwrap: for every command and every override. *)
Theorem man_page_total c o : exists page, man_page c o = Ok page.
Proof.
  unfold man_page, man_render.
  destruct (man_doc_total (apply_overrides o (man_new (mbuild c)))) as [d E].
  { cbn [apply_overrides m_cmd man_new]. apply mbuild_built. }
  rewrite E. eexists. reflexivity.
Qed.

(** The sites are real: an argument that was not built, a version section without a version. *)
Example panic_sites_reachable_without_guards :
  (forall a, a_num_args a = None -> options_opt a = Panic NumArgsNotBuilt)
  /\ (forall c, c_version c = None -> c_long_version c = None -> version c = Panic VersionUnwrap).
Proof.
  split.
  - intros a H. unfold options_opt. rewrite H. reflexivity.
  - intros c H1 H2. unfold version. rewrite H1, H2. reflexivity.
Qed.

(** Every control element of a generated document is one of the generator's fixed requests: either
    [.TH]/[.SH] (whose arguments carry author text, confined to that one line) or a request whose
    arguments are literals of the generator. *)
Theorem man_doc_requests m d name args :
  man_doc m = Ok d -> In (Control name args) d -> ctl_fixed name args = true /\ ctl_clean name args = true.
Proof.
  intros H Hin. pose proof (man_doc_fine _ _ H) as Hf. unfold doc_fine in Hf.
  rewrite forallb_forall in Hf. specialize (Hf _ Hin). unfold line_fine, line_good in Hf.
  apply andb_true_iff in Hf. tauto.
Qed.

Theorem man_page_controls c o :
  exists d, man_doc (apply_overrides o (man_new (mbuild c))) = Ok d
            /\ man_page c o = Ok (to_writer d)
            /\ control_lines (to_writer d) = preamble_controls ++ flat_map own_controls d.
Proof.
  destruct (man_doc_total (apply_overrides o (man_new (mbuild c)))) as [d E].
  { cbn [apply_overrides m_cmd man_new]. apply mbuild_built. }
  exists d. split; [exact E|]. split.
  - unfold man_page, man_render. rewrite E. reflexivity.
  - apply (page_control_lines _ _ E).
Qed.

(** * Visible items are named, hidden ones contribute nothing *)

(** [occurs x s]: [x] is a contiguous part of [s]. *)
Definition occurs (x s : bytes) : Prop := exists a b, s = a ++ x ++ b.

Lemma occurs_app_l x s t : occurs x s -> occurs x (s ++ t).
Proof. intros (a & b & ->). exists a, (b ++ t). rewrite <- !app_assoc. reflexivity. Qed.
Lemma occurs_app_r x s t : occurs x t -> occurs x (s ++ t).
Proof. intros (a & b & ->). exists (s ++ a), b. rewrite <- !app_assoc. reflexivity. Qed.
Lemma occurs_refl x : occurs x x.
Proof. exists [], []. rewrite app_nil_r. reflexivity. Qed.

(** how a font inline reads on the page (it does not depend on the position in the line) *)
Definition shown (i : inline) : bytes := render_inline true false i.

Definition is_font (i : inline) : bool := match i with Bold _ | Italic _ => true | _ => false end.

Lemma render_inlines_occurs i l f : is_font i = true -> In i l -> occurs (shown i) (render_inlines true f l).
Proof.
  intros Hf. revert f. induction l as [|j l IH]; intros f Hin; [destruct Hin|].
  destruct Hin as [->|Hin]; cbn [render_inlines].
  - apply occurs_app_l. destruct i; try discriminate; apply occurs_refl.
  - apply occurs_app_r. apply IH. exact Hin.
Qed.

Lemma flat_map_occurs {A} (g : A -> bytes) l x y : In x l -> occurs y (g x) -> occurs y (flat_map g l).
Proof.
  induction l as [|z l IH]; intros Hin Ho; [destruct Hin|].
  destruct Hin as [->|Hin]; cbn [flat_map].
  - apply occurs_app_l, Ho.
  - apply occurs_app_r, IH; assumption.
Qed.

(** A font inline of a text line of the document reads on the page as [shown]. *)
Lemma page_shows d inl i :
  In (Text inl) d -> In i inl -> is_font i = true -> occurs (shown i) (to_writer d).
Proof.
  intros Hd Hi Hf. unfold to_writer. apply occurs_app_r.
  apply (flat_map_occurs (render_line true) d (Text inl)); [exact Hd|].
  unfold render_line. apply occurs_app_l. cbn [render_body]. apply render_inlines_occurs; assumption.
Qed.

(** A single-roman text line of the document reads on the page as its escaped text. *)
Lemma page_shows_roman_line d s :
  In (Text [Roman s]) d -> occurs (escape_text true s) (to_writer d).
Proof.
  intros Hd. unfold to_writer. apply occurs_app_r.
  apply (flat_map_occurs (render_line true) d (Text [Roman s])); [exact Hd|].
  unfold render_line. apply occurs_app_l. cbn [render_body render_inlines render_inline].
  rewrite app_nil_r. apply occurs_app_r, occurs_refl.
Qed.

(** the name under which a visible argument is listed in the SYNOPSIS *)
Definition arg_name_inline (a : marg) : inline :=
  match a_short a, a_long a with
  | _, Some long => Bold (dashdash ++ long)
  | Some short, None => Bold (dash ++ short ++ [32])
  | None, None => Italic (pos_name a)
  end.

Lemma synopsis_line_in m d :
  man_doc m = Ok d ->
  exists inl, In (Text inl) d
    /\ forall i, In i (flat_map synopsis_opt (filter visible (c_args (m_cmd m)))
                       ++ flat_map synopsis_pos (synopsis_positionals (m_cmd m))) -> In i inl.
Proof.
  unfold man_doc.
  destruct (if app_has_arguments (m_cmd m) then render_options_section m else Ok []) as [opts|]; [|cbn [bind]; discriminate].
  cbn [bind].
  destruct (if app_has_version (m_cmd m) then render_version_section m else Ok []) as [vers|]; [|cbn [bind]; discriminate].
  cbn [bind]. intros H. apply Ok_inj in H. subst d.
  unfold render_synopsis_section, synopsis.
  eexists. split.
  - apply in_or_app. right. apply in_or_app. right. apply in_or_app. left. right. left. reflexivity.
  - intros i Hi. apply in_or_app. right. rewrite app_assoc. apply in_or_app. left. exact Hi.
Qed.

Lemma arg_name_in_synopsis c a :
  In a (c_args c) -> a_hide a = false ->
  In (arg_name_inline a) (flat_map synopsis_opt (filter visible (c_args c)) ++ flat_map synopsis_pos (synopsis_positionals c)).
Proof.
  intros Hin Hv. unfold arg_name_inline.
  assert (In a (filter visible (c_args c))) as Hf by (apply filter_In; unfold visible; rewrite Hv; tauto).
  destruct (a_short a) as [sh|] eqn:Es, (a_long a) as [lo|] eqn:El.
  - apply in_or_app. left. apply in_flat_map. exists a. split; [exact Hf|].
    unfold synopsis_opt. rewrite Es, El. destruct (option_markers a). cbn. tauto.
  - apply in_or_app. left. apply in_flat_map. exists a. split; [exact Hf|].
    unfold synopsis_opt. rewrite Es, El. destruct (option_markers a). cbn. tauto.
  - apply in_or_app. left. apply in_flat_map. exists a. split; [exact Hf|].
    unfold synopsis_opt. rewrite Es, El. destruct (option_markers a). cbn. tauto.
  - apply in_or_app. right. apply in_flat_map. exists a. split.
    + unfold synopsis_positionals. apply filter_In. split; [|unfold visible; rewrite Hv; reflexivity].
      apply filter_In. split; [exact Hin|]. unfold is_positional. rewrite Es, El. reflexivity.
    + unfold synopsis_pos. destruct (option_markers a). cbn. tauto.
Qed.

(** Every visible option / positional is named on the page (in the SYNOPSIS line). *)
Theorem visible_arg_named m d a :
  man_doc m = Ok d -> In a (c_args (m_cmd m)) -> a_hide a = false ->
  occurs (shown (arg_name_inline a)) (to_writer d).
Proof.
  intros H Hin Hv. destruct (synopsis_line_in m d H) as (inl & Hd & Hall).
  apply (page_shows d inl); [exact Hd| |].
  - apply Hall. apply arg_name_in_synopsis; assumption.
  - unfold arg_name_inline. destruct (a_short a), (a_long a); reflexivity.
Qed.

(** the name under which a visible subcommand is listed *)
Definition sub_title (m : mman) (s : msub) : bytes :=
  display_or_name (m_cmd m) ++ dash ++ s_name s ++ lparen ++ m_sect m ++ rparen.

Lemma sub_line_in m d s :
  man_doc m = Ok d -> In s (c_subs (m_cmd m)) -> s_hide s = false -> In (Text [Roman (sub_title m s)]) d.
Proof.
  intros H Hin Hv. unfold man_doc in H.
  destruct (if app_has_arguments (m_cmd m) then render_options_section m else Ok []) as [opts|]; [|cbn [bind] in H; discriminate].
  cbn [bind] in H.
  destruct (if app_has_version (m_cmd m) then render_version_section m else Ok []) as [vers|]; [|cbn [bind] in H; discriminate].
  cbn [bind] in H. apply Ok_inj in H. subst d.
  assert (app_has_subcommands (m_cmd m) = true) as Hs.
  { unfold app_has_subcommands. apply existsb_exists. exists s. unfold sub_visible. rewrite Hv. tauto. }
  rewrite Hs.
  do 5 (apply in_or_app; right). apply in_or_app. left.
  unfold render_subcommands_section. right. unfold subcommands. apply in_flat_map.
  exists s. split; [apply filter_In; unfold sub_visible; rewrite Hv; tauto|].
  apply in_or_app. left. right. left. reflexivity.
Qed.

(** Every visible subcommand is named on the page (its own text line [name-sub(section)]). *)
Theorem visible_sub_named m d s :
  man_doc m = Ok d -> In s (c_subs (m_cmd m)) -> s_hide s = false ->
  occurs (escape_text true (sub_title m s)) (to_writer d).
Proof. intros H Hin Hv. apply page_shows_roman_line. apply (sub_line_in m d s H Hin Hv). Qed.

(** ** hidden items *)

Definition with_lists (c : mcmd) (args : list marg) (subs : list msub) : mcmd :=
  {| c_name := c_name c; c_display_name := c_display_name c; c_bin_name := c_bin_name c;
     c_version := c_version c; c_long_version := c_long_version c; c_author := c_author c;
     c_about := c_about c; c_long_about := c_long_about c; c_after_help := c_after_help c;
     c_after_long_help := c_after_long_help c; c_before_long_help := c_before_long_help c;
     c_sub_heading := c_sub_heading c; c_sub_value_name := c_sub_value_name c;
     c_sub_required := c_sub_required c; c_no_help_flag := c_no_help_flag c;
     c_no_version_flag := c_no_version_flag c; c_no_help_sub := c_no_help_sub c;
     c_args := args; c_subs := subs |}.

Definition with_cmd (m : mman) (c : mcmd) : mman :=
  {| m_cmd := c; m_title := m_title m; m_sect := m_sect m; m_dat := m_dat m;
     m_source := m_source m; m_manu := m_manu m |}.

Lemma filter_comm {A} (f g : A -> bool) l : filter f (filter g l) = filter g (filter f l).
Proof.
  induction l as [|x l IH]; [reflexivity|]. cbn [filter].
  destruct (g x) eqn:Eg, (f x) eqn:Ef; cbn [filter]; rewrite ?Eg, ?Ef, IH; reflexivity.
Qed.

Lemma existsb_filter {A} (f : A -> bool) l : existsb f l = existsb f (filter f l).
Proof.
  induction l as [|x l IH]; [reflexivity|]. cbn [existsb filter].
  destruct (f x) eqn:E; cbn [existsb]; rewrite ?E, IH; reflexivity.
Qed.

(** The page is a function of the visible arguments and visible subcommands (and of whether there
    is any subcommand at all, which decides the [subcommands] placeholder of the SYNOPSIS): two
    commands that differ only in hidden items have the same man page. *)
Theorem hidden_items_contribute_nothing m args' subs' :
  filter visible args' = filter visible (c_args (m_cmd m)) ->
  filter sub_visible subs' = filter sub_visible (c_subs (m_cmd m)) ->
  (subs' = [] <-> c_subs (m_cmd m) = []) ->
  man_doc (with_cmd m (with_lists (m_cmd m) args' subs')) = man_doc m.
Proof.
  intros Ha Hs He.
  unfold man_doc.
  cbn [m_cmd with_cmd].
  assert (app_has_arguments (with_lists (m_cmd m) args' subs') = app_has_arguments (m_cmd m)) as ->.
  { unfold app_has_arguments. cbn [c_args with_lists]. rewrite existsb_filter, Ha, <- existsb_filter. reflexivity. }
  assert (app_has_subcommands (with_lists (m_cmd m) args' subs') = app_has_subcommands (m_cmd m)) as ->.
  { unfold app_has_subcommands. cbn [c_subs with_lists]. rewrite existsb_filter, Hs, <- existsb_filter. reflexivity. }
  assert (render_options_section (with_cmd m (with_lists (m_cmd m) args' subs')) = render_options_section m) as ->.
  { unfold render_options_section. cbn [m_cmd with_cmd c_args with_lists]. rewrite Ha. reflexivity. }
  assert (render_synopsis_section (with_cmd m (with_lists (m_cmd m) args' subs')) = render_synopsis_section m) as ->.
  { unfold render_synopsis_section, synopsis, synopsis_positionals. cbn [m_cmd with_cmd c_args with_lists c_bin_name c_name].
    rewrite (filter_comm visible is_positional args'), Ha, <- (filter_comm visible is_positional).
    assert (synopsis_sub (with_lists (m_cmd m) args' subs') = synopsis_sub (m_cmd m)) as ->; [|reflexivity].
    unfold synopsis_sub, subcommand_markers, subcommand_heading. cbn [c_subs with_lists c_sub_required c_sub_value_name c_sub_heading].
    destruct subs' as [|s0 subs'], (c_subs (m_cmd m)) as [|s1 subs1]; try reflexivity.
    - destruct He as [He _]. specialize (He eq_refl). discriminate.
    - destruct He as [_ He]. specialize (He eq_refl). discriminate. }
  assert (render_subcommands_section (with_cmd m (with_lists (m_cmd m) args' subs')) = render_subcommands_section m) as ->.
  { unfold render_subcommands_section, subcommands, subcommand_heading, display_or_name.
    cbn [m_cmd with_cmd c_subs with_lists c_sub_heading c_display_name c_name m_sect]. rewrite Hs. reflexivity. }
  reflexivity.
Qed.

(** Hidden possible values: the listing depends on the visible ones only. *)
Lemma hidden_possible_values_contribute_nothing a :
  get_possible_values a =
  (if a_hide_pvs a then None
   else match filter (fun p => negb (pv_hide p)) (get_possible_values_arg a) with
        | [] => None
        | ps => Some (format_possible_values ps)
        end).
Proof. reflexivity. Qed.

(** Non-vacuity: a command with a hidden option, a hidden positional and a hidden subcommand next to
    visible ones renders, and dropping the hidden items does not change the page. *)
Definition ex_arg (id : bytes) (long : option bytes) (hide : bool) : marg :=
  {| a_id := id; a_short := None; a_long := long; a_action := ASet; a_num_args := None;
     a_value_names := []; a_help := Some [46; 104]; a_long_help := None; a_hide := hide;
     a_hide_short_help := false; a_hide_long_help := false; a_hide_env := false;
     a_hide_default := false; a_hide_pvs := false; a_required := false; a_defaults := [];
     a_env := None; a_pvs := []; a_heading := None |}.

Definition ex_cmd (args : list marg) (subs : list msub) : mcmd :=
  {| c_name := [97]; c_display_name := None; c_bin_name := None; c_version := Some [49; 10; 46; 120];
     c_long_version := None; c_author := None; c_about := Some [46; 97; 10; 39; 98]; c_long_about := None;
     c_after_help := None; c_after_long_help := None; c_before_long_help := None; c_sub_heading := None;
     c_sub_value_name := None; c_sub_required := false; c_no_help_flag := false;
     c_no_version_flag := false; c_no_help_sub := false; c_args := args; c_subs := subs |}.

Definition no_overrides : moverrides :=
  {| o_title := None; o_section := None; o_date := None; o_source := None; o_manual := None |}.

Example hidden_example :
  let vis_a := ex_arg [118] (Some [46; 118]) false in
  let hid_a := ex_arg [104; 105] (Some [104; 105]) true in
  let hid_p := ex_arg [72; 80] None true in
  let vis_s := {| s_name := [115]; s_about := Some [39; 120]; s_long_about := None; s_hide := false |} in
  let hid_s := {| s_name := [116]; s_about := None; s_long_about := None; s_hide := true |} in
  man_page (ex_cmd [hid_a; vis_a; hid_p] [hid_s; vis_s]) no_overrides
  = man_page (ex_cmd [vis_a] [vis_s]) no_overrides
  /\ exists page, man_page (ex_cmd [vis_a] [vis_s]) no_overrides = Ok page.
Proof. vm_compute. split; [reflexivity|eexists; reflexivity]. Qed.

(** ** visible arguments in the OPTIONS part *)

(** the name in the header of the argument's [.TP] entry *)
Definition header_name (a : marg) : inline :=
  match a_short a, a_long a with
  | _, Some long => Bold (dashdash ++ long)
  | Some short, None => Bold (dash ++ short)
  | None, None => Italic (pos_name a)
  end.

Lemma options_opt_lists a d :
  options_opt a = Ok d -> is_positional a = false -> exists inl, In (Text inl) d /\ In (header_name a) inl.
Proof.
  unfold options_opt, is_positional, header_name. intros H Hp.
  destruct (a_num_args a) as [na|]; [|discriminate].
  destruct (option_default_values a) as [defs|]; [|cbn [bind] in H; discriminate]. cbn [bind] in H.
  destruct (help_body a) as [body written]. apply Ok_inj in H. subst d.
  eexists. split; [right; left; reflexivity|].
  apply in_or_app. left. apply in_or_app. left.
  destruct (a_short a), (a_long a); cbn in Hp |- *; try discriminate; tauto.
Qed.

Lemma options_pos_lists a d :
  options_pos a = Ok d -> is_positional a = true -> exists inl, In (Text inl) d /\ In (header_name a) inl.
Proof.
  unfold options_pos, is_positional, header_name. intros H Hp.
  destruct (option_markers a) as [lhs rhs].
  destruct (option_default_values a) as [defs|]; [|cbn [bind] in H; discriminate]. cbn [bind] in H.
  destruct (help_body a) as [body written]. apply Ok_inj in H. subst d.
  eexists. split; [right; left; reflexivity|].
  apply in_or_app. left.
  destruct (a_short a), (a_long a); cbn in Hp |- *; try discriminate; tauto.
Qed.

Lemma concat_res_lists {A} (f : A -> res (list line)) l d x (P : list inline -> Prop) :
  concat_res f l = Ok d -> In x l ->
  (forall y, f x = Ok y -> exists inl, In (Text inl) y /\ P inl) ->
  exists inl, In (Text inl) d /\ P inl.
Proof.
  unfold concat_res. intros H Hin Hf.
  destruct (map_res f l) as [ys|] eqn:E; [|cbn [bind] in H; discriminate]. cbn [bind] in H.
  apply Ok_inj in H. subst d. apply map_res_ok in E.
  induction E as [|x0 y l ys Hxy _ IH]; [destruct Hin|].
  destruct Hin as [->|Hin].
  - destruct (Hf _ Hxy) as (inl & H1 & H2). exists inl. split; [|exact H2]. cbn [concat]. apply in_or_app. tauto.
  - destruct (IH Hin) as (inl & H1 & H2). exists inl. split; [|exact H2]. cbn [concat]. apply in_or_app. tauto.
Qed.

Lemma options_lists items d a :
  options items = Ok d -> In a items -> exists inl, In (Text inl) d /\ In (header_name a) inl.
Proof.
  unfold options. intros H Hin.
  destruct (concat_res options_opt _) as [o|] eqn:Eo; [|cbn [bind] in H; discriminate]. cbn [bind] in H.
  destruct (concat_res options_pos _) as [p|] eqn:Ep; [|cbn [bind] in H; discriminate]. cbn [bind] in H.
  apply Ok_inj in H. subst d.
  destruct (is_positional a) eqn:Epos.
  - destruct (concat_res_lists options_pos _ _ a (fun inl => In (header_name a) inl) Ep) as (inl & H1 & H2).
    + apply filter_In. tauto.
    + intros y Hy. apply (options_pos_lists a y Hy Epos).
    + exists inl. split; [apply in_or_app; tauto|exact H2].
  - destruct (concat_res_lists options_opt _ _ a (fun inl => In (header_name a) inl) Eo) as (inl & H1 & H2).
    + apply filter_In. rewrite Epos. tauto.
    + intros y Hy. apply (options_opt_lists a y Hy Epos).
    + exists inl. split; [apply in_or_app; tauto|exact H2].
Qed.

Lemma heading_sections_lists hs : forall rest d a h,
  heading_sections hs rest = Ok d -> In a rest -> a_heading a = Some h -> In h hs ->
  exists inl, In (Text inl) d /\ In (header_name a) inl.
Proof.
  induction hs as [|h0 hs IH]; intros rest d a h H Hin Hh Hhs; [destruct Hhs|].
  cbn [heading_sections] in H. rewrite partition_as_filter in H.
  destruct (options _) as [o|] eqn:Eo; [|cbn [bind] in H; discriminate]. cbn [bind] in H.
  destruct (heading_sections hs _) as [r|] eqn:Er; [|cbn [bind] in H; discriminate]. cbn [bind] in H.
  apply Ok_inj in H. subst d.
  destruct (opt_beq (a_heading a) (Some h0)) eqn:Eb.
  - destruct (options_lists _ _ a Eo) as (inl & H1 & H2); [apply filter_In; tauto|].
    exists inl. split; [right; apply in_or_app; tauto|exact H2].
  - assert (In h hs) as Hhs'.
    { destruct Hhs as [<-|Hhs]; [|exact Hhs]. rewrite Hh in Eb. cbn [opt_beq] in Eb. rewrite beq_refl in Eb. discriminate. }
    destruct (IH _ _ a h Er) as (inl & H1 & H2); [apply filter_In; rewrite Eb; tauto|exact Hh|exact Hhs'|].
    exists inl. split; [right; apply in_or_app; tauto|exact H2].
Qed.

Lemma help_headings_complete vis a h : In a vis -> a_heading a = Some h -> In h (help_headings vis).
Proof.
  intros Hin Hh. unfold help_headings.
  assert (In h (filter_map a_heading vis)) as Hf.
  { unfold filter_map. apply in_flat_map. exists a. rewrite Hh. split; [exact Hin|left; reflexivity]. }
  assert (forall l acc, In h acc \/ In h l ->
            In h (fold_left (fun acc h' => if existsb (beq h') acc then acc else acc ++ [h']) l acc)) as G.
  { induction l as [|x l IHl]; intros acc [H|H]; cbn [fold_left]; try assumption; try (destruct H; fail).
    - apply IHl. left. destruct (existsb (beq x) acc); [exact H|apply in_or_app; tauto].
    - destruct H as [->|H]; [|apply IHl; tauto].
      apply IHl. left. destruct (existsb (beq h) acc) eqn:E.
      + apply existsb_exists in E. destruct E as (y & Hy & Ey). apply beq_eq in Ey. subst y. exact Hy.
      + apply in_or_app. right. left. reflexivity. }
  apply G. right. exact Hf.
Qed.

(** Every visible argument has its entry in the OPTIONS part (under OPTIONS or under its heading),
    with its name in the header of the entry. *)
Theorem visible_arg_in_options m os a :
  render_options_section m = Ok os -> In a (c_args (m_cmd m)) -> a_hide a = false ->
  exists inl, In (Text inl) os /\ In (header_name a) inl.
Proof.
  unfold render_options_section. intros H Hin Hv. rewrite partition_as_filter in H.
  set (vis := filter visible (c_args (m_cmd m))) in *.
  assert (In a vis) as Hvis by (apply filter_In; unfold visible; rewrite Hv; tauto).
  destruct (match filter (fun a0 => negb (is_some (a_heading a0))) vis with
            | [] => Ok []
            | _ :: _ => bind (options (filter (fun a0 => negb (is_some (a_heading a0))) vis)) (fun o => Ok (Control rq_SH [h_OPTIONS] :: o))
            end) as [s0|] eqn:E0; [|cbn [bind] in H; discriminate]. cbn [bind] in H.
  destruct (heading_sections _ _) as [s1|] eqn:E1; [|cbn [bind] in H; discriminate]. cbn [bind] in H.
  apply Ok_inj in H. subst os.
  destruct (a_heading a) as [h|] eqn:Eh.
  - destruct (heading_sections_lists _ _ _ a h E1) as (inl & H1 & H2).
    + apply filter_In. rewrite Eh. tauto.
    + exact Eh.
    + apply (help_headings_complete vis a h Hvis Eh).
    + exists inl. split; [apply in_or_app; tauto|exact H2].
  - assert (In a (filter (fun a0 => negb (is_some (a_heading a0))) vis)) as Hin0 by (apply filter_In; rewrite Eh; tauto).
    destruct (filter (fun a0 => negb (is_some (a_heading a0))) vis) as [|x xs] eqn:Ef; [destruct Hin0|].
    destruct (options (x :: xs)) as [o|] eqn:Eo; [|cbn [bind] in E0; discriminate]. cbn [bind] in E0.
    apply Ok_inj in E0. subst s0.
    destruct (options_lists _ _ a Eo Hin0) as (inl & H1 & H2).
    exists inl. split; [apply in_or_app; left; right; exact H1|exact H2].
Qed.

(** ... and that part is on the page. *)
Theorem visible_arg_entry m d a :
  man_doc m = Ok d -> In a (c_args (m_cmd m)) -> a_hide a = false ->
  exists os inl, render_options_section m = Ok os /\ (forall l, In l os -> In l d)
                 /\ In (Text inl) os /\ In (header_name a) inl.
Proof.
  intros H Hin Hv. unfold man_doc in H.
  assert (app_has_arguments (m_cmd m) = true) as Ha.
  { unfold app_has_arguments. apply existsb_exists. exists a. unfold visible. rewrite Hv. tauto. }
  rewrite Ha in H.
  destruct (render_options_section m) as [os|] eqn:Eo; [|cbn [bind] in H; discriminate]. cbn [bind] in H.
  destruct (if app_has_version (m_cmd m) then render_version_section m else Ok []) as [vers|]; [|cbn [bind] in H; discriminate].
  cbn [bind] in H. apply Ok_inj in H. subst d.
  destruct (visible_arg_in_options m os a Eo Hin Hv) as (inl & H1 & H2).
  exists os, inl. split; [reflexivity|]. split; [|tauto].
  intros l Hl. do 4 (apply in_or_app; right). apply in_or_app. left. exact Hl.
Qed.
