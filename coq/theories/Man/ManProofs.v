(** Proofs about the clap_mangen model: every document [man_doc] builds is "fine" -- each text line
    satisfies the roff criterion [line_ok], each control line is one of the generator's fixed
    requests with single-line arguments -- for EVERY command and EVERY string in every slot; hence
    the control lines of the page are exactly the generator's own ([page_control_lines]).
    Totality ([man_page_total]), listing of visible items, independence of hidden items. *)
From ClapModel Require Import Base.Bytes Gen.RoffTables Gen.ManTables Man.RoffModel Man.RoffProofs Man.ManModel.
Open Scope N_scope.

Lemma Ok_inj {A} (a b : A) : Ok a = Ok b -> a = b.
Proof. intros H. injection H. tauto. Qed.

(** * Composition of text-line pieces *)

(** worst case for a piece in the middle of a line: no guard, possibly at a line start *)
Definition worst (l : list inline) : bool := line_ok true false true l.

Lemma line_ok_mono l : forall f q, worst l = true -> line_ok true f q l = true.
Proof.
  unfold worst. destruct l as [|i r]; intros f q H; [reflexivity|].
  destruct i; cbn [line_ok] in *; try exact H.
  apply andb_true_iff in H. destruct H as [H1 H2]. rewrite H2, andb_true_r.
  cbn [orb negb] in H1. rewrite H1. apply orb_true_r.
Qed.

Lemma line_ok_app a : forall f q b, line_ok true f q a = true -> worst b = true -> line_ok true f q (a ++ b) = true.
Proof.
  induction a as [|i a IH]; intros f q b Ha Hb; cbn [app]; [apply line_ok_mono; exact Hb|].
  destruct i; cbn [line_ok] in *; try (apply IH; assumption).
  apply andb_true_iff in Ha. destruct Ha as [H1 H2]. rewrite H1. cbn [andb]. apply IH; assumption.
Qed.

Lemma worst_app a b : worst a = true -> worst b = true -> worst (a ++ b) = true.
Proof. unfold worst at 1 3. intros. apply line_ok_app; assumption. Qed.

Lemma worst_flat_map {A} (f : A -> list inline) l : (forall x, worst (f x) = true) -> worst (flat_map f l) = true.
Proof.
  intros H. induction l as [|x l IH]; [reflexivity|]. cbn [flat_map]. apply worst_app; [apply H|exact IH].
Qed.

(** a roman literal in the middle of a line *)
Lemma worst_roman t r :
  starts_with_cc (escape_text true t) = false ->
  line_ok true false (end_state true (escape_text true t)) r = true ->
  worst (Roman t :: r) = true.
Proof. intros H1 H2. unfold worst. cbn [line_ok]. rewrite H1, H2. reflexivity. Qed.

(** * Fine documents *)

Fixpoint args_beq (a b : list bytes) : bool :=
  match a, b with
  | [], [] => true
  | x :: a', y :: b' => beq x y && args_beq a' b'
  | _, _ => false
  end.

(** the requests whose arguments are fixed by the generator *)
Definition fixed_controls : list (bytes * list bytes) :=
  [(rq_PP, []); (rq_TP, []); (rq_RS, []); (rq_RS, [rs_indent]); (rq_RE, []); (rq_IP, [ip_bullet; ip_width])].

(** the requests that carry author-supplied arguments *)
Definition user_arg_requests : list bytes := [rq_TH; rq_SH].

Definition ctl_fixed (name : bytes) (args : list bytes) : bool :=
  existsb (beq name) user_arg_requests
  || existsb (fun p => beq name (fst p) && args_beq args (snd p)) fixed_controls.

Definition line_fine (l : line) : bool :=
  line_good l && match l with Control n a => ctl_fixed n a | Text _ => true end.

Definition doc_fine (d : roff) : bool := forallb line_fine d.

Lemma doc_fine_app a b : doc_fine (a ++ b) = doc_fine a && doc_fine b.
Proof. apply forallb_app. Qed.

Lemma doc_fine_cons l d : doc_fine (l :: d) = line_fine l && doc_fine d.
Proof. reflexivity. Qed.

Lemma doc_fine_flat_map {A} (f : A -> roff) l : (forall x, doc_fine (f x) = true) -> doc_fine (flat_map f l) = true.
Proof.
  intros H. induction l as [|x l IH]; [reflexivity|]. cbn [flat_map]. rewrite doc_fine_app, H, IH. reflexivity.
Qed.

Lemma doc_fine_map {A} (f : A -> line) l : (forall x, line_fine (f x) = true) -> doc_fine (map f l) = true.
Proof.
  intros H. induction l as [|x l IH]; [reflexivity|]. cbn [map]. rewrite doc_fine_cons, H, IH. reflexivity.
Qed.

Lemma doc_fine_good d : doc_fine d = true -> doc_good d = true.
Proof.
  induction d as [|l d IH]; [reflexivity|]. rewrite doc_fine_cons. cbn [doc_good forallb].
  intros H. apply andb_true_iff in H. destruct H as [H1 H2].
  unfold line_fine in H1. apply andb_true_iff in H1. destruct H1 as [H1 _].
  rewrite H1. cbn [andb]. apply IH. exact H2.
Qed.

Lemma single_roman_fine s : line_fine (Text [Roman s]) = true.
Proof. reflexivity. Qed.

Lemma text_fine l : line_ok true true true l = true -> line_fine (Text l) = true.
Proof. intros H. unfold line_fine, line_good. rewrite H. reflexivity. Qed.

Lemma text_fine_worst l : worst l = true -> line_fine (Text l) = true.
Proof. intros H. apply text_fine. apply line_ok_mono. exact H. Qed.

(** * control_arg *)

Lemma no_nl_replace1 s : no_nl (replace1 10 [32] s) = true.
Proof.
  induction s as [|c s IH]; [reflexivity|]. cbn [replace1].
  destruct (c =? 10) eqn:E; cbn [app no_nl forallb]; [exact IH|].
  rewrite E. exact IH.
Qed.

Lemma control_arg_clean s : no_nl (control_arg s) = true.
Proof. unfold control_arg, control_arg_rule, replace. cbn [fst snd]. apply no_nl_replace1. Qed.

Lemma user_sh_fine h : line_fine (Control rq_SH [control_arg h]) = true.
Proof.
  unfold line_fine, line_good, ctl_clean. cbn [forallb]. rewrite control_arg_clean. reflexivity.
Qed.

(** * render.rs *)

Lemma about_fine c : doc_fine (about c) = true.
Proof. reflexivity. Qed.

Lemma description_fine c : doc_fine (description c) = true.
Proof.
  unfold description. destruct (or_else (c_long_about c) (c_about c)); [|reflexivity].
  apply doc_fine_map. intros x. destruct (is_blank x); reflexivity.
Qed.

Lemma markers_lit req : let (l, r) := markers req in
  starts_with_cc (escape_text true l) = false /\ end_state true (escape_text true l) = false
  /\ starts_with_cc (escape_text true r) = false /\ end_state true (escape_text true r) = false.
Proof. destruct req; cbn; repeat split; reflexivity. Qed.

Lemma synopsis_opt_worst opt : worst (synopsis_opt opt) = true.
Proof.
  unfold synopsis_opt, option_markers.
  pose proof (markers_lit (a_required opt)) as M.
  destruct (markers (a_required opt)) as [lhs rhs]. destruct M as (L1 & L2 & R1 & R2).
  assert (forall X, line_ok true false false X = true -> worst (Roman rhs :: X) = true) as Hr.
  { intros X HX. apply worst_roman; [exact R1|]. rewrite R2. exact HX. }
  assert (line_ok true false false ((if is_count opt then [Roman syn_dots] else []) ++ [Roman syn_space]) = true) as Ht
    by (destruct (is_count opt); reflexivity).
  set (tail := (if is_count opt then [Roman syn_dots] else []) ++ [Roman syn_space]) in *.
  assert (forall t, line_ok true false false (Bold t :: Roman rhs :: tail) = true) as Hb.
  { intros t. change (line_ok true false false (Roman rhs :: tail) = true). apply line_ok_mono, Hr, Ht. }
  destruct (a_short opt) as [sh|], (a_long opt) as [lo|]; try reflexivity;
    (apply worst_roman; [exact L1|]; rewrite L2).
  - change (line_ok true false (end_state true (escape_text true syn_bar))
              (Bold (dashdash ++ lo) :: Roman rhs :: tail) = true).
    change (line_ok true false false (Roman rhs :: tail) = true). apply line_ok_mono, Hr, Ht.
  - apply Hb.
  - apply Hb.
Qed.

Lemma synopsis_pos_worst a : worst (synopsis_pos a) = true.
Proof.
  unfold synopsis_pos, option_markers.
  pose proof (markers_lit (a_required a)) as M.
  destruct (markers (a_required a)) as [lhs rhs]. destruct M as (L1 & L2 & R1 & R2).
  apply worst_roman; [exact L1|]. rewrite L2.
  change (line_ok true false false [Roman rhs; Roman syn_space] = true).
  apply line_ok_mono. apply worst_roman; [exact R1|]. rewrite R2. reflexivity.
Qed.

Lemma synopsis_sub_worst c : worst (synopsis_sub c) = true.
Proof.
  unfold synopsis_sub, subcommand_markers. destruct (c_subs c); [reflexivity|].
  pose proof (markers_lit (c_sub_required c)) as M.
  destruct (markers (c_sub_required c)) as [lhs rhs]. destruct M as (L1 & L2 & R1 & R2).
  apply worst_roman; [exact L1|]. rewrite L2.
  match goal with |- line_ok _ _ _ (Italic ?x :: ?r) = true => change (line_ok true false false r = true) end.
  apply line_ok_mono. apply worst_roman; [exact R1|]. reflexivity.
Qed.

Lemma synopsis_fine c : doc_fine (synopsis c) = true.
Proof.
  unfold synopsis. rewrite doc_fine_cons, andb_true_r. apply text_fine.
  change (line_ok true true true (Bold (match c_bin_name c with Some b => b | None => c_name c end) ::
            ([Roman syn_space] ++ flat_map synopsis_opt (filter visible (c_args c))
              ++ flat_map synopsis_pos (synopsis_positionals c) ++ synopsis_sub c)) = true).
  cbn [line_ok]. apply line_ok_mono.
  apply worst_app; [reflexivity|].
  apply worst_app; [apply worst_flat_map, synopsis_opt_worst|].
  apply worst_app; [apply worst_flat_map, synopsis_pos_worst|apply synopsis_sub_worst].
Qed.

Lemma possible_options_fine a w : doc_fine (possible_options a w) = true.
Proof.
  unfold possible_options. destruct (get_possible_values a) as [[text with_help]|]; [|reflexivity].
  rewrite doc_fine_app. apply andb_true_iff. split; [destruct w; reflexivity|].
  destruct with_help.
  - rewrite !doc_fine_app. rewrite doc_fine_flat_map by (intros x; reflexivity). reflexivity.
  - rewrite doc_fine_cons, andb_true_r. apply text_fine.
    cbn [line_ok orb negb andb].
    change (line_ok true false (end_state true (escape_text true pv_open))
              [Italic pv_label; Roman (intercalate pv_sep text); Roman pv_close] = true).
    cbn [line_ok orb negb andb].
    replace (starts_with_cc (escape_text true pv_close)) with false by reflexivity.
    cbn [negb]. rewrite orb_true_r. reflexivity.
Qed.

Lemma env_lines_fine a : doc_fine (env_lines a) = true.
Proof.
  unfold env_lines, option_environment. destruct (a_hide_env a); [reflexivity|].
  destruct (a_env a); reflexivity.
Qed.

Lemma help_body_fine a : line_fine (Text (fst (help_body a))) = true.
Proof. unfold help_body. destruct (option_help a); reflexivity. Qed.

Lemma defs_opt_worst d : worst [Roman [32]; Roman d] = true.
Proof. reflexivity. Qed.

Lemma options_opt_fine opt d : options_opt opt = Ok d -> doc_fine d = true.
Proof.
  unfold options_opt. destruct (a_num_args opt) as [na|] eqn:En; [|discriminate].
  unfold option_default_values. rewrite En.
  set (header0 := match a_short opt, a_long opt with
                  | Some short, Some long => [Bold (dash ++ short); Roman opt_comma; Bold (dashdash ++ long)]
                  | Some short, None => [Bold (dash ++ short)]
                  | None, Some long => [Bold (dashdash ++ long)]
                  | None, None => []
                  end).
  assert (worst header0 = true) as H0 by (subst header0; destruct (a_short opt), (a_long opt); reflexivity).
  set (vn := if takes_values na then match a_value_names opt with [] => [] | v => [Roman opt_eq; Italic (intercalate vn_sep v)] end else []).
  assert (worst vn = true) as H1 by (subst vn; destruct (takes_values na); [destruct (a_value_names opt)|]; reflexivity).
  assert (forall defs : option bytes, worst (match defs with Some d => [Roman [32]; Roman d] | None => [] end) = true) as H2
    by (intros [x|]; reflexivity).
  assert (forall defs d,
    (let header := (header0 ++ vn) ++ match defs with Some d => [Roman [32]; Roman d] | None => [] end in
     let (body, written) := help_body opt in
     Ok ([Control rq_TP []; Text header; Text body] ++ possible_options opt written ++ env_lines opt)) = Ok d ->
    doc_fine d = true) as Hfin.
  { intros defs d0. cbv zeta. pose proof (help_body_fine opt) as Hb.
    destruct (help_body opt) as [body written]. cbn [fst] in Hb.
    intros E. inversion E; subst d0; clear E.
    cbn [app]. rewrite !doc_fine_cons, doc_fine_app, possible_options_fine, env_lines_fine, Hb.
    rewrite text_fine_worst by (apply worst_app; [apply worst_app; assumption|apply H2]).
    reflexivity. }
  destruct (a_hide_default opt || negb (takes_values na)); cbn [bind]; [apply (Hfin None)|].
  destruct (a_defaults opt); cbn [bind]; [apply (Hfin None)|apply (Hfin (Some _))].
Qed.

Lemma options_pos_fine pos d : options_pos pos = Ok d -> doc_fine d = true.
Proof.
  unfold options_pos, option_markers.
  pose proof (markers_lit (a_required pos)) as M.
  destruct (markers (a_required pos)) as [lhs rhs]. destruct M as (L1 & L2 & R1 & R2).
  assert (forall defs : option bytes,
            worst ([Roman lhs; Italic (pos_name pos); Roman rhs] ++ match defs with Some d => [Roman (32 :: d)] | None => [] end) = true) as Hh.
  { intros defs. apply worst_roman; [exact L1|]. rewrite L2. cbn [app].
    match goal with |- line_ok _ _ _ (Italic ?x :: ?r) = true => change (line_ok true false false r = true) end.
    apply line_ok_mono. apply worst_roman; [exact R1|]. rewrite R2. destruct defs; reflexivity. }
  assert (forall defs d,
    (let header := [Roman lhs; Italic (pos_name pos); Roman rhs] ++ match defs with Some d => [Roman (32 :: d)] | None => [] end in
     let (body, written) := help_body pos in
     Ok ([Control rq_TP []; Text header; Text body] ++ env_lines pos ++ possible_options pos written)) = Ok d ->
    doc_fine d = true) as Hfin.
  { intros defs d0. cbv zeta. pose proof (help_body_fine pos) as Hb.
    destruct (help_body pos) as [body written]. cbn [fst] in Hb.
    intros E. inversion E; subst d0; clear E.
    cbn [app]. rewrite !doc_fine_cons, doc_fine_app, possible_options_fine, env_lines_fine, Hb.
    rewrite text_fine_worst by apply Hh. reflexivity. }
  unfold option_default_values. destruct (a_num_args pos) as [na|]; [|discriminate].
  destruct (a_hide_default pos || negb (takes_values na)); cbn [bind]; [apply (Hfin None)|].
  destruct (a_defaults pos); cbn [bind]; [apply (Hfin None)|apply (Hfin (Some _))].
Qed.

Lemma map_res_ok {A B} (f : A -> res B) l ys : map_res f l = Ok ys -> Forall2 (fun x y => f x = Ok y) l ys.
Proof.
  revert ys. induction l as [|x l IH]; intros ys H; cbn [map_res] in H.
  - inversion H. constructor.
  - destruct (f x) as [y|] eqn:E; [|cbn [bind]; discriminate]. cbn [bind] in H.
    destruct (map_res f l) as [ys'|]; [|discriminate]. cbn [bind] in H. inversion H; subst.
    constructor; [exact E|apply IH; reflexivity].
Qed.

Lemma concat_res_fine {A} (f : A -> res (list line)) l d :
  (forall x y, f x = Ok y -> doc_fine y = true) -> concat_res f l = Ok d -> doc_fine d = true.
Proof.
  intros Hf. unfold concat_res. destruct (map_res f l) as [ys|] eqn:E; [|cbn [bind]; discriminate].
  cbn [bind]. intros H. inversion H; subst d; clear H.
  apply map_res_ok in E. induction E as [|x y l ys Hxy _ IH]; [reflexivity|].
  cbn [concat]. rewrite doc_fine_app, (Hf _ _ Hxy), IH. reflexivity.
Qed.

Lemma options_fine items d : options items = Ok d -> doc_fine d = true.
Proof.
  unfold options.
  destruct (concat_res options_opt _) as [o|] eqn:Eo; [|cbn [bind]; discriminate]. cbn [bind].
  destruct (concat_res options_pos _) as [p|] eqn:Ep; [|cbn [bind]; discriminate]. cbn [bind].
  intros H. inversion H; subst d.
  rewrite doc_fine_app.
  rewrite (concat_res_fine _ _ _ options_opt_fine Eo), (concat_res_fine _ _ _ options_pos_fine Ep). reflexivity.
Qed.

Lemma lines_text_fine a : doc_fine (map (fun l => Text [Roman l]) (lines a)) = true.
Proof. apply doc_fine_map. intros; reflexivity. Qed.

Lemma subcommands_fine c sect : doc_fine (subcommands c sect) = true.
Proof.
  unfold subcommands. apply doc_fine_flat_map. intros sub.
  rewrite doc_fine_app. destruct (or_else (s_about sub) (s_long_about sub)); [|reflexivity].
  rewrite lines_text_fine. reflexivity.
Qed.

Lemma after_help_fine c : doc_fine (after_help c) = true.
Proof. unfold after_help. destruct (or_else _ _); [apply lines_text_fine|reflexivity]. Qed.

(** * lib.rs *)

Lemma render_title_fine m : doc_fine (render_title m) = true.
Proof.
  unfold render_title, title_args. rewrite doc_fine_cons, andb_true_r.
  unfold line_fine, line_good, ctl_clean. cbn [map forallb]. rewrite !control_arg_clean. reflexivity.
Qed.

Lemma heading_sections_fine hs : forall rest d, heading_sections hs rest = Ok d -> doc_fine d = true.
Proof.
  induction hs as [|h hs IH]; intros rest d; cbn [heading_sections].
  - intros H. inversion H. reflexivity.
  - destruct (partition _ rest) as [args rest'].
    destruct (options args) as [o|] eqn:Eo; [|cbn [bind]; discriminate]. cbn [bind].
    destruct (heading_sections hs rest') as [r|] eqn:Er; [|cbn [bind]; discriminate]. cbn [bind].
    intros H. inversion H; subst d.
    rewrite doc_fine_cons, doc_fine_app, user_sh_fine, (options_fine _ _ Eo), (IH _ _ Er). reflexivity.
Qed.

Lemma render_options_section_fine m d : render_options_section m = Ok d -> doc_fine d = true.
Proof.
  unfold render_options_section.
  destruct (partition _ _) as [args awh].
  destruct (match args with [] => Ok [] | _ :: _ => bind (options args) (fun o => Ok (Control rq_SH [h_OPTIONS] :: o)) end)
    as [s0|] eqn:E0; [|cbn [bind]; discriminate]. cbn [bind].
  destruct (heading_sections _ awh) as [s1|] eqn:E1; [|cbn [bind]; discriminate]. cbn [bind].
  intros H. inversion H; subst d. rewrite doc_fine_app, (heading_sections_fine _ _ _ E1), andb_true_r.
  destruct args as [|a args]; [inversion E0; reflexivity|].
  destruct (options (a :: args)) as [o|] eqn:Eo; [|discriminate]. cbn [bind] in E0. inversion E0; subst s0.
  rewrite doc_fine_cons, (options_fine _ _ Eo). reflexivity.
Qed.

Lemma render_version_section_fine m d : render_version_section m = Ok d -> doc_fine d = true.
Proof.
  unfold render_version_section. destruct (version (m_cmd m)); [|cbn [bind]; discriminate]. cbn [bind].
  intros H. inversion H. reflexivity.
Qed.

(** Every document the generator builds is fine: for every command, every string. *)
Theorem man_doc_fine m d : man_doc m = Ok d -> doc_fine d = true.
Proof.
  unfold man_doc.
  destruct (if app_has_arguments (m_cmd m) then render_options_section m else Ok []) as [opts|] eqn:Eo; [|discriminate].
  cbn [bind].
  destruct (if app_has_version (m_cmd m) then render_version_section m else Ok []) as [vers|] eqn:Ev; [|discriminate].
  cbn [bind]. intros H. apply Ok_inj in H. subst d.
  assert (doc_fine opts = true) as Ho.
  { destruct (app_has_arguments (m_cmd m)); [apply (render_options_section_fine _ _ Eo)|inversion Eo; reflexivity]. }
  assert (doc_fine vers = true) as Hv.
  { destruct (app_has_version (m_cmd m)); [apply (render_version_section_fine _ _ Ev)|inversion Ev; reflexivity]. }
  rewrite !doc_fine_app, render_title_fine, Ho, Hv.
  unfold render_name_section, render_synopsis_section, render_description_section.
  rewrite !doc_fine_cons, about_fine, synopsis_fine, description_fine.
  cbn [andb].
  repeat (apply andb_true_iff; split); try reflexivity.
  - destruct (app_has_subcommands (m_cmd m)); [|reflexivity].
    unfold render_subcommands_section. rewrite doc_fine_cons, user_sh_fine, subcommands_fine. reflexivity.
  - destruct (_ || _); [|reflexivity]. unfold render_extra_section. rewrite doc_fine_cons, after_help_fine. reflexivity.
  - destruct (is_some _); reflexivity.
Qed.

(** The control lines of the page are the preamble's and the generator's own, whatever the text. *)
Theorem page_control_lines m d :
  man_doc m = Ok d ->
  control_lines (to_writer d) = preamble_controls ++ flat_map own_controls d.
Proof. intros H. apply doc_control_lines, doc_fine_good, (man_doc_fine _ _ H). Qed.
