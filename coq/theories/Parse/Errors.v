(** Error kinds, the stream/exit-code contract (error/kind.rs, error/mod.rs). *)
From ClapModel Require Import Base.Bytes.
From Coq Require Import ZArith.
Open Scope N_scope.

Inductive ekind :=
| EInvalidValue | EUnknownArgument | EInvalidSubcommand | ENoEquals | EValueValidation
| ETooManyValues | ETooFewValues | EWrongNumberOfValues | EArgumentConflict
| EMissingRequiredArgument | EMissingSubcommand | EInvalidUtf8
| EDisplayHelp | EDisplayHelpOnMissing | EDisplayVersion | EIo | EFormat.

Definition all_kinds : list ekind :=
  [EInvalidValue; EUnknownArgument; EInvalidSubcommand; ENoEquals; EValueValidation;
   ETooManyValues; ETooFewValues; EWrongNumberOfValues; EArgumentConflict;
   EMissingRequiredArgument; EMissingSubcommand; EInvalidUtf8;
   EDisplayHelp; EDisplayHelpOnMissing; EDisplayVersion; EIo; EFormat].

Inductive stream := Stdout | Stderr.
(** [Error::stream] *)
Definition kind_stream (k : ekind) : stream :=
  match k with EDisplayHelp | EDisplayVersion => Stdout | _ => Stderr end.
Definition use_stderr (k : ekind) : bool := match kind_stream k with Stderr => true | Stdout => false end.
(** [Error::exit_code]: USAGE_CODE = 2, SUCCESS_CODE = 0 *)
Definition exit_code (k : ekind) : Z := if use_stderr k then 2%Z else 0%Z.

(** What an error carries in the model: its kind, the offending argument or token as the
    constructors receive it (informational), for help/version whether the long form was asked,
    and the path (names from the root) of the command whose parser raised it. *)
Record error := mkError { e_kind : ekind; e_arg : bytes; e_long : bool; e_cmd : bytes;
                          e_alt : option ekind }.
(** [e_alt]: a second kind the implementation may report for the same input where the choice
    depends on [strsim::jaro] suggestions, which the model does not compute. *)
