(** [ArgMatcher], [MatchedArg], [ValueSource], [FlatMap] (parser/arg_matcher.rs,
    parser/matches/matched_arg.rs, util/flat_map.rs). *)
From ClapModel Require Import Base.Bytes Base.Machine Parse.Cmd.
From Coq Require Import ZArith.
From RecordUpdate Require Import RecordSet.
Import RecordSetNotations.
Open Scope N_scope.

Inductive src := SDefault | SEnv | SCmdLine.
Definition src_rank s := match s with SDefault => 0 | SEnv => 1 | SCmdLine => 2 end.
Definition src_max a b := if src_rank a <? src_rank b then b else a.
Definition src_gt a b := src_rank b <? src_rank a.
Definition src_explicit s := match s with SDefault => false | _ => true end.

Record marg := mkMarg {
  m_source : option src; m_indices : list N;
  m_raw : list (list bytes);      (* one group per occurrence; typed values are [vp_parse] of these *)
  m_ignore_case : bool; m_is_group : bool
}.
#[export] Instance eta_marg : Settable _ := settable! mkMarg <m_source; m_indices; m_raw; m_ignore_case; m_is_group>.
Definition marg_new (ic grp : bool) := mkMarg None [] [] ic grp.

Inductive ident := IShort | ILong | IIndex.
Record pending := mkPending { p_id : id; p_ident : option ident; p_raw : list bytes; p_trailing_idx : option N }.
#[export] Instance eta_pending : Settable _ := settable! mkPending <p_id; p_ident; p_raw; p_trailing_idx>.

Inductive matches := Matches (args : list (id * marg)) (sub : option (bytes * matches)).
Definition ms_args (m : matches) := match m with Matches a _ => a end.
Definition ms_sub (m : matches) := match m with Matches _ s => s end.

Record matcher := mkMatcher { mt_args : list (id * marg); mt_pending : option pending; mt_sub : option (bytes * matches) }.
#[export] Instance eta_matcher : Settable _ := settable! mkMatcher <mt_args; mt_pending; mt_sub>.
Definition matcher_new := mkMatcher [] None None.
Definition into_inner (m : matcher) := Matches (mt_args m) (mt_sub m).

(** FlatMap *)
Fixpoint fm_get {V} (k : id) (l : list (id * V)) : option V :=
  match l with [] => None | (k', v) :: t => if beq k' k then Some v else fm_get k t end.
Fixpoint fm_remove {V} (k : id) (l : list (id * V)) : list (id * V) * bool :=
  match l with
  | [] => ([], false)
  | (k', v) :: t => if beq k' k then (t, true) else let '(t', b) := fm_remove k t in ((k', v) :: t', b)
  end.
Fixpoint fm_update {V} (k : id) (f : V -> V) (l : list (id * V)) : list (id * V) :=
  match l with [] => [] | (k', v) :: t => if beq k' k then (k', f v) :: t else (k', v) :: fm_update k f t end.
Definition fm_contains {V} (k : id) (l : list (id * V)) := is_some (fm_get k l).
(** [entry(k).or_insert(v0)] then apply [f] *)
Definition fm_entry_or_insert {V} (k : id) (v0 : V) (f : V -> V) (l : list (id * V)) :=
  if fm_contains k l then fm_update k f l else l ++ [(k, f v0)].
(** [insert]: replace in place or push *)
Definition fm_insert {V} (k : id) (v : V) (l : list (id * V)) :=
  if fm_contains k l then fm_update k (fun _ => v) l else l ++ [(k, v)].

Definition set_source (s : src) (m : marg) : marg :=
  m <| m_source := Some (match m_source m with Some e => src_max e s | None => s end) |>.
Definition new_val_group (m : marg) : marg := m <| m_raw := m_raw m ++ [[]] |>.
Definition push_last {A} (x : A) (l : list (list A)) : option (list (list A)) :=
  match rev l with [] => None | g :: r => Some (rev r ++ [g ++ [x]]) end.
(** [append_val]: [expect(INTERNAL_ERROR_MSG)] on [last_mut] *)
Definition append_val (raw : bytes) (m : marg) : option marg :=
  match push_last raw (m_raw m) with
  | Some rs => Some (m <| m_raw := rs |>)
  | None => None
  end.
Definition push_index (i : N) (m : marg) : marg := m <| m_indices := m_indices m ++ [i] |>.

Definition ascii_lower (c : N) := if (65 <=? c) && (c <=? 90) then c + 32 else c.
(** [eq_ignore_case] = unicase equality; the model (and the generators) restrict it to ASCII folding *)
Definition eq_ignore_case (a b : bytes) := beq (map ascii_lower a) (map ascii_lower b).

Definition check_explicit_m (p : pred) (m : marg) : bool :=
  if match m_source m with Some s => negb (src_explicit s) | None => false end then false
  else match p with
       | PIsPresent => true
       | PEquals v => existsb (fun r => if m_ignore_case m then eq_ignore_case r v else beq r v) (concat (m_raw m))
       end.
Definition check_explicit (mt : matcher) (i : id) (p : pred) : bool :=
  match fm_get i (mt_args mt) with Some m => check_explicit_m p m | None => false end.

Definition mt_remove (mt : matcher) (i : id) : matcher * bool :=
  let '(l, b) := fm_remove i (mt_args mt) in (mt <| mt_args := l |>, b).
Definition mt_contains (mt : matcher) (i : id) := fm_contains i (mt_args mt).
Definition arg_ids (mt : matcher) := map fst (mt_args mt).

Definition start_custom_arg_m (mt : matcher) (a : arg) (s : src) : matcher :=
  mt <| mt_args := fm_entry_or_insert (a_id a) (marg_new (a_ignore_case a) false)
                     (fun m => new_val_group (set_source s m)) (mt_args mt) |>.
Definition start_custom_group_m (mt : matcher) (g : id) (s : src) : matcher :=
  mt <| mt_args := fm_entry_or_insert g (marg_new false true)
                     (fun m => new_val_group (set_source s m)) (mt_args mt) |>.
(** [add_val_to] / [add_index_to]: [expect] on [get_mut] *)
Definition add_val_to (mt : matcher) (i : id) (raw : bytes) : option matcher :=
  match fm_get i (mt_args mt) with
  | None => None
  | Some m => match append_val raw m with
              | None => None
              | Some m' => Some (mt <| mt_args := fm_update i (fun _ => m') (mt_args mt) |>)
              end
  end.
Definition add_index_to (mt : matcher) (i : id) (ix : N) : option matcher :=
  match fm_get i (mt_args mt) with
  | None => None
  | Some m => Some (mt <| mt_args := fm_update i (push_index ix) (mt_args mt) |>)
  end.

(** [needs_more_vals]: [get_num_args().expect(..)] *)
Definition needs_more_vals (mt : matcher) (a : arg) : option bool :=
  let np := match mt_pending mt with
            | Some p => if beq (p_id p) (a_id a) then N.of_nat (length (p_raw p)) else 0
            | None => 0 end in
  match a_num a with Some r => Some (r_accepts_more r np) | None => None end.

Definition pending_arg_id (mt : matcher) := opt_map p_id (mt_pending mt).

Definition ident_eqb (a b : option ident) : bool :=
  match a, b with
  | None, None => true
  | Some IShort, Some IShort | Some ILong, Some ILong | Some IIndex, Some IIndex => true
  | _, _ => false
  end.

(** [pending_values_mut(id, ident, trailing)] followed by an optional push.
    The two [debug_assert_eq!] are modelled: [None] = the assertion fails. *)
Definition pending_values_push (mt : matcher) (i : id) (idn : option ident) (trailing : bool)
           (v : option bytes) : option matcher :=
  let p := match mt_pending mt with
           | Some p => p
           | None => mkPending i idn [] None end in
  if negb (beq (p_id p) i) then None
  else if is_some idn && negb (ident_eqb (p_ident p) idn) then None
  else
  let ti := if trailing then match p_trailing_idx p with Some t => Some t | None => Some (N.of_nat (length (p_raw p))) end
            else p_trailing_idx p in
  Some (mt <| mt_pending := Some (mkPending (p_id p) (p_ident p)
                                 (match v with Some x => p_raw p ++ [x] | None => p_raw p end) ti) |>).
Definition start_trailing (mt : matcher) : matcher :=
  match mt_pending mt with
  | Some p => mt <| mt_pending := Some (p <| p_trailing_idx :=
        match p_trailing_idx p with Some t => Some t | None => Some (N.of_nat (length (p_raw p))) end |>) |>
  | None => mt
  end.
