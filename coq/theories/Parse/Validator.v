(** [Validator], [Conflicts], [Command::{required_graph, unroll_args_in_group, unroll_arg_requires}]
    (parser/validator.rs, builder/command.rs).  Same function names, same branch order. *)
From ClapModel Require Import Base.Bytes Base.Machine Parse.Cmd Parse.Matcher Parse.Errors.
From Coq Require Import ZArith.
Open Scope N_scope.

Inductive vres := VOk | VErr (k : ekind) (a : bytes) | VPanic (site : N).

(** [Command::required_graph]: the ids of the [ChildGraph] in insertion order
    ([insert] dedups, [insert_child] does not). *)
Definition graph_insert (g : list id) (i : id) : list id := if mem_id i g then g else g ++ [i].
Definition required_graph (c : cmd) : list id :=
  let g := fold_left (fun g a => if a_required a then graph_insert g (a_id a) else g) (c_args c) [] in
  fold_left (fun g grp => if g_required grp then graph_insert g (g_id grp) ++ g_requires grp else g) (c_groups c) g.

(** [Command::unroll_args_in_group]; [None] = the [expect] on the group lookup fails or fuel ran out *)
Fixpoint unroll_group_loop (c : cmd) (fuel : nat) (g_vec : list id) (args : list id) : option (list id) :=
  match fuel with
  | O => None
  | S f =>
      match g_vec with
      | [] => Some args
      | g :: rest =>      (* Vec::pop takes the last element; g_vec is kept reversed (head = top) *)
          match find_group c g with
          | None => None
          | Some grp =>
              let '(args', pushed) :=
                fold_left (fun acc n =>
                             let '(args, pushed) := acc in
                             if mem_id n args then (args, pushed)
                             else if is_some (find_arg c n) then (args ++ [n], pushed)
                             else (args, n :: pushed)) (g_args grp) (args, []) in
              unroll_group_loop c f (pushed ++ rest) args'
          end
      end
  end.
Definition unroll_args_in_group (c : cmd) (g : id) : option (list id) :=
  unroll_group_loop c (S (S (length (c_groups c) + length (flat_map g_args (c_groups c))))) [g] [].

(** [Command::unroll_arg_requires] with [func] = "predicate holds of [matched]".
    [func] judges the rules of the root [arg] itself; of an argument reached only through the chain only the
    unconditional rules ([ArgPredicate::IsPresent]) are followed (and still passed through [func]). *)
Definition pred_is_present (p : pred) : bool := match p with PIsPresent => true | PEquals _ => false end.
Definition relevant_rule (func : pred * id -> option id) (is_root : bool) (rule : pred * id) : option id :=
  if is_root || pred_is_present (fst rule) then func rule else None.
Fixpoint unroll_requires_loop (c : cmd) (func : pred * id -> option id) (root : id) (fuel : nat)
         (r_vec processed args : list id) : option (list id) :=
  match fuel with
  | O => None
  | S f =>
      match r_vec with
      | [] => Some args
      | a :: rest =>
          if mem_id a processed then unroll_requires_loop c func root f rest processed args
          else
            let processed := processed ++ [a] in
            match find_arg c a with
            | None => unroll_requires_loop c func root f rest processed args
            | Some arg_def =>
                let is_root := beq a root in
                let '(args', pushed) :=
                  fold_left (fun acc r =>
                               let '(args, pushed) := acc in
                               let pushed := match find_arg c r with
                                             | Some req => if negb (is_nil (a_requires req)) then a_id req :: pushed else pushed
                                             | None => pushed end in
                               (args ++ [r], pushed))
                            (filter_map (relevant_rule func is_root) (a_requires arg_def)) (args, []) in
                unroll_requires_loop c func root f (pushed ++ rest) processed args'
            end
      end
  end.
Definition requires_fuel (c : cmd) : nat :=
  S (S (S (length (flat_map a_requires (c_args c)) + length (flat_map a_requires (c_args c))))).
Definition unroll_arg_requires (c : cmd) (func : pred * id -> option id) (a : id) : option (list id) :=
  unroll_requires_loop c func a (requires_fuel c) [a] [] [].

(** [gather_direct_conflicts] *)
Definition gather_arg_direct_conflicts (c : cmd) (a : arg) : option (list id) :=
  let from_groups :=
    fold_left (fun acc gid =>
                 match acc with
                 | None => None
                 | Some conf =>
                     match find_group c gid with
                     | None => None                    (* expect(INTERNAL_ERROR_MSG) *)
                     | Some grp =>
                         let conf := conf ++ g_conflicts grp in
                         Some (if negb (g_multiple grp)
                               then conf ++ filter (fun m => negb (beq m (a_id a))) (g_args grp)
                               else conf)
                     end
                 end) (groups_for_arg c (a_id a)) (Some (a_blacklist a)) in
  match from_groups with
  | None => None
  | Some conf => Some (conf ++ a_overrides a)
  end.
Definition gather_direct_conflicts (c : cmd) (i : id) : option (list id) :=
  match find_arg c i with
  | Some a => gather_arg_direct_conflicts c a
  | None => match find_group c i with
            | Some g => Some (g_conflicts g)
            | None => None                              (* debug_assert!(false, "id is unknown") *)
            end
  end.

Definition explicit_entries (mt : matcher) : list (id * marg) :=
  filter (fun p => check_explicit_m PIsPresent (snd p)) (mt_args mt).

(** [Conflicts::with_args]: [None] = a panic site was reached *)
Definition conflicts_with_args (c : cmd) (mt : matcher) : option (list (id * list id)) :=
  fold_right (fun p acc =>
                match acc, gather_direct_conflicts c (fst p) with
                | Some l, Some conf => Some ((fst p, conf) :: l)
                | _, _ => None
                end) (Some []) (explicit_entries mt).

(** [Conflicts::gather_conflicts] *)
Definition gather_conflicts (c : cmd) (potential : list (id * list id)) (arg_id : id) : option (list id) :=
  match (match fm_get arg_id potential with
         | Some x => Some x
         | None => gather_direct_conflicts c arg_id end) with
  | None => None
  | Some mine =>
      Some (flat_map (fun p =>
              let '(other, other_conf) := p in
              if beq arg_id other then []
              else (if mem_id other mine then [other] else [])
                   ++ (if mem_id arg_id other_conf then [other] else [])) potential)
  end.

(** [validate_exclusive] *)
Definition validate_exclusive (c : cmd) (mt : matcher) : vres :=
  let expl_args := filter (fun p => is_some (find_arg c (fst p))) (explicit_entries mt) in
  if Nat.leb (length expl_args) 1 then VOk
  else match find_map (fun p => match find_arg c (fst p) with
                                | Some a => if a_exclusive a then Some a else None
                                | None => None end) (explicit_entries mt) with
       | Some a => VErr EArgumentConflict (a_id a)
       | None => VOk
       end.

(** [build_conflict_err]: the two [expect]s are panic sites *)
Definition build_conflict_err (c : cmd) (name : id) (conflict_ids : list id) : vres :=
  if is_nil conflict_ids then VOk
  else
    let unrolled := fold_right (fun cid acc =>
                      match acc with
                      | None => None
                      | Some l => if is_some (find_group c cid)
                                  then match unroll_args_in_group c cid with Some u => Some (u ++ l) | None => None end
                                  else Some (cid :: l)
                      end) (Some []) conflict_ids in
    match unrolled with
    | None => VPanic 506
    | Some l =>
        if forallb (fun i => is_some (find_arg c i)) l
        then match find_arg c name with
             | Some _ => VErr EArgumentConflict name
             | None => VPanic 153
             end
        else VPanic 147
    end.

Fixpoint first_err (l : list vres) : vres :=
  match l with
  | [] => VOk
  | VOk :: t => first_err t
  | e :: _ => e
  end.

(** [validate_conflicts] *)
Definition validate_conflicts (c : cmd) (mt : matcher) (potential : list (id * list id)) : vres :=
  match validate_exclusive c mt with
  | VOk =>
      first_err (map (fun p =>
        match gather_conflicts c potential (fst p) with
        | None => VPanic 401
        | Some conf => build_conflict_err c (fst p) conf
        end) (filter (fun p => is_some (find_arg c (fst p))) (explicit_entries mt)))
  | e => e
  end.

(** [gather_requires]: [None] = fuel/expect failure in the unrolling *)
Definition gather_requires (c : cmd) (mt : matcher) (required : list id) : option (list id) :=
  fold_left (fun acc p =>
               match acc with
               | None => None
               | Some req =>
                   let '(name, matched) := p in
                   match find_arg c name with
                   | Some arg =>
                       let is_relevant (r : pred * id) :=
                           if check_explicit_m (fst r) matched then Some (snd r) else None in
                       match unroll_arg_requires c is_relevant (a_id arg) with
                       | None => None
                       | Some rs => Some (fold_left graph_insert rs req)
                       end
                   | None =>
                       match find_group c name with
                       | Some g => Some (fold_left graph_insert (g_requires g) req)
                       | None => Some req
                       end
                   end
               end) (explicit_entries mt) (Some required).

(** [is_missing_required_ok] *)
Definition is_missing_required_ok (c : cmd) (potential : list (id * list id)) (a : arg) : option bool :=
  match gather_conflicts c potential (a_id a) with
  | None => None
  | Some l =>
      if negb (is_nil l) then Some true
      else fold_left (fun acc g =>
                        match acc with
                        | None => None
                        | Some true => Some true
                        | Some false =>
                            match gather_conflicts c potential g with
                            | None => None
                            | Some l => Some (negb (is_nil l))
                            end
                        end) (groups_for_arg c (a_id a)) (Some false)
  end.

(** [fails_arg_required_unless] *)
Definition fails_arg_required_unless (mt : matcher) (a : arg) : bool :=
  let exists_ i := check_explicit mt i PIsPresent in
  (is_nil (a_r_unless_all a) || negb (forallb exists_ (a_r_unless_all a)))
  && negb (existsb exists_ (a_r_unless a)).

(** [validate_required]: returns the list of missing ids ([None] = panic) *)
Definition missing_required (c : cmd) (mt : matcher) (potential : list (id * list id)) : option (list id) :=
  match gather_requires c mt (required_graph c) with
  | None => None
  | Some required =>
      let is_exclusive_present :=
        existsb (fun p => match find_arg c (fst p) with Some a => a_exclusive a | None => false end)
                (explicit_entries mt) in
      let step1 :=
        fold_left (fun acc aog =>
          match acc with
          | None => None
          | Some (missing, highest) =>
              if check_explicit mt aog PIsPresent then acc
              else match find_arg c aog with
                   | Some a =>
                       if is_exclusive_present then acc
                       else match is_missing_required_ok c potential a with
                            | None => None
                            | Some true => acc
                            | Some false =>
                                Some (missing ++ [a_id a],
                                      if a_last a then highest else N.max highest (opt_default 0 (a_index a)))
                            end
                   | None =>
                       match find_group c aog with
                       | Some g =>
                           match unroll_args_in_group c (g_id g) with
                           | None => None
                           | Some members =>
                               if existsb (fun m => check_explicit mt m PIsPresent) members then acc
                               else Some (missing ++ [g_id g], highest)
                           end
                       | None => acc
                       end
                   end
          end) required (Some ([], 0)) in
      match step1 with
      | None => None
      | Some (missing, highest) =>
          let '(missing, highest) :=
            fold_left (fun acc a =>
              let '(missing, highest) := acc in
              if check_explicit mt (a_id a) PIsPresent then acc
              else
                let r1 := existsb (fun r => check_explicit mt (fst r) (PEquals (snd r))) (a_r_ifs a) in
                let r2 := forallb (fun r => check_explicit mt (fst r) (PEquals (snd r))) (a_r_ifs_all a)
                          && negb (is_nil (a_r_ifs_all a)) in
                let r3 := (negb (is_nil (a_r_unless a)) || negb (is_nil (a_r_unless_all a)))
                          && fails_arg_required_unless mt a in
                if negb is_exclusive_present && (r1 || r2 || r3)
                then (missing ++ [a_id a],
                      if a_last a then highest else N.max highest (opt_default 0 (a_index a)))
                else acc) (c_args c) (missing, highest) in
          let missing :=
            if negb (is_set s_allow_missing_pos c) then
              fold_left (fun missing p =>
                           if check_explicit mt (a_id p) PIsPresent then missing
                           else match a_index p with
                                | Some i => if i <? highest then missing ++ [a_id p] else missing
                                | None => (* None < Some(_) *) missing ++ [a_id p]
                                end) (positionals c) missing
            else missing in
          Some missing
      end
  end.

(** [Validator::validate] *)
Definition validate (c : cmd) (mt : matcher) : vres :=
  match conflicts_with_args c mt with
  | None => VPanic 480
  | Some potential =>
      let has_subcmd := is_some (mt_sub mt) in
      if negb has_subcmd && is_set s_arg_required_else_help c && is_nil (explicit_entries mt)
      then VErr EDisplayHelpOnMissing []
      else if negb has_subcmd && is_set s_sub_required c then VErr EMissingSubcommand []
      else match validate_conflicts c mt potential with
           | VOk =>
               if is_set s_subs_negate_reqs c && has_subcmd then VOk
               else match missing_required c mt potential with
                    | None => VPanic 481
                    | Some [] => VOk
                    | Some (m :: _) => VErr EMissingRequiredArgument m
                    end
           | e => e
           end
  end.
