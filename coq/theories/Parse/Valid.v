(** The configuration validity gate: [assert_app], [assert_arg], [_verify_positionals]
    (builder/debug_asserts.rs) as a boolean function on a *built* command. *)
From ClapModel Require Import Base.Bytes Base.Machine Parse.Cmd Parse.Build.
From Coq Require Import ZArith.
Open Scope N_scope.

Definition count_if {A} (f : A -> bool) (l : list A) : nat := length (filter f l).
Definition starts_with_dash (s : bytes) := match s with 45 :: _ => true | _ => false end.
Definition opt_n_eqb (a b : option N) := match a, b with Some x, Some y => x =? y | None, None => true | _, _ => false end.

(** [assert_arg] *)
Definition assert_arg (a : arg) : bool :=
  let act := a_get_action a in
  let nv := opt_default r_single (a_num a) in
  negb (mem_id (a_id a) (a_blacklist a))
  && (vmax nv <=? vmax (action_max_num_args act))
  && match action_value_type act, a_vp a with
     | Some t, Some vp => t =? vp_type vp
     | Some _, None => false
     | None, _ => true end
  && (if is_some (a_index a) then a_is_positional a && a_takes_value a else true)
  && is_some (a_num a)
  && (if r_eqb nv r_empty then true else negb (vmax nv <? a_nvalnames a))
  && (if 1 <? vmin nv then negb (a_req_eq a) else true)
  && (vmin nv <=? vmax nv)
  && (if a_hyphen a then a_takes_value a else true)
  && (if a_negnum a then a_takes_value a else true)
  && (if a_req_eq a then a_takes_value a else true)
  && (if a_last a then a_takes_value a else true)
  && (if a_multiple_values a then a_takes_value a else true)
  && (if a_ignore_case a then a_takes_value a else true).

(** one entry of the long/short flag tables: (flag, is_command, owner) *)
Definition flags_ok {K} (eqk : K -> K -> bool) (l : list (K * bool * bytes)) : bool :=
  forallb (fun x => forallb (fun y =>
     let '(f1, k1, o1) := x in let '(f2, k2, o2) := y in
     if eqk f1 f2 then (Bool.eqb k1 k2 && beq o1 o2) else true) l) l.

Fixpoint nodup_ids (l : list bytes) : bool :=
  match l with [] => true | x :: t => negb (mem_id x t) && nodup_ids t end.

(** [_verify_positionals] *)
Definition verify_positionals (c : cmd) : bool :=
  let pos_keys := filter_map (fun p => match fst p with KPos n => Some n | _ => None end) (keymap c) in
  let highest := fold_left N.max pos_keys 0 in
  let num_p := N.of_nat (length pos_keys) in
  let pos := positionals c in
  (highest =? num_p)
  && forallb (fun a =>
       if opt_default 0 (a_index a) =? highest
       then (negb (a_tva a) || negb (a_last a)) && (if a_tva a then a_is_multiple a else true)
       else negb (a_tva a)) (c_args c)
  && (if existsb (fun a => a_is_multiple a && negb (opt_default 0 (a_index a) =? highest)) pos then
        match get_pos c highest, get_pos c (highest - 1) with
        | Some last, Some stl =>
            (a_required last || (is_some (a_term stl) || a_last stl) || a_last last)
            && (a_is_multiple stl || a_last last)
            && (let count := count_if (fun p => a_multiple_values p && negb (is_some (a_term p))
                                                 && negb (r_is_fixed (opt_default r_single (a_num p)))) pos in
                (Nat.leb count 1)
                || (a_last last && a_is_multiple last && a_is_multiple stl && Nat.eqb count 2))
        | _, _ => false      (* Index<&KeyType> expect: a panic inside the validity gate *)
        end
      else true)
  && (if is_set s_allow_missing_pos c then
        (* foundx2 scan in definition order of positionals *)
        (fix scan (l : list arg) (found foundx2 : bool) : bool :=
           match l with
           | [] => true
           | p :: t =>
               if foundx2 && negb (a_required p) then false
               else if a_required p && negb (a_last p) then
                      if found then scan t found true else scan t true foundx2
                    else scan t false foundx2
           end) pos false false
      else
        (fix scan (n : nat) (found : bool) : bool :=
           match n with
           | O => true
           | S k =>
               match get_pos c (N.of_nat n) with
               | None => scan k found
               | Some p =>
                   if found then a_required p && scan k found
                   else if a_required p && negb (a_last p) then scan k true else scan k found
               end
           end) (N.to_nat num_p) false)
  && Nat.ltb (count_if a_last pos) 2
  && negb (existsb (fun p => a_last p && a_required p) pos && has_subcommands c
           && negb (is_set s_subs_negate_reqs c)).

(** [assert_app] *)
Definition assert_app (c : cmd) : bool :=
  (if negb (is_some (c_version c)) && negb (is_some (c_long_version c))
   then negb (is_set s_propagate_version c)
        && negb (existsb (fun a => match a_get_action a with AVersion => true | _ => false end) (c_args c))
   else true)
  && forallb (fun sc => match c_long_flag sc with Some l => negb (starts_with_dash l) | None => true end) (c_subs c)
  && forallb (fun a =>
       assert_arg a
       && negb (is_set s_multicall c)
       && match a_long a with Some l => negb (starts_with_dash l) | None => true end
       && Nat.ltb (count_if (fun x => beq (a_id x) (a_id a)) (c_args c)) 2
       && match a_long a with
          | Some l => Nat.ltb (count_if (fun x => match a_long x with Some l' => beq l' l | None => false end) (c_args c)) 2
          | None => true end
       && match a_short a with
          | Some s => Nat.ltb (count_if (fun x => opt_n_eqb (a_short x) (Some s)) (c_args c)) 2
          | None => true end
       && match a_index a with
          | Some i => Nat.ltb (count_if (fun x => a_is_positional x && opt_n_eqb (a_index x) (Some i)) (c_args c)) 2
          | None => true end
       && forallb (fun r => negb (beq (a_id a) (snd r)) && id_exists c (snd r)) (a_requires a)
       && forallb (fun r => negb (a_required a) && id_exists c (fst r)) (a_r_ifs a)
       && forallb (fun r => negb (a_required a) && id_exists c (fst r)) (a_r_ifs_all a)
       && forallb (fun r => negb (a_required a) && id_exists c r) (a_r_unless a)
       && forallb (fun r => negb (a_required a) && id_exists c r) (a_r_unless_all a)
       && forallb (id_exists c) (a_blacklist a)
       && forallb (id_exists c) (a_overrides a)
       && (if a_last a then negb (is_some (a_long a)) && negb (is_some (a_short a)) else true)
       && negb (a_required a && a_global a)) (c_args c)
  && forallb (fun g =>
       Nat.ltb (count_if (fun x => beq (g_id x) (g_id g)) (c_groups c)) 2
       && negb (is_some (find_arg c (g_id g)))
       && forallb (fun m => is_some (find_arg c m)) (g_args g)
       && forallb (id_exists c) (g_requires g)
       && forallb (id_exists c) (g_conflicts g)) (c_groups c)
  && flags_ok beq
       (flat_map (fun sc => (match c_long_flag sc with Some l => [(l, true, c_name sc)] | None => [] end)
                            ++ map (fun p => (fst p, true, c_name sc)) (c_long_flag_aliases sc)) (c_subs c)
        ++ flat_map (fun a => (match a_long a with Some l => [(l, false, a_id a)] | None => [] end)
                              ++ map (fun p => (fst p, false, a_id a)) (a_aliases a)) (c_args c))
  && flags_ok N.eqb
       (flat_map (fun sc => (match c_short_flag sc with Some s => [(s, true, c_name sc)] | None => [] end)
                            ++ map (fun p => (fst p, true, c_name sc)) (c_short_flag_aliases sc)) (c_subs c)
        ++ flat_map (fun a => (match a_short a with Some s => [(s, false, a_id a)] | None => [] end)
                              ++ map (fun p => (fst p, false, a_id a)) (a_short_aliases a)) (c_args c))
  && nodup_ids (all_subcommand_names c)
  && verify_positionals c
  && negb (is_set s_multicall c && is_set s_no_binary_name c).

(** validity of the whole tree = every node, once built the way the parser builds it when it
    descends ([_build_subcommand]: bin/display names, then [_build_self]), passes [assert_app]
    (what [Command::build] checks in a debug build) *)
Fixpoint valid_tree (fuel : nat) (c : cmd) : bool :=      (* [c] is built *)
  match fuel with
  | O => false
  | S f => assert_app c
           && forallb (fun s => match build_subcommand c (c_name s) with
                                | Some sc => valid_tree f sc
                                | None => false end) (c_subs c)
  end.
Definition valid (c : cmd) : bool := let b := build_self c in valid_tree (S (S (depth b))) b.
