(** The build step: [Arg::_build], [Command::_build_self], [_propagate], [_propagate_global_args],
    [_check_help_and_version], [_build_subcommand] (builder/arg.rs, builder/command.rs).
    A function that mutates through [&mut self] returns the new value. *)
From ClapModel Require Import Base.Bytes Base.Machine Parse.Cmd.
From Coq Require Import ZArith.
From RecordUpdate Require Import RecordSet.
Import RecordSetNotations.
Open Scope N_scope.

Definition s_help : bytes := [104; 101; 108; 112].
Definition s_version : bytes := [118; 101; 114; 115; 105; 111; 110].
Definition s_subcommand : bytes := [115; 117; 98; 99; 111; 109; 109; 97; 110; 100].
(** "Print this message or the help of the given subcommand(s)" *)
Definition s_help_about : bytes :=
  [80; 114; 105; 110; 116; 32; 116; 104; 105; 115; 32; 109; 101; 115; 115; 97; 103; 101; 32; 111; 114; 32; 116; 104; 101; 32; 104; 101; 108; 112; 32; 111; 102; 32; 116; 104; 101; 32; 103; 105; 118; 101; 110; 32; 115; 117; 98; 99; 111; 109; 109; 97; 110; 100; 40; 115; 41].

(** [Arg::_build], one definition per block of the Rust function *)
Definition ab_action (a : arg) : arg :=
  match a_action a with
  | Some _ => a
  | None =>
      a <| a_action := Some
             (match a_num a with
              | Some r => if r_eqb r r_empty then ASetTrue
                          else if a_is_positional a && r_is_unbounded r then AAppend else ASet
              | None => (* num_vals.unwrap_or_default() = SINGLE: bounded *) ASet
              end) |>
  end.
Definition ab_default (a : arg) : arg :=
  match action_default_value (a_get_action a) with
  | Some d => if is_nil (a_default a) then a <| a_default := [d] |> else a
  | None => a end.
Definition ab_dmissing (a : arg) : arg :=
  match action_default_missing_value (a_get_action a) with
  | Some d => if is_nil (a_default_missing a) then a <| a_default_missing := [d] |> else a
  | None => a end.
Definition ab_vp (a : arg) : arg :=
  match a_vp a with
  | Some _ => a
  | None => a <| a_vp := Some (opt_default VPString (action_default_vp (a_get_action a))) |> end.
Definition ab_num (a : arg) : arg :=
  match a_num a with
  | Some _ => a
  | None =>
      if 1 <? a_nvalnames a then a <| a_num := Some {| vmin := a_nvalnames a; vmax := a_nvalnames a |} |>
      else a <| a_num := Some (action_default_num_args (a_get_action a)) |>
  end.
Definition arg_build (a : arg) : arg := ab_num (ab_vp (ab_dmissing (ab_default (ab_action a)))).

(** the auto-generated arguments and the help subcommand *)
Definition help_arg : arg :=
  (arg_new s_help) <| a_short := Some 104 |> <| a_long := Some s_help |> <| a_action := Some AHelp |>
                   <| a_help := Some [80] |>.
Definition version_arg : arg :=
  (arg_new s_version) <| a_short := Some 86 |> <| a_long := Some s_version |> <| a_action := Some AVersion |>
                      <| a_help := Some [80] |>.
Definition help_subcommand_arg : arg :=
  (arg_new s_subcommand) <| a_action := Some AAppend |> <| a_num := Some r_full |> <| a_nvalnames := 1 |>
                         <| a_help := Some [80] |>.

(** [_propagate_subcommand]: version (with PropagateVersion), global settings *)
Definition propagate_subcommand (parent sc : cmd) : cmd :=
  let sc := if s_propagate_version (c_set parent) then
              let sc := match c_version parent, c_version sc with
                        | Some v, None => sc <| c_version := Some v |> | _, _ => sc end in
              match c_long_version parent, c_long_version sc with
              | Some v, None => sc <| c_long_version := Some v |> | _, _ => sc end
            else sc in
  sc <| c_set := settings_or (c_set sc) (c_gset parent) |>
     <| c_gset := settings_or (c_gset sc) (c_gset parent) |>.

Definition help_subcommand (parent : cmd) : cmd :=
  let h := (cmd_new s_help) <| c_about := Some s_help_about |> <| c_args := [help_subcommand_arg] |> in
  let h := propagate_subcommand parent h in
  h <| c_version := None |> <| c_long_version := None |>
    <| c_set := (c_set h) <| s_disable_help_flag := true |> <| s_disable_version_flag := true |> |>
    <| c_gset := (c_gset h) <| s_propagate_version := false |> |>.
  (* unset_global_setting clears both settings and g_settings *)

Definition fix_help_unset (h : cmd) : cmd :=
  h <| c_set := (c_set h) <| s_propagate_version := false |> |>.

(** fill in the groups named by [Arg::group(..)] *)
Fixpoint add_arg_to_groups (aid : id) (gs : list id) (groups : list group) : list group :=
  match gs with
  | [] => groups
  | g :: t =>
      let groups' :=
        if existsb (fun grp => beq (g_id grp) g) groups
        then (* first group with that id gets the member *)
          (fix upd (l : list group) : list group :=
             match l with
             | [] => []
             | grp :: r => if beq (g_id grp) g then (grp <| g_args := g_args grp ++ [aid] |>) :: r
                           else grp :: upd r
             end) groups
        else groups ++ [(group_new g) <| g_args := [aid] |>] in
      add_arg_to_groups aid t groups'
  end.

(** the loop over [args_mut]: groups, [_build], positional index assignment *)
Fixpoint build_args (args : list arg) (groups : list group) (pos_counter : N) : list arg * list group :=
  match args with
  | [] => ([], groups)
  | a :: t =>
      let groups := add_arg_to_groups (a_id a) (a_groups a) groups in
      let a := arg_build a in
      let '(a, pc) := if a_is_positional a && negb (is_some (a_index a))
                      then (a <| a_index := Some pos_counter |>, pos_counter + 1) else (a, pos_counter) in
      let '(t', groups') := build_args t groups pc in
      (a :: t', groups')
  end.

(** [_build_self], one definition per block of the Rust function
    (for a command that is not yet built; the [Built] flag is tracked in [s_built]) *)
Definition bs_settings (c : cmd) : cmd :=
  let c := c <| c_set := settings_or (c_set c) (c_gset c) |> in
  (* multicall: not modelled (generators never set it) *)
  let c := if is_set s_args_negate_subs c then c <| c_set := (c_set c) <| s_subs_negate_reqs := true |> |> else c in
  let c := if is_some (c_ext_vp c) then c <| c_set := (c_set c) <| s_allow_external := true |> |> else c in
  if negb (has_subcommands c) then c <| c_set := (c_set c) <| s_disable_help_sub := true |> |> else c.
(** [_propagate] *)
Definition bs_propagate (c : cmd) : cmd := c <| c_subs := map (propagate_subcommand c) (c_subs c) |>.
(** [_check_help_and_version] *)
Definition bs_help_version (c : cmd) : cmd :=
  let c := if negb (is_set s_disable_help_flag c) then c <| c_args := c_args c ++ [help_arg] |> else c in
  let c := if negb (is_disable_version_flag_set c) then c <| c_args := c_args c ++ [version_arg] |> else c in
  if negb (is_set s_disable_help_sub c)
  then c <| c_subs := c_subs c ++ [fix_help_unset (help_subcommand c)] |> else c.
(** [_propagate_global_args] *)
Definition bs_globals (c : cmd) : cmd :=
  let autogenerated_help := negb (is_set s_disable_help_sub c) in
  let globals := filter a_global (c_args c) in
  c <| c_subs := map (fun sc =>
          if beq (c_name sc) s_help && autogenerated_help then sc
          else fold_left (fun sc a => if is_some (find_arg sc (a_id a)) then sc
                                      else sc <| c_args := c_args sc ++ [a] |>) globals sc)
        (c_subs c) |>.
(** the loop over the args and [self.args._build()] *)
Definition bs_args (c : cmd) : cmd :=
  let ba := build_args (c_args c) (c_groups c) 1 in
  c <| c_args := fst ba |> <| c_groups := snd ba |>.
(** deprecated command-level AllowHyphenValues / AllowNegativeNumbers / TrailingVarArg *)
Definition bs_deprecated_arg (c : cmd) (highest : N) (a : arg) : arg :=
  let a := if is_set s_allow_hyphen c && a_takes_value a then a <| a_hyphen := true |> else a in
  let a := if is_set s_allow_negnum c && a_takes_value a then a <| a_negnum := true |> else a in
  if is_set s_tva c && match a_index a with Some n => n =? highest | None => false end
  then a <| a_tva := true |> else a.
Definition bs_deprecated (c : cmd) : cmd :=
  let highest := fold_left (fun m a => match a_index a with Some n => N.max m n | None => m end) (c_args c) 0 in
  c <| c_args := map (bs_deprecated_arg c highest) (c_args c) |>.
Definition bs_mark (c : cmd) : cmd := c <| c_set := (c_set c) <| s_built := true |> |>.

Definition build_self (c : cmd) : cmd :=
  if s_built (c_set c) then c
  else bs_mark (bs_deprecated (bs_args (bs_globals (bs_help_version (bs_propagate (bs_settings c)))))).

(** [_build_subcommand]: bin/display names, then [_build_self] of the child.
    Returns the child (the parent is unchanged in this functional reading; the in-place
    mutation matters only for re-entrancy, see Reentrancy.v). *)
Definition build_subcommand (c : cmd) (name : bytes) : option cmd :=
  match find (fun s => beq (c_name s) name) (c_subs c) with
  | None => None
  | Some sc =>
      let bin := match c_bin_name c with
                 | Some b => b ++ [32] ++ c_name sc
                 | None => c_name sc end in
      let sc := sc <| c_bin_name := Some bin |> in
      let sc := match c_display_name sc with
                | Some _ => sc
                | None =>
                    let sd := opt_default (c_name c) (c_display_name c) in
                    sc <| c_display_name := Some (sd ++ (if is_nil sd then [] else [45]) ++ c_name sc) |>
                end in
      Some (build_self sc)
  end.

(** fully build the tree ([Command::build] without the help-tree expansion) *)
Fixpoint build_recursive (fuel : nat) (c : cmd) : cmd :=
  match fuel with
  | O => c
  | S f => let c := build_self c in c <| c_subs := map (build_recursive f) (c_subs c) |>
  end.
