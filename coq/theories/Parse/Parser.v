(** The parser: [Parser::{get_matches_with, parse, match_arg_error, possible_subcommand,
    possible_long_flag_subcommand, parse_help_subcommand, is_new_arg, parse_subcommand,
    parse_long_arg, parse_short_arg, parse_opt_value, check_terminator, push_arg_values,
    resolve_pending, react, verify_num_args, remove_overrides, add_env, add_defaults,
    add_default_value, start_custom_arg}] (parser/parser.rs), [Command::{_do_parse,
    try_get_matches_from_mut, get_used_global_args}] (builder/command.rs) and
    [ArgMatcher::{propagate_globals, fill_in_global_values}] (parser/arg_matcher.rs).

    Every [unwrap]/[expect]/[unreachable!]/[debug_assert] on the path is an explicit
    [RPanic site] (site = source line of the pinned tree); every failing result carries the
    parser state at the point of failure, because under [ignore_errors] the partially filled
    matcher is what the caller receives. *)
From ClapModel Require Import Base.Bytes Base.Machine Base.Utf8 Lex.OsStrExtModel.
From ClapModel Require Import Parse.Cmd Parse.Build Parse.Valid Parse.Matcher Parse.Errors Parse.Validator.
From ClapModel Require Value.ValueBase Value.IntFactory Value.BoolParse Value.PossibleValues.
From Coq Require Import ZArith.
From RecordUpdate Require Import RecordSet.
Import RecordSetNotations.
Open Scope N_scope.

(** ---------- parser state and result monad ---------- *)
Record ps := mkPs { mt : matcher; cur_idx : N; fs_at : option N; fs_skip : N }.
#[export] Instance eta_ps : Settable _ := settable! mkPs <mt; cur_idx; fs_at; fs_skip>.
Definition ps_bump (st : ps) := st <| cur_idx := cur_idx st + 1 |>.
Definition ps_new := mkPs matcher_new 0 None 0.

Inductive res (A : Type) := ROk (a : A) | RErr (e : error) (st : ps) | RPanic (site : N).
Arguments ROk {A}. Arguments RErr {A}. Arguments RPanic {A}.
Definition rbind {A B} (r : res A) (f : A -> res B) : res B :=
  match r with ROk a => f a | RErr e st => RErr e st | RPanic s => RPanic s end.
Notation "'do' x <- r ; k" := (rbind r (fun x => k)) (at level 200, x pattern, r at level 100, k at level 200).
Definition expect {A} (site : N) (o : option A) : res A := match o with Some a => ROk a | None => RPanic site end.

(** ---------- lexing on bytes (LexModel proves these equal to clap_lex's ParsedArg) ---------- *)
Definition DASH : N := 45.
Definition EQ : N := 61.
Definition is_escape (s : bytes) := beq s [DASH; DASH].
Definition is_stdio (s : bytes) := beq s [DASH].
Definition is_long (s : bytes) := starts_with s [DASH; DASH] && negb (is_escape s).
Definition is_short (s : bytes) := starts_with s [DASH] && negb (is_stdio s) && negb (starts_with s [DASH; DASH]).
(** [to_long]: Some (flag, flag is UTF-8, value) *)
Definition to_long (s : bytes) : option (bytes * bool * option bytes) :=
  match strip_prefix s [DASH; DASH] with
  | None => None
  | Some [] => None
  | Some r => match split_once r [EQ] with
              | Some (f, v) => Some (f, utf8_valid f, Some v)
              | None => Some (r, utf8_valid r, None)
              end
  end.
(** [to_short]: the remainder bytes of the cluster *)
Definition to_short (s : bytes) : option bytes :=
  match strip_prefix s [DASH] with
  | None => None
  | Some r => if starts_with r [DASH] then None else if is_nil r then None else Some r
  end.
Definition is_digit c := (48 <=? c) && (c <=? 57).
Fixpoint is_number_aux (s : bytes) (i : N) (seen_dot : bool) (pos_e : option N) : option (option N) :=
  match s with
  | [] => Some pos_e
  | c :: t =>
     if is_digit c then is_number_aux t (i+1) seen_dot pos_e
     else if (c =? 46) && negb seen_dot && negb (is_some pos_e) && (0 <? i) then is_number_aux t (i+1) true pos_e
     else if ((c =? 101) || (c =? 69)) && negb (is_some pos_e) && (0 <? i) then is_number_aux t (i+1) seen_dot (Some i)
     else None
  end.
Definition is_number (s : bytes) : bool :=
  match is_number_aux s 0 false None with
  | None => false
  | Some None => true
  | Some (Some i) => negb (i =? N.of_nat (length s) - 1)
  end.
(** [ShortFlags::is_negative_number] on the unread remainder; [ParsedArg::is_negative_number] *)
Definition sf_is_negative_number (r : bytes) := utf8_valid r && is_number r.
Definition pa_is_negative_number (s : bytes) :=
  utf8_valid s && match s with 45 :: r => is_number r | _ => false end.
(** [ShortFlags::next_flag] over the unread bytes *)
Definition sf_next (r : bytes) : option ((N + bytes) * bytes) :=
  match r with [] => None | _ =>
    match utf8_step r with
    | Some (c, n) => Some (inl c, skipn n r)
    | None => Some (inr r, []) end end.
Fixpoint sf_advance_by (n : nat) (r : bytes) : option bytes :=
  match n with O => Some r | S k =>
    match sf_next r with Some (inl _, r') => sf_advance_by k r' | _ => None end end.

(** [char::encode_utf8] *)
Definition encode_utf8 (c : N) : bytes :=
  if c <? 128 then [c]
  else if c <? 2048 then [192 + c / 64; 128 + c mod 64]
  else if c <? 65536 then [224 + c / 4096; 128 + (c / 64) mod 64; 128 + c mod 64]
  else [240 + c / 262144; 128 + (c / 4096) mod 64; 128 + (c / 64) mod 64; 128 + c mod 64].

(** decimal rendering of a number ([u8::to_string]) *)
Fixpoint n_to_dec_fuel (fuel : nat) (n : N) (acc : bytes) : bytes :=
  match fuel with
  | O => acc
  | S f => let acc := (48 + n mod 10) :: acc in
           if n / 10 =? 0 then acc else n_to_dec_fuel f (n / 10) acc
  end.
Definition n_to_dec (n : N) : bytes := n_to_dec_fuel 40 n [].

(** ---------- value parsers ---------- *)
(** [str::parse::<i64>]: [+-]?[0-9]+ within the i64 range *)
Fixpoint digits_val (s : bytes) (acc : Z) : option Z :=
  match s with
  | [] => Some acc
  | c :: t => if is_digit c then digits_val t (acc * 10 + Z.of_N (c - 48))%Z else None
  end.
Definition parse_i64 (s : bytes) : option Z :=
  let '(neg, d) := match s with
                   | 45 :: d => (true, d)
                   | 43 :: d => (false, d)
                   | _ => (false, s) end in
  match d with
  | [] => None
  | _ => match digits_val d 0%Z with
         | None => None
         | Some v => let v := if neg then (- v)%Z else v in
                     if in_i64 v then Some v else None
         end
  end.
(** the value parsers C04 models in depth (Value/*.v): only acceptance / the error kind is read here *)
Definition ek_of (k : ClapModel.Value.ValueBase.err_kind) : ekind :=
  match k with
  | ClapModel.Value.ValueBase.InvalidUtf8 => EInvalidUtf8
  | ClapModel.Value.ValueBase.ValueValidation => EValueValidation
  | ClapModel.Value.ValueBase.InvalidValue => EInvalidValue
  end.
Definition vres_kind {A} (r : ClapModel.Value.ValueBase.vresult A) : option ekind :=
  match r with ClapModel.Value.ValueBase.VOk _ => None | ClapModel.Value.ValueBase.VErr k => Some (ek_of k) end.
(** the harness builds clap with the cargo feature `unicode` ([eq_ignore_case] = [unicase::eq]) *)
Definition clap_unicode : bool := true.
(** [value_parser!(T)]: [RangedU64ValueParser] for u64, [RangedI64ValueParser] for the other widths
    (= the regenerated factory table, [TypedView.ity_pkind_factory]) *)
Definition ity_pkind (t : ClapModel.Value.ValueBase.ity) : ClapModel.Value.ValueBase.pkind :=
  match t with
  | ClapModel.Value.ValueBase.U64 => ClapModel.Value.ValueBase.PU64
  | _ => ClapModel.Value.ValueBase.PI64
  end.
Definition vp_parse (v : vparser) (s : bytes) : option ekind :=    (* None = accepted *)
  match v with
  | VPString => if utf8_valid s then None else Some EInvalidUtf8
  | VPOsString => None
  | VPBool => if beq s s_true || beq s s_false then None else Some EInvalidValue
  | VPCount => if negb (utf8_valid s) then Some EInvalidUtf8
               else match parse_i64 s with
                    | Some z => if ((0 <=? z) && (z <=? 255))%Z then None else Some EValueValidation
                    | None => Some EValueValidation end
  | VPI64 lo hi => if negb (utf8_valid s) then Some EInvalidUtf8
                   else match parse_i64 s with
                        | Some z => if ((lo <=? z) && (z <=? hi))%Z then None else Some EValueValidation
                        | None => Some EValueValidation end
  | VPBoolish => vres_kind (ClapModel.Value.BoolParse.boolish_parse s)
  | VPFalsey => vres_kind (ClapModel.Value.BoolParse.falsey_parse s)
  | VPNonEmpty => vres_kind (ClapModel.Value.BoolParse.nonempty_parse s)
  | VPPossible ic pvs =>
      vres_kind (ClapModel.Value.PossibleValues.possible_parse clap_unicode ic (map fst pvs) s)
  | VPRanged t lo hi =>
      vres_kind (ClapModel.Value.IntFactory.ranged_parse (ity_pkind t)
                   (ClapModel.Value.ValueBase.Included lo, ClapModel.Value.ValueBase.Included hi) t s)
  end.

Section WithCmd.
(** The parser of one command level: [c] is the built command, [cpath] its about text
    (what the help of this level starts with). *)
Variable c : cmd.

Definition mkerr (k : ekind) (a : bytes) : error := mkError k a false (opt_default [] (c_about c)) None.
Definition help_err (use_long : bool) : error := mkError EDisplayHelp [] use_long (opt_default [] (c_about c)) None.
Definition version_err (use_long : bool) : error := mkError EDisplayVersion [] use_long (opt_default [] (c_about c)) None.

Inductive presult :=
 | PRFlagSub (n : bytes) | PROpt (i : id) | PRValuesDone | PRAttachedNotConsumed
 | PRUnneeded (rest : bytes) (a : bytes) | PRMaybeHyphen
 | PREqualsNotProvided (a : bytes) | PRNoMatchingArg (a : bytes) | PRNoArg.
Inductive pstate_t := PSValuesDone | PSOpt (i : id) | PSPos (i : id).

(** [verify_num_args] *)
Definition verify_num_args (a : arg) (raw : list bytes) (st : ps) : res unit :=
  if is_set s_ignore_errors c then ROk tt else
  let actual := N.of_nat (length raw) in
  do r <- expect 1333 (a_num a);
  if (0 <? vmin r) && (actual =? 0) then RErr (mkerr EInvalidValue (a_id a)) st   (* empty_value *)
  else match r_num_values r with
  | Some n => if negb (n =? actual) then RErr (mkerr EWrongNumberOfValues (a_id a)) st else ROk tt
  | None =>
      if actual <? vmin r then RErr (mkerr ETooFewValues (a_id a)) st
      else if vmax r <? actual then
        match raw with [] => RPanic 1372 | _ => RErr (mkerr ETooManyValues (a_id a)) st end
      else ROk tt
  end.

(** [remove_overrides] *)
Definition remove_overrides (a : arg) (m : matcher) : matcher :=
  let m1 := fold_left (fun m o => fst (mt_remove m o)) (a_overrides a) m in
  let transitive := filter (fun i => match find_arg c i with
                                     | Some ov => mem_id (a_id a) (a_overrides ov) | None => false end) (arg_ids m1) in
  fold_left (fun m o => fst (mt_remove m o)) transitive m1.

(** [start_custom_arg] *)
Definition start_custom_arg (a : arg) (s : src) (m : matcher) : res matcher :=
  let m1 := match s with SCmdLine => remove_overrides a m | _ => m end in
  let m2 := start_custom_arg_m m1 a s in
  if src_explicit s then
    fold_left (fun rm g => do m <- rm;
                 let m' := start_custom_group_m m g s in
                 expect 1533 (add_val_to m' g (a_id a)))
              (groups_for_arg c (a_id a)) (ROk m2)
  else ROk m2.

(** [push_arg_values] *)
Fixpoint push_arg_values (a : arg) (raw : list bytes) (st : ps) : res ps :=
  match raw with
  | [] => ROk st
  | v :: t =>
      let st1 := ps_bump st in
      do vp <- expect 1101 (a_vp a);
      match vp_parse vp v with
      | Some k => RErr (mkerr k (a_id a)) st1
      | None =>
          do m1 <- expect 1104 (add_val_to (mt st1) (a_id a) v);
          do m2 <- expect 1105 (add_index_to m1 (a_id a) (cur_idx st1));
          push_arg_values a t (st1 <| mt := m2 |>)
      end
  end.

Definition is_cmdline s := match s with SCmdLine => true | _ => false end.
Definition is_flag_ident (i : option ident) := match i with Some IShort | Some ILong => true | _ => false end.

(** the delimiter splitting block of [react] *)
Fixpoint delimit_go (ddt : bool) (db : bytes) (ti : option N) (i : N) (l : list bytes) : option (list bytes) :=
  match l with
  | [] => Some []
  | v :: t =>
      let here :=
        if negb (contains v db) || (ddt && match ti with Some k => k <=? i | None => false end)
        then Some [v]
        else match split v db with SplitOk parts => Some parts | _ => None end in
      match here, delimit_go ddt db ti (i + 1) t with
      | Some a, Some b => Some (a ++ b)
      | _, _ => None
      end
  end.
Definition delimit (a : arg) (raw : list bytes) (ti : option N) : option (list bytes) :=
  match a_delim a with
  | None => Some raw
  | Some d =>
      let ddt := is_set s_dont_delimit_trailing c in
      if ddt && match ti with Some 0 => true | _ => false end then Some raw
      else delimit_go ddt (encode_utf8 d) ti 0 raw
  end.

(** existing count of a [Count] argument: [get_one::<u8>] = the first typed value *)
Definition existing_count (a : arg) (m : matcher) : N :=
  match fm_get (a_id a) (mt_args m) with
  | Some ma => match concat (m_raw ma) with
               | v :: _ => match parse_i64 v with Some z => Z.to_N z | None => 0 end
               | [] => 0 end
  | None => 0
  end.

(** [react] without its leading [resolve_pending] *)
Definition react_core (idn : option ident) (s : src) (a : arg) (raw : list bytes)
           (ti : option N) (st : ps) : res (ps * presult) :=
  do _ <- (if is_cmdline s then verify_num_args a raw st else ROk tt);
  let '(raw, ti) := match raw with
                    | [] => if negb (is_nil (a_default_missing a))
                            then (a_default_missing a, None) else (raw, ti)
                    | _ => (raw, ti) end in
  do raw <- expect 1184 (delimit a raw ti);
  let self_override := is_set s_args_override_self c || mem_id (a_id a) (a_overrides a) in
  let set_like (raw : list bytes) (bump : bool) (st : ps) :=
      let st := if bump && is_cmdline s && is_flag_ident idn then ps_bump st else st in
      let '(m1, removed) := mt_remove (mt st) (a_id a) in
      let st := st <| mt := m1 |> in
      if removed && negb self_override then RErr (mkerr EArgumentConflict (a_id a)) st
      else do m2 <- start_custom_arg a s m1;
           do st' <- push_arg_values a raw (st <| mt := m2 |>);
           ROk (st', PRValuesDone) in
  match a_get_action a with
  | ASet => set_like raw true st
  | AAppend =>
      let st := if is_cmdline s && is_flag_ident idn then ps_bump st else st in
      do m2 <- start_custom_arg a s (mt st);
      do st' <- push_arg_values a raw (st <| mt := m2 |>);
      ROk (st', PRValuesDone)
  | ASetTrue => set_like (match raw with [] => [s_true] | _ => raw end) false st
  | ASetFalse => set_like (match raw with [] => [s_false] | _ => raw end) false st
  | ACount =>
      let raw := match raw with
                 | [] => [n_to_dec (N.min 255 (existing_count a (mt st) + 1))]
                 | _ => raw end in
      let '(m1, _) := mt_remove (mt st) (a_id a) in
      do m2 <- start_custom_arg a s m1;
      do st' <- push_arg_values a raw (st <| mt := m2 |>);
      ROk (st', PRValuesDone)
  | AHelp => RErr (help_err (match idn with Some IShort => false | _ => true end)) st
  | AHelpShort => RErr (help_err false) st
  | AHelpLong => RErr (help_err true) st
  | AVersion => RErr (version_err (match idn with Some IShort => false | _ => true end)) st
  end.

(** [resolve_pending] *)
Definition resolve_pending (st : ps) : res ps :=
  match mt_pending (mt st) with
  | None => ROk st
  | Some p =>
      let st0 := st <| mt := (mt st) <| mt_pending := None |> |> in
      do a <- expect 1120 (find_arg c (p_id p));
      do r <- react_core (p_ident p) SCmdLine a (p_raw p) (p_trailing_idx p) st0;
      ROk (fst r)
  end.
Definition react idn s a raw ti st := do st1 <- resolve_pending st; react_core idn s a raw ti st1.

(** [let _ = self.resolve_pending(matcher)] at the error sites: the error is dropped,
    the state it left behind is kept *)
Definition resolve_pending_ignore (st : ps) : res ps :=
  match resolve_pending st with
  | ROk s => ROk s
  | RErr _ s => ROk s
  | RPanic x => RPanic x
  end.

(** [parse_opt_value] *)
Definition parse_opt_value (idn : ident) (attached : option bytes) (a : arg) (has_eq : bool) (st : ps)
  : res (ps * presult) :=
  if a_req_eq a && negb has_eq then
    do r <- expect 1029 (a_num a);
    if vmin r =? 0 then
      do x <- react (Some idn) SCmdLine a [] None st;
      ROk (fst x, if is_some attached then PRAttachedNotConsumed else PRValuesDone)
    else ROk (st, PREqualsNotProvided (a_id a))
  else match attached with
  | Some v => do x <- react (Some idn) SCmdLine a [v] None st; ROk (fst x, PRValuesDone)
  | None =>
      do st1 <- resolve_pending st;
      do m <- expect 1071 (pending_values_push (mt st1) (a_id a) (Some idn) false None);
      ROk (st1 <| mt := m |>, PROpt (a_id a))
  end.

(** [self.cmd[opt]]: [Index<&Id>] panics on an unknown id *)
Definition state_arg (pst : pstate_t) : res (option arg) :=
  match pst with
  | PSOpt i | PSPos i => do a <- expect 132 (find_arg c i); ROk (Some a)
  | PSValuesDone => ROk None
  end.

(** [possible_subcommand] *)
Definition first_unique {A} (l : list A) : option A := match l with [x] => Some x | _ => None end.
Definition possible_subcommand (tok : bytes) (valid_arg_found : bool) : option bytes :=
  if negb (utf8_valid tok) then None else
  if is_set s_args_negate_subs c && valid_arg_found then None else
  let inferred :=
    if is_set s_infer_sub c then
      first_unique (filter_map (fun s => if is_prefix tok (c_name s) then Some (c_name s)
                                          else List.find (is_prefix tok) (all_aliases s)) (c_subs c))
    else None in
  match inferred with
  | Some n => Some n
  | None => opt_map c_name (find_subcommand c tok)
  end.
(** [possible_long_flag_subcommand] *)
Definition possible_long_flag_subcommand (l : bytes) : option bytes :=
  let inferred :=
    if is_set s_infer_sub c then
      first_unique (filter_map (fun s => match c_long_flag s with
                        | None => None
                        | Some lf => if is_prefix l lf then Some (c_name s)
                                     else if existsb (fun p => is_prefix l (fst p)) (c_long_flag_aliases s)
                                          then Some (c_name s) else None end) (c_subs c))
    else None in
  match inferred with Some n => Some n | None => find_long_subcmd c l end.

(** [parse_long_arg] *)
Definition parse_long_arg (flag : bytes) (flag_utf8 : bool) (value : option bytes)
           (pst : pstate_t) (pos_counter : N) (vaf : bool) (st : ps) : res (ps * presult * bool) :=
  do sa <- state_arg pst;
  if match sa with Some a => a_hyphen a | None => false end then ROk (st, PRMaybeHyphen, vaf) else
  if negb flag_utf8 then ROk (st, PRNoMatchingArg flag, vaf) else
  (* debug_assert!(long_value.is_some()) when the flag is empty *)
  if is_nil flag && negb (is_some value) then RPanic 785 else
  let found :=
    match get_long c flag with
    | Some a => Some a
    | None => if is_set s_infer_long c then
                first_unique (filter_map (fun a =>
                   if a_is_positional a then None else    (* positionals have no long keys (repaired) *)
                   match a_long a with
                   | Some l => if is_prefix flag l then Some a
                               else if existsb (fun p => is_prefix flag (fst p)) (a_aliases a) then Some a else None
                   | None => if existsb (fun p => is_prefix flag (fst p)) (a_aliases a) then Some a else None
                   end) (c_args c))
              else None
    end in
  match found with
  | Some a =>
      if a_takes_value a then
        do x <- parse_opt_value ILong value a (is_some value) st; ROk (fst x, snd x, true)
      else match value with
      | Some rest => ROk (st, PRUnneeded rest (a_id a), true)
      | None => do x <- react (Some ILong) SCmdLine a [] None st; ROk (fst x, snd x, true)
      end
  | None =>
      match possible_long_flag_subcommand flag with
      | Some n => ROk (st, PRFlagSub n, vaf)
      | None =>
          if match get_pos c pos_counter with Some a => a_hyphen a && negb (a_last a) | None => false end
          then ROk (st, PRMaybeHyphen, vaf)
          else ROk (st, PRNoMatchingArg flag, vaf)
      end
  end.

Fixpoint sf_any_unknown (fuel : nat) (r : bytes) : bool :=
  match fuel with O => false | S f =>
    match sf_next r with
    | None => false
    | Some (inl ch, r') => negb (contains_short c ch) || sf_any_unknown f r'
    | Some (inr _, _) => true
    end end.

(** the [while let Some(c) = short_arg.next_flag()] loop of [parse_short_arg] over the unread bytes *)
Fixpoint short_loop (fuel : nat) (r : bytes) (ret : presult) (vaf : bool) (st : ps)
  : res (ps * presult * bool) :=
  match fuel with
  | O => RPanic 925     (* out of fuel: excluded, fuel = length r + 1 *)
  | S f =>
    match sf_next r with
    | None => ROk (st, ret, vaf)
    | Some (inr rest, _) => ROk (st, PRNoMatchingArg (DASH :: rest), vaf)
    | Some (inl ch, r') =>
        match get_short c ch with
        | Some a =>
            if negb (a_takes_value a) then
              do x <- react (Some IShort) SCmdLine a [] None st;
              short_loop f r' (snd x) true (fst x)
            else
              let val := match r' with [] => None | _ => Some r' end in
              let '(val, has_eq) := match val with
                                    | Some (61 :: v) => (Some v, true)
                                    | _ => (val, false) end in
              do x <- parse_opt_value IShort val a has_eq st;
              match snd x with
              | PRAttachedNotConsumed => short_loop f r' ret true (fst x)
              | y => ROk (fst x, y, true)
              end
        | None =>
            match find_short_subcmd c ch with
            | Some name =>
                do st1 <- resolve_pending st;
                let st2 := ps_bump st1 in
                let at_ := match fs_at st2 with Some a => Some a | None => Some (cur_idx st2) end in
                let done := is_nil r' in
                ROk (st2 <| fs_at := if done then None else at_ |>, PRFlagSub name, vaf)
            | None => ROk (st, PRNoMatchingArg (DASH :: encode_utf8 ch), vaf)
            end
        end
    end
  end.

(** [parse_short_arg] *)
Definition parse_short_arg (r : bytes) (pst : pstate_t) (pos_counter : N) (vaf : bool) (st : ps)
  : res (ps * presult * bool) :=
  do sa <- state_arg pst;
  if match sa with Some a => a_hyphen a || (a_negnum a && sf_is_negative_number r) | None => false end
  then ROk (st, PRMaybeHyphen, vaf) else
  let pa := get_pos c pos_counter in
  if match pa with Some a => a_negnum a | None => false end && sf_is_negative_number r
  then ROk (st, PRMaybeHyphen, vaf) else
  if match pa with Some a => a_hyphen a && negb (a_last a) | None => false end
     && sf_any_unknown (S (length r)) r
  then ROk (st, PRMaybeHyphen, vaf) else
  let skip := fs_skip st in
  let st0 := st <| fs_skip := 0 |> in
  (* debug_assert_eq!(advance_by(skip), Ok(())) *)
  do r0 <- expect 920 (sf_advance_by (N.to_nat (N.min skip (N.of_nat (S (length r))))) r);
  short_loop (S (length r0)) r0 PRNoArg vaf st0.

Definition check_terminator (a : arg) (v : bytes) : bool :=
  match a_term a with Some t => beq t v | None => false end.

(** [is_new_arg] *)
Definition is_new_arg (next : bytes) (cur : arg) : res bool :=
  do a <- expect 687 (find_arg c (a_id cur));
  if a_hyphen a || (a_negnum a && pa_is_negative_number next) then ROk false
  else if is_long next then ROk true
  else if is_short next then ROk true
  else ROk false.

(** result of the token loop of [Parser::parse] *)
Inductive loop_res :=
 | LDone (st : ps)
 | LSub (name : bytes) (keep_state : bool) (vaf : bool) (st : ps) (rest : list bytes)
 | LExternal (name : bytes) (vals : list bytes) (st : ps)
 | LHelpSub (names : list bytes) (st : ps).

Record lstate := mkL { l_pst : pstate_t; l_pos : N; l_vaf : bool; l_trailing : bool }.

(** [match_arg_error]: the choice between InvalidSubcommand and UnknownArgument in the middle
    branch depends on [strsim::jaro] suggestions; the model reports InvalidSubcommand there when
    the token *could* be a mistyped subcommand and the projections treat the two kinds of that
    branch as one class (see DESIGN: unknown-token class). *)
Definition match_arg_error (tok : bytes) (vaf trailing : bool) : error :=
  if trailing && is_some (possible_subcommand tok vaf) then mkerr EUnknownArgument tok  (* unnecessary_double_dash *)
  else if has_subcommands c then
    if is_set s_args_negate_subs c && vaf then mkerr EArgumentConflict tok  (* subcommand_conflict *)
    else if negb (has_positionals c) || is_set s_infer_sub c then mkerr EInvalidSubcommand tok
    else mkError EUnknownArgument tok false (opt_default [] (c_about c)) (Some EInvalidSubcommand)
  else mkerr EUnknownArgument tok.

Fixpoint parse_loop (toks : list bytes) (ls : lstate) (st : ps) : res loop_res :=
  match toks with
  | [] => ROk (LDone st)
  | tok :: rest =>
    let positional_count := positional_count c in
    let contains_last := existsb a_last (c_args c) in
    (* phase 1: classification, only before `--`.  Some r = the iteration ended with r *)
    let phase1 : res (option (res loop_res) * lstate * ps) :=
      if l_trailing ls then ROk (None, ls, st) else
      let try_sub := is_set s_sub_precedence c
                     || match l_pst ls with PSValuesDone => true | _ => false end in
      match (if try_sub then possible_subcommand tok (l_vaf ls) else None) with
      | Some sc =>
          if beq sc s_help && negb (is_set s_disable_help_sub c)
          then ROk (Some (ROk (LHelpSub rest st)), ls, st)
          else ROk (Some (ROk (LSub sc false (l_vaf ls) st rest)), ls, st)
      | None =>
        let after_flag (x : ps * presult * bool) : res (option (res loop_res) * lstate * ps) :=
          let '(st1, pr, vaf1) := x in
          let ls1 := mkL (l_pst ls) (l_pos ls) vaf1 false in
          match pr with
          | PRValuesDone => ROk (Some (parse_loop rest (mkL PSValuesDone (l_pos ls) vaf1 false) st1), ls1, st1)
          | PROpt i => ROk (Some (parse_loop rest (mkL (PSOpt i) (l_pos ls) vaf1 false) st1), ls1, st1)
          | PRFlagSub n => ROk (Some (ROk (LSub n false vaf1 st1 rest)), ls1, st1)
          | PREqualsNotProvided a =>
              do st2 <- resolve_pending_ignore st1; ROk (Some (RErr (mkerr ENoEquals a) st2), ls1, st2)
          | PRNoMatchingArg a =>
              do st2 <- resolve_pending_ignore st1; ROk (Some (RErr (mkerr EUnknownArgument a) st2), ls1, st2)
          | PRUnneeded r a =>
              do st2 <- resolve_pending_ignore st1; ROk (Some (RErr (mkerr ETooManyValues a) st2), ls1, st2)
          | PRMaybeHyphen => ROk (None, ls1, st1)
          | PRNoArg => ROk (None, ls1, st1)
          | PRAttachedNotConsumed => RPanic 203
          end in
        if is_escape tok then
          do sa <- state_arg (l_pst ls);
          if match sa with Some a => a_hyphen a | None => false end then ROk (None, ls, st)
          else ROk (Some (parse_loop rest (mkL (l_pst ls) (l_pos ls) (l_vaf ls) true)
                                     (st <| mt := start_trailing (mt st) |>)), ls, st)
        else match to_long tok with
        | Some (f, ok, v) =>
            do x <- parse_long_arg f ok v (l_pst ls) (l_pos ls) (l_vaf ls) st;
            match snd (fst x) with PRNoArg => RPanic 153 | _ => after_flag x end
        | None =>
          match to_short tok with
          | Some r =>
              do x <- parse_short_arg r (l_pst ls) (l_pos ls) (l_vaf ls) st;
              match x with
              | (st1, PRFlagSub n, vaf1) =>
                  (* keep_state: seek back one token, skip = cur_idx - at + 1 *)
                  match fs_at st1 with
                  | Some a =>
                      do d <- expect 243 (checked_sub (cur_idx st1) a);
                      let st2 := st1 <| fs_skip := d + 1 |> in
                      ROk (Some (ROk (LSub n true vaf1 st2 (tok :: rest))), ls, st2)
                  | None => ROk (Some (ROk (LSub n false vaf1 st1 rest)), ls, st1)
                  end
              | (_, PRUnneeded _ _, _) => RPanic 282
              | (_, PRAttachedNotConsumed, _) => RPanic 282
              | _ => after_flag x
              end
          | None => ROk (None, ls, st)
          end
        end
      end in
    do p1 <- phase1;
    let '(early, ls, st) := p1 in
    match early with
    | Some r => r
    | None =>
      (* a pending option takes the token as a value (only before `--`) *)
      match (if l_trailing ls then PSValuesDone else l_pst ls) with
      | PSOpt i =>
          do a <- expect 290 (find_arg c i);
          if check_terminator a tok then
            parse_loop rest (mkL PSValuesDone (l_pos ls) (l_vaf ls) (l_trailing ls)) st
          else
            do m1 <- expect 297 (pending_values_push (mt st) i None false (Some tok));
            do more <- expect 299 (needs_more_vals m1 a);
            parse_loop rest (mkL (if more then PSOpt i else PSValuesDone) (l_pos ls) (l_vaf ls) (l_trailing ls))
                       (st <| mt := m1 |>)
      | _ =>
        (* positional counter correction *)
        let pc := l_pos ls in
        let is_second_to_last := (pc + 1 =? positional_count) in
        let low_index_mults := is_second_to_last
             && existsb (fun a => a_is_multiple a && negb (positional_count =? opt_default 0 (a_index a))) (positionals c)
             && match last (map Some (positionals c)) None with Some p => negb (a_last p) | None => false end in
        let is_terminated := match get_pos c pc with Some a => is_some (a_term a) | None => false end in
        let missing_pos := is_set s_allow_missing_pos c && is_second_to_last && negb (l_trailing ls) in
        do pc' <-
          (if (low_index_mults || missing_pos) && negb is_terminated then
             match rest with
             | n :: _ =>
                 match List.find (fun a => match a_index a with Some k => k =? pc | None => false end) (positionals c) with
                 | Some a => do na <- is_new_arg n a;
                             ROk (if na || is_some (possible_subcommand n (l_vaf ls)) then pc + 1 else pc)
                 | None => ROk (pc + 1)
                 end
             | [] => ROk (pc + 1)
             end
           else if l_trailing ls && (is_set s_allow_missing_pos c || contains_last) then ROk positional_count
           else ROk pc);
        match get_pos c pc' with
        | Some a =>
            if a_last a && negb (l_trailing ls) then
              do st1 <- resolve_pending_ignore st;
              RErr (mkerr EUnknownArgument tok) st1
            else
              let trailing := l_trailing ls || a_tva a in
              do st1 <- (if negb (match pending_arg_id (mt st) with Some i => beq i (a_id a) | None => false end)
                            || negb (a_multiple_values a)
                         then resolve_pending st else ROk st);
              if check_terminator a tok then
                parse_loop rest (mkL PSValuesDone (pc' + 1) true trailing) st1
              else
                do m1 <- expect 415 (pending_values_push (mt st1) (a_id a) (Some IIndex) trailing (Some tok));
                if negb (a_is_multiple a)
                then parse_loop rest (mkL PSValuesDone (pc' + 1) true trailing) (st1 <| mt := m1 |>)
                else parse_loop rest (mkL (PSPos (a_id a)) pc' true trailing) (st1 <| mt := m1 |>)
        | None =>
            if is_set s_allow_external c then
              if utf8_valid tok then ROk (LExternal tok rest st)
              else do st1 <- resolve_pending_ignore st; RErr (mkerr EInvalidUtf8 []) st1
            else do st1 <- resolve_pending_ignore st;
                 RErr (match_arg_error tok (l_vaf ls) (l_trailing ls)) st1
        end
      end
    end
  end.

(** [add_env] *)
Definition add_env (st : ps) : res ps :=
  fold_left (fun rst a =>
               do st <- rst;
               if mt_contains (mt st) (a_id a) then ROk st
               else match a_env a with
                    | Some v => do x <- react None SEnv a [v] None st; ROk (fst x)
                    | None => ROk st
                    end) (c_args c) (ROk st).

(** [add_default_value] *)
Definition add_default_value (a : arg) (st : ps) : res ps :=
  let plain (st : ps) : res ps :=
    if negb (is_nil (a_default a)) then
      if mt_contains (mt st) (a_id a) then ROk st
      else do x <- react None SDefault a (a_default a) None st; ROk (fst x)
    else ROk st in
  if negb (is_nil (a_default_ifs a)) && negb (mt_contains (mt st) (a_id a)) then
    (* first rule whose condition holds decides (return Ok(()) inside the loop) *)
    let fired := List.find (fun r =>
                   let '(i, p, _) := r in
                   match fm_get i (mt_args (mt st)) with
                   | Some ma => match p with
                                | PEquals v => existsb (beq v) (concat (m_raw ma))
                                | PIsPresent => true end
                   | None => false end) (a_default_ifs a) in
    match fired with
    | Some (_, _, Some d) => do x <- react None SDefault a [d] None st; ROk (fst x)
    | Some (_, _, None) => ROk st
    | None => plain st
    end
  else plain st.

(** [add_defaults] *)
Definition add_defaults (st : ps) : res ps :=
  fold_left (fun rst a => do st <- rst; add_default_value a st) (c_args c) (ROk st).

End WithCmd.

(** ---------- subcommand recursion: [Parser::parse] after the loop, [parse_subcommand],
    [get_matches_with] ---------- *)

Definition ext_id : id := [].        (* Id::EXTERNAL = "" *)

(** [parse_help_subcommand]: walk the named subcommands, building each *)
Fixpoint help_walk (sc : cmd) (names : list bytes) : error :=
  match names with
  | [] => mkError EDisplayHelp [] true (opt_default [] (c_about sc)) None
  | n :: rest =>
      match find_subcommand sc n with
      | Some s => match build_subcommand sc (c_name s) with
                  | Some s' => help_walk s' rest
                  | None => mkError EInvalidSubcommand n false (opt_default [] (c_about sc)) None   (* unwrap: unreachable *)
                  end
      | None => mkError EInvalidSubcommand n false (opt_default [] (c_about sc)) None
      end
  end.

Inductive outcome :=
| OOk (m : matches)
| OErr (e : error)
| OPanicked (site : N)
| OOutOfFuel
| OInvalidConfig.

Definition vres_to_res (c : cmd) (v : vres) (st : ps) : res ps :=
  match v with
  | VOk => ROk st
  | VErr k a => RErr (mkerr c k a) st
  | VPanic s => RPanic s
  end.

(** [get_matches_with] for the built command [c], tokens [toks], initial state [st0]
    ([st0] carries [cur_idx]/[flag_subcmd_*] when entered through a short flag-subcommand). *)
Fixpoint get_matches_with (fuel : nat) (c : cmd) (toks : list bytes) (st0 : ps) : res ps :=
  match fuel with
  | O => RPanic 0            (* out of fuel; excluded by theorem: fuel = depth + 1 suffices *)
  | S fuel' =>
    let parsed : res ps :=
      do lr <- parse_loop c toks (mkL PSValuesDone 1 false false) st0;
      let after_sub (name : bytes) (keep_state vaf : bool) (st : ps) (rest : list bytes) : res ps :=
        if is_set s_args_negate_subs c && vaf then
          (* subcommand_conflict: matcher.arg_ids().filter_map(|id| self.cmd.find(id)) -- ids that are
             not arguments (groups) are skipped (repaired: the former unwrap panicked on a group id) *)
          RErr (mkerr c EArgumentConflict name) st
        else
          do sc0 <- expect 494 (find_subcommand c name);
          match build_subcommand c (c_name sc0) with
          | None => ROk st
          | Some sc =>
              if negb (assert_app sc) then RPanic 4407 (* debug assertion of the lazily built subcommand *) else
              let sub_st0 := if keep_state then mkPs matcher_new (cur_idx st) (fs_at st) (fs_skip st) else ps_new in
              let finish (sub_st : ps) : res ps :=
                ROk (st <| mt := (mt st) <| mt_sub := Some (c_name sc, into_inner (mt sub_st)) |> |>) in
              match get_matches_with fuel' sc rest sub_st0 with
              | ROk sub_st => finish sub_st
              | RErr e sub_st => if is_set s_ignore_errors c then finish sub_st else RErr e st
              | RPanic s => RPanic s
              end
          end in
      match lr with
      | LDone st => ROk st
      | LSub name keep vaf st rest => after_sub name keep vaf st rest
      | LHelpSub names st => RErr (help_walk c names) st
      | LExternal name vals st =>
          (* external subcommand: all remaining args as values of Id::EXTERNAL *)
          let vp := opt_default VPOsString (c_ext_vp c) in
          let sc_m := start_custom_arg_m matcher_new (arg_new ext_id) SCmdLine in
          let filled := fold_left (fun rm v =>
                          do m <- rm;
                          match vp_parse vp v with
                          | Some k => RErr (mkerr c k []) st
                          | None => expect 458 (add_val_to m ext_id v)
                          end) vals (ROk sc_m) in
          do m <- filled;
          ROk (st <| mt := (mt st) <| mt_sub := Some (name, into_inner m) |> |>)
      end in
    match parsed with
    | RPanic s => RPanic s
    | RErr e st =>
        if is_set s_ignore_errors c then
          (* let _ = resolve_pending; let _ = add_env; let _ = add_defaults; then the error is returned.
             (repaired: the occurrence that was still being collected when the error was raised is stored
             first -- without it [add_default_value] saw the argument as absent and [react] appended the
             default to the flushed command-line entry; the pre-repair function is kept as
             [ParseProofs/PendingFlush.get_matches_with_before_fix]) *)
          let st0 := match resolve_pending c st with ROk s => s | RErr _ s => s | RPanic _ => st end in
          let st1 := match add_env c st0 with ROk s => s | RErr _ s => s | RPanic _ => st0 end in
          let st2 := match add_defaults c st1 with ROk s => s | RErr _ s => s | RPanic _ => st1 end in
          match resolve_pending c st with
          | RPanic s => RPanic s
          | _ =>
            match add_env c st0, add_defaults c st1 with
            | RPanic s, _ => RPanic s
            | _, RPanic s => RPanic s
            | _, _ => RErr e st2
            end
          end
        else RErr e st
    | ROk st =>
        do st1 <- resolve_pending c st;
        do st2 <- add_env c st1;
        do st3 <- add_defaults c st2;
        vres_to_res c (validate c (mt st3)) st3
    end
  end.

(** ---------- globals: [get_used_global_args], [propagate_globals] ---------- *)
Fixpoint used_global_args (fuel : nat) (c : cmd) (m : matches) : list id :=
  match fuel with
  | O => []
  | S f =>
      map a_id (filter a_global (c_args c))
      ++ match ms_sub m with
         | Some (name, sm) =>
             match find_subcommand c name with
             | Some sc => used_global_args f sc sm
             | None => []
             end
         | None => []
         end
  end.

Fixpoint fill_in_global_values (fuel : nat) (globals : list id) (m : matches) (vals_map : list (id * marg))
  : matches * list (id * marg) :=
  match fuel with
  | O => (m, vals_map)
  | S f =>
      let vals_map :=
        fold_left (fun vm g =>
                     match fm_get g (ms_args m) with
                     | Some ma =>
                         let to_update :=
                           match fm_get g vm with
                           | Some parent_ma =>
                               (* Option<ValueSource> ordering: None < Some(_) *)
                               let gt := match m_source parent_ma, m_source ma with
                                         | Some a, Some b => src_gt a b
                                         | Some _, None => true
                                         | None, _ => false end in
                               if gt then parent_ma else ma
                           | None => ma
                           end in
                         fm_insert g to_update vm
                     | None => vm
                     end) globals vals_map in
      let '(sub', vals_map) :=
        match ms_sub m with
        | Some (name, sm) => let '(sm', vm') := fill_in_global_values f globals sm vals_map in
                             (Some (name, sm'), vm')
        | None => (None, vals_map)
        end in
      let args' := fold_left (fun args p => fm_insert (fst p) (snd p) args) vals_map (ms_args m) in
      (Matches args' sub', vals_map)
  end.

Fixpoint matches_depth (m : matches) : nat :=
  match m with
  | Matches _ None => 1
  | Matches _ (Some (_, s)) => S (matches_depth s)
  end.

(** [_do_parse] on an unbuilt command; [toks] are the arguments after the binary name *)
Definition do_parse (c0 : cmd) (toks : list bytes) : outcome :=
  let c := build_self c0 in
  if negb (valid c0) then OInvalidConfig else
  let fuel := S (S (depth c)) in
  let finish (st : ps) : outcome :=
    let m := into_inner (mt st) in
    (* the subcommands inside [c] are not built; [find_subcommand] only needs names, and
       global args of lower levels are found on the built children *)
    let globals := used_global_args (S (matches_depth m)) (build_recursive fuel c0) m in
    OOk (fst (fill_in_global_values (S (matches_depth m)) globals m [])) in
  match get_matches_with fuel c toks ps_new with
  | ROk st => finish st
  | RErr e st => if is_set s_ignore_errors c && use_stderr (e_kind e) then finish st else OErr e
  | RPanic 0 => OOutOfFuel
  | RPanic s => OPanicked s
  end.

(** [try_get_matches_from_mut] (no multicall): drop the binary name unless [NoBinaryName] *)
Definition parse_top (c0 : cmd) (argv : list bytes) : outcome :=
  if is_set s_no_binary_name c0 then do_parse c0 argv
  else match argv with
       | [] => do_parse c0 []
       | bin :: rest =>
           (* bin_name = file_name of argv[0] if UTF-8 and not yet set; generators use a plain name *)
           let c0 := match c_bin_name c0 with
                     | Some _ => c0
                     | None => if utf8_valid bin && negb (is_nil bin) then c0 <| c_bin_name := Some bin |> else c0 end in
           do_parse c0 rest
       end.
