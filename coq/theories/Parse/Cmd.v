(** Command definitions: the data of [clap_builder::builder::{Arg, ArgGroup, Command}]
    that the parser, the validator and the build step read.  (clap_builder/src/builder/
    {arg.rs, arg_group.rs, command.rs, range.rs, action.rs}, src/mkeymap.rs) *)
From ClapModel Require Import Base.Bytes Base.Machine Base.Utf8.
From Coq Require Import ZArith.
From ClapModel Require Value.ValueBase Value.PossibleValues.
From RecordUpdate Require Import RecordSet.
Import RecordSetNotations.
Open Scope N_scope.

Definition id := bytes.

(** small option/list helpers *)
Definition opt_map {A B} (f : A -> B) (o : option A) := match o with Some a => Some (f a) | None => None end.
Definition opt_default {A} (d : A) (o : option A) := match o with Some a => a | None => d end.
Definition is_some {A} (o : option A) := match o with Some _ => true | None => false end.
Definition is_nil {A} (l : list A) := match l with [] => true | _ => false end.
Fixpoint find_map {A B} (f : A -> option B) (l : list A) : option B :=
  match l with [] => None | a :: t => match f a with Some b => Some b | None => find_map f t end end.
Fixpoint filter_map {A B} (f : A -> option B) (l : list A) : list B :=
  match l with [] => [] | a :: t => match f a with Some b => b :: filter_map f t | None => filter_map f t end end.
Definition mem_id (x : id) (l : list id) : bool := existsb (beq x) l.
Definition mem_n (x : N) (l : list N) : bool := existsb (N.eqb x) l.

(** [str::starts_with] on names: [p] is a prefix of [s] *)
Definition is_prefix (p s : bytes) : bool := starts_with s p.

(** ---- ArgAction ---- *)
Inductive action := ASet | AAppend | ASetTrue | ASetFalse | ACount | AHelp | AHelpShort | AHelpLong | AVersion.

(** ---- ValueRange (range.rs) ---- *)
Record vrange := { vmin : N; vmax : N }.
Definition r_empty := {| vmin := 0; vmax := 0 |}.
Definition r_single := {| vmin := 1; vmax := 1 |}.
Definition r_full := {| vmin := 0; vmax := usize_max |}.
Definition r_eqb (a b : vrange) := (vmin a =? vmin b) && (vmax a =? vmax b).
Definition r_takes_values r := negb (vmax r =? 0).
Definition r_is_unbounded r := vmax r =? usize_max.
Definition r_is_fixed r := vmin r =? vmax r.
Definition r_is_multiple r := negb (vmin r =? vmax r) || (1 <? vmin r).
Definition r_num_values r := if r_is_fixed r then Some (vmin r) else None.
Definition r_accepts_more r (cur : N) := cur <? vmax r.

(** ArgAction::{default_num_args, max_num_args, takes_values, default_value, default_missing_value} *)
Definition action_default_num_args (a : action) : vrange :=
  match a with ASet | AAppend => r_single | _ => r_empty end.
Definition action_max_num_args (a : action) : vrange :=
  match a with ASet | AAppend => r_full | ASetTrue | ASetFalse => {| vmin := 0; vmax := 1 |} | _ => r_empty end.
Definition s_true : bytes := [116; 114; 117; 101].
Definition s_false : bytes := [102; 97; 108; 115; 101].
Definition action_default_value (a : action) : option bytes :=
  match a with ASetTrue => Some s_false | ASetFalse => Some s_true | ACount => Some [48] | _ => None end.
Definition action_default_missing_value (a : action) : option bytes :=
  match a with ASetTrue => Some s_true | ASetFalse => Some s_false | _ => None end.

(** ---- value parsers (the parser model's names for them; C04 treats them in depth: the functions
    behind [VPBoolish] ... [VPRanged] are the models of Value/*.v, see [Parser.vp_parse]) ----
    [VPCount] = the [value_parser!(u8)] an [ArgAction::Count] argument gets by default;
    [VPI64 lo hi] = [value_parser!(i64).range(lo..=hi)];
    [VPBoolish] / [VPFalsey] / [VPNonEmpty] = [BoolishValueParser] / [FalseyValueParser] /
    [NonEmptyStringValueParser];
    [VPPossible ic pvs] = [PossibleValuesParser] over [pvs] (value, [is_hide_set]) where [ic] is what
    [parse_ref] reads from the argument it is called for ([arg.is_ignore_case_set()], [false] for the
    external-subcommand parser): the spec reader copies the argument's flag into it ([pv_coherent]);
    [VPRanged t lo hi] = [value_parser!(T).range(lo..=hi)] for an integer type [T]
    ([RangedI64ValueParser<T>], [RangedU64ValueParser<u64>] for u64). *)
Inductive vparser := VPString | VPOsString | VPBool | VPCount | VPI64 (lo hi : Z)
  | VPBoolish | VPFalsey | VPNonEmpty
  | VPPossible (ic : bool) (pvs : list (ClapModel.Value.PossibleValues.possible_value * bool))
  | VPRanged (t : ClapModel.Value.ValueBase.ity) (lo hi : Z).
Definition action_default_vp (a : action) : option vparser :=
  match a with ASetTrue | ASetFalse => Some VPBool | ACount => Some VPCount | _ => None end.
(** [TypeId] of the integer target types: u8 is [VPCount]'s, i64 is [VPI64]'s *)
Definition ity_type (t : ClapModel.Value.ValueBase.ity) : N :=
  match t with
  | ClapModel.Value.ValueBase.U8 => 3 | ClapModel.Value.ValueBase.I64 => 4
  | ClapModel.Value.ValueBase.I8 => 5 | ClapModel.Value.ValueBase.U16 => 6
  | ClapModel.Value.ValueBase.I16 => 7 | ClapModel.Value.ValueBase.U32 => 8
  | ClapModel.Value.ValueBase.I32 => 9 | ClapModel.Value.ValueBase.U64 => 10
  end.
(** [ArgAction::value_type_id] compared with the parser's type id in [assert_arg] *)
Definition vp_type (v : vparser) : N :=
  match v with
  | VPString => 0 | VPOsString => 1 | VPBool => 2 | VPCount => 3 | VPI64 _ _ => 4
  | VPBoolish | VPFalsey => 2 | VPNonEmpty | VPPossible _ _ => 0
  | VPRanged t _ _ => ity_type t
  end.
Definition action_value_type (a : action) : option N :=
  match a with ACount => Some 3 | _ => None end.

Inductive pred := PEquals (v : bytes) | PIsPresent.

Record arg := mkArg {
  a_id : id;
  a_short : option N; a_long : option bytes;
  a_aliases : list (bytes * bool); a_short_aliases : list (N * bool);
  a_index : option N;
  a_action : option action; a_num : option vrange; a_nvalnames : N;
  a_delim : option N; a_term : option bytes; a_vp : option vparser;
  a_required : bool; a_global : bool; a_last : bool; a_tva : bool; a_hyphen : bool; a_negnum : bool;
  a_req_eq : bool; a_exclusive : bool; a_hide : bool; a_ignore_case : bool;
  a_default : list bytes; a_default_missing : list bytes;
  a_default_ifs : list (id * pred * option bytes);
  a_env : option bytes;          (* value of the environment variable, resolved when [Arg::env] was called *)
  a_blacklist : list id; a_overrides : list id; a_requires : list (pred * id);
  a_r_ifs : list (id * bytes); a_r_ifs_all : list (id * bytes);
  a_r_unless : list id; a_r_unless_all : list id;
  a_groups : list id;
  a_help : option bytes
}.
#[export] Instance eta_arg : Settable _ := settable! mkArg
  <a_id; a_short; a_long; a_aliases; a_short_aliases; a_index; a_action; a_num; a_nvalnames;
   a_delim; a_term; a_vp; a_required; a_global; a_last; a_tva; a_hyphen; a_negnum; a_req_eq;
   a_exclusive; a_hide; a_ignore_case; a_default; a_default_missing; a_default_ifs; a_env;
   a_blacklist; a_overrides; a_requires; a_r_ifs; a_r_ifs_all; a_r_unless; a_r_unless_all; a_groups; a_help>.

Definition arg_new (i : id) : arg :=
  mkArg i None None [] [] None None None 0 None None None
        false false false false false false false false false false
        [] [] [] None [] [] [] [] [] [] [] [] None.

Record group := mkGroup {
  g_id : id; g_args : list id; g_required : bool; g_multiple : bool;
  g_requires : list id; g_conflicts : list id }.
#[export] Instance eta_group : Settable _ := settable! mkGroup
  <g_id; g_args; g_required; g_multiple; g_requires; g_conflicts>.
Definition group_new (i : id) : group := mkGroup i [] false false [] [].

(** AppSettings (the ones the parse path reads) *)
Record settings := mkSettings {
  s_ignore_errors : bool; s_args_override_self : bool; s_dont_delimit_trailing : bool;
  s_infer_long : bool; s_infer_sub : bool; s_no_binary_name : bool;
  s_disable_help_flag : bool; s_disable_version_flag : bool; s_disable_help_sub : bool;
  s_propagate_version : bool;
  s_arg_required_else_help : bool; s_allow_hyphen : bool; s_allow_negnum : bool; s_tva : bool;
  s_allow_missing_pos : bool; s_hidden : bool; s_sub_required : bool; s_allow_external : bool;
  s_args_negate_subs : bool; s_sub_precedence : bool; s_subs_negate_reqs : bool; s_multicall : bool;
  s_built : bool; s_bin_name_built : bool
}.
#[export] Instance eta_settings : Settable _ := settable! mkSettings
  <s_ignore_errors; s_args_override_self; s_dont_delimit_trailing; s_infer_long; s_infer_sub;
   s_no_binary_name; s_disable_help_flag; s_disable_version_flag; s_disable_help_sub;
   s_propagate_version; s_arg_required_else_help; s_allow_hyphen; s_allow_negnum; s_tva;
   s_allow_missing_pos; s_hidden; s_sub_required; s_allow_external; s_args_negate_subs;
   s_sub_precedence; s_subs_negate_reqs; s_multicall; s_built; s_bin_name_built>.
Definition settings_none : settings :=
  mkSettings false false false false false false false false false false false false
             false false false false false false false false false false false false.
Definition settings_or (a b : settings) : settings :=
  mkSettings
    (s_ignore_errors a || s_ignore_errors b) (s_args_override_self a || s_args_override_self b)
    (s_dont_delimit_trailing a || s_dont_delimit_trailing b) (s_infer_long a || s_infer_long b)
    (s_infer_sub a || s_infer_sub b) (s_no_binary_name a || s_no_binary_name b)
    (s_disable_help_flag a || s_disable_help_flag b) (s_disable_version_flag a || s_disable_version_flag b)
    (s_disable_help_sub a || s_disable_help_sub b) (s_propagate_version a || s_propagate_version b)
    (s_arg_required_else_help a || s_arg_required_else_help b) (s_allow_hyphen a || s_allow_hyphen b)
    (s_allow_negnum a || s_allow_negnum b) (s_tva a || s_tva b)
    (s_allow_missing_pos a || s_allow_missing_pos b) (s_hidden a || s_hidden b)
    (s_sub_required a || s_sub_required b) (s_allow_external a || s_allow_external b)
    (s_args_negate_subs a || s_args_negate_subs b) (s_sub_precedence a || s_sub_precedence b)
    (s_subs_negate_reqs a || s_subs_negate_reqs b) (s_multicall a || s_multicall b)
    (s_built a || s_built b) (s_bin_name_built a || s_bin_name_built b).

Inductive cmd := mkCmd {
  c_name : bytes; c_aliases : list (bytes * bool);
  c_short_flag : option N; c_long_flag : option bytes;
  c_short_flag_aliases : list (N * bool); c_long_flag_aliases : list (bytes * bool);
  c_args : list arg; c_groups : list group; c_subs : list cmd;
  c_set : settings; c_gset : settings;
  c_version : option bytes; c_long_version : option bytes;
  c_ext_vp : option vparser;
  c_bin_name : option bytes; c_display_name : option bytes;
  c_about : option bytes; c_long_about : option bytes
}.
#[export] Instance eta_cmd : Settable _ := settable! mkCmd
  <c_name; c_aliases; c_short_flag; c_long_flag; c_short_flag_aliases; c_long_flag_aliases;
   c_args; c_groups; c_subs; c_set; c_gset; c_version; c_long_version; c_ext_vp;
   c_bin_name; c_display_name; c_about; c_long_about>.
Definition cmd_new (n : bytes) : cmd :=
  mkCmd n [] None None [] [] [] [] [] settings_none settings_none None None None None None None None.

(** depth of the command tree (fuel for the subcommand recursion) *)
Fixpoint depth (c : cmd) : nat :=
  match c with
  | mkCmd _ _ _ _ _ _ _ _ subs _ _ _ _ _ _ _ _ _ =>
      S ((fix go (l : list cmd) : nat := match l with [] => O | s :: t => Nat.max (depth s) (go t) end) subs)
  end.

(** ---- accessors mirroring Arg ---- *)
Definition a_get_action a := opt_default ASet (a_action a).
Definition a_is_positional a := negb (is_some (a_long a)) && negb (is_some (a_short a)).
Definition a_takes_value a := r_takes_values (opt_default r_single (a_num a)).
Definition a_multiple_values a := r_is_multiple (opt_default r_single (a_num a)).
Definition a_is_multiple a := a_multiple_values a || match a_get_action a with AAppend => true | _ => false end.
(** the [ignore_case] a [PossibleValuesParser] works with is the argument's own setting *)
Definition pv_coherent (a : arg) : bool :=
  match a_vp a with Some (VPPossible ic _) => Bool.eqb ic (a_ignore_case a) | _ => true end.

(** ---- accessors mirroring Command ---- *)
Definition is_set (f : settings -> bool) (c : cmd) := f (c_set c) || f (c_gset c).
Definition find_arg (c : cmd) (i : id) : option arg := find (fun a => beq (a_id a) i) (c_args c).
Definition find_group (c : cmd) (i : id) : option group := find (fun g => beq (g_id g) i) (c_groups c).
Definition id_exists (c : cmd) (i : id) := is_some (find_arg c i) || is_some (find_group c i).
Definition groups_for_arg (c : cmd) (i : id) : list id :=
  map g_id (filter (fun g => mem_id i (g_args g)) (c_groups c)).
Definition positionals (c : cmd) := filter a_is_positional (c_args c).
Definition has_positionals (c : cmd) := negb (is_nil (positionals c)).
Definition has_subcommands (c : cmd) := negb (is_nil (c_subs c)).
Definition is_disable_version_flag_set (c : cmd) :=
  is_set s_disable_version_flag c || (negb (is_some (c_version c)) && negb (is_some (c_long_version c))).

(** ---- MKeyMap: keys in build order; [get] = first match ---- *)
Inductive key := KShort (c : N) | KLong (l : bytes) | KPos (n : N).
Definition arg_keys (a : arg) : list key :=
  match a_index a with
  | Some n => [KPos n]
  | None =>
      (match a_short a with Some s => [KShort s] | None => [] end) ++
      (match a_long a with Some l => [KLong l] | None => [] end) ++
      map (fun p => KShort (fst p)) (a_short_aliases a) ++
      map (fun p => KLong (fst p)) (a_aliases a)
  end.
Definition keymap (c : cmd) : list (key * arg) :=
  flat_map (fun a => map (fun k => (k, a)) (arg_keys a)) (c_args c).
Definition get_long (c : cmd) (l : bytes) : option arg :=
  opt_map snd (find (fun p => match fst p with KLong l' => beq l' l | _ => false end) (keymap c)).
Definition get_short (c : cmd) (s : N) : option arg :=
  opt_map snd (find (fun p => match fst p with KShort s' => s' =? s | _ => false end) (keymap c)).
Definition get_pos (c : cmd) (n : N) : option arg :=
  opt_map snd (find (fun p => match fst p with KPos n' => n' =? n | _ => false end) (keymap c)).
Definition positional_count (c : cmd) : N :=
  N.of_nat (length (filter (fun p => match fst p with KPos _ => true | _ => false end) (keymap c))).
Definition contains_short (c : cmd) (ch : N) := is_some (get_short c ch).
Definition long_keys (c : cmd) : list bytes :=
  filter_map (fun p => match fst p with KLong l => Some l | _ => None end) (keymap c).

(** ---- subcommand lookup ---- *)
Definition all_aliases (c : cmd) := map fst (c_aliases c).
Definition aliases_to (c : cmd) (n : bytes) := beq (c_name c) n || existsb (beq n) (all_aliases c).
Definition find_subcommand (c : cmd) (n : bytes) : option cmd := find (fun s => aliases_to s n) (c_subs c).
Definition short_flag_aliases_to (s : cmd) (ch : N) :=
  match c_short_flag s with Some f => f =? ch | None => false end
  || existsb (fun p => fst p =? ch) (c_short_flag_aliases s).
Definition long_flag_aliases_to (s : cmd) (l : bytes) :=
  match c_long_flag s with Some f => beq f l | None => false end
  || existsb (fun p => beq (fst p) l) (c_long_flag_aliases s).
Definition find_short_subcmd (c : cmd) (ch : N) : option bytes :=
  opt_map c_name (find (fun s => short_flag_aliases_to s ch) (c_subs c)).
Definition find_long_subcmd (c : cmd) (l : bytes) : option bytes :=
  opt_map c_name (find (fun s => long_flag_aliases_to s l) (c_subs c)).
Definition all_subcommand_names (c : cmd) : list bytes :=
  flat_map (fun s => c_name s :: all_aliases s) (c_subs c).
