(** C12, fourth pass: `help <path>` -- the help SUBCOMMAND -- yields the help of the addressed level.

    [parse_help_subcommand] (parser.rs) walks the words behind `help`:
      [sc.find_subcommand(cmd).map(|sc| sc.get_name().to_owned())]  then  [sc._build_subcommand(&sc_name).unwrap()].
    The parser model's [help_walk] (Parse/Parser.v) maps the [unwrap] to an InvalidSubcommand error ("unreachable").
    Here the walk is modelled once more with the lookup as a PARAMETER and the [unwrap] VISIBLE ([None] = panic):
    - with clap's lookup ([lookup_clap]: name or alias, exact, canonicalised to the NAME) the [unwrap] never fires, for
      every command and every word list, and the walk is the parser model's [help_walk] ([help_walk_unwrap_dead]);
    - a lookup is safe iff it only returns NAMES of subcommands of the level ([lookup_sound]);
    - a lookup that hands on the text that was typed -- an alias, or what [possible_subcommand] returns for an inferred
      prefix of an alias (C09: "the TEXT OF THE ALIAS") -- panics ([help_walk_text_panics], [help_walk_infer_panics]):
      the canonicalisation [.map(|sc| sc.get_name())] is what keeps `help <alias>` alive.
    Then the whole line: behind a chain with arguments ([hsplit], HelpChainWide.v) a token that selects the generated
    [help] subcommand (the word `help`, or an inferred prefix of it) followed by a path of names / aliases yields the
    DisplayHelp error (long form) of the level the path leads to; a word of the path that is no name or alias of the
    level reached -- a proper prefix included, [infer_subcommands] or not -- yields InvalidSubcommand naming that word. *)
From Coq Require Import List Bool Lia.
Import ListNotations.
From ClapModel Require Import Base.Bytes Base.Machine Base.Utf8.
From ClapModel Require Import Parse.Cmd Parse.Build Parse.Valid Parse.Matcher Parse.Errors Parse.Validator Parse.Parser.
From ClapModel Require Import ParseProofs.Actions ParseProofs.ActionsLoop ParseProofs.Spelling ParseProofs.Dispatch ParseProofs.Chain ParseProofs.ChainWide.
From ClapModel Require Import Complete.EngineProofs Complete.EngineLevel.
From ClapModel Require Import Help.HelpLevel Help.HelpDispatch Help.HelpFlagGen Help.HelpUnbuilt Help.HelpChainWide.
From RecordUpdate Require Import RecordSet.
Import RecordSetNotations.
Open Scope N_scope.

(** * [parse_help_subcommand] with the lookup as a parameter and the [unwrap] visible *)
Definition hw_lookup := cmd -> bytes -> option bytes.

(** [sc.find_subcommand(cmd).map(|sc| sc.get_name().to_owned())] *)
Definition lookup_clap : hw_lookup := fun sc n => opt_map c_name (find_subcommand sc n).

Definition unknown_sub_err (sc : cmd) (n : bytes) : error :=
  mkError EInvalidSubcommand n false (opt_default [] (c_about sc)) None.

Fixpoint help_walk_with (lk : hw_lookup) (sc : cmd) (names : list bytes) : option error :=
  match names with
  | [] => Some (help_err sc true)
  | n :: rest =>
      match lk sc n with
      | Some sc_name =>
          match build_subcommand sc sc_name with
          | Some s' => help_walk_with lk s' rest
          | None => None                              (* [_build_subcommand(&sc_name).unwrap()] *)
          end
      | None => Some (unknown_sub_err sc n)
      end
  end.

(** clap's lookup: the [unwrap] is dead, the walk is [help_walk] of the parser model *)
Theorem help_walk_unwrap_dead : forall names sc, help_walk_with lookup_clap sc names = Some (help_walk sc names).
Proof.
  induction names as [|n rest IH]; intros sc; cbn [help_walk_with help_walk]; [reflexivity|].
  unfold lookup_clap. destruct (find_subcommand sc n) as [s|] eqn:Ef; cbn [opt_map]; [|reflexivity].
  pose proof (find_some_in _ _ _ Ef) as [Hin _].
  destruct (build_subcommand_some sc s Hin) as [s' Hb]. rewrite Hb. apply IH.
Qed.

(** which lookups are safe: those that return names of subcommands of the level *)
Definition lookup_sound (lk : hw_lookup) : Prop :=
  forall sc n m, lk sc n = Some m -> exists s, In s (c_subs sc) /\ c_name s = m.

Theorem help_walk_with_total lk : lookup_sound lk -> forall names sc, help_walk_with lk sc names <> None.
Proof.
  intros Hl. induction names as [|n rest IH]; intros sc; cbn [help_walk_with]; [discriminate|].
  destruct (lk sc n) as [m|] eqn:El; [|discriminate].
  destruct (Hl sc n m El) as [s [Hin <-]]. destruct (build_subcommand_some sc s Hin) as [s' Hb]. rewrite Hb. apply IH.
Qed.

Lemma lookup_clap_sound : lookup_sound lookup_clap.
Proof.
  intros sc n m H. unfold lookup_clap in H. destruct (find_subcommand sc n) as [s|] eqn:Ef; [|discriminate].
  inversion H; subst m. exists s. split; [exact (proj1 (find_some_in _ _ _ Ef))|reflexivity].
Qed.

(** the lookup without the canonicalisation: the text that was typed *)
Definition lookup_text : hw_lookup :=
  fun sc n => match find_subcommand sc n with Some _ => Some n | None => None end.
(** the lookup of the token loop ([possible_subcommand]: with [infer_subcommands] the name, or the TEXT of the alias
    the word is a prefix of) *)
Definition lookup_infer : hw_lookup := fun sc n => possible_subcommand sc n false.

(** `help delete` / `help del` on C09's [ex_wide] (subcommand [remove], alias [delete], [infer_subcommands]) *)
Theorem help_walk_text_panics :
  let c := build_self (ex_wide false) in
  find_subcommand c w_delete <> None /\ help_walk_with lookup_text c [w_delete] = None
  /\ exists lv, help_walk_with lookup_clap c [w_delete] = Some (help_err lv true) /\ c_name lv = w_remove.
Proof.
  cbv zeta. split; [vm_compute; discriminate|]. split; [vm_compute; reflexivity|].
  destruct (build_subcommand (build_self (ex_wide false)) w_remove) as [lv|] eqn:E; [|vm_compute in E; discriminate].
  exists lv. vm_compute in E. inversion E; subst lv. split; vm_compute; reflexivity.
Qed.

Theorem help_walk_infer_panics :
  let c := build_self (ex_wide false) in
  infer_list c [100; 101; 108] = [w_delete] /\ help_walk_with lookup_infer c [[100; 101; 108]] = None
  /\ help_walk_with lookup_clap c [[100; 101; 108]] = Some (unknown_sub_err c [100; 101; 108]).
Proof. cbv zeta. split; [vm_compute; reflexivity|]. split; vm_compute; reflexivity. Qed.

(** * the walk and [p_level_walk] *)
Lemma help_walk_of_level : forall path c lv, p_level_walk c path = Some lv -> help_walk c path = help_err lv true.
Proof.
  induction path as [|n rest IH]; intros c lv H; cbn [p_level_walk help_walk] in *.
  - inversion H. reflexivity.
  - destruct (find_subcommand c n) as [s|]; [|discriminate].
    destruct (build_subcommand c (c_name s)) as [s'|]; [|discriminate]. apply IH. exact H.
Qed.

(** a word that is no name or alias of the level reached: InvalidSubcommand naming that word (no inference here) *)
Lemma help_walk_unknown : forall known c lvk w more,
  p_level_walk c known = Some lvk -> find_subcommand lvk w = None ->
  help_walk c (known ++ w :: more) = unknown_sub_err lvk w.
Proof.
  induction known as [|n rest IH]; intros c lvk w more H Hf; cbn [p_level_walk help_walk app] in *.
  - inversion H; subst lvk. rewrite Hf. reflexivity.
  - destruct (find_subcommand c n) as [s|]; [|discriminate].
    destruct (build_subcommand c (c_name s)) as [s'|]; [|discriminate]. apply (IH s' lvk w more H Hf).
Qed.

Lemma p_level_walk_app : forall a c b lv, p_level_walk c a = Some lv -> p_level_walk c (a ++ b) = p_level_walk lv b.
Proof.
  induction a as [|n rest IH]; intros c b lv H; cbn [p_level_walk app] in *.
  - inversion H. reflexivity.
  - destruct (find_subcommand c n) as [s|]; [|discriminate].
    destruct (build_subcommand c (c_name s)) as [s'|]; [|discriminate]. apply IH. exact H.
Qed.

(** * the whole line: a chain with arguments, then a tail the last level answers with an error *)
Definition fin (f : nat) (c : cmd) (lr : loop_res) : res ps :=
  match lr with
  | LDone st => ROk st
  | LSub name keep vaf st rest => after_sub f c name keep vaf st rest
  | LHelpSub names st => RErr (help_walk c names) st
  | LExternal name vals st => external_matches c name vals st
  end.
Lemma parsed_of_fin f c toks st0 :
  parsed_of f c toks st0 = (do lr <- parse_loop c toks (lsV 1 false) st0; fin f c lr).
Proof. reflexivity. Qed.

Section TailChain.
Variable tail : list bytes.
Variable at_level : cmd -> pstate_t -> N -> error -> Prop.
Hypothesis at_level_spec : forall c pst pos e, at_level c pst pos e -> forall f vaf st, fs_skip st = 0 ->
  exists st2, (do lr <- parse_loop c tail (mkL pst pos vaf false) st; fin f c lr) = RErr e st2.

Lemma gmw_tail_wide : forall c toks ns lv pst pos, hsplit c toks ns lv pst pos -> forall f e,
  valid_tree f c = true -> at_level lv pst pos e ->
  exists st, get_matches_with f c (toks ++ tail) ps_new = RErr e st.
Proof.
  induction 1 as [c pre F pst pos st' st1 Hp Hi Ha0 Ha|c pre F pst pos tok0 n sc0 sc rest0 ns lv pst' pos' st' [Hneg Hign] Hp HF0 Hs Hf Hb Hh IH];
    intros f e Hv Hat; (destruct f as [|f]; [discriminate|]).
  - rewrite gmw_unfold, parsed_of_fin.
    rewrite (loop_wprefix c false pre F pst pos Hp tail ps_new eq_refl).
    rewrite (wprefix_alone c pre F pst pos Hp ps_new eq_refl) in Ha0.
    destruct (F ps_new) as [st2|e0 s1|x] eqn:EF; cbn [rbind] in Ha0 |- *; try discriminate.
    inversion Ha0; subst st2. clear Ha0.
    destruct (wprefix_fs c false pre F pst pos Hp ps_new st' eq_refl EF) as [Hsk' _].
    destruct (at_level_spec c pst pos e Hat f (negb (is_nil pre)) st' Hsk') as [st2 H2]. rewrite H2.
    cbn [post]. rewrite Hi. exists st2. reflexivity.
  - assert (Hin : In sc0 (c_subs c)) by (unfold find_subcommand in Hf; apply find_some in Hf; apply Hf).
    destruct (valid_tree_child f c sc0 Hv Hin) as [sc2 [Eb2 Hv2]]. rewrite Hb in Eb2. inversion Eb2; subst sc2.
    destruct (IH f e Hv2 Hat) as [ste Hchild].
    assert (HF : F ps_new = ROk st').
    { rewrite (wprefix_alone c pre F pst pos Hp ps_new eq_refl) in HF0.
      destruct (F ps_new) as [st2|e0 s1|x]; cbn [rbind] in HF0; try discriminate. inversion HF0. reflexivity. }
    rewrite <- app_assoc. cbn [app].
    rewrite (wlevel_step c pre F pst pos tok0 n f Hp Hs Hneg (rest0 ++ tail) ps_new eq_refl).
    rewrite HF. cbn [rbind]. unfold after_sub. rewrite Hneg. cbn [andb]. rewrite Hf. cbn [expect rbind]. rewrite Hb.
    rewrite (valid_tree_app f sc Hv2). cbn [negb sub_init]. rewrite Hchild. rewrite Hign. cbn [post]. rewrite Hign.
    exists st'. reflexivity.
Qed.

Theorem parse_top_tail_wide c0 bin toks ns lv pst pos e :
  is_set s_no_binary_name c0 = false -> c_bin_name c0 <> None ->
  valid c0 = true -> hsplit (build_self c0) toks ns lv pst pos -> at_level lv pst pos e ->
  parse_top c0 (bin :: toks ++ tail) = OErr e.
Proof.
  intros Hnb Hbin Hv Hc Hat. unfold parse_top. rewrite Hnb. destruct (c_bin_name c0) as [b|]; [|contradiction].
  unfold do_parse. rewrite Hv. cbn [negb]. unfold valid in Hv. cbn zeta in Hv.
  destruct (gmw_tail_wide _ _ _ _ _ _ Hc _ e Hv Hat) as [st H]. rewrite H.
  rewrite (hsplit_root_ignore _ _ _ _ _ _ Hc). reflexivity.
Qed.
End TailChain.

(** the token selects the generated [help] subcommand of the level: the word `help`, or -- with
    [infer_subcommands] -- a prefix no other subcommand name / alias shares *)
Definition help_sel (c : cmd) (tok : bytes) : Prop :=
  is_set s_disable_help_sub c = false /\ forall vaf, possible_subcommand c tok vaf = Some s_help.

(** the loop looks for subcommands in this state: between two arguments, or anywhere when THIS level has
    [subcommand_precedence_over_arg] *)
Definition sub_tried (c : cmd) (pst : pstate_t) : Prop :=
  (is_set s_sub_precedence c || match pst with PSValuesDone => true | _ => false end) = true.

Lemma loop_help_sel c tok path pst pos vaf st : help_sel c tok -> sub_tried c pst ->
  parse_loop c (tok :: path) (mkL pst pos vaf false) st = ROk (LHelpSub path st).
Proof.
  intros [Hd Hp] Ht. unfold sub_tried in Ht. cbn [parse_loop l_trailing l_pst l_vaf l_pos]. rewrite Ht, (Hp vaf).
  rewrite beq_refl, Hd. reflexivity.
Qed.

(** C12_help_subcommand_level *)
Theorem help_sub_level c0 bin toks ns lv pst pos tok path lv' :
  is_set s_no_binary_name c0 = false -> c_bin_name c0 <> None ->
  valid c0 = true -> hsplit (build_self c0) toks ns lv pst pos -> help_sel lv tok /\ sub_tried lv pst ->
  p_level_walk lv path = Some lv' ->
  parse_top c0 (bin :: toks ++ tok :: path) = OErr (help_err lv' true)
  /\ p_level_walk (build_self c0) (ns ++ path) = Some lv'
  /\ e_kind (help_err lv' true) = EDisplayHelp /\ e_cmd (help_err lv' true) = opt_default [] (c_about lv')
  /\ e_long (help_err lv' true) = true.
Proof.
  intros Hnb Hbin Hv Hc Hsel Hw. split; [|split; [|repeat split]].
  - apply (parse_top_tail_wide (tok :: path) (fun c q _ e => (help_sel c tok /\ sub_tried c q) /\ e = help_walk c path)
             (fun c q p e H f vaf st _ =>
                ex_intro _ st (eq_trans (f_equal (fun r => rbind r (fin f c))
                                                 (loop_help_sel c tok path q p vaf st (proj1 (proj1 H)) (proj2 (proj1 H))))
                                        (f_equal (fun e0 => RErr e0 st) (eq_sym (proj2 H)))))
             c0 bin toks ns lv pst pos); try assumption.
    split; [exact Hsel|]. symmetry. apply help_walk_of_level. exact Hw.
  - rewrite (p_level_walk_app ns (build_self c0) path lv (hsplit_level _ _ _ _ _ _ Hc)). exact Hw.
Qed.

(** C12_help_subcommand_unknown: the first word that is no name / alias of the level reached is reported *)
Theorem help_sub_unknown c0 bin toks ns lv pst pos tok known w more lvk :
  is_set s_no_binary_name c0 = false -> c_bin_name c0 <> None ->
  valid c0 = true -> hsplit (build_self c0) toks ns lv pst pos -> help_sel lv tok /\ sub_tried lv pst ->
  p_level_walk lv known = Some lvk -> find_subcommand lvk w = None ->
  parse_top c0 (bin :: toks ++ tok :: known ++ w :: more) = OErr (unknown_sub_err lvk w).
Proof.
  intros Hnb Hbin Hv Hc Hsel Hw Hf.
  apply (parse_top_tail_wide (tok :: known ++ w :: more)
           (fun c q _ e => (help_sel c tok /\ sub_tried c q) /\ e = help_walk c (known ++ w :: more))
           (fun c q p e H f vaf st _ =>
              ex_intro _ st (eq_trans (f_equal (fun r => rbind r (fin f c))
                                               (loop_help_sel c tok _ q p vaf st (proj1 (proj1 H)) (proj2 (proj1 H))))
                                      (f_equal (fun e0 => RErr e0 st) (eq_sym (proj2 H)))))
           c0 bin toks ns lv pst pos); try assumption.
  split; [exact Hsel|]. symmetry. apply help_walk_unknown; assumption.
Qed.

(** the word `help` itself, without inference *)
Lemma help_sel_exact c sc : is_set s_disable_help_sub c = false -> is_set s_infer_sub c = false ->
  is_set s_args_negate_subs c = false -> find_subcommand c s_help = Some sc -> c_name sc = s_help -> help_sel c s_help.
Proof.
  intros Hd Hi Hn Hf Hname. split; [exact Hd|]. intros vaf. unfold possible_subcommand.
  change (utf8_valid s_help) with true. cbn [negb]. rewrite Hn, Hi, Hf. cbn [andb opt_map]. rewrite Hname. reflexivity.
Qed.

(** * non-vacuity *)

(** `p --verbose help sy q` on the three-level [hw_root]: the path goes through the alias `sy`; help of [q] *)
Example hs_hyps_alias :
  is_set s_no_binary_name hw_root = false /\ c_bin_name hw_root <> None /\ valid hw_root = true
  /\ hsplit (build_self hw_root) [dd w_verbose] [] (build_self hw_root) PSValuesDone 1
  /\ (help_sel (build_self hw_root) s_help /\ sub_tried (build_self hw_root) PSValuesDone)
  /\ exists lv', p_level_walk (build_self hw_root) [[115; 121]; b1 113] = Some lv' /\ c_name lv' = b1 113
       /\ parse_top hw_root (b1 112 :: [dd w_verbose] ++ s_help :: [[115; 121]; b1 113]) = OErr (help_err lv' true).
Proof.
  split; [reflexivity|]. split; [discriminate|]. split; [vmr|]. split; [|split].
  - eapply (hs_end _ [dd w_verbose] _ PSValuesDone).
    + apply wp_plain, wb_plain, prefix_pitems. eapply (po_cons _ [dd w_verbose] _ []); [|apply po_nil].
      eapply it_flag; [solve_nosub|vmr|vmr|vmr].
    + vmr.
    + vmr.
    + vmr.
  - split; [split; [vmr|solve_nosub]|apply orb_true_r].
  - destruct (p_level_walk (build_self hw_root) [[115; 121]; b1 113]) as [lv'|] eqn:E; [|vm_compute in E; discriminate].
    exists lv'. split; [reflexivity|]. vm_compute in E. inversion E; subst lv'. split; vmr.
Qed.

(** `p -g x a he delete` / `p -g x a he del` on C09's [ex_wide] ([infer_subcommands]; [remove] has the alias [delete]):
    `he` is an inferred prefix of `help`; the alias leads to [remove]; the PREFIX of the alias is not looked up by
    inference: InvalidSubcommand `del` (and no panic) *)
Definition hs_wide : cmd := (ex_wide false) <| c_bin_name := Some (b1 112) |>.
Example hs_hyps_infer :
  is_set s_no_binary_name hs_wide = false /\ c_bin_name hs_wide <> None /\ valid hs_wide = true
  /\ hsplit (build_self hs_wide) [[45; 103]; b1 120; b1 97] [] (build_self hs_wide) PSValuesDone 2
  /\ (help_sel (build_self hs_wide) [104; 101] /\ sub_tried (build_self hs_wide) PSValuesDone)
  /\ (exists lv', p_level_walk (build_self hs_wide) [w_delete] = Some lv' /\ c_name lv' = w_remove
       /\ parse_top hs_wide (b1 112 :: [[45; 103]; b1 120; b1 97] ++ [104; 101] :: [w_delete]) = OErr (help_err lv' true))
  /\ find_subcommand (build_self hs_wide) [100; 101; 108] = None
  /\ infer_list (build_self hs_wide) [100; 101; 108] = [w_delete]
  /\ parse_top hs_wide (b1 112 :: [[45; 103]; b1 120; b1 97] ++ [104; 101] :: [] ++ [100; 101; 108] :: [])
     = OErr (unknown_sub_err (build_self hs_wide) [100; 101; 108]).
Proof.
  split; [reflexivity|]. split; [discriminate|]. split; [vmr|]. split; [|split; [|split]].
  - eapply (hs_end _ [[45; 103]; b1 120; b1 97] _ PSValuesDone).
    + apply wp_plain, wb_plain. eapply (pi_opt _ 1 [[45; 103]; b1 120] _ [b1 97]); [short_sep_g|].
      eapply (pi_pos _ 1 (b1 97) _ []); [solve_nosub|solve_plain|solve_takes|vmr|apply pi_nil].
    + vmr.
    + vmr.
    + vmr.
  - split; [split; [vmr|solve_nosub]|apply orb_true_r].
  - destruct (p_level_walk (build_self hs_wide) [w_delete]) as [lv'|] eqn:E; [|vm_compute in E; discriminate].
    exists lv'. split; [reflexivity|]. vm_compute in E. inversion E; subst lv'. split; vmr.
  - split; [vmr|]. split; vmr.
Qed.

(** `p a b sync --help` / `-h` on [hs_wide]: the help flag is read while <files>... collects values (`sync` is swallowed:
    no [subcommand_precedence_over_arg]); the help of the ROOT, not of [sync] *)
Definition hs_files : arg :=
  Eval vm_compute in match find_arg (build_self hs_wide) w_files with Some a => a | None => arg_new [] end.
Example hs_hyps_multi :
  is_set s_no_binary_name hs_wide = false /\ c_bin_name hs_wide <> None /\ valid hs_wide = true /\ tree_all unb hs_wide
  /\ hsplit (build_self hs_wide) [b1 97; b1 98; w_sync] [] (build_self hs_wide) (PSPos w_files) 2
  /\ pst_ok (build_self hs_wide) (PSPos w_files)
  /\ is_set s_disable_help_flag (build_self hs_wide) = false
  /\ possible_subcommand (build_self hs_wide) tok_help_long false = None
  /\ possible_subcommand (build_self hs_wide) tok_help_short false = None
  /\ no_hyphen_pos (build_self hs_wide) 2
  /\ parse_top hs_wide (b1 112 :: [b1 97; b1 98; w_sync] ++ tok_help_long :: []) = OErr (help_err (build_self hs_wide) true)
  /\ parse_top hs_wide (b1 112 :: [b1 97; b1 98; w_sync] ++ tok_help_short :: []) = OErr (help_err (build_self hs_wide) false).
Proof.
  split; [reflexivity|]. split; [discriminate|]. split; [vmr|]. split; [apply (unb_tree_ok 5); vmr|].
  split.
  { eapply (hs_end _ [b1 97; b1 98; w_sync] _ (PSPos w_files) 2).
    - apply wp_plain. eapply (wb_multi _ [b1 97] _ 2 hs_files (b1 98) [w_sync]).
      + eapply (pi_pos _ 1 (b1 97) _ []); [solve_nosub|solve_plain|solve_takes|vmr|apply pi_nil].
      + refine (conj _ (conj _ (conj _ _))); cycle 3.
        * repeat (apply Forall_cons; [split; [solve_plain|solve_takes]|]). apply Forall_nil.
        * vmr.
        * solve_nosub.
        * intros H; vm_compute in H; discriminate.
    - vmr.
    - vmr.
    - vmr. }
  split; [eexists; split; vmr|].
  split; [vmr|]. split; [vmr|]. split; [vmr|]. split; [vm_compute; tauto|]. split; vmr.
Qed.
