(** Help area (C12), round 5: [Command::flatten_help].

    Sources: clap_builder/src/builder/command.rs ([build], [_build_recursive], [_build_bin_names_internal],
    [_check_help_and_version] with [expand_help_tree = true], [_copy_subtree_for_help]),
    clap_builder/src/output/usage.rs ([write_help_usage], the flatten branch),
    clap_builder/src/output/help_template.rs ([write_all_args] where [is_flatten_help_set] is consulted,
    [write_flat_subcommands]).

    [flatten_help] is a plain setting ([hc_flatten], not propagated).  The flatten branch of [write_help_usage]
    clones the command, calls [build()] on the clone and writes one [write_usage_no_title] per subcommand of the
    BUILT clone that is not hidden -- the generated [help] subcommand included; a subcommand that has the setting
    itself (and visible subcommands) writes its block recursively.  [write_all_args] drops the "Commands" section
    and appends [write_flat_subcommands] of the built clone.

    Nothing of UsageModel.v / HelpModel.v is restated: the usage line of a level is [write_arg_usage] /
    [usage_pieces], the rows of a flattened section are [write_args], the sections above them are
    [write_all_args] of the command without its subcommands.  The one exception is [_build_self], which exists
    there for [expand_help_tree = false] only; [h_build_self_x] takes the flag and [h_build_self_x_false] ties it
    to [h_build_self]. *)
From ClapModel Require Import Base.Bytes Base.Machine Parse.Cmd Gen.HelpTables Help.UsageModel Help.HelpModel.
From RecordUpdate Require Import RecordSet.
Import RecordSetNotations.
Open Scope N_scope.

(** ---- [_check_help_and_version(expand_help_tree = true)]: the help subcommand with the copied subtrees ---- *)
Definition hs_no_help_no_version : hset := mkHSet false true true false.

(** [_copy_subtree_for_help]: name, [hide], the two global settings, the copied subcommands, the about *)
Fixpoint copy_subtree_for_help (c : hcmd) : hcmd :=
  let copies := (fix go (l : list hcmd) : list hcmd :=
                   match l with [] => [] | s :: t => copy_subtree_for_help s :: go t end) (hc_subs c) in
  cmd_with ((hcmd_new (hc_name c)) <| hc_hide := hc_hide c |> <| hc_set := hs_no_help_no_version |>
                                   <| hc_gset := hs_no_help_no_version |> <| hc_about := hc_about c |>)
           [] copies.

Definition hs_only_no_help_sub : hset := mkHSet false false false true.

(** the [if expand_help_tree] arm: [Command::new("help").about(..).global_setting(DisableHelpSubcommand)
    .subcommands(copies).subcommand(help_help)], then what both arms do *)
Definition h_help_subcommand_expanded (p : hcmd) : hcmd :=
  let help_help := (hcmd_new s_help) <| hc_about := Some t_helpsub_about |> <| hc_set := hs_no_help_no_version |> in
  let h := cmd_with ((hcmd_new s_help) <| hc_about := Some t_helpsub_about |> <| hc_set := hs_only_no_help_sub |>
                                       <| hc_gset := hs_only_no_help_sub |>)
                    [] (map copy_subtree_for_help (hc_subs p) ++ [help_help]) in
  let h := h_propagate_subcommand p h in
  h <| hc_set := (hc_set h) <| hs_no_help_flag := true |> <| hs_no_version_flag := true |> |>.

(** [_check_help_and_version(expand_help_tree)] *)
Definition h_check_help_and_version_x (expand : bool) (c : hcmd) : hcmd :=
  let c := c <| hc_long_help_exists := long_help_exists_ c |> in
  let c := if negb (h_is_set hs_no_help_flag c)
           then c <| hc_args := hc_args c ++ [h_help_arg (hc_long_help_exists c)] |> else c in
  let c := if negb (h_is_disable_version_flag_set c) then c <| hc_args := hc_args c ++ [h_version_arg] |> else c in
  if negb (h_is_set hs_no_help_sub c)
  then c <| hc_subs := hc_subs c ++ [if expand then h_help_subcommand_expanded c else h_help_subcommand c] |>
  else c.

(** [_build_self(expand_help_tree)] *)
Definition h_build_self_x (expand : bool) (c : hcmd) : hcmd :=
  if hc_built c then c else
  let c := if is_nil (hc_subs c) then c <| hc_set := (hc_set c) <| hs_no_help_sub := true |> |> else c in
  let c := c <| hc_subs := map (h_propagate_subcommand c) (hc_subs c) |> in
  let c := h_check_help_and_version_x expand c in
  let c := h_propagate_global_args c in
  let c := c <| hc_args := build_hargs (hc_args c) 1 |> in
  c <| hc_built := true |>.

Lemma h_check_help_and_version_x_false c : h_check_help_and_version_x false c = h_check_help_and_version c.
Proof. reflexivity. Qed.
Lemma h_build_self_x_false c : h_build_self_x false c = h_build_self c.
Proof. reflexivity. Qed.

(** ---- [Command::build] ---- *)
(** the recursions below descend into the subcommands of a BUILT level (the generated [help] subtree included), so
    they are not structural in the user's tree: they take fuel, and every caller supplies the constant [tree_fuel].
    Domain: command trees of height below [tree_fuel - 2] (the built tree is one level higher than the user's: the
    [help] subtree of a level is as high as the level, plus [help help]).  A constant rather than a function of the
    tree, so that two trees that differ in one subcommand are built with the same fuel. *)
Definition tree_fuel_pred : nat := 63.
Definition tree_fuel : nat := S tree_fuel_pred.

(** [_build_recursive(true)] *)
Fixpoint h_build_recursive (fuel : nat) (c : hcmd) : hcmd :=
  match fuel with
  | O => c
  | S f => let c := h_build_self_x true c in c <| hc_subs := map (h_build_recursive f) (hc_subs c) |>
  end.

(** the loop body of [_build_bin_names_internal]: [usage_name] and [bin_name] are set where they are [None]
    (multicall is outside the domain: [self_bin_name] is the bin name or the name) *)
Definition h_set_names (self_bin mid : bytes) (sc : hcmd) : hcmd :=
  let sc := match hc_usage_name sc with
            | None => sc <| hc_usage_name := Some (self_bin ++ mid ++ sc_usage_names sc) |>
            | Some _ => sc
            end in
  match hc_bin_name sc with
  | None => sc <| hc_bin_name := Some (self_bin ++ (if is_nil self_bin then [] else [32]) ++ hc_name sc) |>
  | Some _ => sc
  end.

(** the [mid_string] of [_build_subcommand] / [_build_bin_names_internal] *)
Definition h_mid_string (c : hcmd) : option bytes :=
  dO reqs <- (if negb (hc_negates_reqs c) && negb (hc_args_conflicts c) then required_usage c else Some []);
  Some ([32] ++ concat (map (fun s => s ++ [32]) reqs)).

(** [_build_bin_names_internal].  The [BinNameBuilt] flag only short-cuts a second run: a second run finds every
    name set and changes nothing ([None] = a panic site of [get_required_usage_from]). *)
Fixpoint h_build_bin_names (fuel : nat) (c : hcmd) : option hcmd :=
  match fuel with
  | O => Some c
  | S f =>
      dO mid <- h_mid_string c;
      let self_bin := bin_name_fallback c in
      dO subs <- map_opt (fun sc => h_build_bin_names f (h_set_names self_bin mid sc)) (hc_subs c);
      Some (c <| hc_subs := subs |>)
  end.

(** [Command::build] *)
Definition h_build (c : hcmd) : option hcmd := h_build_bin_names tree_fuel (h_build_recursive tree_fuel c).

(** ---- usage.rs: the flatten branch of [write_help_usage] ---- *)
Definition flat_cond (c : hcmd) : bool := has_visible_subcommands c && hc_flatten c.
(** the command's own line is written unless [subcommand_required] without [args_conflicts_with_subcommands] *)
Definition own_cond (c : hcmd) : bool := negb (hc_sub_required c) || hc_args_conflicts c.
Definition visible_subs (c : hcmd) : list hcmd := filter (fun s => negb (hc_hide s)) (hc_subs c).

(** [write_usage_no_title(&[])] = [write_help_usage] (no usage override in the domain): the usage LINES, each a
    list of pieces as [usage_pieces] returns them.  Between two lines the code writes [trim_end] + [USAGE_SEP].
    [None] = panic, or the fuel ran out (depth of nested flattening; [flat_usage] supplies [tree_fuel]). *)
Fixpoint usage_lines (fuel : nat) (c : hcmd) : option (list (list bytes)) :=
  if flat_cond c then
    match fuel with
    | O => None
    | S f =>
        dO own <- (if own_cond c then dO l <- write_arg_usage c true; Some [l] else Some []);
        dO b <- h_build c;
        dO rest <- map_opt (usage_lines f) (visible_subs b);
        Some (own ++ concat rest)
    end
  else dO p <- usage_pieces c; Some [p].

Definition flat_usage (c : hcmd) : option (list (list bytes)) := usage_lines tree_fuel c.

(** the text: every piece is followed by one space, [USAGE_SEP] is written after a [trim_end], the whole is
    [trim_end]ed ([create_usage_no_title]) *)
Fixpoint trim_end (s : bytes) : bytes :=
  match s with
  | [] => []
  | c :: t => match trim_end t with
              | [] => if is_ascii_whitespace c then [] else [c]
              | r => c :: r
              end
  end.
Definition line_text (pieces : list bytes) : bytes :=
  trim_end (fold_left (fun acc p => if beq p s_usage_sep then trim_end acc ++ p else acc ++ p ++ [32]) pieces []).
Definition usage_text (lines : list (list bytes)) : bytes := intercalate s_usage_sep (map line_text lines).

(** ---- help_template.rs: [write_flat_subcommands] ---- *)
(** one flattened section: the heading ([get_usage_name_fallback]), the about ([about], else [long_about], else
    empty), the rows of [write_args] over the shown arguments that are not global *)
Record fsec := mkFSec { fs_title : bytes; fs_about : bytes; fs_rows : list row }.

Definition flat_about (sc : hcmd) : bytes :=
  opt_default [] (match hc_about sc with Some a => Some a | None => hc_long_about sc end).
Definition flat_args (use_long : bool) (sc : hcmd) : list harg :=
  filter (fun a => should_show_arg use_long a && negb (ha_global a)) (hc_args sc).

Section Flat.
Variable dw : bytes -> N.

(** the sections of one subcommand: its own, then -- when it has the setting -- those of its subcommands
    ([nested]: the recursive call [sub_help.write_flat_subcommands(subcommand, first)], on the subcommand as it
    is in the built clone) *)
Definition flat_sub (cx : hctx) (sc : hcmd) (nested : option (list fsec)) : option (list fsec) :=
  dO rows <- write_args dw cx (flat_args (cx_use_long cx) sc) option_sort_key;
  dO rest <- (if hc_flatten sc then nested else Some []);
  Some (mkFSec (usage_name_fallback sc) (flat_about sc) rows :: rest).

(** [write_flat_subcommands]: the [BTreeMap] keyed by [(display_order, name)] over the subcommands that are not
    hidden; [cx] (use_long, term_w, next_line_help) is the one of the screen being written *)
Fixpoint write_flat_subcommands (cx : hctx) (c : hcmd) : option (list fsec) :=
  let nested := (fix go (l : list hcmd) : list (hcmd * option (list fsec)) :=
                   match l with [] => [] | s :: t => (s, write_flat_subcommands cx s) :: go t end) (hc_subs c) in
  let vis := filter (fun p => should_show_subcommand (fst p)) nested in
  let ord_v := fold_left (fun m p => bt_insert key_cmp (hc_display_order (fst p), hc_name (fst p)) p m) vis [] in
  dO l <- map_opt (fun kp => flat_sub cx (fst (snd kp)) (snd (snd kp))) ord_v;
  Some (concat l).

(** [write_all_args] with the flatten test: without "Commands" and with the flattened sections of the built
    clone when the command has visible subcommands and the setting; else as before *)
Definition write_all_args_flat (cx : hctx) (c : hcmd) : option (list section * list fsec) :=
  if flat_cond c then
    dO secs <- write_all_args dw cx (c <| hc_subs := [] |>);
    dO b <- h_build c;
    dO fs <- write_flat_subcommands cx b;
    Some (secs, fs)
  else dO secs <- write_all_args dw cx c; Some (secs, []).

Record fscreen := mkFScreen {
  fsc_about : option bytes; fsc_usage : list (list bytes); fsc_sections : list section; fsc_flat : list fsec }.

(** [write_help] (default template) with [flatten_help] in the domain *)
Definition write_help_flat (c : hcmd) (use_long : bool) (width : N) : option fscreen :=
  let cx := mkCtx use_long (term_w_of width) (h_is_set hs_next_line c) in
  dO usage <- flat_usage c;
  dO secs <- write_all_args_flat cx c;
  Some (mkFScreen (write_about use_long c) usage (fst secs) (snd secs)).

Definition render_help_flat (c : hcmd) (use_long : bool) (width : N) : option fscreen :=
  write_help_flat (h_build_self c) use_long width.
Definition render_usage_flat (c : hcmd) : option (list (list bytes)) := flat_usage (h_build_self c).

(** the DisplayHelp error of [bin path.. -h|--help] / [bin help path..], as [help_at] *)
Definition help_at_flat (root : hcmd) (path : list bytes) (use_long : bool) (width : N) : option (option fscreen) :=
  let root := h_build_self (root <| hc_bin_name := Some (opt_default (hc_name root) (hc_bin_name root)) |>) in
  dO lv <- level_walk root path;
  match lv with
  | None => Some None
  | Some c => dO s <- write_help_flat c (use_long && hc_long_help_exists c) width; Some (Some s)
  end.

End Flat.
