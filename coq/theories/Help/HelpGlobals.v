(** C12, global arguments are inherited into the help of the subcommand levels: after the parent's
    build every subcommand other than the generated [help] subcommand has an argument with the id of each
    global argument of the parent, and so has the level [_build_subcommand] returns for it (whose help
    therefore lists it when it is shown there: [C12_lists_visible_args]). *)
From ClapModel Require Import Base.Bytes Base.Machine Parse.Cmd Gen.HelpTables Help.UsageModel Help.HelpModel Help.HelpProofs.
From RecordUpdate Require Import RecordSet.
Import RecordSetNotations.
Open Scope N_scope.

Definition has_id (l : list harg) (i : bytes) : Prop := exists b, In b l /\ ha_id b = i.

Lemma add_global_keeps sc a i : has_id (hc_args sc) i -> has_id (hc_args (h_add_global sc a)) i.
Proof.
  intros [b [Hb E]]. unfold h_add_global. destruct (existsb _ (hc_args sc)); [exists b; auto|].
  exists b. split; [cbn; apply in_or_app; left; exact Hb|exact E].
Qed.
Lemma add_global_has sc a : has_id (hc_args (h_add_global sc a)) (ha_id a).
Proof.
  unfold h_add_global. destruct (existsb (fun b => beq (ha_id b) (ha_id a)) (hc_args sc)) eqn:E.
  - apply existsb_exists in E. destruct E as [b [Hb Eb]]. apply beq_eq in Eb. exists b. auto.
  - exists a. split; [cbn; apply in_or_app; right; left; reflexivity|reflexivity].
Qed.
Lemma fold_add_global_keeps gl : forall sc i, has_id (hc_args sc) i -> has_id (hc_args (fold_left h_add_global gl sc)) i.
Proof. induction gl as [|g t IH]; intros sc i H; [exact H|]. cbn [fold_left]. apply IH. apply add_global_keeps. exact H. Qed.
Lemma fold_add_global_has gl : forall sc a, In a gl -> has_id (hc_args (fold_left h_add_global gl sc)) (ha_id a).
Proof.
  induction gl as [|g t IH]; intros sc a H; [destruct H|]. cbn [fold_left]. destruct H as [H|H].
  - subst g. apply fold_add_global_keeps. apply add_global_has.
  - apply IH. exact H.
Qed.
Lemma fold_add_global_name gl : forall sc, hc_name (fold_left h_add_global gl sc) = hc_name sc.
Proof.
  induction gl as [|g t IH]; intros sc; [reflexivity|]. cbn [fold_left]. rewrite IH.
  unfold h_add_global. destruct (existsb _ _); reflexivity.
Qed.

Lemma harg_build_id a : ha_id (harg_build a) = ha_id a.
Proof.
  unfold harg_build, harg_default.
  destruct (action_default_value (ha_action a)); [destruct (is_nil (ha_defaults a))|];
    (destruct (ha_num _); [|destruct (1 <? _)]); reflexivity.
Qed.
Lemma build_hargs_has l : forall n i, has_id l i -> has_id (build_hargs l n) i.
Proof.
  induction l as [|x t IH]; intros n i [b [Hb E]]; [destruct Hb|]. cbn [build_hargs].
  destruct Hb as [Hb|Hb].
  - subst x. destruct (ha_is_positional (harg_build b) && negb (is_some (ha_index (harg_build b)))).
    + eexists. split; [left; reflexivity|]. cbn. rewrite harg_build_id. exact E.
    + eexists. split; [left; reflexivity|]. rewrite harg_build_id. exact E.
  - destruct (IH n i (ex_intro _ b (conj Hb E))) as [b1 [H1 E1]].
    destruct (IH (n + 1) i (ex_intro _ b (conj Hb E))) as [b2 [H2 E2]].
    destruct (ha_is_positional (harg_build x) && negb (is_some (ha_index (harg_build x))));
      [exists b2|exists b1]; split; try assumption; right; assumption.
Qed.

Lemma check_keeps c i : has_id (hc_args c) i -> has_id (hc_args (h_check_help_and_version c)) i.
Proof.
  intros [b [Hb E]]. exists b. split; [|exact E]. unfold h_check_help_and_version.
  repeat match goal with |- context [if ?x then _ else _] => destruct x end; cbn;
    repeat (apply in_or_app; left); exact Hb.
Qed.

(** building a level keeps the ids of its arguments *)
Lemma h_build_self_keeps c i : has_id (hc_args c) i -> has_id (hc_args (h_build_self c)) i.
Proof.
  intros H. unfold h_build_self. destruct (hc_built c); [exact H|]. cbn [hc_args].
  cbn. apply build_hargs_has.
  match goal with |- has_id (hc_args (h_check_help_and_version ?c')) i => apply (check_keeps c') end.
  destruct (is_nil (hc_subs c)); exact H.
Qed.

(** the subcommands of a built command carry the parent's global arguments *)
Theorem globals_in_subcommands c a sc :
  hc_built c = false -> In a (hc_args c) -> ha_global a = true ->
  In sc (hc_subs (h_build_self c)) ->
  (beq (hc_name sc) s_help && negb (h_is_set hs_no_help_sub (h_build_self c))) = false ->
  has_id (hc_args sc) (ha_id a).
Proof.
  intros Hb Ha Hg Hsc Hh. unfold h_build_self in Hsc, Hh. rewrite Hb in Hsc, Hh.
  set (c1 := if is_nil (hc_subs c) then c <| hc_set := (hc_set c) <| hs_no_help_sub := true |> |> else c) in *.
  set (c2 := c1 <| hc_subs := map (h_propagate_subcommand c1) (hc_subs c1) |>) in *.
  set (c3 := h_check_help_and_version c2) in *.
  assert (Hin3 : In a (filter ha_global (hc_args c3))).
  { apply filter_In. split; [|exact Hg].
    assert (H2 : In a (hc_args c2)) by (unfold c2, c1; destruct (is_nil (hc_subs c)); exact Ha).
    unfold c3, h_check_help_and_version.
    repeat match goal with |- context [if ?x then _ else _] => destruct x end; cbn;
      repeat (apply in_or_app; left); exact H2. }
  change (hc_subs (h_propagate_global_args c3 <| hc_args := build_hargs (hc_args (h_propagate_global_args c3)) 1 |> <| hc_built := true |>))
    with (hc_subs (h_propagate_global_args c3)) in Hsc.
  change (h_is_set hs_no_help_sub (h_propagate_global_args c3 <| hc_args := build_hargs (hc_args (h_propagate_global_args c3)) 1 |> <| hc_built := true |>))
    with (h_is_set hs_no_help_sub c3) in Hh.
  unfold h_propagate_global_args in Hsc. cbn [hc_subs] in Hsc.
  change (hc_subs (c3 <| hc_subs := ?l |>)) with l in Hsc.
  apply in_map_iff in Hsc. destruct Hsc as [sc0 [E Hsc0]].
  destruct (beq (hc_name sc0) s_help && negb (h_is_set hs_no_help_sub c3)) eqn:Hh0.
  - subst sc. rewrite Hh0 in Hh. discriminate.
  - subst sc. apply fold_add_global_has. exact Hin3.
Qed.

(** ... and so does the level the parser / [help <path>] descends to *)
Theorem globals_in_level c a name lv :
  hc_built c = false -> In a (hc_args c) -> ha_global a = true ->
  h_build_subcommand (h_build_self c) name = Some (Some lv) ->
  (beq name s_help && negb (h_is_set hs_no_help_sub (h_build_self c))) = false ->
  has_id (hc_args lv) (ha_id a).
Proof.
  intros Hb Ha Hg H Hh. unfold h_build_subcommand in H.
  destruct (if negb (hc_negates_reqs (h_build_self c)) && negb (hc_args_conflicts (h_build_self c))
            then required_usage (h_build_self c) else Some []) as [reqs|]; [|discriminate].
  destruct (find (fun s => beq (hc_name s) name) (hc_subs (h_build_self c))) as [sc|] eqn:Ef; [|discriminate].
  apply find_some in Ef. destruct Ef as [Hsc En]. apply beq_eq in En.
  inversion H; subst lv. apply h_build_self_keeps. cbn [hc_args].
  match goal with |- has_id (hc_args (?x <| hc_usage_name := _ |> <| hc_bin_name := _ |>)) _ => change (has_id (hc_args x) (ha_id a)) end.
  apply (globals_in_subcommands c a sc Hb Ha Hg Hsc). rewrite En. exact Hh.
Qed.

(** non-vacuity: a global flag of the root is an argument of the level of subcommand [s] *)
Definition gl_cmd : hcmd :=
  cmd_with (hcmd_new [112])
    [ (harg_new [103] ASetTrue) <| ha_long := Some [103; 103] |> <| ha_global := true |> ]
    [ cmd_with (hcmd_new [115]) [ (harg_new [111] ASet) <| ha_long := Some [111] |> ] [] ].
Example gl_cmd_level :
  hc_built gl_cmd = false /\
  exists a lv, In a (hc_args gl_cmd) /\ ha_global a = true
    /\ h_build_subcommand (h_build_self gl_cmd) [115] = Some (Some lv)
    /\ (beq [115] s_help && negb (h_is_set hs_no_help_sub (h_build_self gl_cmd))) = false
    /\ map ha_id (hc_args lv) = [[111]; [103]; s_help].
Proof.
  split; [reflexivity|]. eexists _, _. split; [left; reflexivity|]. split; [reflexivity|].
  split; [vm_compute; reflexivity|]. split; vm_compute; reflexivity.
Qed.
