(** C12, round 5: proofs about the model of [flatten_help] (Help/HelpFlatten.v).

    - [flat_off_same]: without the setting (or without visible subcommands) the flattened writer IS [write_help].
    - the usage block: [usage_lines_one_level] (own line + exactly one line per subcommand of the built clone that is
      not hidden, in order, each starting with that subcommand's usage name), [usage_lines_sound] /
      [usage_lines_complete] (nested flattening: the lines are exactly those of the nodes reached through subcommands
      that are not hidden), [usage_lines_of_built] (the block below the own line is a function of the built clone).
    - the names: [h_build_names] (what [build()] makes the usage name / bin name / visibility of every subcommand
      of a command whose subcommands carry no names yet).
    - the flattened sections: [flat_sections_safe] (total, padding bounded, rows only of shown arguments that are not
      global, sections only of subcommands that are not hidden), [flat_sections_complete]. *)
From Coq Require Import List Bool Lia NArith.
Import ListNotations.
From ClapModel Require Import Base.Bytes Base.Machine Parse.Cmd Parse.Valid Parse.Matcher Parse.Errors Parse.Validator ParseProofs.Actions.
From ClapModel Require Import Gen.HelpTables Help.UsageModel Help.HelpModel Help.HelpReqs Help.HelpProofs Help.HelpFlatten.
From RecordUpdate Require Import RecordSet.
Import RecordSetNotations.
Open Scope N_scope.

(** ---- flatten off: the model of rounds 1-4 ---- *)
Lemma usage_lines_off f c : flat_cond c = false -> usage_lines f c = option_map (fun p => [p]) (usage_pieces c).
Proof. intros H. destruct f; cbn [usage_lines]; rewrite H; destruct (usage_pieces c); reflexivity. Qed.

Definition embed_screen (s : screen) : fscreen := mkFScreen (scr_about s) [scr_usage s] (scr_sections s) [].

Theorem flat_off_same dw c use_long w :
  flat_cond c = false -> write_help_flat dw c use_long w = option_map embed_screen (write_help dw c use_long w).
Proof.
  intros H. unfold write_help_flat, flat_usage, write_all_args_flat, write_help. rewrite (usage_lines_off _ c H), H.
  destruct (usage_pieces c) as [u|]; [|reflexivity]. cbn [option_map].
  destruct (write_all_args dw _ c) as [secs|]; reflexivity.
Qed.

(** ---- the first piece of a usage line is the usage name ---- *)
Lemma write_arg_usage_head c incl u :
  write_arg_usage c incl = Some u -> usage_name_fallback c <> [] -> exists rest, u = usage_name_fallback c :: rest.
Proof.
  unfold write_arg_usage. intros H Hn. destruct (usage_arg_items c (negb incl)) as [items|]; [|discriminate].
  inversion H; subst u; clear H. destruct (usage_name_fallback c) as [|x t] eqn:E; [congruence|].
  cbn [is_nil app]. eexists. reflexivity.
Qed.

Lemma usage_pieces_head c u :
  usage_pieces c = Some u -> usage_name_fallback c <> [] -> exists rest, u = usage_name_fallback c :: rest.
Proof.
  unfold usage_pieces. intros H Hn. destruct (write_arg_usage c true) as [first|] eqn:E; [|discriminate].
  destruct (write_subcommand_usage c) as [second|]; [|discriminate]. inversion H; subst u; clear H.
  destruct (write_arg_usage_head c true first E Hn) as [rest ->]. eexists. reflexivity.
Qed.

(** a line of a node: the whole usage of a node that is not flattened, the own line of one that is *)
Definition is_line (x : hcmd) (l : list bytes) : Prop :=
  (flat_cond x = false /\ usage_pieces x = Some l) \/
  (flat_cond x = true /\ own_cond x = true /\ write_arg_usage x true = Some l).

Lemma is_line_head x l : is_line x l -> usage_name_fallback x <> [] -> exists rest, l = usage_name_fallback x :: rest.
Proof.
  intros [[_ H]|[_ [_ H]]] Hn; [exact (usage_pieces_head x l H Hn)|exact (write_arg_usage_head x true l H Hn)].
Qed.

Lemma Forall2_impl {A B} (P Q : A -> B -> Prop) l1 l2 :
  (forall a b, P a b -> Q a b) -> Forall2 P l1 l2 -> Forall2 Q l1 l2.
Proof. intros H F. induction F; constructor; auto. Qed.

Lemma Forall2_len {A B} (P : A -> B -> Prop) l1 l2 : Forall2 P l1 l2 -> length l1 = length l2.
Proof. intros F. induction F; cbn [length]; congruence. Qed.

(** ---- one level of flattening ---- *)
Lemma map_opt_lines_plain f l : forall rest,
  (forall sc, In sc l -> flat_cond sc = false) ->
  map_opt (usage_lines f) l = Some rest ->
  Forall2 (fun sc ln => usage_pieces sc = Some ln) l (concat rest).
Proof.
  induction l as [|a t IH]; intros rest Hp H; cbn [map_opt] in H.
  - inversion H; subst. constructor.
  - rewrite (usage_lines_off f a (Hp a (or_introl eq_refl))) in H.
    destruct (usage_pieces a) as [p|] eqn:Ea; [|discriminate]. cbn [option_map] in H.
    destruct (map_opt (usage_lines f) t) as [r'|] eqn:Et; [|discriminate]. inversion H; subst rest; clear H.
    cbn [concat app]. constructor; [exact Ea|]. apply IH; [|reflexivity]. intros sc Hs. apply Hp. right. exact Hs.
Qed.

(** C12_flatten_usage_lines: the block of a flattened level whose visible subcommands are not flattened themselves
    is the own line (iff [own_cond]) followed by EXACTLY one line per subcommand of the built clone that is not
    hidden, in the order of the subcommands, and that line is the subcommand's usage: it starts with its usage
    name.  A hidden subcommand has no line ([visible_subs] is the filter). *)
Theorem usage_lines_one_level f c b ls :
  flat_cond c = true -> h_build c = Some b ->
  (forall sc, In sc (visible_subs b) -> flat_cond sc = false) ->
  usage_lines (S f) c = Some ls ->
  exists own lines, ls = own ++ lines
    /\ (if own_cond c then exists u, write_arg_usage c true = Some u /\ own = [u] else own = [])
    /\ Forall2 (fun sc ln => usage_pieces sc = Some ln
                             /\ (usage_name_fallback sc <> [] -> exists rest, ln = usage_name_fallback sc :: rest))
               (visible_subs b) lines.
Proof.
  intros Hf Hb Hp H. cbn [usage_lines] in H. rewrite Hf, Hb in H.
  destruct (if own_cond c then match write_arg_usage c true with Some l => Some [l] | None => None end else Some [])
    as [own|] eqn:Eo; [|discriminate].
  destruct (map_opt (usage_lines f) (visible_subs b)) as [rest|] eqn:Er; [|discriminate].
  inversion H; subst ls; clear H. exists own, (concat rest). split; [reflexivity|]. split.
  - destruct (own_cond c).
    + destruct (write_arg_usage c true) as [u|]; [|discriminate]. inversion Eo; subst. eauto.
    + inversion Eo; reflexivity.
  - pose proof (map_opt_lines_plain f (visible_subs b) rest Hp Er) as F.
    revert F. apply Forall2_impl. intros sc ln H1.
    split; [exact H1|]. intros Hn. exact (usage_pieces_head sc ln H1 Hn).
Qed.

Corollary usage_lines_count f c b ls :
  flat_cond c = true -> h_build c = Some b ->
  (forall sc, In sc (visible_subs b) -> flat_cond sc = false) ->
  usage_lines (S f) c = Some ls ->
  length ls = ((if own_cond c then 1 else 0) + length (visible_subs b))%nat.
Proof.
  intros Hf Hb Hp H. destruct (usage_lines_one_level f c b ls Hf Hb Hp H) as [own [lines [-> [Ho F]]]].
  rewrite app_length. rewrite <- (Forall2_len _ _ _ F). destruct (own_cond c).
  - destruct Ho as [u [_ ->]]. reflexivity.
  - subst own. reflexivity.
Qed.

(** ---- nested flattening: whose lines the block consists of ---- *)
(** [writes c x]: in the block of [c] the node [x] writes a line of its own.  The descent goes through the
    subcommands of the BUILT clone that are not hidden, and only below nodes that are flattened. *)
Inductive writes : hcmd -> hcmd -> Prop :=
| W_plain c : flat_cond c = false -> writes c c
| W_own c : flat_cond c = true -> own_cond c = true -> writes c c
| W_sub c b sc x : flat_cond c = true -> h_build c = Some b -> In sc (hc_subs b) -> hc_hide sc = false ->
                   writes sc x -> writes c x.

Lemma visible_subs_in b sc : In sc (visible_subs b) <-> In sc (hc_subs b) /\ hc_hide sc = false.
Proof.
  unfold visible_subs. rewrite filter_In. split; intros [H1 H2]; (split; [exact H1|]).
  - apply negb_true_iff in H2. exact H2.
  - rewrite H2. reflexivity.
Qed.

(** C12_flatten_usage_sound: every line of the block is the line of a node that [writes] -- in particular it is
    reached through subcommands that are not hidden: a hidden subcommand, and everything below it, has no line *)
Theorem usage_lines_sound : forall f c ls, usage_lines f c = Some ls ->
  forall l, In l ls -> exists x, writes c x /\ is_line x l.
Proof.
  induction f as [|f IH]; intros c ls H l Hl; cbn [usage_lines] in H; destruct (flat_cond c) eqn:Hf; try discriminate.
  - destruct (usage_pieces c) as [p|] eqn:Ep; [|discriminate]. inversion H; subst ls. destruct Hl as [<-|[]].
    exists c. split; [apply W_plain; exact Hf|left; auto].
  - destruct (if own_cond c then match write_arg_usage c true with Some l => Some [l] | None => None end else Some [])
      as [own|] eqn:Eo; [|discriminate].
    destruct (h_build c) as [b|] eqn:Hb; [|discriminate].
    destruct (map_opt (usage_lines f) (visible_subs b)) as [rest|] eqn:Er; [|discriminate].
    inversion H; subst ls; clear H. apply in_app_or in Hl. destruct Hl as [Hl|Hl].
    + destruct (own_cond c) eqn:Ho; [|inversion Eo; subst; destruct Hl].
      destruct (write_arg_usage c true) as [u|] eqn:Eu; [|discriminate]. inversion Eo; subst own. destruct Hl as [<-|[]].
      exists c. split; [apply W_own; assumption|right; auto].
    + apply in_concat in Hl. destruct Hl as [r [Hr Hlr]].
      destruct (map_opt_in _ _ _ _ Er Hr) as [sc [Hsc Esc]]. apply visible_subs_in in Hsc. destruct Hsc as [Hin Hh].
      destruct (IH sc r Esc l Hlr) as [x [Hw Hx]]. exists x. split; [|exact Hx].
      exact (W_sub c b sc x Hf Hb Hin Hh Hw).
  - destruct (usage_pieces c) as [p|] eqn:Ep; [|discriminate]. inversion H; subst ls. destruct Hl as [<-|[]].
    exists c. split; [apply W_plain; exact Hf|left; auto].
Qed.

(** C12_flatten_usage_complete: every node that [writes] has its line in the block *)
Theorem usage_lines_complete c x : writes c x ->
  forall f ls, usage_lines f c = Some ls -> exists l, In l ls /\ is_line x l.
Proof.
  induction 1 as [c Hf|c Hf Ho|c b sc x Hf Hb Hin Hh Hw IH]; intros f ls H.
  - rewrite (usage_lines_off f c Hf) in H. destruct (usage_pieces c) as [p|] eqn:Ep; [|discriminate].
    inversion H; subst ls. exists p. split; [left; reflexivity|left; auto].
  - destruct f as [|f]; cbn [usage_lines] in H; rewrite Hf in H; [discriminate|]. rewrite Ho in H.
    destruct (write_arg_usage c true) as [u|] eqn:Eu; [|discriminate].
    destruct (h_build c) as [b|]; [|discriminate].
    destruct (map_opt (usage_lines f) (visible_subs b)) as [rest|]; [|discriminate].
    inversion H; subst ls. exists u. split; [left; reflexivity|right; auto].
  - destruct f as [|f]; cbn [usage_lines] in H; rewrite Hf in H; [discriminate|].
    destruct (if own_cond c then match write_arg_usage c true with Some l => Some [l] | None => None end else Some [])
      as [own|]; [|discriminate].
    rewrite Hb in H. destruct (map_opt (usage_lines f) (visible_subs b)) as [rest|] eqn:Er; [|discriminate].
    inversion H; subst ls; clear H.
    assert (Hv : In sc (visible_subs b)) by (apply visible_subs_in; auto).
    destruct (map_opt_all _ _ _ _ Er Hv) as [r [Esc Hr]].
    destruct (IH f r Esc) as [l [Hl Hx]]. exists l. split; [|exact Hx].
    apply in_or_app. right. apply in_concat. exists r. auto.
Qed.

(** C12_flatten_usage_of_built: below the own line, the block is a function of the built clone only *)
Definition block_of_built (f : nat) (b : hcmd) : option (list (list bytes)) :=
  dO rest <- map_opt (usage_lines f) (visible_subs b); Some (concat rest).

Theorem usage_lines_of_built f c c' :
  flat_cond c = true -> flat_cond c' = true -> h_build c = h_build c' ->
  (if own_cond c then Some (write_arg_usage c true) else None) = (if own_cond c' then Some (write_arg_usage c' true) else None) ->
  usage_lines (S f) c = usage_lines (S f) c'.
Proof.
  intros Hf Hf' Hb Ho. cbn [usage_lines]. rewrite Hf, Hf', Hb.
  destruct (own_cond c), (own_cond c'); try discriminate; [inversion Ho as [E]; rewrite E|]; reflexivity.
Qed.

Theorem usage_lines_built_block f c b :
  flat_cond c = true -> h_build c = Some b ->
  usage_lines (S f) c =
  (dO own <- (if own_cond c then dO l <- write_arg_usage c true; Some [l] else Some []);
   dO blk <- block_of_built f b; Some (own ++ blk)).
Proof.
  intros Hf Hb. cbn [usage_lines]. rewrite Hf, Hb. unfold block_of_built.
  destruct (if own_cond c then _ else _); [|reflexivity].
  destruct (map_opt (usage_lines f) (visible_subs b)); reflexivity.
Qed.

(** ---- what [build()] makes of the subcommands of a built level ---- *)
(** the fields of a node that neither [_build_self] nor the recursion below it touches *)
Definition hd_of (c : hcmd) :=
  (hc_name c, hc_hide c, hc_flatten c, hc_usage_name c, hc_bin_name c, sc_usage_names c).

Lemma hd_build_self_x e c : hd_of (h_build_self_x e c) = hd_of c.
Proof.
  unfold h_build_self_x. destruct (hc_built c); [reflexivity|].
  unfold h_propagate_global_args, h_check_help_and_version_x.
  destruct (is_nil (hc_subs c));
    repeat match goal with |- context [if ?x then _ else _] => destruct x end; reflexivity.
Qed.

Lemma hd_build_recursive n c : hd_of (h_build_recursive n c) = hd_of c.
Proof. destruct n as [|n]; [reflexivity|]. cbn [h_build_recursive]. rewrite <- (hd_build_self_x true c). reflexivity. Qed.

Lemma bin_names_inv f c b : h_build_bin_names (S f) c = Some b ->
  exists mid subs, h_mid_string c = Some mid
    /\ map_opt (fun sc => h_build_bin_names f (h_set_names (bin_name_fallback c) mid sc)) (hc_subs c) = Some subs
    /\ b = c <| hc_subs := subs |>.
Proof.
  cbn [h_build_bin_names]. intros H. destruct (h_mid_string c) as [mid|]; [|discriminate].
  destruct (map_opt _ (hc_subs c)) as [subs|] eqn:E; [|discriminate]. inversion H; subst b. eauto.
Qed.

Lemma hd_bin_names f c b : h_build_bin_names f c = Some b -> hd_of b = hd_of c.
Proof.
  destruct f as [|f]; [intros H; inversion H; reflexivity|]. intros H.
  destruct (bin_names_inv f c b H) as [mid [subs [_ [_ ->]]]]. reflexivity.
Qed.

Lemma map_opt_Forall2 {A B} (f : A -> option B) l : forall r, map_opt f l = Some r -> Forall2 (fun x y => f x = Some y) l r.
Proof.
  induction l as [|a t IH]; intros r H; cbn [map_opt] in H.
  - inversion H. constructor.
  - destruct (f a) as [y|] eqn:Fa; [|discriminate]. destruct (map_opt f t) as [r'|]; [|discriminate].
    inversion H. constructor; [exact Fa|]. apply IH. reflexivity.
Qed.

Lemma Forall2_map_l {A B C} (P : B -> C -> Prop) (g : A -> B) l r : Forall2 P (map g l) r <-> Forall2 (fun x y => P (g x) y) l r.
Proof.
  split.
  - revert r. induction l as [|a t IH]; intros r F; inversion F; subst; constructor; auto.
  - intros F. induction F; cbn [map]; constructor; auto.
Qed.

(** the usage functions do not read the subcommands *)
Lemma pcmd_of_subs c x : pcmd_of (c <| hc_subs := x |>) = pcmd_of c.
Proof. destruct c. reflexivity. Qed.
Lemma h_find_subs c x i : h_find (c <| hc_subs := x |>) i = h_find c i.
Proof. destruct c. reflexivity. Qed.
Lemma format_group_subs c x g : format_group (c <| hc_subs := x |>) g = format_group c g.
Proof.
  unfold format_group. rewrite pcmd_of_subs. destruct (unroll_args_in_group (pcmd_of c) g) as [m|]; [|reflexivity].
  replace (filter_map (h_find (c <| hc_subs := x |>)) m) with (filter_map (h_find c) m); [reflexivity|].
  induction m as [|i t IH]; [reflexivity|]. cbn [filter_map]. rewrite h_find_subs, IH. reflexivity.
Qed.
Lemma req_groups_subs c x reqs : forall g m, req_groups (c <| hc_subs := x |>) reqs g m = req_groups c reqs g m.
Proof.
  induction reqs as [|r t IH]; intros g m; [reflexivity|]. cbn [req_groups].
  rewrite pcmd_of_subs, format_group_subs, h_find_subs.
  destruct (is_some (find_group (pcmd_of c) r)).
  - destruct (unroll_args_in_group (pcmd_of c) r); [|reflexivity]. destruct (format_group c r); [|reflexivity]. apply IH.
  - destruct (is_some (h_find c r)); [apply IH|reflexivity].
Qed.
Lemma req_split_subs c x fo mem reqs : forall o p, req_split (c <| hc_subs := x |>) fo mem reqs o p = req_split c fo mem reqs o p.
Proof.
  induction reqs as [|r t IH]; intros o p; [reflexivity|]. cbn [req_split].
  rewrite pcmd_of_subs, h_find_subs. destruct (h_find c r) as [a|].
  - destruct (mem_id (ha_id a) mem); [apply IH|]. destruct (stylized a (Some (negb fo))); [|reflexivity].
    destruct (ha_index a); apply IH.
  - destruct (is_some (find_group (pcmd_of c) r)); [apply IH|reflexivity].
Qed.
Lemma required_usage_subs c x : required_usage (c <| hc_subs := x |>) = required_usage c.
Proof.
  unfold required_usage. rewrite pcmd_of_subs. destruct (unrolled_reqs _ _) as [reqs|]; [|reflexivity].
  rewrite req_groups_subs. destruct (req_groups c reqs [] []) as [gm|]; [|reflexivity].
  rewrite req_split_subs. reflexivity.
Qed.
Lemma mid_string_subs c x : h_mid_string (c <| hc_subs := x |>) = h_mid_string c.
Proof.
  unfold h_mid_string. rewrite required_usage_subs.
  replace (hc_negates_reqs (c <| hc_subs := x |>)) with (hc_negates_reqs c) by (destruct c; reflexivity).
  replace (hc_args_conflicts (c <| hc_subs := x |>)) with (hc_args_conflicts c) by (destruct c; reflexivity).
  reflexivity.
Qed.

(** the name a subcommand gets from [_build_bin_names_internal] *)
Definition built_usage_name (c : hcmd) (mid : bytes) (sc : hcmd) : bytes :=
  match hc_usage_name sc with Some u => u | None => bin_name_fallback c ++ mid ++ sc_usage_names sc end.

Lemma set_names_head bin mid sc :
  let s' := h_set_names bin mid sc in
  hc_name s' = hc_name sc /\ hc_hide s' = hc_hide sc /\ hc_flatten s' = hc_flatten sc
  /\ usage_name_fallback s' = match hc_usage_name sc with Some u => u | None => bin ++ mid ++ sc_usage_names sc end.
Proof.
  unfold h_set_names. destruct (hc_usage_name sc) as [u|] eqn:Eu; destruct (hc_bin_name sc) as [bn|] eqn:Eb;
    cbn; rewrite ?Eb; unfold usage_name_fallback; cbn; rewrite ?Eu; cbn; repeat split; reflexivity.
Qed.

Lemma set_names_usage bin mid sc :
  hc_usage_name (h_set_names bin mid sc)
  = Some (match hc_usage_name sc with Some u => u | None => bin ++ mid ++ sc_usage_names sc end).
Proof.
  unfold h_set_names. destruct (hc_usage_name sc) as [u|] eqn:Eu.
  - destruct (hc_bin_name sc); cbn; exact Eu.
  - cbn. destruct (hc_bin_name sc); reflexivity.
Qed.

Lemma hd_fields a b : hd_of a = hd_of b ->
  hc_name a = hc_name b /\ hc_hide a = hc_hide b /\ hc_flatten a = hc_flatten b
  /\ hc_usage_name a = hc_usage_name b /\ hc_bin_name a = hc_bin_name b /\ sc_usage_names a = sc_usage_names b.
Proof. unfold hd_of. intros H. inversion H. repeat split; assumption. Qed.

(** C12_flatten_build_names: [build()] on (the clone of) a built level keeps the level's arguments and settings, and
    every subcommand keeps its name, [hide] and [flatten_help] and gets the usage name
    [bin name of the level ++ mid_string ++ {name|--long|-s}] unless it had one *)
Theorem h_build_names c b : hc_built c = true -> h_build c = Some b ->
  exists mid, h_mid_string c = Some mid /\ hd_of b = hd_of c /\ hc_args b = hc_args c
    /\ Forall2 (fun sc sb => hc_name sb = hc_name sc /\ hc_hide sb = hc_hide sc /\ hc_flatten sb = hc_flatten sc
                             /\ usage_name_fallback sb = built_usage_name c mid sc)
               (hc_subs c) (hc_subs b).
Proof.
  intros Hb H. unfold h_build, tree_fuel in H. set (n := tree_fuel_pred) in H.
  assert (E : h_build_recursive (S n) c = c <| hc_subs := map (h_build_recursive n) (hc_subs c) |>).
  { cbn [h_build_recursive]. unfold h_build_self_x. rewrite Hb. reflexivity. }
  rewrite E in H. destruct (bin_names_inv n _ b H) as [mid [subs [Hm [Hs ->]]]].
  exists mid. split; [rewrite <- (mid_string_subs c (map (h_build_recursive n) (hc_subs c))); exact Hm|]. split; [reflexivity|]. split; [reflexivity|].
  cbn [hc_subs set] in Hs |- *. apply map_opt_Forall2 in Hs.
  change (hc_subs (c <| hc_subs := map (h_build_recursive n) (hc_subs c) |>)) with (map (h_build_recursive n) (hc_subs c)) in Hs.
  apply Forall2_map_l in Hs. change (hc_subs (c <| hc_subs := map (h_build_recursive n) (hc_subs c) |> <| hc_subs := subs |>)) with subs.
  revert Hs. apply Forall2_impl. intros sc sb Hsb.
  pose proof (hd_bin_names n _ sb Hsb) as H1. apply hd_fields in H1. destruct H1 as [N1 [N2 [N3 [N4 _]]]].
  pose proof (set_names_head (bin_name_fallback (c <| hc_subs := map (h_build_recursive n) (hc_subs c) |>)) mid (h_build_recursive n sc)) as H2.
  cbn zeta in H2. destruct H2 as [M1 [M2 [M3 M4]]].
  pose proof (hd_fields _ _ (hd_build_recursive n sc)) as [R1 [R2 [R3 [R4 [_ R6]]]]].
  repeat split.
  - rewrite N1, M1. exact R1.
  - rewrite N2, M2. exact R2.
  - rewrite N3, M3. exact R3.
  - unfold usage_name_fallback at 1. rewrite N4, set_names_usage. cbn [opt_default].
    unfold built_usage_name. rewrite R4, R6. reflexivity.
Qed.

Lemma Forall2_filter {A B} (R : A -> B -> Prop) (p : A -> bool) (q : B -> bool) l1 l2 :
  Forall2 (fun a b => R a b /\ p a = q b) l1 l2 -> Forall2 R (filter p l1) (filter q l2).
Proof.
  intros F. induction F as [|a b t1 t2 [Hr Hpq] _ IH]; [constructor|]. cbn [filter]. rewrite <- Hpq.
  destruct (p a); [constructor; assumption|exact IH].
Qed.

Lemma Forall2_comp {A B C} (P : A -> B -> Prop) (Q : B -> C -> Prop) l1 l2 l3 :
  Forall2 P l1 l2 -> Forall2 Q l2 l3 -> Forall2 (fun a c => exists b, P a b /\ Q b c) l1 l3.
Proof.
  intros F. revert l3. induction F as [|a b t1 t2 Hp _ IH]; intros l3 G; inversion G; subst; constructor; eauto.
Qed.

Lemma mid_string_head c mid : h_mid_string c = Some mid -> exists t, mid = 32 :: t.
Proof.
  unfold h_mid_string. destruct (if negb (hc_negates_reqs c) && negb (hc_args_conflicts c) then required_usage c else Some []);
    [|discriminate]. intros H. inversion H. eexists. reflexivity.
Qed.

(** C12_flatten_usage_heads: the headline.  [c] is a built level (what [write_help] sees) with [flatten_help] and
    visible subcommands; none of its subcommands is flattened itself or has been given a usage name (they are as the
    user's builder calls / a lazy build left them).  Then the usage block is the own line (iff [own_cond]) followed
    by EXACTLY one line per subcommand of [c] that is not hidden -- the generated [help] included --, in order, and
    the line of [sc] starts with [bin name of c ++ " " ++ required arguments of c ++ {name|--long|-s} of sc].
    A hidden subcommand contributes no line. *)
Theorem flat_usage_heads f c ls :
  hc_built c = true -> flat_cond c = true ->
  (forall sc, In sc (hc_subs c) -> hc_flatten sc = false /\ hc_usage_name sc = None) ->
  usage_lines (S f) c = Some ls ->
  exists mid own lines, h_mid_string c = Some mid /\ ls = own ++ lines
    /\ (if own_cond c then exists u, write_arg_usage c true = Some u /\ own = [u] else own = [])
    /\ Forall2 (fun sc ln => exists rest, ln = (bin_name_fallback c ++ mid ++ sc_usage_names sc) :: rest)
               (visible_subs c) lines.
Proof.
  intros Hb Hf Hs H. destruct (h_build c) as [b|] eqn:Eb.
  2:{ cbn [usage_lines] in H. rewrite Hf, Eb in H. destruct (if own_cond c then _ else _); discriminate. }
  destruct (h_build_names c b Hb Eb) as [mid [Hm [_ [_ F]]]].
  assert (Fv : Forall2 (fun sc sb => hc_flatten sb = false /\ usage_name_fallback sb = bin_name_fallback c ++ mid ++ sc_usage_names sc)
                       (visible_subs c) (visible_subs b)).
  { unfold visible_subs. apply Forall2_filter.
    assert (G : Forall2 (fun sc sb => In sc (hc_subs c) /\ hc_name sb = hc_name sc /\ hc_hide sb = hc_hide sc /\ hc_flatten sb = hc_flatten sc
                                      /\ usage_name_fallback sb = built_usage_name c mid sc) (hc_subs c) (hc_subs b)).
    { clear -F. induction F as [|a b0 t1 t2 Hab _ IH]; [constructor|]. constructor; [split; [left; reflexivity|exact Hab]|].
      revert IH. apply Forall2_impl. intros x y [Hin Hr]. split; [right; exact Hin|exact Hr]. }
    revert G. apply Forall2_impl. intros sc sb [Hin [_ [Hh [Hfl Hu]]]]. destruct (Hs sc Hin) as [S1 S2].
    split; [split|].
    - rewrite Hfl. exact S1.
    - rewrite Hu. unfold built_usage_name. rewrite S2. reflexivity.
    - rewrite Hh. reflexivity. }
  assert (Hp : forall sb, In sb (visible_subs b) -> flat_cond sb = false).
  { intros sb Hin. clear -Fv Hin. induction Fv as [|a b0 t1 t2 [Hfl _] _ IH]; [destruct Hin|].
    destruct Hin as [<-|Hin]; [unfold flat_cond; rewrite Hfl; apply andb_false_r|apply IH; exact Hin]. }
  destruct (usage_lines_one_level f c b ls Hf Eb Hp H) as [own [lines [-> [Ho G]]]].
  exists mid, own, lines. split; [exact Hm|]. split; [reflexivity|]. split; [exact Ho|].
  pose proof (Forall2_comp _ _ _ _ _ Fv G) as K. revert K. apply Forall2_impl.
  intros sc ln [sb [[_ Hu] [_ Hh]]]. rewrite <- Hu. apply Hh. rewrite Hu.
  destruct (mid_string_head c mid Hm) as [t ->]. destruct (bin_name_fallback c); discriminate.
Qed.

(** ---- the flattened sections ---- *)
Lemma hcmd_tree_ind (P : hcmd -> Prop) :
  (forall c, (forall s, In s (hc_subs c) -> P s) -> P c) -> forall c, P c.
Proof.
  intros H. fix IH 1. intros c. apply H. destruct c as [? ? ? ? ? ? ? ? ? ? ? ? subs ? ? ? ? ? ? ? ? ? ? ? ?].
  cbn [hc_subs]. induction subs as [|s t IHt]; intros x Hx; [destruct Hx|].
  destruct Hx as [<-|Hx]; [apply IH|apply IHt; exact Hx].
Qed.

Section FlatSecs.
Variable dw : bytes -> N.

(** [write_flat_subcommands] over the list of (subcommand, its nested sections) *)
Definition wfs_body (cx : hctx) (nested : list (hcmd * option (list fsec))) : option (list fsec) :=
  let vis := filter (fun p => should_show_subcommand (fst p)) nested in
  let ord_v := fold_left (fun m p => bt_insert key_cmp (hc_display_order (fst p), hc_name (fst p)) p m) vis [] in
  dO l <- map_opt (fun kp => flat_sub dw cx (fst (snd kp)) (snd (snd kp))) ord_v;
  Some (concat l).

Lemma wfs_eq cx c :
  write_flat_subcommands dw cx c = wfs_body cx (map (fun s => (s, write_flat_subcommands dw cx s)) (hc_subs c)).
Proof.
  destruct c as [? ? ? ? ? ? ? ? ? ? ? ? subs ? ? ? ? ? ? ? ? ? ? ? ?]. cbn [hc_subs].
  unfold wfs_body. cbn [write_flat_subcommands hc_subs].
  assert (E : forall l, (fix go (l : list hcmd) : list (hcmd * option (list fsec)) :=
                           match l with [] => [] | s :: t => (s, write_flat_subcommands dw cx s) :: go t end) l
                        = map (fun s => (s, write_flat_subcommands dw cx s)) l).
  { induction l as [|s t IHl]; [reflexivity|]. cbn [map]. rewrite <- IHl. reflexivity. }
  rewrite E. reflexivity.
Qed.

(** [fsec_of c sc]: [sc] gets a flattened section under [c]: a subcommand that is not hidden, recursively below
    those that have the setting *)
Inductive fsec_of : hcmd -> hcmd -> Prop :=
| FS_sub c sc : In sc (hc_subs c) -> hc_hide sc = false -> fsec_of c sc
| FS_nest c sc x : In sc (hc_subs c) -> hc_hide sc = false -> hc_flatten sc = true -> fsec_of sc x -> fsec_of c x.

(** the class of the padding theorem: every argument of every node that gets a section renders
    ([arg_ok]: what the build establishes) within the format-width limit *)
Definition flat_tree_ok (c : hcmd) : Prop :=
  forall sc, fsec_of c sc -> forall a, In a (hc_args sc) -> arg_ok a = true /\ arg_widths_ok dw a.

(** a flattened section of [sc]: heading, about, and rows of shown arguments of [sc] that are not global, the
    padding bounded by the widest left column of [sc]'s arguments + 6 *)
Definition fsec_from (use_long : bool) (sc : hcmd) (f : fsec) : Prop :=
  fs_title f = usage_name_fallback sc /\ fs_about f = flat_about sc /\
  forall r, In r (fs_rows f) ->
    exists a, In a (hc_args sc) /\ should_show_arg use_long a = true /\ ha_global a = false /\ r_id r = ha_id a
              /\ (exists b, (b = 2 \/ exists a', In a' (hc_args sc) /\ b = contrib dw a') /\ r_pad r <= b + 6)
              /\ (forall p, In p (r_pvs r) -> exists pv, In pv (ha_pvs a) /\ pv_hide pv = false /\ pv_name pv = p).

Lemma flat_args_in ul sc a : In a (flat_args ul sc) -> In a (hc_args sc) /\ should_show_arg ul a = true /\ ha_global a = false.
Proof.
  unfold flat_args. intros H. apply filter_In in H. destruct H as [H1 H2]. apply andb_true_iff in H2.
  destruct H2 as [H2 H3]. apply negb_true_iff in H3. auto.
Qed.

(** C12_flatten_sections_safe: on a built clone of the class the flattened sections are written without a panic
    (no unsigned subtraction underflows, no format width above the u16 limit), every section is the one of a
    subcommand that is not hidden (reached through subcommands that are not hidden and have the setting), every row
    comes from an argument of that subcommand that is shown in the mode and is not global, lists only possible values
    that are not hidden, and its padding is bounded independently of the terminal width *)
Theorem flat_sections_safe cx : forall c, flat_tree_ok c ->
  exists fs, write_flat_subcommands dw cx c = Some fs
             /\ forall f, In f fs -> exists sc, fsec_of c sc /\ fsec_from (cx_use_long cx) sc f.
Proof.
  intros c. induction c as [c IH] using hcmd_tree_ind. intros Hok. rewrite wfs_eq. unfold wfs_body.
  set (nested := map (fun s => (s, write_flat_subcommands dw cx s)) (hc_subs c)).
  set (vis := filter (fun p => should_show_subcommand (fst p)) nested).
  set (ord_v := fold_left (fun m p => bt_insert key_cmp (hc_display_order (fst p), hc_name (fst p)) p m) vis []).
  assert (Hord : forall kp, In kp ord_v -> In (fst (snd kp)) (hc_subs c) /\ hc_hide (fst (snd kp)) = false
                                          /\ snd (snd kp) = write_flat_subcommands dw cx (fst (snd kp))).
  { intros kp Hk. unfold ord_v in Hk.
    destruct (fold_insert_in key_cmp (fun p : hcmd * option (list fsec) => (hc_display_order (fst p), hc_name (fst p)))
                             (fun p => p) vis [] kp Hk) as [[]|[p [Hp E]]].
    rewrite E. unfold vis in Hp. apply filter_In in Hp. destruct Hp as [Hp Hs]. unfold nested in Hp.
    apply in_map_iff in Hp. destruct Hp as [s [<- Hin]]. cbn [fst snd] in *.
    unfold should_show_subcommand in Hs. apply negb_true_iff in Hs. auto. }
  assert (Hone : forall kp, In kp ord_v ->
            exists secs, flat_sub dw cx (fst (snd kp)) (snd (snd kp)) = Some secs
                         /\ forall f, In f secs -> exists sc, fsec_of c sc /\ fsec_from (cx_use_long cx) sc f).
  { intros kp Hk. destruct (Hord kp Hk) as [Hin [Hh En]]. set (sc := fst (snd kp)) in *. rewrite En.
    unfold flat_sub.
    destruct (write_args_spec dw cx (flat_args (cx_use_long cx) sc) option_sort_key) as [rows [Hrows Hr]].
    { intros a Ha. apply flat_args_in in Ha. destruct Ha as [Ha _]. apply (Hok sc); [apply FS_sub; assumption|exact Ha]. }
    rewrite Hrows.
    assert (Hown : fsec_from (cx_use_long cx) sc (mkFSec (usage_name_fallback sc) (flat_about sc) rows)).
    { split; [reflexivity|]. split; [reflexivity|]. cbn [fs_rows]. intros r Hin_r.
      destruct (Hr r Hin_r) as [a [Ha [Hs [Hid [[b [Hbb Hpad]] Hpv]]]]].
      apply flat_args_in in Ha. destruct Ha as [Ha [_ Hg]].
      exists a. repeat split; auto. exists b. split; [|exact Hpad].
      destruct Hbb as [Hbb|[a' [Ha' Hbb]]]; [left; exact Hbb|right]. exists a'. split; [|exact Hbb].
      apply flat_args_in in Ha'. tauto. }
    destruct (hc_flatten sc) eqn:Hfl.
    - destruct (IH sc Hin) as [fs' [Efs Hfs]].
      { intros x Hx. apply Hok. apply (FS_nest c sc x); assumption. }
      rewrite Efs. eexists. split; [reflexivity|]. intros f [<-|Hf].
      + exists sc. split; [apply FS_sub; assumption|exact Hown].
      + destruct (Hfs f Hf) as [x [Hx Hfrom]]. exists x. split; [apply (FS_nest c sc x); assumption|exact Hfrom].
    - eexists. split; [reflexivity|]. intros f [<-|[]]. exists sc. split; [apply FS_sub; assumption|exact Hown]. }
  destruct (map_opt_some (fun kp : key * (hcmd * option (list fsec)) => flat_sub dw cx (fst (snd kp)) (snd (snd kp))) ord_v) as [l Hl].
  { intros kp Hk. destruct (Hone kp Hk) as [secs [E _]]. eauto. }
  rewrite Hl. eexists. split; [reflexivity|]. intros f Hf. apply in_concat in Hf. destruct Hf as [secs [Hs Hf]].
  destruct (map_opt_in _ _ _ _ Hl Hs) as [kp [Hk E]]. destruct (Hone kp Hk) as [secs' [E' Hsecs]].
  rewrite E in E'. inversion E'; subst secs'. exact (Hsecs f Hf).
Qed.

(** sibling names and argument ids are distinct where the flattening goes (what debug_asserts.rs checks at every
    node): the subcommand names of [c] and of every flattened node with a section, the argument ids of every node
    with a section *)
Definition flat_distinct (c : hcmd) : Prop :=
  NoDup (map hc_name (hc_subs c)) /\
  forall sc, fsec_of c sc -> NoDup (map ha_id (hc_args sc)) /\ (hc_flatten sc = true -> NoDup (map hc_name (hc_subs sc))).

Lemma NoDup_map_filter' {A B} (f : A -> B) (p : A -> bool) l : NoDup (map f l) -> NoDup (map f (filter p l)).
Proof.
  induction l as [|x t IH]; cbn [map filter]; intros H; [constructor|]. inversion H as [|? ? Hx Ht]; subst.
  destruct (p x); [|apply IH; exact Ht]. cbn [map]. constructor; [|apply IH; exact Ht].
  intros Hin. apply Hx. apply in_map_iff in Hin. destruct Hin as [y [E Hy]]. apply filter_In in Hy.
  apply in_map_iff. exists y. split; [exact E|apply Hy].
Qed.

(** C12_flatten_sections_complete: with distinct sibling names / argument ids in the built clone, every subcommand
    that is not hidden (recursively below those that have the setting) has its section, and the section has a row
    for every argument of the subcommand that is shown in the mode and is not global *)
Theorem flat_sections_complete cx c x : fsec_of c x ->
  forall fs, flat_distinct c -> write_flat_subcommands dw cx c = Some fs ->
  exists f, In f fs /\ fs_title f = usage_name_fallback x /\ fs_about f = flat_about x
            /\ forall a, In a (hc_args x) -> should_show_arg (cx_use_long cx) a = true -> ha_global a = false ->
                         exists r, In r (fs_rows f) /\ r_id r = ha_id a.
Proof.
  assert (Hstep : forall c sc fs, In sc (hc_subs c) -> hc_hide sc = false -> NoDup (map hc_name (hc_subs c)) ->
            write_flat_subcommands dw cx c = Some fs ->
            exists rows rest, write_args dw cx (flat_args (cx_use_long cx) sc) option_sort_key = Some rows
              /\ (if hc_flatten sc then write_flat_subcommands dw cx sc else Some []) = Some rest
              /\ In (mkFSec (usage_name_fallback sc) (flat_about sc) rows) fs
              /\ forall f, In f rest -> In f fs).
  { intros c0 sc fs Hin Hh Hnd H. rewrite wfs_eq in H. unfold wfs_body in H.
    set (nested := map (fun s => (s, write_flat_subcommands dw cx s)) (hc_subs c0)) in *.
    set (vis := filter (fun p => should_show_subcommand (fst p)) nested) in *.
    set (ord_v := fold_left (fun m p => bt_insert key_cmp (hc_display_order (fst p), hc_name (fst p)) p m) vis []) in *.
    destruct (map_opt _ ord_v) as [l|] eqn:El; [|discriminate]. inversion H; subst fs; clear H.
    assert (Hp : In (sc, write_flat_subcommands dw cx sc) (map snd ord_v)).
    { unfold ord_v.
      apply (fold_insert_lists key_cmp (fun p : hcmd * option (list fsec) => (hc_display_order (fst p), hc_name (fst p)))
                               (fun p => p) key_cmp_eq).
      - apply NoDup_map_pair. unfold vis. apply NoDup_map_filter'. unfold nested. rewrite map_map. cbn [fst]. exact Hnd.
      - intros p [].
      - left. exists (sc, write_flat_subcommands dw cx sc). split; [|reflexivity]. unfold vis. apply filter_In. split.
        + unfold nested. apply in_map_iff. exists sc. auto.
        + cbn [fst]. unfold should_show_subcommand. rewrite Hh. reflexivity. }
    apply in_map_iff in Hp. destruct Hp as [kp [E Hk]].
    destruct (map_opt_all _ _ _ _ El Hk) as [secs [Es Hs]]. cbn beta in Es. rewrite E in Es. cbn [fst snd] in Es.
    unfold flat_sub in Es. destruct (write_args dw cx _ option_sort_key) as [rows|]; [|discriminate].
    destruct (if hc_flatten sc then write_flat_subcommands dw cx sc else Some []) as [rest|]; [|discriminate].
    inversion Es; subst secs. exists rows, rest. split; [reflexivity|]. split; [reflexivity|]. split.
    - apply in_concat. eexists. split; [exact Hs|left; reflexivity].
    - intros f Hf. apply in_concat. eexists. split; [exact Hs|right; exact Hf]. }
  induction 1 as [c sc Hin Hh|c sc x Hin Hh Hfl Hx IH]; intros fs [Hn Hd] H.
  - destruct (Hstep c sc fs Hin Hh Hn H) as [rows [rest [Erows [_ [Hf _]]]]].
    eexists. split; [exact Hf|]. split; [reflexivity|]. split; [reflexivity|]. cbn [fs_rows].
    intros a Ha Hs Hg. destruct (Hd sc (FS_sub c sc Hin Hh)) as [Hida _].
    apply (write_args_lists dw cx (flat_args (cx_use_long cx) sc) option_sort_key rows a); try assumption.
    + unfold flat_args. apply NoDup_map_filter'. exact Hida.
    + unfold flat_args. apply filter_In. split; [exact Ha|]. rewrite Hs, Hg. reflexivity.
  - destruct (Hstep c sc fs Hin Hh Hn H) as [rows [rest [_ [Erest [_ Hrest]]]]]. rewrite Hfl in Erest.
    destruct (Hd sc (FS_sub c sc Hin Hh)) as [_ Hnsc].
    destruct (IH rest) as [f [Hf Hrest']]; [split; [exact (Hnsc Hfl)|]|exact Erest|].
    + intros y Hy. apply Hd. exact (FS_nest c sc y Hin Hh Hfl Hy).
    + exists f. split; [apply Hrest; exact Hf|exact Hrest'].
Qed.

(** boolean forms of the classes (fuel = depth of the flattening), to discharge them by computation *)
Fixpoint flat_tree_okb (n : nat) (c : hcmd) : bool :=
  match n with
  | O => false
  | S n => forallb (fun sc => hc_hide sc
                              || (forallb (fun a => arg_ok a && arg_widths_okb dw a) (hc_args sc)
                                  && (negb (hc_flatten sc) || flat_tree_okb n sc))) (hc_subs c)
  end.

Lemma arg_widths_okb_sound a : arg_widths_okb dw a = true -> arg_widths_ok dw a.
Proof.
  unfold arg_widths_okb. intros H. apply andb_true_iff in H. destruct H as [H2 H3]. split.
  - apply N.leb_le. exact H2.
  - intros p Hp. rewrite forallb_forall in H3. apply N.leb_le. apply H3. exact Hp.
Qed.

Lemma flat_tree_okb_sound : forall n c, flat_tree_okb n c = true -> flat_tree_ok c.
Proof.
  induction n as [|n IH]; intros c H; [discriminate|]. cbn [flat_tree_okb] in H. rewrite forallb_forall in H.
  intros x Hx. induction Hx as [c sc Hin Hh|c sc x Hin Hh Hfl Hx _].
  - specialize (H sc Hin). rewrite Hh in H. cbn [orb] in H. apply andb_true_iff in H. destruct H as [Ha _].
    intros a Hain. rewrite forallb_forall in Ha. specialize (Ha a Hain). apply andb_true_iff in Ha.
    destruct Ha as [A1 A2]. split; [exact A1|apply arg_widths_okb_sound; exact A2].
  - specialize (H sc Hin). rewrite Hh, Hfl in H. cbn [orb negb] in H. apply andb_true_iff in H. destruct H as [_ Hn].
    exact (IH sc Hn x Hx).
Qed.

Fixpoint flat_distinctb_sub (n : nat) (c : hcmd) : bool :=
  match n with
  | O => false
  | S n => forallb (fun sc => hc_hide sc
                              || (nodup_ids (map ha_id (hc_args sc))
                                  && (negb (hc_flatten sc) || (nodup_ids (map hc_name (hc_subs sc)) && flat_distinctb_sub n sc))))
                   (hc_subs c)
  end.
Definition flat_distinctb (n : nat) (c : hcmd) : bool := nodup_ids (map hc_name (hc_subs c)) && flat_distinctb_sub n c.

Lemma nodup_ids_NoDup l : nodup_ids l = true -> NoDup l.
Proof.
  induction l as [|x t IH]; cbn [nodup_ids]; intros H; [constructor|]. apply andb_true_iff in H. destruct H as [H1 H2].
  constructor; [|apply IH; exact H2]. apply negb_true_iff in H1. apply mem_id_notin. exact H1.
Qed.

Lemma flat_distinctb_sub_sound : forall n c, flat_distinctb_sub n c = true ->
  forall sc, fsec_of c sc -> NoDup (map ha_id (hc_args sc)) /\ (hc_flatten sc = true -> NoDup (map hc_name (hc_subs sc))).
Proof.
  induction n as [|n IH]; intros c H; [discriminate|]. cbn [flat_distinctb_sub] in H. rewrite forallb_forall in H.
  intros x Hx. induction Hx as [c sc Hin Hh|c sc x Hin Hh Hfl Hx _].
  - specialize (H sc Hin). rewrite Hh in H. cbn [orb] in H. apply andb_true_iff in H. destruct H as [Ha Hr].
    split; [apply nodup_ids_NoDup; exact Ha|]. intros Hfl. rewrite Hfl in Hr. cbn [negb orb] in Hr.
    apply andb_true_iff in Hr. apply nodup_ids_NoDup. apply Hr.
  - specialize (H sc Hin). rewrite Hh, Hfl in H. cbn [orb negb] in H. apply andb_true_iff in H. destruct H as [_ Hn].
    apply andb_true_iff in Hn. destruct Hn as [_ Hn]. exact (IH sc Hn x Hx).
Qed.

Lemma flat_distinctb_sound n c : flat_distinctb n c = true -> flat_distinct c.
Proof.
  unfold flat_distinctb. intros H. apply andb_true_iff in H. destruct H as [H1 H2].
  split; [apply nodup_ids_NoDup; exact H1|apply (flat_distinctb_sub_sound n c H2)].
Qed.

End FlatSecs.

(** ---- the whole flattened screen: the class of [C12_padding_safe], extended ---- *)
Section FlatScreen.
Variable dw : bytes -> N.

Lemma cmd_ok_no_subs c : cmd_ok dw c -> cmd_ok dw (c <| hc_subs := [] |>).
Proof.
  intros [Ha _]. split.
  - intros a Hin. apply Ha. destruct c; exact Hin.
  - intros sc Hin. destruct c; destruct Hin.
Qed.

(** the sections of a flattened level: those of [write_all_args] without "Commands" (rows of the level's shown
    arguments), then the flattened sections of the built clone *)
Theorem all_args_flat_safe cx c b :
  cmd_ok dw c -> flat_cond c = true -> h_build c = Some b -> flat_tree_ok dw b ->
  exists secs fs, write_all_args_flat dw cx c = Some (secs, fs)
    /\ (forall sec r, In sec secs -> In r (s_rows sec) -> row_of_arg dw (cx_use_long cx) c r)
    /\ (forall f, In f fs -> exists sc, fsec_of b sc /\ fsec_from dw (cx_use_long cx) sc f).
Proof.
  intros Hc Hf Hb Hok. unfold write_all_args_flat. rewrite Hf, Hb.
  destruct (write_all_args_spec dw cx _ (cmd_ok_no_subs c Hc)) as [secs [Es Hs]]. rewrite Es.
  destruct (flat_sections_safe dw cx b Hok) as [fs [Ef Hfs]]. rewrite Ef.
  exists secs, fs. split; [reflexivity|]. split; [|exact Hfs].
  intros sec r H1 H2. destruct (Hs sec r H1 H2) as [Hr|[sc [Hin _]]].
  - destruct Hr as [a [Ha Hrest]]. exists a. split; [destruct c; exact Ha|].
    destruct Hrest as [H3 [H4 [[b0 [Hb0 Hp]] H6]]]. repeat split; auto. exists b0. split; [|exact Hp].
    destruct Hb0 as [E|[a' [Ha' E]]]; [left; exact E|right; exists a'; split; [destruct c; exact Ha'|exact E]].
  - destruct c; destruct Hin.
Qed.

(** the usage block renders: every node that writes has arguments that render and references that resolve, and the
    [build()] of every flattened node succeeds *)
Inductive usage_ok : nat -> hcmd -> Prop :=
| UO_plain f c : flat_cond c = false -> args_ok c -> refs_ok c = true -> usage_ok f c
| UO_flat f c b : flat_cond c = true -> args_ok c -> refs_ok c = true -> h_build c = Some b ->
                  (forall sc, In sc (visible_subs b) -> usage_ok f sc) -> usage_ok (S f) c.

Lemma usage_lines_total f c : usage_ok f c -> exists ls, usage_lines f c = Some ls.
Proof.
  induction 1 as [f c Hf Ha Hr|f c b Hf Ha Hr Hb _ IH].
  - rewrite (usage_lines_off f c Hf). destruct (usage_pieces_some c Ha Hr) as [u ->]. eexists. reflexivity.
  - cbn [usage_lines]. rewrite Hf, Hb. destruct (write_arg_usage_some c true Ha Hr) as [u Eu]. rewrite Eu.
    destruct (map_opt_some (usage_lines f) (visible_subs b) IH) as [rest ->].
    destruct (own_cond c); eexists; reflexivity.
Qed.

Fixpoint usage_okb (n : nat) (c : hcmd) : bool :=
  if flat_cond c then
    match n with
    | O => false
    | S n => forallb arg_ok (hc_args c) && refs_ok c
             && match h_build c with Some b => forallb (usage_okb n) (visible_subs b) | None => false end
    end
  else forallb arg_ok (hc_args c) && refs_ok c.

Lemma usage_okb_sound : forall n c, usage_okb n c = true -> usage_ok n c.
Proof.
  induction n as [|n IH]; intros c H; cbn [usage_okb] in H; destruct (flat_cond c) eqn:Hf; try discriminate.
  - apply andb_true_iff in H. destruct H as [H1 H2]. apply UO_plain; [exact Hf|apply args_okb_sound; exact H1|exact H2].
  - apply andb_true_iff in H. destruct H as [H H3]. apply andb_true_iff in H. destruct H as [H1 H2].
    destruct (h_build c) as [b|] eqn:Hb; [|discriminate]. rewrite forallb_forall in H3.
    apply (UO_flat n c b); [exact Hf|apply args_okb_sound; exact H1|exact H2|exact Hb|]. intros sc Hsc. apply IH. apply H3. exact Hsc.
  - apply andb_true_iff in H. destruct H as [H1 H2]. apply UO_plain; [exact Hf|apply args_okb_sound; exact H1|exact H2].
Qed.

(** C12_padding_safe_flat: [write_help] with [flatten_help] returns a screen -- for every display-width function,
    width and mode *)
Theorem padding_safe_flat c b use_long w :
  cmd_ok dw c -> flat_cond c = true -> h_build c = Some b -> flat_tree_ok dw b ->
  usage_ok tree_fuel c ->
  write_help_flat dw c use_long w <> None.
Proof.
  intros Hc Hf Hb Hok Hu. unfold write_help_flat, flat_usage. destruct (usage_lines_total _ c Hu) as [ls ->].
  destruct (all_args_flat_safe (mkCtx use_long (term_w_of w) (h_is_set hs_next_line c)) c b Hc Hf Hb Hok) as [secs [fs [E _]]].
  rewrite E. discriminate.
Qed.

(** the padding of every row of a flattened screen is bounded independently of the width *)
Theorem padding_bounded_flat c b use_long w s :
  cmd_ok dw c -> flat_cond c = true -> h_build c = Some b -> flat_tree_ok dw b ->
  write_help_flat dw c use_long w = Some s ->
  (forall sec r, In sec (fsc_sections s) -> In r (s_rows sec) -> row_of_arg dw use_long c r)
  /\ (forall f, In f (fsc_flat s) -> exists sc, fsec_of b sc /\ fsec_from dw use_long sc f).
Proof.
  intros Hc Hf Hb Hok H. unfold write_help_flat in H. destruct (flat_usage c); [|discriminate].
  destruct (all_args_flat_safe (mkCtx use_long (term_w_of w) (h_is_set hs_next_line c)) c b Hc Hf Hb Hok) as [secs [fs [E [H1 H2]]]].
  rewrite E in H. inversion H; subst s. cbn [fsc_sections fsc_flat fst snd]. split; assumption.
Qed.

End FlatScreen.
