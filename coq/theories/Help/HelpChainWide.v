(** C12, fourth pass: the help flag behind a chain of subcommands WITH arguments between the names.

    [prog -v sub --opt x subsub --help anything..] yields the help of [subsub].  The class is C09's wide class
    (ParseProofs/ChainWide.v): per level a [wprefix] (options in all six spellings of [prefix_ok], values of
    single-valued positionals, the values of a multi-valued positional), the level is left through a [psel] token
    (a name or alias, an inferred prefix, a long flag-subcommand, a name behind multi-values with precedence).
    Two things are new against the bare chain of HelpDispatch.v:
    - the arguments of a level must be ACCEPTED by that level ([F ps_new = ROk _]; at the last level also the
      occurrence still pending when the help flag is read: [resolve_pending]) -- otherwise the line ends in that
      argument's error, not in a help screen.  The hypothesis is necessary.
    - the state the error carries is the state the arguments of the FIRST level left behind, no longer [ps_new]:
      the level lemma is stated with an existential state; [_do_parse] drops it. *)
From Coq Require Import List Bool Lia.
Import ListNotations.
From ClapModel Require Import Base.Bytes Base.Machine Base.Utf8.
From ClapModel Require Import Parse.Cmd Parse.Build Parse.Valid Parse.Matcher Parse.Errors Parse.Validator Parse.Parser.
From ClapModel Require Import ParseProofs.Actions ParseProofs.ActionsLoop ParseProofs.Spelling ParseProofs.Dispatch ParseProofs.Chain ParseProofs.ChainWide.
From ClapModel Require Import Complete.EngineProofs Complete.EngineLevel.
From ClapModel Require Import Help.HelpLevel Help.HelpDispatch Help.HelpFlagGen Help.HelpUnbuilt.
From RecordUpdate Require Import RecordSet.
Import RecordSetNotations.
Open Scope N_scope.

(** * the help flag at one level, for any positional counter, any [valid_arg_found], any pending occurrence *)

Lemma possible_subcommand_vaf c tok vaf :
  possible_subcommand c tok false = None -> possible_subcommand c tok vaf = None.
Proof.
  unfold possible_subcommand. intros H. destruct (negb (utf8_valid tok)); [reflexivity|].
  rewrite andb_false_r in H. destruct (is_set s_args_negate_subs c && vaf); [reflexivity|exact H].
Qed.

Lemma react_core_help c idn a st ul :
  bare_flag_ok c a = true ->
  help_mode (match idn with Some IShort => true | _ => false end) (a_get_action a) = Some ul ->
  react_core c idn SCmdLine a [] None st = RErr (help_err c ul) st.
Proof.
  intros Hb Hm.
  unfold react_core. cbn [is_cmdline]. rewrite (verify_num_args_bare c a st Hb). cbn [rbind].
  unfold bare_flag_ok in Hb. apply andb_true_iff in Hb. destruct Hb as [Hb _].
  apply andb_true_iff in Hb. destruct Hb as [Hb Hd]. apply andb_true_iff in Hb. destruct Hb as [_ Hdm].
  rewrite Hdm. cbn [negb]. unfold delimit. destruct (a_delim a); [discriminate|]. cbn [expect rbind].
  unfold help_mode in Hm.
  destruct (a_get_action a); try discriminate; destruct idn as [[| |]|]; inversion Hm; reflexivity.
Qed.

(** the occurrence that is still pending is stored first ([resolve_pending]); its errors are the line's *)
Lemma react_help_gen c idn a st ul :
  bare_flag_ok c a = true ->
  help_mode (match idn with Some IShort => true | _ => false end) (a_get_action a) = Some ul ->
  react c idn SCmdLine a [] None st = (do st1 <- resolve_pending c st; RErr (help_err c ul) st1).
Proof.
  intros Hb Hm. unfold react. destruct (resolve_pending c st) as [st1|e s1|x]; cbn [rbind]; try reflexivity.
  apply react_core_help; assumption.
Qed.

Lemma parse_loop_long_help_gen c rest pos vaf st ul :
  long_help_at c ul = true ->
  parse_loop c (tok_help_long :: rest) (mkL PSValuesDone pos vaf false) st
  = (do st1 <- resolve_pending c st; RErr (help_err c ul) st1).
Proof.
  intros H. unfold long_help_at in H. apply andb_true_iff in H. destruct H as [Hs H].
  destruct (possible_subcommand c tok_help_long false) eqn:Eps; [discriminate|]. clear Hs.
  pose proof (possible_subcommand_vaf c tok_help_long vaf Eps) as Epv.
  destruct (get_long c s_help) as [a|] eqn:Eg; [|discriminate].
  apply andb_true_iff in H. destruct H as [Hb Hm].
  destruct (help_mode false (a_get_action a)) as [m|] eqn:Em; [|discriminate]. apply eqb_true_eq in Hm. subst m.
  pose proof Hb as Hb'. unfold bare_flag_ok in Hb'. apply andb_true_iff in Hb'. destruct Hb' as [Hb' _].
  apply andb_true_iff in Hb'. destruct Hb' as [Hb' _]. apply andb_true_iff in Hb'. destruct Hb' as [Htv _].
  apply negb_true_iff in Htv.
  assert (Hr : react c (Some ILong) SCmdLine a [] None st = (do st1 <- resolve_pending c st; RErr (help_err c ul) st1))
    by (apply react_help_gen; assumption).
  cbn [parse_loop l_trailing l_pst l_vaf l_pos]. rewrite orb_true_r. rewrite Epv.
  change (is_escape tok_help_long) with false. cbn iota.
  change (to_long tok_help_long) with (Some (s_help, true, @None bytes)). cbn iota beta.
  unfold parse_long_arg. cbn [state_arg rbind negb is_nil is_some andb]. cbn iota.
  change (is_nil s_help) with false. cbn [andb]. cbn iota.
  rewrite Eg, Htv, Hr. destruct (resolve_pending c st) as [st1|e s1|x]; reflexivity.
Qed.

(** [-h]: the part of [short_help_at] that does not mention the positional counter *)
Definition short_help_flag (c : cmd) (ul : bool) : bool :=
  negb (is_some (possible_subcommand c tok_help_short false))
  && match get_short c 104 with
     | Some a => bare_flag_ok c a && match help_mode true (a_get_action a) with Some m => Bool.eqb m ul | None => false end
     | None => false
     end.

Lemma short_help_at_flag c ul : short_help_at c ul = true -> short_help_flag c ul = true /\ no_hyphen_pos c 1.
Proof.
  unfold short_help_at, short_help_flag, no_hyphen_pos. intros H. apply andb_true_iff in H. destruct H as [H Hp].
  split; [exact H|]. destruct (get_pos c 1) as [a|]; [|exact I].
  apply andb_true_iff in Hp. destruct Hp as [H1 H2]. apply negb_true_iff in H1, H2. split; assumption.
Qed.

Lemma parse_loop_short_help_gen c rest pos vaf st ul :
  fs_skip st = 0 -> short_help_flag c ul = true -> no_hyphen_pos c pos ->
  parse_loop c (tok_help_short :: rest) (mkL PSValuesDone pos vaf false) st
  = (do st1 <- resolve_pending c st; RErr (help_err c ul) st1).
Proof.
  intros Hskip H Hpos.
  unfold short_help_flag in H. apply andb_true_iff in H. destruct H as [Hs H].
  destruct (possible_subcommand c tok_help_short false) eqn:Eps; [discriminate|]. clear Hs.
  pose proof (possible_subcommand_vaf c tok_help_short vaf Eps) as Epv.
  destruct (get_short c 104) as [a|] eqn:Eg; [|discriminate].
  apply andb_true_iff in H. destruct H as [Hb Hm].
  destruct (help_mode true (a_get_action a)) as [m|] eqn:Em; [|discriminate]. apply eqb_true_eq in Hm. subst m.
  pose proof Hb as Hb'. unfold bare_flag_ok in Hb'. apply andb_true_iff in Hb'. destruct Hb' as [Hb' _].
  apply andb_true_iff in Hb'. destruct Hb' as [Hb' _]. apply andb_true_iff in Hb'. destruct Hb' as [Htv _].
  assert (Hr : react c (Some IShort) SCmdLine a [] None st = (do st1 <- resolve_pending c st; RErr (help_err c ul) st1))
    by (apply react_help_gen; assumption).
  cbn [parse_loop l_trailing l_pst l_vaf l_pos]. rewrite orb_true_r. rewrite Epv.
  change (is_escape tok_help_short) with false. cbn iota.
  change (to_long tok_help_short) with (@None (bytes * bool * option bytes)). cbn iota.
  change (to_short tok_help_short) with (Some [104]). cbn iota beta.
  rewrite (parse_short_arg_clean c [104] pos vaf st Hskip Hpos), (fs_skip_eta st Hskip).
  cbn [length short_loop].
  change (sf_next [104]) with (Some (@inl N bytes 104, @nil N)). cbn iota beta.
  rewrite Eg, Htv. cbn [negb]. cbn iota. rewrite Hr.
  destruct (resolve_pending c st) as [st1|e s1|x]; reflexivity.
Qed.

(** the loop state a level's arguments end in, as far as a flag token is concerned: between two arguments, or
    while a multi-valued positional that does not take hyphen values collects values *)
Definition pst_ok (c : cmd) (pst : pstate_t) : Prop :=
  match pst with
  | PSValuesDone => True
  | PSPos i => exists a, find_arg c i = Some a /\ a_hyphen a = false
  | PSOpt _ => False
  end.

Lemma parse_loop_long_help_pst c rest pst pos vaf st ul :
  pst_ok c pst -> long_help_at c ul = true ->
  parse_loop c (tok_help_long :: rest) (mkL pst pos vaf false) st
  = (do st1 <- resolve_pending c st; RErr (help_err c ul) st1).
Proof.
  intros Hpst H. destruct pst as [|i|i]; [apply parse_loop_long_help_gen; exact H| destruct Hpst |].
  destruct Hpst as [a0 [Hfa Hhy]].
  unfold long_help_at in H. apply andb_true_iff in H. destruct H as [Hs H].
  destruct (possible_subcommand c tok_help_long false) eqn:Eps; [discriminate|]. clear Hs.
  pose proof (possible_subcommand_vaf c tok_help_long vaf Eps) as Epv.
  destruct (get_long c s_help) as [a|] eqn:Eg; [|discriminate].
  apply andb_true_iff in H. destruct H as [Hb Hm].
  destruct (help_mode false (a_get_action a)) as [m|] eqn:Em; [|discriminate]. apply eqb_true_eq in Hm. subst m.
  pose proof Hb as Hb'. unfold bare_flag_ok in Hb'. apply andb_true_iff in Hb'. destruct Hb' as [Hb' _].
  apply andb_true_iff in Hb'. destruct Hb' as [Hb' _]. apply andb_true_iff in Hb'. destruct Hb' as [Htv _].
  apply negb_true_iff in Htv.
  assert (Hr : react c (Some ILong) SCmdLine a [] None st = (do st1 <- resolve_pending c st; RErr (help_err c ul) st1))
    by (apply react_help_gen; assumption).
  cbn [parse_loop l_trailing l_pst l_vaf l_pos]. rewrite orb_false_r.
  replace (if is_set s_sub_precedence c then possible_subcommand c tok_help_long vaf else None) with (@None bytes)
    by (destruct (is_set s_sub_precedence c); [symmetry; exact Epv|reflexivity]).
  change (is_escape tok_help_long) with false. cbn iota.
  change (to_long tok_help_long) with (Some (s_help, true, @None bytes)). cbn iota beta.
  unfold parse_long_arg. cbn [state_arg]. rewrite Hfa. cbn [expect rbind]. rewrite Hhy.
  cbn [negb is_nil is_some andb]. cbn iota.
  change (is_nil s_help) with false. cbn [andb]. cbn iota.
  rewrite Eg, Htv, Hr. destruct (resolve_pending c st) as [st1|e s1|x]; reflexivity.
Qed.

Lemma parse_loop_short_help_pst c rest pst pos vaf st ul :
  pst_ok c pst -> fs_skip st = 0 -> short_help_flag c ul = true -> no_hyphen_pos c pos ->
  parse_loop c (tok_help_short :: rest) (mkL pst pos vaf false) st
  = (do st1 <- resolve_pending c st; RErr (help_err c ul) st1).
Proof.
  intros Hpst Hskip H Hpos. destruct pst as [|i|i]; [apply parse_loop_short_help_gen; assumption| destruct Hpst |].
  destruct Hpst as [a0 [Hfa Hhy]].
  unfold short_help_flag in H. apply andb_true_iff in H. destruct H as [Hs H].
  destruct (possible_subcommand c tok_help_short false) eqn:Eps; [discriminate|]. clear Hs.
  pose proof (possible_subcommand_vaf c tok_help_short vaf Eps) as Epv.
  destruct (get_short c 104) as [a|] eqn:Eg; [|discriminate].
  apply andb_true_iff in H. destruct H as [Hb Hm].
  destruct (help_mode true (a_get_action a)) as [m|] eqn:Em; [|discriminate]. apply eqb_true_eq in Hm. subst m.
  pose proof Hb as Hb'. unfold bare_flag_ok in Hb'. apply andb_true_iff in Hb'. destruct Hb' as [Hb' _].
  apply andb_true_iff in Hb'. destruct Hb' as [Hb' _]. apply andb_true_iff in Hb'. destruct Hb' as [Htv _].
  assert (Hr : react c (Some IShort) SCmdLine a [] None st = (do st1 <- resolve_pending c st; RErr (help_err c ul) st1))
    by (apply react_help_gen; assumption).
  cbn [parse_loop l_trailing l_pst l_vaf l_pos]. rewrite orb_false_r.
  replace (if is_set s_sub_precedence c then possible_subcommand c tok_help_short vaf else None) with (@None bytes)
    by (destruct (is_set s_sub_precedence c); [symmetry; exact Epv|reflexivity]).
  change (is_escape tok_help_short) with false. cbn iota.
  change (to_long tok_help_short) with (@None (bytes * bool * option bytes)). cbn iota.
  change (to_short tok_help_short) with (Some [104]). cbn iota beta.
  assert (Hpsa : parse_short_arg c [104] (PSPos i) pos vaf st
                 = short_loop c (S (length [104])) [104] PRNoArg vaf (st <| fs_skip := 0 |>)).
  { unfold parse_short_arg. cbn [state_arg]. rewrite Hfa. cbn [expect rbind]. rewrite Hhy.
    change (sf_is_negative_number [104]) with false. rewrite !andb_false_r. cbn [orb]. cbn iota.
    unfold no_hyphen_pos in Hpos.
    destruct (get_pos c pos) as [p|]; [destruct Hpos as [H1 H2]; rewrite H2|]; cbn [andb]; rewrite Hskip; reflexivity. }
  rewrite Hpsa, (fs_skip_eta st Hskip).
  cbn [length short_loop].
  change (sf_next [104]) with (Some (@inl N bytes 104, @nil N)). cbn iota beta.
  rewrite Eg, Htv. cbn [negb]. cbn iota. rewrite Hr.
  destruct (resolve_pending c st) as [st1|e s1|x]; reflexivity.
Qed.

(** * the class: a chain of levels, each with its own arguments *)

(** [hsplit c toks ns lv pst pos]: [toks] = `pre_0 t_1 pre_1 .. t_k pre_k` for the built command [c]; [pre_i] are
    arguments ([wprefix]) of the level reached, accepted by it: the token loop of that level on [pre_i] ALONE,
    from a fresh matcher, ends without an error (computable, no reference to the transformer [F]); [t_i] selects
    a subcommand of that level ([psel]; [ns] = what the selections resolve through); [lv] is the level the line
    ends at, in loop state [pst] (between two arguments, or while a multi-valued positional collects values) with the
    positional counter at [pos]; the occurrence still pending there is accepted as well.  Levels do not ignore errors and have [args_conflicts_with_subcommands] off. *)
Inductive hsplit : cmd -> list bytes -> list bytes -> cmd -> pstate_t -> N -> Prop :=
| hs_end c pre F pst pos st' st1 :
    wprefix c false pre F pst pos -> is_set s_ignore_errors c = false ->
    parse_loop c pre (lsV 1 false) ps_new = ROk (LDone st') -> resolve_pending c st' = ROk st1 ->
    hsplit c pre [] c pst pos
| hs_sub c pre F pst pos tok n sc0 sc rest ns lv pst' pos' st' :
    lvl_ok c -> wprefix c false pre F pst pos -> parse_loop c pre (lsV 1 false) ps_new = ROk (LDone st') ->
    psel c pst tok n ->
    find_subcommand c n = Some sc0 -> build_subcommand c (c_name sc0) = Some sc ->
    hsplit sc rest ns lv pst' pos' ->
    hsplit c (pre ++ tok :: rest) (n :: ns) lv pst' pos'.

(** the class is inside C09's [wsplit] (hence [wline]) *)
Lemma hsplit_wsplit : forall c toks ns lv pst pos, hsplit c toks ns lv pst pos ->
  exists names lvl, wsplit c toks names lvl.
Proof.
  induction 1 as [c pre F pst pos st' st1 Hp Hi Ha Hr|c pre F pst pos tok n sc0 sc rest ns lv pst' pos' st' Hl Hp HF Hs Hf Hb Hh IH].
  - exists [], [(c, pre)]. eapply sp_end. exact Hp.
  - destruct IH as [names [lvl IH]]. exists (c_name sc0 :: names), ((c, pre) :: lvl).
    eapply (sp_sub c pre F pst pos tok n sc0 sc); eassumption.
Qed.

(** the level the line ends at is the level the selections lead to *)
Lemma hsplit_level : forall c toks ns lv pst pos, hsplit c toks ns lv pst pos -> p_level_walk c ns = Some lv.
Proof.
  induction 1 as [c pre F pst pos st' st1 Hp Hi Ha Hr|c pre F pst pos tok n sc0 sc rest ns lv pst' pos' st' Hl Hp HF Hs Hf Hb Hh IH];
    cbn [p_level_walk]; [reflexivity|]. rewrite Hf, Hb. exact IH.
Qed.

Lemma hsplit_root_ignore c toks ns lv pst pos : hsplit c toks ns lv pst pos -> is_set s_ignore_errors c = false.
Proof. intros [? ? ? ? ? ? ? _ Hi _ _|? ? ? ? ? ? ? ? ? ? ? ? ? ? ? [_ Hi] _ _ _ _ _ _]; exact Hi. Qed.

(** a bare chain of names ([help_chain] of HelpDispatch.v, without [args_conflicts_with_subcommands]) is the
    special case with empty prefixes *)
Lemma wprefix_nil c : wprefix c false [] (fun st => ROk st) PSValuesDone 1.
Proof. apply wp_plain, wb_plain, prefix_pitems. constructor. Qed.

(** * the chain theorem *)
Section WideChain.
Variable tok : bytes.
(** what the last level does with the help token, in the state its own arguments leave *)
Variable at_level : cmd -> pstate_t -> N -> bool -> Prop.
Hypothesis at_level_spec : forall c pst pos ul, at_level c pst pos ul -> forall rest vaf st, fs_skip st = 0 ->
  parse_loop c (tok :: rest) (mkL pst pos vaf false) st
  = (do st1 <- resolve_pending c st; RErr (help_err c ul) st1).

Lemma gmw_help_wide : forall c toks ns lv pst pos, hsplit c toks ns lv pst pos -> forall f ul rest,
  valid_tree f c = true -> at_level lv pst pos ul ->
  exists st, get_matches_with f c (toks ++ tok :: rest) ps_new = RErr (help_err lv ul) st.
Proof.
  induction 1 as [c pre F pst pos st' st1 Hp Hi Ha0 Ha|c pre F pst pos tok0 n sc0 sc rest0 ns lv pst' pos' st' [Hneg Hign] Hp HF0 Hs Hf Hb Hh IH];
    intros f ul rest Hv Hat; (destruct f as [|f]; [discriminate|]).
  - rewrite gmw_unfold. unfold parsed_of. change (mkL PSValuesDone 1 false false) with (lsV 1 false).
    rewrite (loop_wprefix c false pre F pst pos Hp (tok :: rest) ps_new eq_refl).
    rewrite (wprefix_alone c pre F pst pos Hp ps_new eq_refl) in Ha0.
    destruct (F ps_new) as [st2|e s1|x] eqn:EF; cbn [rbind] in Ha0 |- *; try discriminate.
    inversion Ha0; subst st2. clear Ha0.
    destruct (wprefix_fs c false pre F pst pos Hp ps_new st' eq_refl EF) as [Hsk' _].
    rewrite (at_level_spec c pst pos ul Hat rest _ st' Hsk'). rewrite Ha. cbn [rbind post]. rewrite Hi.
    exists st1. reflexivity.
  - assert (Hin : In sc0 (c_subs c)) by (unfold find_subcommand in Hf; apply find_some in Hf; apply Hf).
    destruct (valid_tree_child f c sc0 Hv Hin) as [sc2 [Eb2 Hv2]]. rewrite Hb in Eb2. inversion Eb2; subst sc2.
    destruct (IH f ul rest Hv2 Hat) as [ste Hchild].
    assert (HF : F ps_new = ROk st').
    { rewrite (wprefix_alone c pre F pst pos Hp ps_new eq_refl) in HF0.
      destruct (F ps_new) as [st2|e s1|x]; cbn [rbind] in HF0; try discriminate. inversion HF0. reflexivity. }
    rewrite <- app_assoc. cbn [app].
    rewrite (wlevel_step c pre F pst pos tok0 n f Hp Hs Hneg (rest0 ++ tok :: rest) ps_new eq_refl).
    rewrite HF. cbn [rbind]. unfold after_sub. rewrite Hneg. cbn [andb]. rewrite Hf. cbn [expect rbind]. rewrite Hb.
    rewrite (valid_tree_app f sc Hv2). cbn [negb sub_init]. rewrite Hchild. rewrite Hign. cbn [post]. rewrite Hign.
    exists st'. reflexivity.
Qed.

Theorem do_parse_help_wide c0 toks ns lv pst pos rest ul :
  valid c0 = true -> hsplit (build_self c0) toks ns lv pst pos -> at_level lv pst pos ul ->
  do_parse c0 (toks ++ tok :: rest) = OErr (help_err lv ul).
Proof.
  intros Hv Hc Hat. unfold do_parse. rewrite Hv. cbn [negb]. unfold valid in Hv. cbn zeta in Hv.
  destruct (gmw_help_wide _ _ _ _ _ _ Hc _ ul rest Hv Hat) as [st H]. rewrite H.
  rewrite (hsplit_root_ignore _ _ _ _ _ _ Hc). reflexivity.
Qed.

Theorem parse_top_help_wide c0 bin toks ns lv pst pos rest ul :
  is_set s_no_binary_name c0 = false -> c_bin_name c0 <> None ->
  valid c0 = true -> hsplit (build_self c0) toks ns lv pst pos -> at_level lv pst pos ul ->
  parse_top c0 (bin :: toks ++ tok :: rest) = OErr (help_err lv ul)
  /\ p_level_walk (build_self c0) ns = Some lv
  /\ e_kind (help_err lv ul) = EDisplayHelp /\ e_cmd (help_err lv ul) = opt_default [] (c_about lv)
  /\ e_long (help_err lv ul) = ul.
Proof.
  intros Hnb Hbin Hv Hc Hat. split; [|split; [exact (hsplit_level _ _ _ _ _ _ Hc)|repeat split]].
  unfold parse_top. rewrite Hnb. destruct (c_bin_name c0) as [b|]; [|contradiction].
  apply (do_parse_help_wide c0 toks ns lv pst pos rest ul); assumption.
Qed.

End WideChain.

(** [--help]: any counter *)
Theorem help_flag_long_wide c0 bin toks ns lv pst pos rest ul :
  is_set s_no_binary_name c0 = false -> c_bin_name c0 <> None ->
  valid c0 = true -> hsplit (build_self c0) toks ns lv pst pos -> pst_ok lv pst /\ long_help_at lv ul = true ->
  parse_top c0 (bin :: toks ++ tok_help_long :: rest) = OErr (help_err lv ul)
  /\ p_level_walk (build_self c0) ns = Some lv
  /\ e_kind (help_err lv ul) = EDisplayHelp /\ e_cmd (help_err lv ul) = opt_default [] (c_about lv)
  /\ e_long (help_err lv ul) = ul.
Proof.
  apply (parse_top_help_wide tok_help_long (fun c q _ u => pst_ok c q /\ long_help_at c u = true)).
  intros c q p u [H0 H] r vaf st _. apply parse_loop_long_help_pst; assumption.
Qed.

(** [-h]: the positional the counter points at must not take hyphen values / negative numbers *)
Theorem help_flag_short_wide c0 bin toks ns lv pst pos rest ul :
  is_set s_no_binary_name c0 = false -> c_bin_name c0 <> None ->
  valid c0 = true -> hsplit (build_self c0) toks ns lv pst pos ->
  pst_ok lv pst /\ short_help_flag lv ul = true /\ no_hyphen_pos lv pos ->
  parse_top c0 (bin :: toks ++ tok_help_short :: rest) = OErr (help_err lv ul)
  /\ p_level_walk (build_self c0) ns = Some lv
  /\ e_kind (help_err lv ul) = EDisplayHelp /\ e_cmd (help_err lv ul) = opt_default [] (c_about lv)
  /\ e_long (help_err lv ul) = ul.
Proof.
  apply (parse_top_help_wide tok_help_short (fun c q p u => pst_ok c q /\ short_help_flag c u = true /\ no_hyphen_pos c p)).
  intros c q p u [H0 [H1 H2]] r vaf st Hsk. apply parse_loop_short_help_pst; assumption.
Qed.

(** * nothing assumed about the help flag but "not disabled at the level": the user's tree is unbuilt *)

Lemma hsplit_assert_app : forall c toks ns lv pst pos, hsplit c toks ns lv pst pos ->
  forall f, valid_tree f c = true -> assert_app lv = true.
Proof.
  induction 1 as [c pre F pst pos st' st1 Hp Hi Ha Hr|c pre F pst pos tok n sc0 sc rest ns lv pst' pos' st' Hl Hp HF Hs Hf Hb Hh IH];
    intros f Hv.
  - exact (valid_tree_app f c Hv).
  - destruct f as [|f]; [discriminate|].
    assert (Hin : In sc0 (c_subs c)) by (unfold find_subcommand in Hf; apply find_some in Hf; apply Hf).
    destruct (valid_tree_child f c sc0 Hv Hin) as [sc2 [Eb2 Hv2]]. rewrite Hb in Eb2. inversion Eb2; subst sc2.
    exact (IH f Hv2).
Qed.

Lemma hsplit_from_unbuilt : forall c toks ns lv pst pos, hsplit c toks ns lv pst pos -> from_unbuilt c -> from_unbuilt lv.
Proof.
  induction 1 as [c pre F pst pos st' st1 Hp Hi Ha Hr|c pre F pst pos tok n sc0 sc rest ns lv pst' pos' st' Hl Hp HF Hs Hf Hb Hh IH];
    intros Hu; [exact Hu|]. apply IH. exact (child_from_unbuilt c (c_name sc0) sc Hu Hb).
Qed.

Lemma help_chain_from_unbuilt : forall names c lv, help_chain c names = Some lv -> from_unbuilt c -> from_unbuilt lv.
Proof.
  induction names as [|n more IH]; intros c lv Hc Hu; cbn [help_chain] in Hc.
  - destruct (is_set s_ignore_errors c); [discriminate|]. inversion Hc; subst lv. exact Hu.
  - destruct (utf8_valid n && negb (is_set s_infer_sub c) && negb (is_set s_ignore_errors c)); [|discriminate].
    destruct (find_subcommand c n) as [sc|] eqn:Ef; [|discriminate].
    destruct (beq (c_name sc) s_help && negb (is_set s_disable_help_sub c)); [discriminate|].
    destruct (find_subcommand c (c_name sc)) as [sc0|]; [|discriminate].
    destruct (beq (c_name sc0) (c_name sc)); [|discriminate].
    destruct (build_subcommand c (c_name sc)) as [sc'|] eqn:Eb; [|discriminate].
    apply (IH sc' lv Hc). exact (child_from_unbuilt c (c_name sc) sc' Hu Eb).
Qed.

(** C12_help_flag_long_wide_gen *)
Theorem help_flag_long_wide_gen c0 bin toks ns lv pst pos rest :
  is_set s_no_binary_name c0 = false -> c_bin_name c0 <> None ->
  valid c0 = true -> tree_all unb c0 -> hsplit (build_self c0) toks ns lv pst pos -> pst_ok lv pst ->
  is_set s_disable_help_flag lv = false -> possible_subcommand lv tok_help_long false = None ->
  parse_top c0 (bin :: toks ++ tok_help_long :: rest) = OErr (help_err lv true)
  /\ p_level_walk (build_self c0) ns = Some lv
  /\ e_kind (help_err lv true) = EDisplayHelp /\ e_cmd (help_err lv true) = opt_default [] (c_about lv)
  /\ e_long (help_err lv true) = true.
Proof.
  intros Hnb Hbin Hv Hu Hc Hq Hd Hp. apply (help_flag_long_wide c0 bin toks ns lv pst pos rest true); try assumption.
  split; [exact Hq|]. apply gen_long_help_at; [| |exact Hp].
  - unfold valid in Hv. cbn zeta in Hv. exact (hsplit_assert_app _ _ _ _ _ _ Hc _ Hv).
  - apply level_has_help; [|exact Hd]. exact (hsplit_from_unbuilt _ _ _ _ _ _ Hc (from_unbuilt_root c0 Hu)).
Qed.

Lemma gen_short_help_flag lv :
  assert_app lv = true -> In built_help_arg (c_args lv) ->
  possible_subcommand lv tok_help_short false = None -> short_help_flag lv false = true.
Proof.
  intros V Hin Hp. unfold short_help_flag. rewrite Hp. cbn [is_some negb andb].
  rewrite (get_short_names lv built_help_arg 104 (assert_app_short_unique lv V) Hin eq_refl (or_introl eq_refl)).
  rewrite built_help_bare. reflexivity.
Qed.

(** C12_help_flag_short_wide_gen *)
Theorem help_flag_short_wide_gen c0 bin toks ns lv pst pos rest :
  is_set s_no_binary_name c0 = false -> c_bin_name c0 <> None ->
  valid c0 = true -> tree_all unb c0 -> hsplit (build_self c0) toks ns lv pst pos -> pst_ok lv pst ->
  is_set s_disable_help_flag lv = false -> possible_subcommand lv tok_help_short false = None ->
  no_hyphen_pos lv pos ->
  parse_top c0 (bin :: toks ++ tok_help_short :: rest) = OErr (help_err lv false)
  /\ p_level_walk (build_self c0) ns = Some lv
  /\ e_kind (help_err lv false) = EDisplayHelp /\ e_cmd (help_err lv false) = opt_default [] (c_about lv)
  /\ e_long (help_err lv false) = false.
Proof.
  intros Hnb Hbin Hv Hu Hc Hq Hd Hp Hpos. apply (help_flag_short_wide c0 bin toks ns lv pst pos rest false); try assumption.
  split; [exact Hq|]. split; [|exact Hpos]. apply gen_short_help_flag; [| |exact Hp].
  - unfold valid in Hv. cbn zeta in Hv. exact (hsplit_assert_app _ _ _ _ _ _ Hc _ Hv).
  - apply level_has_help; [|exact Hd]. exact (hsplit_from_unbuilt _ _ _ _ _ _ Hc (from_unbuilt_root c0 Hu)).
Qed.

(** the bare chains of HelpFlagGen.v without the hypothesis [In built_help_arg (c_args lv)] *)
Theorem help_flag_long_level_unb c0 bin names rest lv :
  is_set s_no_binary_name c0 = false -> c_bin_name c0 <> None ->
  valid c0 = true -> tree_all unb c0 -> help_chain (build_self c0) names = Some lv ->
  is_set s_disable_help_flag lv = false -> possible_subcommand lv tok_help_long false = None ->
  parse_top c0 (bin :: names ++ tok_help_long :: rest) = OErr (help_err lv true)
  /\ p_level_walk (build_self c0) names = Some lv
  /\ e_kind (help_err lv true) = EDisplayHelp /\ e_cmd (help_err lv true) = opt_default [] (c_about lv)
  /\ e_long (help_err lv true) = true.
Proof.
  intros Hnb Hbin Hv Hu Hc Hd Hp. apply help_flag_long_level_gen; try assumption.
  apply level_has_help; [|exact Hd]. exact (help_chain_from_unbuilt _ _ _ Hc (from_unbuilt_root c0 Hu)).
Qed.

Theorem help_flag_short_level_unb c0 bin names rest lv :
  is_set s_no_binary_name c0 = false -> c_bin_name c0 <> None ->
  valid c0 = true -> tree_all unb c0 -> help_chain (build_self c0) names = Some lv ->
  is_set s_disable_help_flag lv = false -> possible_subcommand lv tok_help_short false = None ->
  match get_pos lv 1 with Some a => negb (a_negnum a) && negb (a_hyphen a && negb (a_last a)) | None => true end = true ->
  parse_top c0 (bin :: names ++ tok_help_short :: rest) = OErr (help_err lv false)
  /\ p_level_walk (build_self c0) names = Some lv
  /\ e_kind (help_err lv false) = EDisplayHelp /\ e_cmd (help_err lv false) = opt_default [] (c_about lv)
  /\ e_long (help_err lv false) = false.
Proof.
  intros Hnb Hbin Hv Hu Hc Hd Hp Hpos. apply help_flag_short_level_gen; try assumption.
  apply level_has_help; [|exact Hd]. exact (help_chain_from_unbuilt _ _ _ Hc (from_unbuilt_root c0 Hu)).
Qed.

(** * non-vacuity: three levels, arguments at every level (C09's [ex_chain]:
      p(--cfg <v> global; --verbose/-v) -> sync|sy|--sf(--yes/-y; --out <v>) -> q(-z))
    `p --verbose --cfg=a sy -y --out o1 q -z --cfg b --help --bogus`: the flag is read while `--cfg b` of level [q]
    is still pending; what follows the flag is not read *)
Definition hw_root : cmd := ex_chain <| c_bin_name := Some (b1 112) |>.
Definition hw_toks : list bytes :=
  [dd w_verbose; dd (w_cfg ++ [61; 97]); [115; 121]; [45; 121]; dd w_out; [111; 49]; b1 113; [45; 122]; dd w_cfg; b1 98].
Definition hw_bogus : bytes := [45; 45; 98; 111; 103; 117; 115].

Example hw_hsplit : exists ns lv, hsplit (build_self hw_root) hw_toks ns lv PSValuesDone 1 /\ ns = [w_sync; b1 113] /\ c_name lv = b1 113.
Proof.
  eexists. eexists. split.
  - eapply (hs_sub _ [dd w_verbose; dd (w_cfg ++ [61; 97])] _ PSValuesDone 1 [115; 121] _ _ _
                   [[45; 121]; dd w_out; [111; 49]; b1 113; [45; 122]; dd w_cfg; b1 98]).
    + split; vmr.
    + apply wp_plain, wb_plain, prefix_pitems. eapply (po_cons _ [dd w_verbose] _ [dd (w_cfg ++ [61; 97])]).
      * eapply it_flag; [solve_nosub|vmr|vmr|vmr].
      * eapply (po_cons _ [dd (w_cfg ++ [61; 97])] _ []); [|apply po_nil].
        eapply it_eq; [solve_nosub|vmr|vmr|vmr].
    + vmr.
    + apply ps_sel. eapply sel_name; [vmr|vmr|vmr|vmr].
    + vmr.
    + vmr.
    + eapply (hs_sub _ [[45; 121]; dd w_out; [111; 49]] _ PSValuesDone 1 (b1 113) _ _ _ [[45; 122]; dd w_cfg; b1 98]).
      * split; vmr.
      * apply wp_plain, wb_plain, prefix_pitems. eapply (po_cons _ [[45; 121]] _ [dd w_out; [111; 49]]).
        { eapply it_cluster; [solve_nosub|].
          exists 121, []. split; [reflexivity|]. split; [discriminate|]. split; [reflexivity|].
          eapply cf_cons; [reflexivity|vmr|vmr|apply cf_nil]. }
        eapply (po_cons _ [dd w_out; [111; 49]] _ []); [|apply po_nil].
        eapply it_sep; [solve_nosub|vmr|vmr|vmr|vmr|vmr|vmr|vmr|solve_nosub|vmr|vmr|vmr|vmr].
      * vmr.
      * apply ps_sel. eapply sel_name; [vmr|vmr|vmr|vmr].
      * vmr.
      * vmr.
      * eapply (hs_end _ [[45; 122]; dd w_cfg; b1 98] _ PSValuesDone).
        { apply wp_plain, wb_plain, prefix_pitems. eapply (po_cons _ [[45; 122]] _ [dd w_cfg; b1 98]).
          { eapply it_cluster; [solve_nosub|].
            exists 122, []. split; [reflexivity|]. split; [discriminate|]. split; [reflexivity|].
            eapply cf_cons; [reflexivity|vmr|vmr|apply cf_nil]. }
          eapply (po_cons _ [dd w_cfg; b1 98] _ []); [|apply po_nil].
          eapply it_sep; [solve_nosub|vmr|vmr|vmr|vmr|vmr|vmr|vmr|solve_nosub|vmr|vmr|vmr|vmr]. }
        { vmr. }
        { vmr. }
        { vmr. }
  - split; vmr.
Qed.

Example hw_hyps :
  is_set s_no_binary_name hw_root = false /\ c_bin_name hw_root <> None /\ valid hw_root = true
  /\ tree_all unb hw_root
  /\ exists lv, hsplit (build_self hw_root) hw_toks [w_sync; b1 113] lv PSValuesDone 1 /\ c_name lv = b1 113
       /\ is_set s_disable_help_flag lv = false
       /\ possible_subcommand lv tok_help_long false = None /\ possible_subcommand lv tok_help_short false = None
       /\ no_hyphen_pos lv 1
       /\ (exists p, mt_pending (mt p) <> None /\ parse_loop lv [[45; 122]; dd w_cfg; b1 98] (lsV 1 false) ps_new = ROk (LDone p))
       /\ parse_top hw_root (b1 112 :: hw_toks ++ tok_help_long :: [hw_bogus]) = OErr (help_err lv true)
       /\ parse_top hw_root (b1 112 :: hw_toks ++ tok_help_short :: [hw_bogus]) = OErr (help_err lv false).
Proof.
  split; [reflexivity|]. split; [discriminate|]. split; [vmr|].
  split; [apply (unb_tree_ok 5); vmr|].
  destruct hw_hsplit as [ns [lv [Hs [-> Hn]]]]. exists lv. split; [exact Hs|]. split; [exact Hn|].
  assert (Hl : p_level_walk (build_self hw_root) [w_sync; b1 113] = Some lv) by exact (hsplit_level _ _ _ _ _ _ Hs).
  vm_compute in Hl. inversion Hl; subst lv. clear Hl Hs Hn.
  split; [vmr|]. split; [vmr|]. split; [vmr|]. split; [vm_compute; exact I|].
  split; [eexists; split; [|vmr]; vm_compute; discriminate|].
  split; vmr.
Qed.
