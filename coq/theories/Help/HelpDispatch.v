(** C12, "the help flag yields the help of the subcommand level it was given at", on the parser model.

    For an argv of the form  [name_1 .. name_k (--help | -h) anything..]  where every [name_i] is the name
    or an alias of a subcommand of the level reached so far (class [help_chain]: names are UTF-8, no
    subcommand inference / [ignore_errors] on the way, the name does not select the generated [help]
    subcommand, the alias resolves to a subcommand whose name resolves to itself), the parser returns the
    DisplayHelp error of the level at the END of the chain ([p_level_walk] of HelpLevel.v reaches the same
    level) -- whatever follows the help flag.  The chain starts every level with a fresh matcher, so no
    name can be swallowed as a pending value.  Fuel and [assert_app] along the chain come out of the
    validity of the definition ([valid_tree]).  Dispatch step: C09's [dispatch_by_name] (imported). *)
From ClapModel Require Import Base.Bytes Base.Machine Base.Utf8.
From ClapModel Require Import Parse.Cmd Parse.Build Parse.Valid Parse.Matcher Parse.Errors Parse.Validator Parse.Parser.
From ClapModel Require Import ParseProofs.Dispatch Help.HelpLevel.
From RecordUpdate Require Import RecordSet.
Import RecordSetNotations.
Open Scope N_scope.

Definition tok_help_long : bytes := [45; 45; 104; 101; 108; 112].     (* "--help" *)
Definition tok_help_short : bytes := [45; 104].                       (* "-h" *)

(** the mode a Help action asks for ([react]: [ArgAction::Help] looks at the spelling used) *)
Definition help_mode (is_short : bool) (act : action) : option bool :=
  match act with
  | AHelp => Some (negb is_short)
  | AHelpShort => Some false
  | AHelpLong => Some true
  | _ => None
  end.

(** a flag whose bare occurrence reaches the Help arm of [react]: no value, nothing that [react_core]
    does before the action can fail on an empty occurrence *)
Definition bare_flag_ok (c : cmd) (a : arg) : bool :=
  negb (a_takes_value a) && is_nil (a_default_missing a) && negb (is_some (a_delim a))
  && (is_set s_ignore_errors c
      || match a_num a with
         | Some r => (vmin r =? 0) && match r_num_values r with Some n => n =? 0 | None => true end
         | None => false
         end).

(** [--help] / [-h] at level [c] is a help flag asking for mode [ul] *)
Definition long_help_at (c : cmd) (ul : bool) : bool :=
  negb (is_some (possible_subcommand c tok_help_long false))
  && match get_long c s_help with
     | Some a => bare_flag_ok c a && match help_mode false (a_get_action a) with Some m => Bool.eqb m ul | None => false end
     | None => false
     end.
Definition short_help_at (c : cmd) (ul : bool) : bool :=
  negb (is_some (possible_subcommand c tok_help_short false))
  && match get_short c 104 with
     | Some a => bare_flag_ok c a && match help_mode true (a_get_action a) with Some m => Bool.eqb m ul | None => false end
     | None => false
     end
  && match get_pos c 1 with Some a => negb (a_negnum a) && negb (a_hyphen a && negb (a_last a)) | None => true end.

(** the chain of subcommand names: the class, and the level it ends at *)
Fixpoint help_chain (c : cmd) (names : list bytes) : option cmd :=
  match names with
  | [] => if is_set s_ignore_errors c then None else Some c
  | n :: rest =>
      if utf8_valid n && negb (is_set s_infer_sub c) && negb (is_set s_ignore_errors c) then
        match find_subcommand c n with
        | Some sc =>
            if beq (c_name sc) s_help && negb (is_set s_disable_help_sub c) then None else
            match find_subcommand c (c_name sc) with
            | Some sc0 =>
                if beq (c_name sc0) (c_name sc) then
                  match build_subcommand c (c_name sc) with
                  | Some sc' => help_chain sc' rest
                  | None => None
                  end
                else None
            | None => None
            end
        | None => None
        end
      else None
  end.

(** the chain ends where [p_level_walk] (HelpLevel.v) ends *)
Lemma help_chain_level : forall names c lv, help_chain c names = Some lv -> p_level_walk c names = Some lv.
Proof.
  induction names as [|n rest IH]; intros c lv H; cbn [help_chain p_level_walk] in *.
  - destruct (is_set s_ignore_errors c); [discriminate|exact H].
  - destruct (utf8_valid n && negb (is_set s_infer_sub c) && negb (is_set s_ignore_errors c)); [|discriminate].
    destruct (find_subcommand c n) as [sc|]; [|discriminate].
    destruct (beq (c_name sc) s_help && negb (is_set s_disable_help_sub c)); [discriminate|].
    destruct (find_subcommand c (c_name sc)) as [sc0|]; [|discriminate].
    destruct (beq (c_name sc0) (c_name sc)); [|discriminate].
    destruct (build_subcommand c (c_name sc)) as [sc'|]; [|discriminate].
    apply IH. exact H.
Qed.

(** ---- the help flag at one level ---- *)
Lemma verify_num_args_bare c a st : bare_flag_ok c a = true -> verify_num_args c a [] st = ROk tt.
Proof.
  unfold bare_flag_ok, verify_num_args. intros H. apply andb_true_iff in H. destruct H as [_ H].
  destruct (is_set s_ignore_errors c); [reflexivity|]. cbn [orb] in H.
  destruct (a_num a) as [r|]; [|discriminate]. cbn [expect rbind length N.of_nat].
  apply andb_true_iff in H. destruct H as [H1 H2]. apply N.eqb_eq in H1. rewrite H1.
  change (0 <? 0) with false. cbn [andb].
  destruct (r_num_values r) as [n|].
  - apply N.eqb_eq in H2. subst n. reflexivity.
  - destruct (vmax r <? 0) eqn:E; [apply N.ltb_lt in E; exfalso; revert E; apply N.nlt_0_r|reflexivity].
Qed.

Lemma react_help c idn a st ul :
  mt_pending (mt st) = None -> bare_flag_ok c a = true ->
  help_mode (match idn with Some IShort => true | _ => false end) (a_get_action a) = Some ul ->
  react c idn SCmdLine a [] None st = RErr (help_err c ul) st.
Proof.
  intros Hp Hb Hm. unfold react, resolve_pending. rewrite Hp. cbn [rbind].
  unfold react_core. cbn [is_cmdline]. rewrite (verify_num_args_bare c a st Hb). cbn [rbind].
  unfold bare_flag_ok in Hb. apply andb_true_iff in Hb. destruct Hb as [Hb _].
  apply andb_true_iff in Hb. destruct Hb as [Hb Hd]. apply andb_true_iff in Hb. destruct Hb as [_ Hdm].
  rewrite Hdm. cbn [negb]. unfold delimit. destruct (a_delim a); [discriminate|]. cbn [expect rbind].
  unfold help_mode in Hm.
  destruct (a_get_action a); try discriminate; destruct idn as [[| |]|]; inversion Hm; reflexivity.
Qed.

Lemma eqb_true_eq a b : Bool.eqb a b = true -> a = b.
Proof. destruct a, b; intros H; try reflexivity; discriminate. Qed.

Lemma parse_loop_long_help c rest pos st ul :
  mt_pending (mt st) = None -> long_help_at c ul = true ->
  parse_loop c (tok_help_long :: rest) (mkL PSValuesDone pos false false) st = RErr (help_err c ul) st.
Proof.
  intros Hp H. unfold long_help_at in H. apply andb_true_iff in H. destruct H as [Hs H].
  destruct (possible_subcommand c tok_help_long false) eqn:Eps; [discriminate|]. clear Hs.
  destruct (get_long c s_help) as [a|] eqn:Eg; [|discriminate].
  apply andb_true_iff in H. destruct H as [Hb Hm].
  destruct (help_mode false (a_get_action a)) as [m|] eqn:Em; [|discriminate]. apply eqb_true_eq in Hm. subst m.
  pose proof Hb as Hb'. unfold bare_flag_ok in Hb'. apply andb_true_iff in Hb'. destruct Hb' as [Hb' _].
  apply andb_true_iff in Hb'. destruct Hb' as [Hb' _]. apply andb_true_iff in Hb'. destruct Hb' as [Htv _].
  apply negb_true_iff in Htv.
  assert (Hr : react c (Some ILong) SCmdLine a [] None st = RErr (help_err c ul) st)
    by (apply react_help; assumption).
  cbn [parse_loop l_trailing l_pst l_vaf l_pos]. rewrite orb_true_r. rewrite Eps.
  change (is_escape tok_help_long) with false. cbn iota.
  change (to_long tok_help_long) with (Some (s_help, true, @None bytes)). cbn iota beta.
  unfold parse_long_arg. cbn [state_arg rbind negb is_nil is_some andb]. cbn iota.
  change (is_nil s_help) with false. cbn [andb]. cbn iota.
  rewrite Eg, Htv, Hr. reflexivity.
Qed.

Lemma parse_loop_short_help c rest pos st ul :
  mt_pending (mt st) = None -> fs_skip st = 0 -> short_help_at c ul = true ->
  parse_loop c (tok_help_short :: rest) (mkL PSValuesDone pos false false) st = RErr (help_err c ul) st
  \/ pos <> 1.
Proof.
  intros Hp Hskip H. destruct (N.eq_dec pos 1) as [->|Hne]; [left|right; exact Hne].
  unfold short_help_at in H. apply andb_true_iff in H. destruct H as [H Hpos].
  apply andb_true_iff in H. destruct H as [Hs H].
  destruct (possible_subcommand c tok_help_short false) eqn:Eps; [discriminate|]. clear Hs.
  destruct (get_short c 104) as [a|] eqn:Eg; [|discriminate].
  apply andb_true_iff in H. destruct H as [Hb Hm].
  destruct (help_mode true (a_get_action a)) as [m|] eqn:Em; [|discriminate]. apply eqb_true_eq in Hm. subst m.
  pose proof Hb as Hb'. unfold bare_flag_ok in Hb'. apply andb_true_iff in Hb'. destruct Hb' as [Hb' _].
  apply andb_true_iff in Hb'. destruct Hb' as [Hb' _]. apply andb_true_iff in Hb'. destruct Hb' as [Htv _].
  assert (Est : st <| fs_skip := 0 |> = st) by (destruct st; cbn in Hskip; subst; reflexivity).
  assert (Hr : react c (Some IShort) SCmdLine a [] None st = RErr (help_err c ul) st)
    by (apply react_help; assumption).
  cbn [parse_loop l_trailing l_pst l_vaf l_pos]. rewrite orb_true_r. rewrite Eps.
  change (is_escape tok_help_short) with false. cbn iota.
  change (to_long tok_help_short) with (@None (bytes * bool * option bytes)). cbn iota.
  change (to_short tok_help_short) with (Some [104]). cbn iota beta.
  assert (Hpsa : parse_short_arg c [104] PSValuesDone 1 false st = RErr (help_err c ul) st).
  { unfold parse_short_arg. cbn [state_arg rbind]. cbn iota.
    change (sf_is_negative_number [104]) with false. rewrite !andb_false_r. cbn iota.
    assert (Hunk : (match get_pos c 1 with Some a0 => a_hyphen a0 && negb (a_last a0) | None => false end
                    && sf_any_unknown c (S (length [104])) [104]) = false).
    { destruct (get_pos c 1) as [p|]; [|reflexivity].
      apply andb_true_iff in Hpos. destruct Hpos as [_ Hh]. apply negb_true_iff in Hh. rewrite Hh. reflexivity. }
    rewrite Hunk. rewrite Hskip.
    change (N.to_nat (N.min 0 (N.of_nat (S (length [104]))))) with 0%nat.
    cbn [sf_advance_by expect rbind length]. rewrite Est. cbn [short_loop].
    change (sf_next [104]) with (Some (@inl N bytes 104, @nil N)). cbn iota beta.
    rewrite Eg, Htv, Hr. reflexivity. }
  rewrite Hpsa. reflexivity.
Qed.

(** ---- one level with fuel: the error passes [post] unchanged ---- *)
Lemma gmw_err_level f c toks st0 e st :
  is_set s_ignore_errors c = false ->
  parse_loop c toks (mkL PSValuesDone 1 false false) st0 = RErr e st ->
  get_matches_with (S f) c toks st0 = RErr e st.
Proof.
  intros Hi H. rewrite gmw_unfold. unfold parsed_of. rewrite H. cbn [rbind post]. rewrite Hi. reflexivity.
Qed.

Lemma valid_tree_child f c sc : valid_tree (S f) c = true -> In sc (c_subs c) ->
  exists sc', build_subcommand c (c_name sc) = Some sc' /\ valid_tree f sc' = true.
Proof.
  cbn [valid_tree]. intros H Hin. apply andb_true_iff in H. destruct H as [_ H].
  rewrite forallb_forall in H. specialize (H sc Hin).
  destruct (build_subcommand c (c_name sc)) as [sc'|]; [|discriminate]. eauto.
Qed.
Lemma valid_tree_app f c : valid_tree f c = true -> assert_app c = true.
Proof. destruct f; [discriminate|]. cbn [valid_tree]. intros H. apply andb_true_iff in H. apply H. Qed.

(** ---- the chain ---- *)
Section Chain.
Variable tok : bytes.
(** what the final level does with the help token (instantiated with [--help] and [-h] below) *)
Variable at_level : cmd -> bool -> bool.
Hypothesis at_level_spec : forall c rest ul, at_level c ul = true ->
  parse_loop c (tok :: rest) (mkL PSValuesDone 1 false false) ps_new = RErr (help_err c ul) ps_new.

Lemma gmw_help_chain : forall names f c lv ul rest,
  valid_tree f c = true -> help_chain c names = Some lv -> at_level lv ul = true ->
  get_matches_with f c (names ++ tok :: rest) ps_new = RErr (help_err lv ul) ps_new.
Proof.
  induction names as [|n more IH]; intros f c lv ul rest Hv Hc Hat.
  - cbn [help_chain] in Hc. destruct (is_set s_ignore_errors c) eqn:Hi; [discriminate|]. inversion Hc; subst lv.
    destruct f as [|f]; [discriminate|]. cbn [app].
    apply gmw_err_level; [exact Hi|]. apply at_level_spec. exact Hat.
  - cbn [help_chain] in Hc.
    destruct (utf8_valid n && negb (is_set s_infer_sub c) && negb (is_set s_ignore_errors c)) eqn:Hcls; [|discriminate].
    apply andb_true_iff in Hcls. destruct Hcls as [Hcls Hie]. apply andb_true_iff in Hcls. destruct Hcls as [Hu Hinf].
    apply negb_true_iff in Hie. apply negb_true_iff in Hinf.
    destruct (find_subcommand c n) as [sc|] eqn:Ef; [|discriminate].
    destruct (beq (c_name sc) s_help && negb (is_set s_disable_help_sub c)) eqn:Hh; [discriminate|].
    destruct (find_subcommand c (c_name sc)) as [sc0|] eqn:Ef0; [|discriminate].
    destruct (beq (c_name sc0) (c_name sc)) eqn:En; [|discriminate]. apply beq_eq in En.
    destruct (build_subcommand c (c_name sc)) as [sc'|] eqn:Eb; [|discriminate].
    destruct f as [|f]; [discriminate|].
    assert (Hin : In sc (c_subs c)) by (unfold find_subcommand in Ef; apply find_some in Ef; apply Ef).
    destruct (valid_tree_child f c sc Hv Hin) as [sc2 [Eb2 Hv2]]. rewrite Eb in Eb2. inversion Eb2; subst sc2.
    cbn [app]. rewrite gmw_unfold. unfold parsed_of.
    rewrite (dispatch_by_name c n (more ++ tok :: rest) 1 false ps_new sc Hu Hinf (andb_false_r _) Ef Hh).
    cbn [rbind]. unfold after_sub. rewrite andb_false_r. rewrite Ef0. cbn [expect rbind]. rewrite En, Eb.
    rewrite (valid_tree_app f sc' Hv2). cbn [negb]. cbn [sub_init].
    rewrite (IH f sc' lv ul rest Hv2 Hc Hat). rewrite Hie. cbn [post]. rewrite Hie. reflexivity.
Qed.

(** [_do_parse] / [try_get_matches_from]: the outcome is that level's DisplayHelp error *)
Theorem do_parse_help_chain c0 names rest lv ul :
  valid c0 = true -> help_chain (build_self c0) names = Some lv -> at_level lv ul = true ->
  do_parse c0 (names ++ tok :: rest) = OErr (help_err lv ul).
Proof.
  intros Hv Hc Hat. unfold do_parse. rewrite Hv. cbn [negb]. unfold valid in Hv. cbn zeta in Hv.
  rewrite (gmw_help_chain names _ (build_self c0) lv ul rest Hv Hc Hat).
  assert (Hi : is_set s_ignore_errors (build_self c0) = false).
  { destruct names as [|n more]; cbn [help_chain] in Hc.
    - destruct (is_set s_ignore_errors (build_self c0)); [discriminate|reflexivity].
    - destruct (is_set s_ignore_errors (build_self c0)); [|reflexivity]. rewrite !andb_false_r in Hc. discriminate. }
  rewrite Hi. reflexivity.
Qed.

Theorem parse_top_help_chain c0 bin names rest lv ul :
  is_set s_no_binary_name c0 = false -> c_bin_name c0 <> None ->
  valid c0 = true -> help_chain (build_self c0) names = Some lv -> at_level lv ul = true ->
  parse_top c0 (bin :: names ++ tok :: rest) = OErr (help_err lv ul)
  /\ p_level_walk (build_self c0) names = Some lv
  /\ e_kind (help_err lv ul) = EDisplayHelp /\ e_cmd (help_err lv ul) = opt_default [] (c_about lv)
  /\ e_long (help_err lv ul) = ul.
Proof.
  intros Hnb Hbin Hv Hc Hat. split; [|split; [apply help_chain_level; exact Hc|repeat split]].
  unfold parse_top. rewrite Hnb. destruct (c_bin_name c0) as [b|]; [|contradiction].
  apply do_parse_help_chain; assumption.
Qed.

End Chain.

Theorem help_flag_long_level c0 bin names rest lv ul :
  is_set s_no_binary_name c0 = false -> c_bin_name c0 <> None ->
  valid c0 = true -> help_chain (build_self c0) names = Some lv -> long_help_at lv ul = true ->
  parse_top c0 (bin :: names ++ tok_help_long :: rest) = OErr (help_err lv ul)
  /\ p_level_walk (build_self c0) names = Some lv
  /\ e_kind (help_err lv ul) = EDisplayHelp /\ e_cmd (help_err lv ul) = opt_default [] (c_about lv)
  /\ e_long (help_err lv ul) = ul.
Proof.
  apply (parse_top_help_chain tok_help_long long_help_at).
  intros c r u H. apply parse_loop_long_help; [reflexivity|exact H].
Qed.

Theorem help_flag_short_level c0 bin names rest lv ul :
  is_set s_no_binary_name c0 = false -> c_bin_name c0 <> None ->
  valid c0 = true -> help_chain (build_self c0) names = Some lv -> short_help_at lv ul = true ->
  parse_top c0 (bin :: names ++ tok_help_short :: rest) = OErr (help_err lv ul)
  /\ p_level_walk (build_self c0) names = Some lv
  /\ e_kind (help_err lv ul) = EDisplayHelp /\ e_cmd (help_err lv ul) = opt_default [] (c_about lv)
  /\ e_long (help_err lv ul) = ul.
Proof.
  apply (parse_top_help_chain tok_help_short short_help_at).
  intros c r u H. destruct (parse_loop_short_help c r 1 ps_new u eq_refl eq_refl H) as [E|E]; [exact E|contradiction].
Qed.

(** ---- non-vacuity: a three-level command; the chain goes through an alias ---- *)
Definition hd_leaf : cmd := (cmd_new [116]) <| c_about := Some [116; 45; 97; 98] |> <| c_long_about := Some [76] |>
  <| c_args := [(arg_new [120]) <| a_long := Some [120] |> <| a_action := Some ASetTrue |>] |>.
Definition hd_mid : cmd := (cmd_new [115]) <| c_about := Some [115; 45; 97; 98] |> <| c_aliases := [([115; 50], false)] |>
  <| c_subs := [hd_leaf] |>
  <| c_args := [(arg_new [112]) <| a_index := Some 1 |> <| a_action := Some ASet |>] |>.
Definition hd_root : cmd := (cmd_new [112]) <| c_bin_name := Some [112] |> <| c_about := Some [114] |>
  <| c_subs := [hd_mid; (cmd_new [117])] |>.
Definition hd_names : list bytes := [[115; 50]; [116]].

Example hd_hyps :
  is_set s_no_binary_name hd_root = false /\ c_bin_name hd_root <> None /\ valid hd_root = true
  /\ exists lv, help_chain (build_self hd_root) hd_names = Some lv /\ c_about lv = Some [116; 45; 97; 98]
                /\ long_help_at lv true = true /\ short_help_at lv false = true
                /\ parse_top hd_root ([112] :: hd_names ++ tok_help_long :: [[45; 45; 98; 111; 103; 117; 115]])
                   = OErr (help_err lv true)
                /\ parse_top hd_root ([112] :: hd_names ++ tok_help_short :: []) = OErr (help_err lv false).
Proof.
  split; [reflexivity|]. split; [discriminate|]. split; [vm_compute; reflexivity|].
  destruct (help_chain (build_self hd_root) hd_names) as [lv|] eqn:E; [|vm_compute in E; discriminate].
  exists lv. split; [reflexivity|].
  vm_compute in E. inversion E; subst lv. clear E. vm_compute. repeat split.
Qed.
