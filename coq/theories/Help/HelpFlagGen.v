(** C12, round 3: the generated [-h] / [--help] of a level IS a help flag of that level.

    [long_help_at] / [short_help_at] (HelpDispatch.v) were hypotheses of the help-flag theorems.  Here they are
    derived: when the level contains the generated help argument ([built_help_arg], what [_check_help_and_version]
    adds and [_build] completes -- i.e. the help flag is not disabled there) and no subcommand answers to the
    token, the uniqueness of long / short keys that the validity gate establishes ([assert_app], C08's
    [assert_app_long_unique] / [assert_app_short_unique]) makes [get_long "help"] / [get_short 'h'] resolve to
    that argument, whose bare occurrence reaches the Help arm of [react].  [assert_app] of the level at the end
    of the chain comes out of [valid c0].  The side condition on subcommand names is necessary: a subcommand may
    be NAMED [--help]. *)
From Coq Require Import List Bool Lia.
Import ListNotations.
From ClapModel Require Import Base.Bytes Base.Machine Base.Utf8.
From ClapModel Require Import Parse.Cmd Parse.Build Parse.Valid Parse.Matcher Parse.Errors Parse.Validator Parse.Parser.
From ClapModel Require Import ParseProofs.Spelling ParseProofs.Dispatch Help.HelpLevel Help.HelpDispatch.
From RecordUpdate Require Import RecordSet.
Import RecordSetNotations.
Open Scope N_scope.

(** the generated help argument after [Arg::_build] *)
Definition built_help_arg : arg := arg_build help_arg.

Lemma built_help_bare c : bare_flag_ok c built_help_arg = true.
Proof.
  unfold bare_flag_ok.
  change (a_takes_value built_help_arg) with false. change (a_default_missing built_help_arg) with (@nil bytes).
  change (a_delim built_help_arg) with (@None N). cbn [negb is_nil is_some andb].
  change (a_num built_help_arg) with (Some {| vmin := 0; vmax := 0 |}). cbn. apply orb_true_r.
Qed.

Lemma gen_long_help_at lv :
  assert_app lv = true -> In built_help_arg (c_args lv) ->
  possible_subcommand lv tok_help_long false = None -> long_help_at lv true = true.
Proof.
  intros V Hin Hp. unfold long_help_at. rewrite Hp. cbn [is_some negb andb].
  rewrite (get_long_names lv built_help_arg s_help (assert_app_long_unique lv V) Hin eq_refl (or_introl eq_refl)).
  rewrite built_help_bare. reflexivity.
Qed.

Lemma gen_short_help_at lv :
  assert_app lv = true -> In built_help_arg (c_args lv) ->
  possible_subcommand lv tok_help_short false = None ->
  match get_pos lv 1 with Some a => negb (a_negnum a) && negb (a_hyphen a && negb (a_last a)) | None => true end = true ->
  short_help_at lv false = true.
Proof.
  intros V Hin Hp Hpos. unfold short_help_at. rewrite Hp. cbn [is_some negb andb].
  rewrite (get_short_names lv built_help_arg 104 (assert_app_short_unique lv V) Hin eq_refl (or_introl eq_refl)).
  rewrite built_help_bare. rewrite Hpos. reflexivity.
Qed.

(** every level a chain reaches from a valid tree passes [assert_app] *)
Lemma help_chain_assert_app : forall names f c lv,
  valid_tree f c = true -> help_chain c names = Some lv -> assert_app lv = true.
Proof.
  induction names as [|n more IH]; intros f c lv Hv Hc; cbn [help_chain] in Hc.
  - destruct (is_set s_ignore_errors c); [discriminate|]. inversion Hc; subst lv. apply (valid_tree_app f c Hv).
  - destruct (utf8_valid n && negb (is_set s_infer_sub c) && negb (is_set s_ignore_errors c)); [|discriminate].
    destruct (find_subcommand c n) as [sc|] eqn:Ef; [|discriminate].
    destruct (beq (c_name sc) s_help && negb (is_set s_disable_help_sub c)); [discriminate|].
    destruct (find_subcommand c (c_name sc)) as [sc0|]; [|discriminate].
    destruct (beq (c_name sc0) (c_name sc)); [|discriminate].
    destruct (build_subcommand c (c_name sc)) as [sc'|] eqn:Eb; [|discriminate].
    destruct f as [|f]; [discriminate|].
    assert (Hin : In sc (c_subs c)) by (unfold find_subcommand in Ef; apply find_some in Ef; apply Ef).
    destruct (valid_tree_child f c sc Hv Hin) as [sc2 [Eb2 Hv2]]. rewrite Eb in Eb2. inversion Eb2; subst sc2.
    apply (IH f sc' lv Hv2 Hc).
Qed.

(** C12_help_flag_long_level_gen: no [long_help_at] hypothesis *)
Theorem help_flag_long_level_gen c0 bin names rest lv :
  is_set s_no_binary_name c0 = false -> c_bin_name c0 <> None ->
  valid c0 = true -> help_chain (build_self c0) names = Some lv ->
  In built_help_arg (c_args lv) -> possible_subcommand lv tok_help_long false = None ->
  parse_top c0 (bin :: names ++ tok_help_long :: rest) = OErr (help_err lv true)
  /\ p_level_walk (build_self c0) names = Some lv
  /\ e_kind (help_err lv true) = EDisplayHelp /\ e_cmd (help_err lv true) = opt_default [] (c_about lv)
  /\ e_long (help_err lv true) = true.
Proof.
  intros Hnb Hbin Hv Hc Hin Hp. apply help_flag_long_level; try assumption.
  apply gen_long_help_at; [|exact Hin|exact Hp].
  unfold valid in Hv. cbn zeta in Hv. apply (help_chain_assert_app names _ (build_self c0) lv Hv Hc).
Qed.

Theorem help_flag_short_level_gen c0 bin names rest lv :
  is_set s_no_binary_name c0 = false -> c_bin_name c0 <> None ->
  valid c0 = true -> help_chain (build_self c0) names = Some lv ->
  In built_help_arg (c_args lv) -> possible_subcommand lv tok_help_short false = None ->
  match get_pos lv 1 with Some a => negb (a_negnum a) && negb (a_hyphen a && negb (a_last a)) | None => true end = true ->
  parse_top c0 (bin :: names ++ tok_help_short :: rest) = OErr (help_err lv false)
  /\ p_level_walk (build_self c0) names = Some lv
  /\ e_kind (help_err lv false) = EDisplayHelp /\ e_cmd (help_err lv false) = opt_default [] (c_about lv)
  /\ e_long (help_err lv false) = false.
Proof.
  intros Hnb Hbin Hv Hc Hin Hp Hpos. apply help_flag_short_level; try assumption.
  apply gen_short_help_at; [|exact Hin|exact Hp|exact Hpos].
  unfold valid in Hv. cbn zeta in Hv. apply (help_chain_assert_app names _ (build_self c0) lv Hv Hc).
Qed.

(** non-vacuity on the three-level example of HelpDispatch.v *)
Example hd_gen_hyps :
  exists lv, help_chain (build_self hd_root) hd_names = Some lv
    /\ In built_help_arg (c_args lv)
    /\ possible_subcommand lv tok_help_long false = None /\ possible_subcommand lv tok_help_short false = None
    /\ match get_pos lv 1 with Some a => negb (a_negnum a) && negb (a_hyphen a && negb (a_last a)) | None => true end = true.
Proof.
  destruct hd_hyps as [_ [_ [_ [lv [Hc _]]]]]. exists lv. split; [exact Hc|].
  vm_compute in Hc. inversion Hc; subst lv. clear Hc.
  split; [vm_compute; tauto|]. repeat split; vm_compute; reflexivity.
Qed.

(** ---- the build puts [built_help_arg] into every level whose help flag is not disabled ---- *)
Lemma build_args_has a : a_is_positional (arg_build a) = false -> forall l g n,
  In a l -> In (arg_build a) (fst (build_args l g n)).
Proof.
  intros Hp. induction l as [|x t IH]; intros g n Hin; [destruct Hin|]. cbn [build_args].
  destruct (a_is_positional (arg_build x) && negb (is_some (a_index (arg_build x)))) eqn:E.
  - destruct (build_args t (add_arg_to_groups (a_id x) (a_groups x) g) (n + 1)) as [t' g'] eqn:Eb. cbn [fst].
    destruct Hin as [Hin|Hin].
    + subst x. rewrite Hp in E. discriminate.
    + right. specialize (IH (add_arg_to_groups (a_id x) (a_groups x) g) (n + 1) Hin). rewrite Eb in IH. exact IH.
  - destruct (build_args t (add_arg_to_groups (a_id x) (a_groups x) g) n) as [t' g'] eqn:Eb. cbn [fst].
    destruct Hin as [Hin|Hin].
    + subst x. left. reflexivity.
    + right. specialize (IH (add_arg_to_groups (a_id x) (a_groups x) g) n Hin). rewrite Eb in IH. exact IH.
Qed.

Lemma deprecated_built_help c h : bs_deprecated_arg c h built_help_arg = built_help_arg.
Proof.
  unfold bs_deprecated_arg. change (a_takes_value built_help_arg) with false. rewrite ?andb_false_r.
  change (a_index built_help_arg) with (@None N). rewrite ?andb_false_r. reflexivity.
Qed.

Lemma c_args_mark y : c_args (bs_mark y) = c_args y.
Proof. destruct y; reflexivity. Qed.
Lemma c_args_deprecated y :
  c_args (bs_deprecated y)
  = map (bs_deprecated_arg y (fold_left (fun m a => match a_index a with Some n => N.max m n | None => m end) (c_args y) 0)) (c_args y).
Proof. destruct y; reflexivity. Qed.
Lemma c_args_bs_args y : c_args (bs_args y) = fst (build_args (c_args y) (c_groups y) 1).
Proof. destruct y; reflexivity. Qed.
Lemma c_args_globals y : c_args (bs_globals y) = c_args y.
Proof. destruct y; reflexivity. Qed.
Lemma help_version_has x : is_set s_disable_help_flag x = false -> In help_arg (c_args (bs_help_version x)).
Proof.
  intros Hd. unfold bs_help_version. rewrite Hd. cbn [negb].
  set (x1 := x <| c_args := c_args x ++ [help_arg] |>).
  assert (H1 : In help_arg (c_args x1)) by (unfold x1; destruct x; cbn; apply in_or_app; right; left; reflexivity).
  clearbody x1.
  set (x2 := if negb (is_disable_version_flag_set x1) then x1 <| c_args := c_args x1 ++ [version_arg] |> else x1).
  assert (H2 : In help_arg (c_args x2)).
  { unfold x2. destruct (negb (is_disable_version_flag_set x1)); [|exact H1]. destruct x1; cbn in *. apply in_or_app. left. exact H1. }
  clearbody x2. destruct (negb (is_set s_disable_help_sub x2)); [|exact H2]. destruct x2; cbn in *. exact H2.
Qed.

(** C12_build_has_help: [x] is the command after the settings / propagation blocks of [_build_self] *)
Lemma has_help_core x : is_set s_disable_help_flag x = false ->
  In built_help_arg (c_args (bs_mark (bs_deprecated (bs_args (bs_globals (bs_help_version x)))))).
Proof.
  intros Hd. rewrite c_args_mark, c_args_deprecated. apply in_map_iff. exists built_help_arg.
  split; [apply deprecated_built_help|]. rewrite c_args_bs_args, c_args_globals.
  apply (build_args_has help_arg eq_refl). apply help_version_has. exact Hd.
Qed.

Theorem build_self_has_help c :
  s_built (c_set c) = false -> is_set s_disable_help_flag (bs_propagate (bs_settings c)) = false ->
  In built_help_arg (c_args (build_self c)).
Proof. intros Hb Hd. unfold build_self. rewrite Hb. apply has_help_core. exact Hd. Qed.
