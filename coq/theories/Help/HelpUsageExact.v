(** C12, fourth pass: [C12_usage_hides_hidden] at the boundary of the recorded finding
    [C12-usage-hidden-group-member].

    The round-3 statement says "a hidden argument has no piece OF ITS OWN" under [req_srcb = false] (named by no rule at
    all).  Here the conclusion is "is MENTIONED by no piece" -- neither a piece of its own nor inside the [<a|b>] text of
    a group piece, whose text [format_group] builds from [unroll_args_in_group] -- and the class is exact on both sides:
      (R) the id is not in the unrolled requirement closure [usage_reqs] (= not required, not reached from a required
          argument / required group through unconditional [requires] rules), and
      (G) the id is a member of no LISTED group ([usage_members]: the members of the groups among the requirements).
    Dropping (G) is the recorded finding ([hidden_listed_member_mentioned]: `p <--a|--z>`), dropping (R) prints the
    argument on its own ([hidden_required_target_mentioned]: `p --r --z`); both witnesses satisfy every other
    hypothesis of the theorem.  Both values of [force_optional]. *)
From ClapModel Require Import Base.Bytes Base.Machine Parse.Cmd Parse.Matcher Parse.Errors Parse.Validator ParseProofs.Relations.
From ClapModel Require Import Gen.HelpTables Help.UsageModel Help.HelpModel Help.HelpReqs Help.HelpProofs Help.HelpUsage.
From Coq Require Import Lia.
From RecordUpdate Require Import RecordSet.
Import RecordSetNotations.
Open Scope N_scope.

(** the piece [x] = (id, text) mentions the argument id [i]: it is that argument's piece, or the piece of a group
    whose unrolled members (what [format_group] prints) contain [i] *)
Definition mentions (c : hcmd) (x : bytes * bytes) (i : id) : Prop :=
  fst x = i
  \/ (is_some (find_group (pcmd_of c) (fst x)) = true
      /\ exists m, unroll_args_in_group (pcmd_of c) (fst x) = Some m /\ In i m).

Lemma listed_group_members c g m i :
  args_ok c -> refs_ok c = true -> In g (usage_reqs c) -> is_some (find_group (pcmd_of c) g) = true ->
  unroll_args_in_group (pcmd_of c) g = Some m -> In i m -> mem_id i (usage_members c) = true.
Proof.
  intros Hok Hrefs Hg Hfg Hm Hi.
  assert (W : rel_wf (pcmd_of c) = true).
  { unfold refs_ok in Hrefs. apply andb_true_iff in Hrefs. destruct Hrefs as [H _]. apply andb_true_iff in H. apply H. }
  assert (Hex : forall x, In x (usage_reqs c) -> id_exists (pcmd_of c) x = true) by (intros x; apply usage_reqs_exist; exact Hrefs).
  destruct (req_groups_spec c (usage_reqs c) [] [] Hok W Hex) as [gm [Hgm [_ [_ [_ [_ R5]]]]]].
  rewrite (usage_members_eq c gm Hgm). apply mem_id_In. exact (R5 g m Hg Hfg Hm i Hi).
Qed.

Lemma same_id_same_arg c a b : NoDup (map ha_id (hc_args c)) -> In a (hc_args c) -> In b (hc_args c) -> ha_id b = ha_id a -> b = a.
Proof.
  intros Hnd Ha Hb Eid. induction (hc_args c) as [|y t IH]; [destruct Ha|].
  cbn [map] in Hnd. inversion Hnd as [|? ? Hy Ht]; subst.
  destruct Ha as [Ha|Ha], Hb as [Hb|Hb].
  - congruence.
  - subst y. exfalso. apply Hy. rewrite <- Eid. apply in_map. exact Hb.
  - subst y. exfalso. apply Hy. rewrite Eid. apply in_map. exact Ha.
  - apply IH; assumption.
Qed.

(** no argument id is also a group id (debug_asserts.rs: "Argument group name must not conflict with argument name") *)
Definition ids_disjoint (c : hcmd) : bool :=
  forallb (fun b => negb (is_some (find_group (pcmd_of c) (ha_id b)))) (hc_args c).

(** C12_usage_hides_hidden_exact *)
Theorem usage_hides_hidden_exact c fo items a :
  NoDup (map ha_id (hc_args c)) -> ids_disjoint c = true -> args_ok c -> refs_ok c = true -> usage_arg_items c fo = Some items ->
  In a (hc_args c) -> ha_hide a = true ->
  ~ In (ha_id a) (usage_reqs c) -> mem_id (ha_id a) (usage_members c) = false ->
  forall x, In x items -> ~ mentions c x (ha_id a).
Proof.
  intros Hnd Hdis Hok Hrefs E Ha Hh Hr Hg x Hx Hm.
  destruct (usage_arg_items_spec c fo Hok Hrefs) as [items' [E' Hsrc]]. rewrite E in E'. inversion E'; subst items'.
  destruct (Hsrc x Hx) as [[b [Hb [Eid [_ Hcase]]]]|[Hfg [Hin _]]].
  - destruct Hm as [Ex|[Hfg [m [Hu Hi]]]].
    + rewrite Ex in Eid. pose proof (same_id_same_arg c a b Hnd Ha Hb Eid). subst b.
      destruct Hcase as [Hc|[_ Hc]]; [|congruence]. apply Hr. rewrite <- Ex. exact Hc.
    + (* an argument's piece is no group's piece: ids are disjoint *)
      unfold ids_disjoint in Hdis. rewrite forallb_forall in Hdis. specialize (Hdis b Hb).
      rewrite Eid, Hfg in Hdis. discriminate.
  - destruct Hm as [Ex|[_ [m [Hu Hi]]]].
    + apply Hr. rewrite <- Ex. exact Hin.
    + pose proof (listed_group_members c (fst x) m (ha_id a) Hok Hrefs Hin Hfg Hu Hi) as Hl. congruence.
Qed.

Lemma not_in_of_mem i l : mem_id i l = false -> ~ In i l.
Proof. intros H Hin. apply mem_id_In in Hin. rewrite Hin in H. discriminate. Qed.

(** the class in the round-3 wording is inside the exact one on the requirement side *)
Lemma req_srcb_not_in_reqs c i : req_srcb c i = false -> ~ In i (usage_reqs c).
Proof. intros H Hin. exact (req_srcb_false c i H (usage_reqs_src c i Hin)). Qed.

(** non-vacuity on [rq_built] (HelpUsage.v): `--z` (hidden flag, named by no rule, no member) and `l` (hidden optional
    [last] positional) satisfy the hypotheses, in both forms *)
Example exact_hyps :
  NoDup (map ha_id (hc_args rq_built)) /\ ids_disjoint rq_built = true /\ args_ok rq_built /\ refs_ok rq_built = true
  /\ (exists items, usage_arg_items rq_built false = Some items) /\ (exists items, usage_arg_items rq_built true = Some items)
  /\ In (rq_arg 4) (hc_args rq_built) /\ ha_hide (rq_arg 4) = true
  /\ ~ In (ha_id (rq_arg 4)) (usage_reqs rq_built) /\ mem_id (ha_id (rq_arg 4)) (usage_members rq_built) = false
  /\ In (rq_arg 6) (hc_args rq_built) /\ ha_hide (rq_arg 6) = true /\ ha_last (rq_arg 6) = true
  /\ ~ In (ha_id (rq_arg 6)) (usage_reqs rq_built) /\ mem_id (ha_id (rq_arg 6)) (usage_members rq_built) = false.
Proof.
  destruct rq_hyps as [H1 [H2 [H3 _]]].
  split; [exact H1|]. split; [vm_compute; reflexivity|]. split; [exact H2|]. split; [exact H3|].
  split; [eexists; vm_compute; reflexivity|]. split; [eexists; vm_compute; reflexivity|].
  split; [vm_compute; tauto|]. split; [reflexivity|].
  split; [apply not_in_of_mem; vm_compute; reflexivity|]. split; [vm_compute; reflexivity|].
  split; [vm_compute; tauto|]. split; [reflexivity|]. split; [reflexivity|].
  split; [apply not_in_of_mem; vm_compute; reflexivity|]. vm_compute; reflexivity.
Qed.

(** ---- the two sides of the boundary ---- *)

(** (G) dropped -- the recorded finding: `--z` hidden, optional, NOT among the requirements, but a member of the listed
    (required) group [g]: the group's piece `<--a|--z>` mentions it *)
Definition hg_built : hcmd := Eval vm_compute in h_build_self hg_cmd.
Example hidden_listed_member_mentioned :
  exists a items x,
    NoDup (map ha_id (hc_args hg_built)) /\ ids_disjoint hg_built = true /\ args_ok hg_built /\ refs_ok hg_built = true
    /\ usage_arg_items hg_built false = Some items
    /\ In a (hc_args hg_built) /\ ha_hide a = true /\ ha_required a = false /\ ha_long a = Some [122]
    /\ ~ In (ha_id a) (usage_reqs hg_built)
    /\ mem_id (ha_id a) (usage_members hg_built) = true
    /\ In x items /\ mentions hg_built x (ha_id a) /\ snd x = [60; 45; 45; 97; 124; 45; 45; 122; 62].
Proof.
  exists (nth 1 (hc_args hg_built) (harg_new [] ASet)).
  destruct (usage_arg_items hg_built false) as [items|] eqn:E; [|vm_compute in E; discriminate].
  exists items, ([103], [60; 45; 45; 97; 124; 45; 45; 122; 62]).
  split; [vm_compute; repeat constructor; cbn; intuition discriminate|].
  split; [vm_compute; reflexivity|].
  split; [apply args_okb_sound; vm_compute; reflexivity|].
  split; [vm_compute; reflexivity|]. split; [reflexivity|].
  split; [vm_compute; tauto|]. split; [reflexivity|]. split; [reflexivity|]. split; [reflexivity|].
  split; [apply not_in_of_mem; vm_compute; reflexivity|]. split; [vm_compute; reflexivity|].
  vm_compute in E. inversion E; subst items. clear E.
  split; [left; reflexivity|]. split; [|reflexivity].
  right. split; [vm_compute; reflexivity|]. eexists. split; [vm_compute; reflexivity|]. cbn. tauto.
Qed.

(** (R) dropped: `--z` hidden, optional ([required] off), member of no group, but the target of an unconditional
    [requires] rule of the required `--r`: it is among the requirements and gets a piece of its own, `p --z --r <r>` *)
Definition rt_cmd : hcmd :=
  cmd_with (hcmd_new [112])
    [ (harg_new [114] ASet) <| ha_long := Some [114] |> <| ha_required := true |> <| ha_requires := [(PIsPresent, [122])] |>;
      (harg_new [122] ASetTrue) <| ha_long := Some [122] |> <| ha_hide := true |> ]
    [].
Definition rt_built : hcmd := Eval vm_compute in h_build_self rt_cmd.
Example hidden_required_target_mentioned :
  exists a items x,
    NoDup (map ha_id (hc_args rt_built)) /\ ids_disjoint rt_built = true /\ args_ok rt_built /\ refs_ok rt_built = true
    /\ usage_arg_items rt_built false = Some items
    /\ In a (hc_args rt_built) /\ ha_hide a = true /\ ha_required a = false /\ ha_long a = Some [122]
    /\ In (ha_id a) (usage_reqs rt_built)
    /\ mem_id (ha_id a) (usage_members rt_built) = false
    /\ In x items /\ mentions rt_built x (ha_id a) /\ snd x = [45; 45; 122]
    /\ usage_pieces rt_built = Some [[112]; [45; 45; 122]; [45; 45; 114; 32; 60; 114; 62]].
Proof.
  exists (nth 1 (hc_args rt_built) (harg_new [] ASet)).
  destruct (usage_arg_items rt_built false) as [items|] eqn:E; [|vm_compute in E; discriminate].
  exists items, ([122], [45; 45; 122]).
  split; [vm_compute; repeat constructor; cbn; intuition discriminate|].
  split; [vm_compute; reflexivity|].
  split; [apply args_okb_sound; vm_compute; reflexivity|].
  split; [vm_compute; reflexivity|]. split; [reflexivity|].
  split; [vm_compute; tauto|]. split; [reflexivity|]. split; [reflexivity|]. split; [reflexivity|].
  split; [apply mem_id_In; vm_compute; reflexivity|]. split; [vm_compute; reflexivity|].
  vm_compute in E. inversion E; subst items. clear E.
  split; [cbn; tauto|]. split; [left; reflexivity|]. split; [reflexivity|]. vm_compute. reflexivity.
Qed.
