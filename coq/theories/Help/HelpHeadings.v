(** C12, round 3: [Command::next_help_heading] (the heading part of [arg_internal]) and
    [Command::subcommand_help_heading]. *)
From ClapModel Require Import Base.Bytes Base.Machine Parse.Cmd Gen.HelpTables Help.UsageModel Help.HelpModel Help.HelpReqs Help.HelpProofs.
From RecordUpdate Require Import RecordSet.
Import RecordSetNotations.
Open Scope N_scope.

(** no [next_help_heading] call among these builder calls *)
Definition only_args (l : list bitem) : Prop := forall x, In x l -> exists b, x = BArg b.

Lemma apply_headings_app pre : forall post current,
  exists current', forall x, In x (apply_headings post current') -> In x (apply_headings (pre ++ post) current).
Proof.
  induction pre as [|i t IH]; intros post current; cbn [app apply_headings].
  - exists current. auto.
  - destruct i as [a|h].
    + destruct (IH post current) as [c' H]. exists c'. intros x Hx. right. apply H. exact Hx.
    + apply IH.
Qed.

Lemma apply_headings_mid mid : forall a post h, only_args mid -> ha_heading a = None ->
  In (a <| ha_heading := h |>) (apply_headings (mid ++ BArg a :: post) h).
Proof.
  induction mid as [|i t IH]; intros a post h Hm Ha; cbn [app apply_headings].
  - rewrite Ha. cbn [is_some]. left. reflexivity.
  - destruct (Hm i (or_introl eq_refl)) as [b ->]. right. apply IH; [|exact Ha].
    intros x Hx. apply Hm. right. exact Hx.
Qed.

(** an argument without a heading of its own, added after [next_help_heading(h)] with no other
    [next_help_heading] call in between, carries the heading [h] (whatever was called before) *)
Theorem next_heading_applies pre h mid a post current :
  only_args mid -> ha_heading a = None ->
  In (a <| ha_heading := h |>) (apply_headings (pre ++ BNextHeading h :: mid ++ BArg a :: post) current).
Proof.
  intros Hm Ha. destruct (apply_headings_app pre (BNextHeading h :: mid ++ BArg a :: post) current) as [c' H].
  apply H. cbn [apply_headings]. apply apply_headings_mid; assumption.
Qed.

(** an argument with a heading of its own keeps it *)
Theorem own_heading_wins pre a post current g :
  ha_heading a = Some g -> In a (apply_headings (pre ++ BArg a :: post) current).
Proof.
  intros Ha. destruct (apply_headings_app pre (BArg a :: post) current) as [c' H]. apply H.
  cbn [apply_headings]. rewrite Ha. cbn [is_some]. left. reflexivity.
Qed.

(** the build keeps the heading, and the section an argument is listed in ([C12_lists_visible_args]) is
    titled by it *)
Lemma section_title_heading a h : ha_heading a = Some h -> arg_section_title a = h.
Proof. unfold arg_section_title. intros ->. reflexivity. Qed.

(** non-vacuity, end to end: [--a], next_help_heading("N"), [--b], [--c] with its own heading "H",
    next_help_heading(None), [--d]; subcommand_help_heading("S") *)
Definition nh_cmd : hcmd :=
  cmd_with_items ((hcmd_new [112]) <| hc_sub_heading := Some [83] |>)
    [ BArg ((harg_new [97] ASetTrue) <| ha_long := Some [97] |>);
      BNextHeading (Some [78]);
      BArg ((harg_new [98] ASetTrue) <| ha_long := Some [98] |>);
      BArg ((harg_new [99] ASetTrue) <| ha_long := Some [99] |> <| ha_heading := Some [72] |>);
      BNextHeading None;
      BArg ((harg_new [100] ASetTrue) <| ha_long := Some [100] |>) ]
    [ hcmd_new [115] ].
Example nh_renders :
  match render_help len nh_cmd false 80 with
  | Some s => map (fun sec => (s_title sec, map r_id (s_rows sec))) (scr_sections s)
  | None => []
  end
  = [ ([83], [[115]; s_help]); (s_options, [[97]; [100]; s_help]); ([78], [[98]]); ([72], [[99]]) ].
Proof. vm_compute. reflexivity. Qed.
