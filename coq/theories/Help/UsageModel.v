(** Help area (C12), part 1: the command data the help writer reads, the build step as far as
    help depends on it, the rendering of one argument ([Arg::stylized], [stylize_arg_suffix],
    [render_arg_val]) and the usage line ([Usage::write_help_usage], [write_arg_usage],
    [write_args], [needs_options_tag], [get_required_usage_from]).

    Sources: clap_builder/src/builder/{arg.rs, command.rs, possible_value.rs},
    clap_builder/src/output/usage.rs.  One definition per Rust function, same branch structure.
    A Rust panic site ([expect], [unwrap], [debug_assert!], unsigned subtraction, a run-time
    format width above the [u16] limit) is the result [None].

    Domain (what the generators produce, see docs/notes/C12.md): no [flatten_help], no usage
    override, plain styles, names in ASCII (a short flag is one byte; "columns" reported by
    the harness are characters).  Round 3: argument groups and [requires] rules are part of the
    model; the functions of command.rs that walk them ([required_graph], [unroll_arg_requires],
    [unroll_args_in_group], [find_group], [groups_for_arg]) are the ones of the parser model
    (Parse/Validator.v, Parse/Cmd.v), applied to the view [pcmd_of] of a help command. *)
From ClapModel Require Import Base.Bytes Base.Machine Parse.Cmd Parse.Matcher Parse.Errors Parse.Validator Gen.HelpTables.
From RecordUpdate Require Import RecordSet.
Import RecordSetNotations.
Open Scope N_scope.

(** the option monad: [None] = panic *)
Notation "'dO' x <- r ; k" := (match r with Some x => k | None => None end)
  (at level 200, x pattern, r at level 100, k at level 200).

Fixpoint map_opt {A B} (f : A -> option B) (l : list A) : option (list B) :=
  match l with
  | [] => Some []
  | a :: t => dO b <- f a; dO r <- map_opt f t; Some (b :: r)
  end.

Definition len (s : bytes) : N := N.of_nat (length s).

(** ---- records ---- *)
Record hpv := mkPv { pv_name : bytes; pv_help : option bytes; pv_hide : bool }.

Record harg := mkHArg {
  ha_id : bytes;
  ha_short : option N; ha_long : option bytes;
  ha_action : action;
  ha_num : option vrange;
  ha_valnames : list bytes;
  ha_index : option N;
  ha_required : bool; ha_last : bool; ha_req_eq : bool;
  ha_help : option bytes; ha_long_help : option bytes;
  ha_heading : option bytes;
  ha_disp_ord : option N;
  ha_hide : bool; ha_hide_short : bool; ha_hide_long : bool;
  ha_next_line : bool; ha_hide_pv : bool;
  ha_pvs : list hpv;
  (* what [spec_vals] prints besides the possible values *)
  ha_env : option (bytes * option bytes);       (* [Arg::env]: name, value read when the builder ran *)
  ha_hide_env : bool; ha_hide_env_values : bool;
  ha_defaults : list bytes; ha_hide_default : bool;
  ha_aliases : list (bytes * bool);             (* (name, visible) *)
  ha_short_aliases : list (N * bool);
  ha_global : bool;                             (* [Arg::global]: copied into every subcommand by the build *)
  ha_requires : list (pred * bytes)             (* [Arg::requires] / [requires_if]: (predicate, id of an arg or group) *)
}.
#[export] Instance eta_harg : Settable _ := settable! mkHArg
  <ha_id; ha_short; ha_long; ha_action; ha_num; ha_valnames; ha_index; ha_required; ha_last; ha_req_eq;
   ha_help; ha_long_help; ha_heading; ha_disp_ord; ha_hide; ha_hide_short; ha_hide_long; ha_next_line;
   ha_hide_pv; ha_pvs; ha_env; ha_hide_env; ha_hide_env_values; ha_defaults; ha_hide_default; ha_aliases;
   ha_short_aliases; ha_global; ha_requires>.
Definition harg_new (i : bytes) (act : action) : harg :=
  mkHArg i None None act None [] None false false false None None None None false false false false false []
         None false false [] false [] [] false [].

(** the four global settings the help path reads ([Command::next_line_help], [disable_help_flag],
    [disable_version_flag], [disable_help_subcommand] all go through [global_setting]) *)
Record hset := mkHSet { hs_next_line : bool; hs_no_help_flag : bool; hs_no_version_flag : bool; hs_no_help_sub : bool }.
#[export] Instance eta_hset : Settable _ := settable! mkHSet <hs_next_line; hs_no_help_flag; hs_no_version_flag; hs_no_help_sub>.
Definition hset_none := mkHSet false false false false.
Definition hset_or (a b : hset) :=
  mkHSet (hs_next_line a || hs_next_line b) (hs_no_help_flag a || hs_no_help_flag b)
         (hs_no_version_flag a || hs_no_version_flag b) (hs_no_help_sub a || hs_no_help_sub b).

Inductive hcmd := mkHCmd {
  hc_name : bytes; hc_about : option bytes; hc_long_about : option bytes;
  hc_short_flag : option N; hc_long_flag : option bytes;
  hc_disp_ord : option N; hc_hide : bool;
  hc_version : bool;                      (* [version] or [long_version] is set *)
  hc_set : hset; hc_gset : hset;
  hc_sub_required : bool;
  hc_args : list harg; hc_subs : list hcmd;
  hc_bin_name : option bytes; hc_usage_name : option bytes;
  hc_long_help_exists : bool; hc_built : bool;
  (* round 3 *)
  hc_groups : list group;                 (* [Command::group]: the record of the parser model *)
  hc_negates_reqs : bool;                 (* [subcommand_negates_reqs] *)
  hc_args_conflicts : bool;               (* [args_conflicts_with_subcommands] *)
  hc_allow_external : bool;               (* [allow_external_subcommands] *)
  hc_sub_value_name : option bytes;       (* [subcommand_value_name] *)
  hc_sub_heading : option bytes;          (* [subcommand_help_heading] *)
  hc_template : option bytes;             (* [help_template] *)
  (* round 5 *)
  hc_flatten : bool                       (* [flatten_help]: a plain setting, not propagated *)
}.
#[export] Instance eta_hcmd : Settable _ := settable! mkHCmd
  <hc_name; hc_about; hc_long_about; hc_short_flag; hc_long_flag; hc_disp_ord; hc_hide; hc_version;
   hc_set; hc_gset; hc_sub_required; hc_args; hc_subs; hc_bin_name; hc_usage_name; hc_long_help_exists; hc_built;
   hc_groups; hc_negates_reqs; hc_args_conflicts; hc_allow_external; hc_sub_value_name; hc_sub_heading; hc_template;
   hc_flatten>.
Definition hcmd_new (n : bytes) : hcmd :=
  mkHCmd n None None None None None false false hset_none hset_none false [] [] None None false false
         [] false false false None None None false.

Definition h_is_set (f : hset -> bool) (c : hcmd) : bool := f (hc_set c) || f (hc_gset c).

(** ---- Arg accessors ---- *)
Definition ha_is_positional (a : harg) := negb (is_some (ha_long a)) && negb (is_some (ha_short a)).
Definition ha_takes_value (a : harg) := r_takes_values (opt_default r_single (ha_num a)).
Definition ha_display_order (a : harg) := opt_default DEFAULT_ARG_DISPLAY_ORDER (ha_disp_ord a).
Definition hc_display_order (c : hcmd) := opt_default DEFAULT_CMD_DISPLAY_ORDER (hc_disp_ord c).
(** [Arg::get_possible_values] *)
Definition ha_possible_values (a : harg) : list hpv := if ha_takes_value a then ha_pvs a else [].
(** [PossibleValue::should_show_help] *)
Definition pv_should_show_help (p : hpv) := negb (pv_hide p) && is_some (pv_help p).

(** ---- Command::arg / Command::subcommand: display orders from the running counter ----
    ([arg_internal], [subcommand_internal]; the spec lists all args before the subcommands) *)
Fixpoint add_args (args : list harg) (ctr : N) : list harg * N :=
  match args with
  | [] => ([], ctr)
  | a :: t =>
      if negb (ha_is_positional a) then
        let a' := match ha_disp_ord a with Some _ => a | None => a <| ha_disp_ord := Some ctr |> end in
        let '(t', c') := add_args t (ctr + 1) in (a' :: t', c')
      else let '(t', c') := add_args t ctr in (a :: t', c')
  end.
Fixpoint add_subs (subs : list hcmd) (ctr : N) : list hcmd :=
  match subs with
  | [] => []
  | s :: t =>
      (match hc_disp_ord s with Some _ => s | None => s <| hc_disp_ord := Some ctr |> end) :: add_subs t (ctr + 1)
  end.
(** a command as the builder API leaves it: [Command::new(n)] + the listed args, then subcommands *)
Definition cmd_with (c : hcmd) (args : list harg) (subs : list hcmd) : hcmd :=
  let '(args', ctr) := add_args args 0 in
  c <| hc_args := args' |> <| hc_subs := add_subs subs ctr |>.

(** [Command::next_help_heading] and the heading part of [arg_internal]
    ([arg.help_heading.get_or_insert_with(|| self.current_help_heading.clone())]): the builder calls in
    the order the user makes them *)
Inductive bitem := BArg (a : harg) | BNextHeading (h : option bytes).
Fixpoint apply_headings (items : list bitem) (current : option bytes) : list harg :=
  match items with
  | [] => []
  | BArg a :: t => (if is_some (ha_heading a) then a else a <| ha_heading := current |>) :: apply_headings t current
  | BNextHeading h :: t => apply_headings t h
  end.
Definition cmd_with_items (c : hcmd) (items : list bitem) (subs : list hcmd) : hcmd :=
  cmd_with c (apply_headings items None) subs.

(** ---- the build step ---- *)
(** [Arg::_build]: the default value of the action, the number of values (the action is explicit in
    this model) *)
Definition harg_default (a : harg) : harg :=
  match action_default_value (ha_action a) with
  | Some d => if is_nil (ha_defaults a) then a <| ha_defaults := [d] |> else a
  | None => a
  end.
Definition harg_build (a : harg) : harg :=
  let a := harg_default a in
  match ha_num a with
  | Some _ => a
  | None =>
      let n := N.of_nat (length (ha_valnames a)) in
      if 1 <? n then a <| ha_num := Some {| vmin := n; vmax := n |} |>
      else a <| ha_num := Some (action_default_num_args (ha_action a)) |>
  end.

(** the loop over the args in [_build_self]: [_build] and positional indices *)
Fixpoint build_hargs (args : list harg) (pos_counter : N) : list harg :=
  match args with
  | [] => []
  | a :: t =>
      let a := harg_build a in
      if ha_is_positional a && negb (is_some (ha_index a))
      then (a <| ha_index := Some pos_counter |>) :: build_hargs t (pos_counter + 1)
      else a :: build_hargs t pos_counter
  end.

(** [_propagate_subcommand] (settings only) *)
Definition h_propagate_subcommand (p sc : hcmd) : hcmd :=
  sc <| hc_set := hset_or (hc_set sc) (hc_gset p) |> <| hc_gset := hset_or (hc_gset sc) (hc_gset p) |>.

(** [long_help_exists_] *)
Definition should_long (v : harg) : bool :=
  negb (ha_hide v) &&
  (is_some (ha_long_help v) || ha_hide_long v || ha_hide_short v
   || (negb (ha_hide_pv v) && existsb pv_should_show_help (ha_possible_values v))).
Definition long_help_exists_ (c : hcmd) : bool :=
  is_some (hc_long_about c) || existsb should_long (hc_args c).

Definition s_help : bytes := [104; 101; 108; 112].
Definition s_version : bytes := [118; 101; 114; 115; 105; 111; 110].
Definition s_subcommand : bytes := [115; 117; 98; 99; 111; 109; 109; 97; 110; 100].

Definition h_help_arg (long_exists : bool) : harg :=
  let a := (harg_new s_help AHelp) <| ha_short := Some 104 |> <| ha_long := Some s_help |> in
  if long_exists then a <| ha_help := Some t_help_with_long |> <| ha_long_help := Some t_help_long |>
  else a <| ha_help := Some t_help_plain |>.
Definition h_version_arg : harg :=
  (harg_new s_version AVersion) <| ha_short := Some 86 |> <| ha_long := Some s_version |>
                                <| ha_help := Some t_version_help |>.
Definition h_help_subcommand (p : hcmd) : hcmd :=
  let a := (harg_new s_subcommand AAppend) <| ha_num := Some r_full |> <| ha_valnames := [t_helpsub_valname] |>
                                           <| ha_help := Some t_helpsub_arg_help |> in
  let h := (hcmd_new s_help) <| hc_about := Some t_helpsub_about |> <| hc_args := [a] |> in
  let h := h_propagate_subcommand p h in
  h <| hc_set := (hc_set h) <| hs_no_help_flag := true |> <| hs_no_version_flag := true |> |>.

Definition h_is_disable_version_flag_set (c : hcmd) := h_is_set hs_no_version_flag c || negb (hc_version c).

(** [_check_help_and_version] *)
Definition h_check_help_and_version (c : hcmd) : hcmd :=
  let c := c <| hc_long_help_exists := long_help_exists_ c |> in
  let c := if negb (h_is_set hs_no_help_flag c)
           then c <| hc_args := hc_args c ++ [h_help_arg (hc_long_help_exists c)] |> else c in
  let c := if negb (h_is_disable_version_flag_set c) then c <| hc_args := hc_args c ++ [h_version_arg] |> else c in
  if negb (h_is_set hs_no_help_sub c) then c <| hc_subs := hc_subs c ++ [h_help_subcommand c] |> else c.

(** [_propagate_global_args]: every global argument of [c] is pushed (as it is, not yet built) into
    every subcommand that has no argument of that id; the generated [help] subcommand is skipped *)
Definition h_add_global (sc : hcmd) (a : harg) : hcmd :=
  if existsb (fun b => beq (ha_id b) (ha_id a)) (hc_args sc) then sc
  else sc <| hc_args := hc_args sc ++ [a] |>.
Definition h_propagate_global_args (c : hcmd) : hcmd :=
  let autogenerated_help_subcommand := negb (h_is_set hs_no_help_sub c) in
  let globals := filter ha_global (hc_args c) in
  c <| hc_subs := map (fun sc => if beq (hc_name sc) s_help && autogenerated_help_subcommand then sc
                                 else fold_left h_add_global globals sc) (hc_subs c) |>.

(** [_build_self].  (The step "ArgsNegateSubcommands implies SubcommandsNegateReqs" is not mirrored: both
    readers of the two settings on this path, [write_subcommand_usage] and [_build_subcommand], test
    their disjunction.) *)
Definition h_build_self (c : hcmd) : hcmd :=
  if hc_built c then c else
  let c := if is_nil (hc_subs c) then c <| hc_set := (hc_set c) <| hs_no_help_sub := true |> |> else c in
  let c := c <| hc_subs := map (h_propagate_subcommand c) (hc_subs c) |> in
  let c := h_check_help_and_version c in
  let c := h_propagate_global_args c in
  let c := c <| hc_args := build_hargs (hc_args c) 1 |> in
  c <| hc_built := true |>.

(** ---- rendering of one argument ---- *)
Definition s_dots : bytes := [46; 46; 46].
Definition is_append (a : action) := match a with AAppend => true | _ => false end.
Definition is_count (a : action) := match a with ACount => true | _ => false end.

(** [render_arg_val] *)
Definition render_arg_val (a : harg) (required : bool) : option bytes :=
  let num_vals := opt_default r_single (ha_num a) in
  let names0 := if is_nil (ha_valnames a) then [ha_id a] else ha_valnames a in
  let names := match names0 with
               | [n] => repeat n (N.to_nat (N.max (vmin num_vals) 1))
               | _ => names0 end in
  if negb (ha_takes_value a) then None      (* debug_assert!(self.is_takes_value_set()) *)
  else
    let one (n : bytes) : bytes :=
      if ha_is_positional a && ((vmin num_vals =? 0) || negb required)
      then [91] ++ n ++ [93] else [60] ++ n ++ [62] in
    let rendered := intercalate [32] (map one names) in
    let extra := (N.of_nat (length names) <? vmax num_vals) || (ha_is_positional a && is_append (ha_action a)) in
    Some (rendered ++ if extra then s_dots else []).

(** [stylize_arg_suffix] (plain styles) *)
Definition stylize_arg_suffix (a : harg) (required : option bool) : option bytes :=
  dO sc <- (if ha_takes_value a && negb (ha_is_positional a)
            then match ha_num a with
                 | None => None               (* get_min_vals: expect(INTERNAL_ERROR_MSG) *)
                 | Some r =>
                     let optional := vmin r =? 0 in
                     Some (if ha_req_eq a then (if optional then ([91; 61], true) else ([61], false))
                           else if optional then ([32; 91], true) else ([32], false))
                 end
            else Some ([], false));
  dO mid <- (if ha_takes_value a || ha_is_positional a
             then render_arg_val a (opt_default (ha_required a) required)
             else Some (if is_count (ha_action a) then s_dots else []));
  Some (fst sc ++ mid ++ if snd sc then [93] else []).

(** [Arg::stylized]; [Display for Arg] is [stylized(None)] *)
Definition arg_name_part (a : harg) : bytes :=
  match ha_long a with
  | Some l => [45; 45] ++ l
  | None => match ha_short a with Some s => [45; s] | None => [] end
  end.
Definition stylized (a : harg) (required : option bool) : option bytes :=
  dO suf <- stylize_arg_suffix a required; Some (arg_name_part a ++ suf).
Definition arg_to_string (a : harg) : option bytes := stylized a None.

(** ---- usage.rs ---- *)
(** [FlatSet<StyledStr>::insert]: items are [(id, text)], equal texts are one element *)
Definition flatset_insert (x : bytes * bytes) (l : list (bytes * bytes)) : list (bytes * bytes) :=
  if existsb (fun y => beq (snd y) (snd x)) l then l else l ++ [x].
(** [FlatSet<Id>::extend] *)
Definition idset_extend (l : list id) (s : list id) : list id :=
  fold_left (fun s x => if mem_id x s then s else s ++ [x]) l s.

(** [Vec<Option<_>>]: [resize] + index assignment *)
Fixpoint vec_set {A} (n : nat) (v : A) (l : list (option A)) : list (option A) :=
  match n, l with
  | O, [] => [Some v]
  | O, _ :: t => Some v :: t
  | S n', [] => None :: vec_set n' v []
  | S n', x :: t => x :: vec_set n' v t
  end.
(** [v[n] = None] on a vector that is long enough (the caller resized it) *)
Fixpoint vec_clear {A} (n : nat) (l : list (option A)) : list (option A) :=
  match n, l with
  | _, [] => []
  | O, _ :: t => None :: t
  | S n', x :: t => x :: vec_clear n' t
  end.
Definition vec_get {A} (n : nat) (l : list (option A)) : option A := nth n l None.
Fixpoint vec_flatten {A} (l : list (option A)) : list A :=
  match l with [] => [] | Some x :: t => x :: vec_flatten t | None :: t => vec_flatten t end.

Definition has_visible_subcommands (c : hcmd) : bool :=
  existsb (fun sc => negb (beq (hc_name sc) s_help) && negb (hc_hide sc)) (hc_subs c).
Definition bin_name_fallback (c : hcmd) : bytes := opt_default (hc_name c) (hc_bin_name c).
Definition usage_name_fallback (c : hcmd) : bytes := opt_default (bin_name_fallback c) (hc_usage_name c).

(** the view of a help command that [required_graph], [unroll_arg_requires], [unroll_args_in_group],
    [find_group] and [groups_for_arg] (Parse/Validator.v, Parse/Cmd.v) read: ids, [required],
    [requires] of the arguments, and the groups *)
Definition parg_of (a : harg) : arg :=
  (arg_new (ha_id a)) <| a_required := ha_required a |> <| a_requires := ha_requires a |>.
Definition pcmd_of (c : hcmd) : cmd :=
  (cmd_new (hc_name c)) <| c_args := map parg_of (hc_args c) |> <| c_groups := hc_groups c |>.
(** [Command::find] *)
Definition h_find (c : hcmd) (i : id) : option harg := find (fun a => beq (ha_id a) i) (hc_args c).

(** [needs_options_tag] *)
Definition is_help_or_version_action (a : action) :=
  match a with AHelp | AHelpShort | AHelpLong | AVersion => true | _ => false end.
Definition opt_is (o : option bytes) (s : bytes) := match o with Some l => beq l s | None => false end.
(** the inner loop: the argument is a member of a group that is required *)
Definition in_required_group (c : hcmd) (f : harg) : bool :=
  existsb (fun grp_s => existsb (fun g => beq (g_id g) grp_s && g_required g) (hc_groups c))
          (groups_for_arg (pcmd_of c) (ha_id f)).
Definition needs_options_tag (c : hcmd) : bool :=
  existsb (fun f =>
             negb (opt_is (ha_long f) s_help || opt_is (ha_long f) s_version)
             && negb (is_help_or_version_action (ha_action f))
             && negb (ha_hide f) && negb (ha_required f)
             && negb (in_required_group c f))
          (filter (fun a => negb (ha_is_positional a)) (hc_args c)).

(** the closure [is_relevant] of [write_args] and of [get_required_usage_from] without a matcher:
    only [ArgPredicate::IsPresent] rules count *)
Definition is_relevant_help (r : pred * id) : option id :=
  match fst r with PEquals _ => None | PIsPresent => Some (snd r) end.

(** the first loop of [write_args]: [unrolled_reqs]; [None] = the worklist of
    [unroll_arg_requires] ran out of fuel (excluded by theorem for every command) *)
Fixpoint unrolled_reqs (pc : cmd) (graph : list id) : option (list id) :=
  match graph with
  | [] => Some []
  | a :: t =>
      dO u <- unroll_arg_requires pc is_relevant_help a;
      dO r <- unrolled_reqs pc t;
      Some (u ++ [a] ++ r)
  end.

(** [Arg::name_no_brackets] *)
Definition name_no_brackets (a : harg) : bytes :=
  match ha_valnames a with
  | [] => ha_id a
  | [n] => n
  | ns => intercalate [32] (map (fun n => [60] ++ n ++ [62]) ns)
  end.

(** [Command::format_group]: [<a|b>]; a member that is not positional is written by [Display for Arg] *)
Definition format_group (c : hcmd) (g : id) : option bytes :=
  dO members <- unroll_args_in_group (pcmd_of c) g;
  dO parts <- map_opt (fun x => if ha_is_positional x then Some (name_no_brackets x) else arg_to_string x)
                      (filter_map (h_find c) members);
  Some ([60] ++ intercalate [124] parts ++ [62]).

(** the second loop of [write_args]: the groups among the requirements and their members;
    items are [(group id, text)] *)
Fixpoint req_groups (c : hcmd) (reqs : list id) (groups : list (bytes * bytes)) (members : list id)
  : option (list (bytes * bytes) * list id) :=
  match reqs with
  | [] => Some (groups, members)
  | req :: t =>
      if is_some (find_group (pcmd_of c) req) then
        dO group_members <- unroll_args_in_group (pcmd_of c) req;
        dO elem <- format_group c req;
        req_groups c t (flatset_insert (req, elem) groups) (idset_extend group_members members)
      else if is_some (h_find c req) then req_groups c t groups members
      else None                                           (* debug_assert!(self.cmd.find(req).is_some()) *)
  end.

(** the third loop: the required arguments that are not members of a listed group; items are
    [(id, text)]; [stylized(Some(!force_optional))] *)
Fixpoint req_split (c : hcmd) (force_optional : bool) (members : list id) (reqs : list id)
         (opts : list (bytes * bytes)) (poss : list (option (bytes * bytes)))
  : option (list (bytes * bytes) * list (option (bytes * bytes))) :=
  match reqs with
  | [] => Some (opts, poss)
  | req :: t =>
      match h_find c req with
      | Some a =>
          if mem_id (ha_id a) members then req_split c force_optional members t opts poss else
          dO s <- stylized a (Some (negb force_optional));
          match ha_index a with
          | Some i => req_split c force_optional members t opts (vec_set (N.to_nat i) (ha_id a, s) poss)
          | None => req_split c force_optional members t (flatset_insert (ha_id a, s) opts) poss
          end
      | None =>
          if is_some (find_group (pcmd_of c) req) then req_split c force_optional members t opts poss
          else None                                       (* debug_assert!(self.cmd.find_group(req).is_some()) *)
      end
  end.

(** the fourth loop: every positional that is not [hide]n and not a member of a listed group *)
Definition s_dashdash_sp : bytes := [45; 45; 32].
Fixpoint usage_positionals (force_optional : bool) (members : list id) (ps : list harg)
         (poss : list (option (bytes * bytes))) : option (list (option (bytes * bytes))) :=
  match ps with
  | [] => Some poss
  | pos :: t =>
      if ha_hide pos then usage_positionals force_optional members t poss else
      if mem_id (ha_id pos) members then usage_positionals force_optional members t poss else
      dO index <- ha_index pos;                                   (* pos.get_index().unwrap() *)
      let i := N.to_nat index in
      dO poss1 <-
        match vec_get i poss with
        | Some (pid, styled) =>
            Some (if ha_last pos then vec_set i (pid, s_dashdash_sp ++ styled) poss else poss)
        | None =>
            dO styled <- (if ha_last pos
                          then dO s <- stylized pos (Some true); Some ([91] ++ s_dashdash_sp ++ s ++ [93])
                          else stylized pos (Some false));
            Some (vec_set i (ha_id pos, styled) poss)
        end;
      usage_positionals force_optional members t
        (if ha_last pos && force_optional then vec_clear i poss1 else poss1)
  end.

(** [Usage::write_args(styled, &[], force_optional)]: the pieces, each followed by one space *)
Definition usage_arg_items (c : hcmd) (force_optional : bool) : option (list (bytes * bytes)) :=
  dO reqs <- unrolled_reqs (pcmd_of c) (required_graph (pcmd_of c));
  dO gm <- req_groups c reqs [] [];
  dO sp <- req_split c force_optional (snd gm) reqs [] [];
  dO poss <- usage_positionals force_optional (snd gm) (filter ha_is_positional (hc_args c)) (snd sp);
  Some ((if negb force_optional then fst sp ++ fst gm else []) ++ vec_flatten poss).

Definition s_options_tag : bytes := [91; 79; 80; 84; 73; 79; 78; 83; 93].
(** "\n       " *)
Definition s_usage_sep : bytes := [10; 32; 32; 32; 32; 32; 32; 32].

(** [write_arg_usage(styled, &[], incl_reqs)]; every piece is followed by one space *)
Definition write_arg_usage (c : hcmd) (incl_reqs : bool) : option (list bytes) :=
  dO items <- usage_arg_items c (negb incl_reqs);
  let name := usage_name_fallback c in
  Some ((if is_nil name then [] else [name])
        ++ (if needs_options_tag c then [s_options_tag] else [])
        ++ map snd items).

(** [write_subcommand_usage] *)
Definition sub_value_name (c : hcmd) : bytes := opt_default t_sub_value_name (hc_sub_value_name c).
Definition write_subcommand_usage (c : hcmd) : option (list bytes) :=
  if has_visible_subcommands c || hc_allow_external c then
    let value_name := sub_value_name c in
    if hc_negates_reqs c || hc_args_conflicts c then
      dO second <- (if hc_args_conflicts c then Some [usage_name_fallback c]
                    else write_arg_usage c false);
      Some ([s_usage_sep] ++ second ++ [[60] ++ value_name ++ [62]])
    else if hc_sub_required c then Some [[60] ++ value_name ++ [62]]
    else Some [[91] ++ value_name ++ [93]]
  else Some [].

(** [write_help_usage] without [flatten_help]: [write_arg_usage(styled, &[], true)] then
    [write_subcommand_usage]; the result is [trim_end]ed by the caller: the model returns the pieces *)
Definition usage_pieces (c : hcmd) : option (list bytes) :=
  dO first <- write_arg_usage c true;
  dO second <- write_subcommand_usage c;
  Some (first ++ second).

(** [get_required_usage_from(&[], None, true)]: the parent's required arguments and groups that go
    into a subcommand's usage name *)
Definition required_usage (c : hcmd) : option (list bytes) :=
  dO reqs <- unrolled_reqs (pcmd_of c) (required_graph (pcmd_of c));
  dO gm <- req_groups c reqs [] [];
  dO sp <- req_split c false (snd gm) reqs [] [];
  Some (map snd (fst sp) ++ map snd (fst gm) ++ map snd (vec_flatten (snd sp))).

(** [_build_subcommand] *)
Definition sc_usage_names (sc : hcmd) : bytes :=
  let n := hc_name sc
           ++ (match hc_long_flag sc with Some l => [124; 45; 45] ++ l | None => [] end)
           ++ (match hc_short_flag sc with Some s => [124; 45; s] | None => [] end) in
  if is_some (hc_long_flag sc) || is_some (hc_short_flag sc) then [123] ++ n ++ [125] else n.

Definition h_build_subcommand (c : hcmd) (name : bytes) : option (option hcmd) :=
  dO reqs <- (if negb (hc_negates_reqs c) && negb (hc_args_conflicts c) then required_usage c else Some []);
  let mid := [32] ++ concat (map (fun s => s ++ [32]) reqs) in
  match find (fun s => beq (hc_name s) name) (hc_subs c) with
  | None => Some None
  | Some sc =>
      let names := sc_usage_names sc in
      let usage_name := match hc_bin_name c with Some b => b ++ mid ++ names | None => names end in
      let bin := match hc_bin_name c with Some b => b ++ [32] ++ hc_name sc | None => hc_name sc end in
      Some (Some (h_build_self (sc <| hc_usage_name := Some usage_name |> <| hc_bin_name := Some bin |>)))
  end.

(** the level reached by a path of subcommand names from a built command (the parser's descent
    and [parse_help_subcommand] both go through [_build_subcommand]); [Some None] = no such subcommand *)
Fixpoint level_walk (c : hcmd) (path : list bytes) : option (option hcmd) :=
  match path with
  | [] => Some (Some c)
  | n :: rest =>
      dO r <- h_build_subcommand c n;
      match r with
      | None => Some None
      | Some sc => level_walk sc rest
      end
  end.
