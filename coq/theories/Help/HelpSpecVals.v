(** C12, [spec_vals]: what a row says about env / defaults / aliases / possible values.

    1. every row of every section of every mode is written by [write_arg] for a shown argument of the
       command (or is a subcommand row): its spec text is [spec_vals use_long a], its long-form list is
       the list of the names of the values that are not hidden ([row_spec_vals]);
    2. non-interference ([hidden_content_noninterference]): the whole screen is a function of the command
       with every hidden content blanked -- hidden possible values (name and help), aliases and short
       aliases that are not visible, the env entry under [hide_env], the env value under
       [hide_env_values], the default values under [hide_default_value].  Two commands that differ only
       there render identically, for every mode, width and display-width function: nothing hidden appears
       anywhere;
    3. every possible value that is not hidden is listed in the row of its argument when the argument is
       shown and [hide_possible_values] is off ([visible_pv_listed]). *)
From ClapModel Require Import Base.Bytes Base.Machine Parse.Cmd Parse.Matcher Parse.Errors Parse.Validator Gen.HelpTables Help.UsageModel Help.HelpModel Help.HelpReqs Help.HelpProofs.
From Coq Require Import Lia.
From RecordUpdate Require Import RecordSet.
Import RecordSetNotations.
Open Scope N_scope.

(** ---- generic list facts ---- *)
Lemma filter_map_comm {A} (p : A -> bool) (E : A -> A) l :
  (forall a, p (E a) = p a) -> filter p (map E l) = map E (filter p l).
Proof.
  intros H. induction l as [|x t IH]; [reflexivity|]. cbn [map filter]. rewrite H.
  destruct (p x); cbn [map]; rewrite IH; reflexivity.
Qed.
Lemma existsb_map {A B} (f : B -> bool) (g : A -> B) l : existsb f (map g l) = existsb (fun x => f (g x)) l.
Proof. induction l as [|x t IH]; [reflexivity|]. cbn [map existsb]. rewrite IH. reflexivity. Qed.
Lemma existsb_ext' {A} (f g : A -> bool) l : (forall x, f x = g x) -> existsb f l = existsb g l.
Proof. intros H. induction l as [|x t IH]; [reflexivity|]. cbn [existsb]. rewrite H, IH. reflexivity. Qed.
Lemma is_nil_map {A B} (f : A -> B) l : is_nil (map f l) = is_nil l.
Proof. destruct l; reflexivity. Qed.
Lemma map_opt_map {A B C} (f : B -> option C) (g : A -> B) l : map_opt f (map g l) = map_opt (fun x => f (g x)) l.
Proof. induction l as [|x t IH]; [reflexivity|]. cbn [map map_opt]. rewrite IH. reflexivity. Qed.
Lemma map_opt_ext {A B} (f g : A -> option B) l : (forall x, f x = g x) -> map_opt f l = map_opt g l.
Proof. intros H. induction l as [|x t IH]; [reflexivity|]. cbn [map_opt]. rewrite H, IH. reflexivity. Qed.
Lemma filter_map_map {A B} (f : A -> option B) (E : A -> A) l :
  (forall a, f (E a) = f a) -> filter_map f (map E l) = filter_map f l.
Proof. intros H. induction l as [|x t IH]; [reflexivity|]. cbn [map filter_map]. rewrite H, IH. reflexivity. Qed.
Lemma map_opt_names {A B} (f : A -> option B) (g : A -> B) l r :
  (forall x y, f x = Some y -> y = g x) -> map_opt f l = Some r -> r = map g l.
Proof.
  intros H. revert r. induction l as [|x t IH]; intros r E; cbn [map_opt] in E.
  - inversion E. reflexivity.
  - destruct (f x) as [y|] eqn:Fx; [|discriminate]. destruct (map_opt f t) as [r'|]; [|discriminate].
    inversion E; subst r. cbn [map]. rewrite (H x y Fx), (IH r' eq_refl). reflexivity.
Qed.

Lemma bt_insert_mapv {K V} (cmp : K -> K -> comparison) (E : V -> V) k v m :
  bt_insert cmp k (E v) (map (fun p => (fst p, E (snd p))) m) = map (fun p => (fst p, E (snd p))) (bt_insert cmp k v m).
Proof.
  induction m as [|[k' v'] t IH]; [reflexivity|]. cbn [map bt_insert fst snd].
  destruct (cmp k k'); cbn [map fst snd]; [reflexivity|reflexivity|]. rewrite IH. reflexivity.
Qed.

(** ---- blanking the hidden content of an argument ---- *)
Definition blank_pv (p : hpv) : hpv := if pv_hide p then mkPv [] None true else p.
Definition blank_alias {A} (d : A) (p : A * bool) : A * bool := if snd p then p else (d, false).
Definition blank_env (a : harg) : option (bytes * option bytes) :=
  match ha_env a with
  | Some (n, v) => if ha_hide_env a then Some ([], None) else if ha_hide_env_values a then Some (n, None) else Some (n, v)
  | None => None
  end.
Definition erase_arg (a : harg) : harg :=
  a <| ha_pvs := map blank_pv (ha_pvs a) |>
    <| ha_aliases := map (blank_alias []) (ha_aliases a) |>
    <| ha_short_aliases := map (blank_alias 0) (ha_short_aliases a) |>
    <| ha_env := blank_env a |>
    <| ha_defaults := if ha_hide_default a then map (fun _ => []) (ha_defaults a) else ha_defaults a |>.
Definition erase_cmd (c : hcmd) : hcmd := c <| hc_args := map erase_arg (hc_args c) |>.

Lemma visible_blank l :
  filter (fun p => negb (pv_hide p)) (map blank_pv l) = filter (fun p => negb (pv_hide p)) l.
Proof.
  induction l as [|p t IH]; [reflexivity|]. cbn [map filter].
  destruct (pv_hide p) eqn:H.
  - assert (E : blank_pv p = mkPv [] None true) by (unfold blank_pv; rewrite H; reflexivity).
    rewrite E. cbn [pv_hide negb]. exact IH.
  - assert (E : blank_pv p = p) by (unfold blank_pv; rewrite H; reflexivity).
    rewrite E, H. cbn [negb]. rewrite IH. reflexivity.
Qed.
Lemma show_help_blank l : existsb pv_should_show_help (map blank_pv l) = existsb pv_should_show_help l.
Proof.
  induction l as [|p t IH]; [reflexivity|]. cbn [map existsb]. rewrite IH. f_equal.
  unfold blank_pv, pv_should_show_help. destruct (pv_hide p) eqn:H; [reflexivity|rewrite H; reflexivity].
Qed.
Lemma filter_blank_alias {A} (d : A) l : filter snd (map (blank_alias d) l) = filter snd l.
Proof.
  induction l as [|p t IH]; [reflexivity|]. cbn [map filter].
  destruct (snd p) eqn:H.
  - assert (E : blank_alias d p = p) by (unfold blank_alias; rewrite H; reflexivity).
    rewrite E, H, IH. reflexivity.
  - assert (E : blank_alias d p = (d, false)) by (unfold blank_alias; rewrite H; reflexivity).
    rewrite E. cbn [snd]. exact IH.
Qed.

Lemma erase_possible_values a : ha_possible_values (erase_arg a) = map blank_pv (ha_possible_values a).
Proof.
  unfold ha_possible_values. change (ha_takes_value (erase_arg a)) with (ha_takes_value a).
  destruct (ha_takes_value a); reflexivity.
Qed.
Lemma erase_visible_pvs a : visible_pvs (erase_arg a) = visible_pvs a.
Proof. unfold visible_pvs. rewrite erase_possible_values. apply visible_blank. Qed.
Lemma erase_use_long_pv ul a : use_long_pv ul (erase_arg a) = use_long_pv ul a.
Proof. unfold use_long_pv. rewrite erase_possible_values, show_help_blank. reflexivity. Qed.
Lemma erase_pvs_nil a : is_nil (ha_possible_values (erase_arg a)) = is_nil (ha_possible_values a).
Proof. rewrite erase_possible_values. apply is_nil_map. Qed.

Lemma erase_env_group a : env_group (erase_arg a) = env_group a.
Proof.
  unfold env_group. change (ha_env (erase_arg a)) with (blank_env a).
  change (ha_hide_env (erase_arg a)) with (ha_hide_env a).
  change (ha_hide_env_values (erase_arg a)) with (ha_hide_env_values a).
  unfold blank_env. destruct (ha_env a) as [[n v]|]; [|reflexivity].
  destruct (ha_hide_env a); [reflexivity|]. destruct (ha_hide_env_values a); reflexivity.
Qed.
Lemma erase_default_group a : default_group (erase_arg a) = default_group a.
Proof.
  unfold default_group. change (ha_takes_value (erase_arg a)) with (ha_takes_value a).
  change (ha_hide_default (erase_arg a)) with (ha_hide_default a).
  change (ha_defaults (erase_arg a)) with (if ha_hide_default a then map (fun _ => []) (ha_defaults a) else ha_defaults a).
  destruct (ha_hide_default a); [|reflexivity]. cbn [negb]. rewrite !andb_false_r. reflexivity.
Qed.
Lemma erase_alias_group a : alias_group (erase_arg a) = alias_group a.
Proof.
  unfold alias_group. change (ha_aliases (erase_arg a)) with (map (blank_alias []) (ha_aliases a)).
  rewrite filter_blank_alias. reflexivity.
Qed.
Lemma erase_salias_group a : salias_group (erase_arg a) = salias_group a.
Proof.
  unfold salias_group. change (ha_short_aliases (erase_arg a)) with (map (blank_alias 0) (ha_short_aliases a)).
  rewrite filter_blank_alias. reflexivity.
Qed.
Lemma erase_pv_group ul a : pv_group ul (erase_arg a) = pv_group ul a.
Proof.
  unfold pv_group, pv_quoted_names. rewrite erase_use_long_pv, erase_pvs_nil, erase_visible_pvs. reflexivity.
Qed.
Lemma erase_spec_vals ul a : spec_vals ul (erase_arg a) = spec_vals ul a.
Proof.
  unfold spec_vals, spec_vals_list.
  rewrite erase_env_group, erase_default_group, erase_alias_group, erase_salias_group, erase_pv_group. reflexivity.
Qed.

Section NI.
Variable dw : bytes -> N.

Lemma erase_help_pvs cx a sp : help_pvs dw cx (erase_arg a) sp = help_pvs dw cx a sp.
Proof.
  unfold help_pvs. change (ha_hide_pv (erase_arg a)) with (ha_hide_pv a).
  rewrite erase_use_long_pv, erase_pvs_nil, erase_visible_pvs. reflexivity.
Qed.
Lemma erase_help_arg cx a nl L : help_arg dw cx (erase_arg a) nl L = help_arg dw cx a nl L.
Proof.
  unfold help_arg. rewrite erase_help_pvs. change (ha_hide_pv (erase_arg a)) with (ha_hide_pv a).
  rewrite erase_pvs_nil, erase_visible_pvs. reflexivity.
Qed.
Lemma erase_write_arg cx a nl L : write_arg dw cx (erase_arg a) nl L = write_arg dw cx a nl L.
Proof.
  unfold write_arg. change (left_col (erase_arg a)) with (left_col a).
  change (align_to_about dw cx (erase_arg a) nl L) with (align_to_about dw cx a nl L).
  rewrite erase_help_arg, erase_spec_vals. reflexivity.
Qed.

Lemma erase_wa_longest l : forall acc, wa_longest dw (map erase_arg l) acc = wa_longest dw l acc.
Proof.
  induction l as [|a t IH]; intros acc; [reflexivity|]. cbn [map wa_longest].
  change (longest_filter (erase_arg a)) with (longest_filter a).
  change (arg_to_string (erase_arg a)) with (arg_to_string a).
  change (ha_is_positional (erase_arg a)) with (ha_is_positional a).
  destruct (longest_filter a); destruct (arg_to_string a); try reflexivity; apply IH.
Qed.

Lemma erase_wa_ord key l : (forall a, key (erase_arg a) = key a) ->
  wa_ord key (map erase_arg l) = map (fun p => (fst p, erase_arg (snd p))) (wa_ord key l).
Proof.
  intros Hk. unfold wa_ord.
  change (@nil (akey * harg)) with (map (fun p : akey * harg => (fst p, erase_arg (snd p))) []) at 1.
  generalize (@nil (akey * harg)) as m.
  induction l as [|a t IH]; intros m; [reflexivity|]. cbn [map fold_left].
  rewrite Hk. change (ha_id (erase_arg a)) with (ha_id a).
  rewrite (bt_insert_mapv akey_cmp erase_arg). apply IH.
Qed.

Lemma erase_will_args_wrap cx l L : will_args_wrap dw cx (map erase_arg l) L = will_args_wrap dw cx l L.
Proof.
  unfold will_args_wrap. rewrite filter_map_comm by reflexivity. rewrite existsb_map.
  apply existsb_ext'. intros a. rewrite erase_spec_vals. reflexivity.
Qed.

Lemma erase_write_args cx l key : (forall a, key (erase_arg a) = key a) ->
  write_args dw cx (map erase_arg l) key = write_args dw cx l key.
Proof.
  intros Hk. unfold write_args. rewrite filter_map_comm by reflexivity.
  rewrite erase_wa_longest. destruct (wa_longest dw _ 2) as [L|]; [|reflexivity].
  rewrite erase_wa_ord by exact Hk. rewrite erase_will_args_wrap. rewrite map_opt_map.
  apply map_opt_ext. intros p. cbn [snd]. apply erase_write_arg.
Qed.

Lemma erase_heading_sections cx c hs : heading_sections dw cx (erase_cmd c) hs = heading_sections dw cx c hs.
Proof.
  induction hs as [|h t IH]; [reflexivity|]. cbn [heading_sections]. rewrite IH.
  change (hc_args (erase_cmd c)) with (map erase_arg (hc_args c)).
  rewrite !filter_map_comm by reflexivity. rewrite is_nil_map.
  rewrite erase_write_args by reflexivity. reflexivity.
Qed.

Lemma erase_write_all_args cx c : write_all_args dw cx (erase_cmd c) = write_all_args dw cx c.
Proof.
  unfold write_all_args. rewrite erase_heading_sections.
  change (has_visible_subcommands (erase_cmd c)) with (has_visible_subcommands c).
  change (write_subcommands dw cx (erase_cmd c)) with (write_subcommands dw cx c).
  change (hc_args (erase_cmd c)) with (map erase_arg (hc_args c)).
  rewrite !filter_map_comm by reflexivity. rewrite !is_nil_map.
  rewrite !erase_write_args by reflexivity.
  unfold custom_headings. change (hc_args (erase_cmd c)) with (map erase_arg (hc_args c)).
  rewrite filter_map_map by reflexivity. reflexivity.
Qed.

End NI.

(** usage.rs reads nothing of the blanked fields *)
Lemma erase_pcmd c : pcmd_of (erase_cmd c) = pcmd_of c.
Proof.
  unfold pcmd_of. change (hc_name (erase_cmd c)) with (hc_name c). change (hc_groups (erase_cmd c)) with (hc_groups c).
  change (hc_args (erase_cmd c)) with (map erase_arg (hc_args c)). rewrite map_map.
  rewrite (map_ext (fun x => parg_of (erase_arg x)) parg_of) by reflexivity. reflexivity.
Qed.
Lemma erase_h_find c i : h_find (erase_cmd c) i = option_map erase_arg (h_find c i).
Proof.
  unfold h_find. change (hc_args (erase_cmd c)) with (map erase_arg (hc_args c)).
  induction (hc_args c) as [|a t IH]; [reflexivity|]. cbn [map find].
  change (ha_id (erase_arg a)) with (ha_id a). destruct (beq (ha_id a) i); [reflexivity|exact IH].
Qed.
Lemma erase_group_parts c m :
  map_opt (fun x => if ha_is_positional x then Some (name_no_brackets x) else arg_to_string x)
          (filter_map (h_find (erase_cmd c)) m)
  = map_opt (fun x => if ha_is_positional x then Some (name_no_brackets x) else arg_to_string x)
            (filter_map (h_find c) m).
Proof.
  induction m as [|i t IH]; [reflexivity|]. cbn [filter_map]. rewrite erase_h_find.
  destruct (h_find c i) as [x|]; cbn [option_map]; [|exact IH]. cbn [map_opt]. rewrite IH. reflexivity.
Qed.
Lemma erase_format_group c g : format_group (erase_cmd c) g = format_group c g.
Proof. unfold format_group. rewrite erase_pcmd. destruct (unroll_args_in_group _ g); [|reflexivity]. rewrite erase_group_parts. reflexivity. Qed.
Lemma erase_req_groups c reqs : forall groups members,
  req_groups (erase_cmd c) reqs groups members = req_groups c reqs groups members.
Proof.
  induction reqs as [|r t IH]; intros groups members; [reflexivity|]. cbn [req_groups].
  rewrite erase_pcmd, erase_format_group, erase_h_find.
  destruct (is_some (find_group (pcmd_of c) r)).
  - destruct (unroll_args_in_group _ r); [|reflexivity]. destruct (format_group c r); [apply IH|reflexivity].
  - destruct (h_find c r); cbn [option_map is_some]; [apply IH|reflexivity].
Qed.
Lemma erase_req_split c fo members reqs : forall opts poss,
  req_split (erase_cmd c) fo members reqs opts poss = req_split c fo members reqs opts poss.
Proof.
  induction reqs as [|r t IH]; intros opts poss; [reflexivity|]. cbn [req_split].
  rewrite erase_pcmd, erase_h_find. destruct (h_find c r) as [a|]; cbn [option_map].
  - change (ha_id (erase_arg a)) with (ha_id a). change (ha_index (erase_arg a)) with (ha_index a).
    change (stylized (erase_arg a) (Some (negb fo))) with (stylized a (Some (negb fo))).
    destruct (mem_id (ha_id a) members); [apply IH|].
    destruct (stylized a (Some (negb fo))); [|reflexivity]. destruct (ha_index a); apply IH.
  - destruct (is_some (find_group (pcmd_of c) r)); [apply IH|reflexivity].
Qed.
Lemma erase_usage_positionals fo members l : forall poss,
  usage_positionals fo members (map erase_arg l) poss = usage_positionals fo members l poss.
Proof.
  induction l as [|a t IH]; intros poss; [reflexivity|]. cbn [map usage_positionals].
  change (ha_hide (erase_arg a)) with (ha_hide a). change (ha_index (erase_arg a)) with (ha_index a).
  change (ha_last (erase_arg a)) with (ha_last a). change (ha_id (erase_arg a)) with (ha_id a).
  change (stylized (erase_arg a) (Some true)) with (stylized a (Some true)).
  change (stylized (erase_arg a) (Some false)) with (stylized a (Some false)).
  destruct (ha_hide a); [apply IH|]. destruct (mem_id (ha_id a) members); [apply IH|].
  destruct (ha_index a) as [i|]; [|reflexivity].
  destruct (match vec_get (N.to_nat i) poss with Some _ => _ | None => _ end); [apply IH|reflexivity].
Qed.
Lemma erase_usage_arg_items c fo : usage_arg_items (erase_cmd c) fo = usage_arg_items c fo.
Proof.
  unfold usage_arg_items. rewrite erase_pcmd.
  destruct (unrolled_reqs _ _) as [reqs|]; [|reflexivity]. rewrite erase_req_groups.
  destruct (req_groups c reqs [] []) as [gm|]; [|reflexivity]. rewrite erase_req_split.
  destruct (req_split c fo (snd gm) reqs [] []) as [sp|]; [|reflexivity].
  change (hc_args (erase_cmd c)) with (map erase_arg (hc_args c)).
  rewrite filter_map_comm by reflexivity. rewrite erase_usage_positionals. reflexivity.
Qed.
Lemma erase_needs_options_tag c : needs_options_tag (erase_cmd c) = needs_options_tag c.
Proof.
  unfold needs_options_tag. change (hc_args (erase_cmd c)) with (map erase_arg (hc_args c)).
  rewrite filter_map_comm by reflexivity. rewrite existsb_map. apply existsb_ext'. intros f.
  unfold in_required_group. rewrite erase_pcmd. reflexivity.
Qed.
Lemma erase_write_arg_usage c incl : write_arg_usage (erase_cmd c) incl = write_arg_usage c incl.
Proof.
  unfold write_arg_usage. rewrite erase_usage_arg_items, erase_needs_options_tag. reflexivity.
Qed.
Lemma erase_usage_pieces c : usage_pieces (erase_cmd c) = usage_pieces c.
Proof.
  unfold usage_pieces, write_subcommand_usage. rewrite !erase_write_arg_usage. reflexivity.
Qed.

(** the screen of a command = the screen of the command with its hidden content blanked *)
Theorem erase_write_help dw c use_long w : write_help dw (erase_cmd c) use_long w = write_help dw c use_long w.
Proof.
  unfold write_help. rewrite erase_usage_pieces, erase_write_all_args.
  change (h_is_set hs_next_line (erase_cmd c)) with (h_is_set hs_next_line c).
  change (write_about use_long (erase_cmd c)) with (write_about use_long c). reflexivity.
Qed.

Theorem hidden_content_noninterference dw c c' use_long w :
  erase_cmd c = erase_cmd c' -> write_help dw c use_long w = write_help dw c' use_long w.
Proof. intros H. rewrite <- (erase_write_help dw c), <- (erase_write_help dw c'), H. reflexivity. Qed.

(** ---- every row is written by [write_arg] for a shown argument, or is a subcommand row ---- *)
Section Rows.
Variable dw : bytes -> N.

Definition long_list (use_long : bool) (a : harg) : list bytes :=
  if negb (ha_hide_pv a) && use_long_pv use_long a then map pv_name (visible_pvs a) else [].

Lemma help_pvs_names cx a sp r : help_pvs dw cx a sp = Some r -> r = long_list (cx_use_long cx) a.
Proof.
  unfold help_pvs, long_list. destruct (negb (ha_hide_pv a) && use_long_pv (cx_use_long cx) a) eqn:C.
  - destruct (is_nil (ha_possible_values a)) eqn:Nil.
    + intros H. inversion H. unfold visible_pvs. destruct (ha_possible_values a); [reflexivity|discriminate].
    + destruct (max_list _) as [m|]; [|discriminate]. destruct (fmt_pad _); [|discriminate].
      apply map_opt_names. intros p y Hy. destruct (pv_help p); [|inversion Hy; reflexivity].
      destruct (checked_sub _ _); [|discriminate]. destruct (fmt_pad _); [|discriminate]. inversion Hy. reflexivity.
  - intros H. inversion H. reflexivity.
Qed.

Lemma write_arg_fields cx a nl L r :
  write_arg dw cx a nl L = Some r ->
  r_id r = ha_id a /\ r_spec r = spec_vals (cx_use_long cx) a /\ r_long_pvs r = long_list (cx_use_long cx) a.
Proof.
  unfold write_arg, help_arg. destruct (left_col a); [|discriminate].
  destruct (align_to_about dw cx a nl L); [|discriminate].
  destruct (help_pvs dw cx a _) as [lp|] eqn:E; [|discriminate].
  intros H. inversion H. cbn [r_id r_spec r_long_pvs snd]. repeat split.
  apply (help_pvs_names _ _ _ _ E).
Qed.

Definition arg_row (use_long : bool) (c : hcmd) (r : row) : Prop :=
  exists a, In a (hc_args c) /\ should_show_arg use_long a = true /\ r_id r = ha_id a
            /\ r_spec r = spec_vals use_long a /\ r_long_pvs r = long_list use_long a.
Definition sub_row (c : hcmd) (r : row) : Prop :=
  exists sc, In sc (hc_subs c) /\ hc_hide sc = false /\ r_id r = hc_name sc /\ r_spec r = [] /\ r_long_pvs r = [].

Lemma write_args_rows cx c args key rows r :
  (forall a, In a args -> In a (hc_args c)) -> write_args dw cx args key = Some rows -> In r rows ->
  arg_row (cx_use_long cx) c r.
Proof.
  intros Hsub H Hr. unfold write_args in H.
  destruct (wa_longest dw _ 2) as [L|]; [|discriminate].
  destruct (map_opt_in _ _ _ _ H Hr) as [p [Hp Hw]]. apply wa_ord_in in Hp. apply filter_In in Hp.
  destruct Hp as [Hin Hs]. destruct (write_arg_fields _ _ _ _ _ Hw) as [H1 [H2 H3]].
  exists (snd p). repeat split; auto.
Qed.

Lemma write_subcommands_rows cx c rows r : write_subcommands dw cx c = Some rows -> In r rows -> sub_row c r.
Proof.
  unfold write_subcommands. intros H Hr.
  destruct (map_opt_in _ _ _ _ H Hr) as [p [Hp Hw]]. cbn beta in Hw.
  destruct (subcmd dw _ _ _); [|discriminate]. inversion Hw; subst r. cbn [r_id r_spec r_long_pvs].
  destruct (fold_insert_in key_cmp (fun sc => (hc_display_order sc, sc_str sc)) (fun sc => sc) _ [] p Hp) as [[]|[sc [Hsc E]]].
  cbn beta in E. rewrite E. apply filter_In in Hsc. destruct Hsc as [Hin Hv].
  exists sc. repeat split; auto. unfold should_show_subcommand in Hv. destruct (hc_hide sc); [discriminate|reflexivity].
Qed.

Definition rows_ok (use_long : bool) (c : hcmd) (secs : list section) : Prop :=
  forall sec r, In sec secs -> In r (s_rows sec) -> arg_row use_long c r \/ sub_row c r.

Lemma heading_sections_rows cx c hs : forall secs,
  heading_sections dw cx c hs = Some secs -> rows_ok (cx_use_long cx) c secs.
Proof.
  induction hs as [|h t IH]; intros secs H; cbn [heading_sections] in H.
  - inversion H. intros sec r [].
  - set (args := filter (should_show_arg (cx_use_long cx)) (filter (heading_is h) (hc_args c))) in *.
    destruct (if is_nil args then Some [] else _) as [this|] eqn:Et; [|discriminate].
    destruct (heading_sections dw cx c t) as [rest|]; [|discriminate]. inversion H; subst secs.
    intros sec r Hs Hr. apply in_app_or in Hs. destruct Hs as [Hs|Hs]; [|apply (IH rest eq_refl sec r Hs Hr)].
    destruct (is_nil args); [inversion Et; subst this; destruct Hs|].
    destruct (write_args dw cx args option_sort_key) as [rows|] eqn:Er; [|discriminate].
    inversion Et; subst this. destruct Hs as [Hs|[]]. subst sec. left.
    apply (write_args_rows cx c args option_sort_key rows r); auto.
    intros a Ha. unfold args in Ha. apply filter_In in Ha. destruct Ha as [Ha _]. apply filter_In in Ha. apply Ha.
Qed.

Lemma write_all_args_rows cx c secs : write_all_args dw cx c = Some secs -> rows_ok (cx_use_long cx) c secs.
Proof.
  unfold write_all_args. intros H.
  set (show := should_show_arg (cx_use_long cx)) in *.
  set (pos := filter show (filter (fun a => negb (is_some (ha_heading a))) (filter ha_is_positional (hc_args c)))) in *.
  set (non_pos := filter show (filter (fun a => negb (is_some (ha_heading a))) (filter (fun a => negb (ha_is_positional a)) (hc_args c)))) in *.
  destruct (if has_visible_subcommands c then _ else _) as [s1|] eqn:E1; [|discriminate].
  destruct (if is_nil pos then _ else _) as [s2|] eqn:E2; [|discriminate].
  destruct (if is_nil non_pos then _ else _) as [s3|] eqn:E3; [|discriminate].
  destruct (heading_sections dw cx c (custom_headings c)) as [s4|] eqn:E4; [|discriminate].
  inversion H; subst secs. intros sec r Hs Hr.
  apply in_app_or in Hs. destruct Hs as [Hs|Hs].
  { destruct (has_visible_subcommands c); [|inversion E1; subst s1; destruct Hs].
    destruct (write_subcommands dw cx c) as [rows|] eqn:Er; [|discriminate]. inversion E1; subst s1.
    destruct Hs as [Hs|[]]. subst sec. right. apply (write_subcommands_rows cx c rows r Er Hr). }
  apply in_app_or in Hs. destruct Hs as [Hs|Hs].
  { destruct (is_nil pos); [inversion E2; subst s2; destruct Hs|].
    destruct (write_args dw cx pos positional_sort_key) as [rows|] eqn:Er; [|discriminate]. inversion E2; subst s2.
    destruct Hs as [Hs|[]]. subst sec. left. apply (write_args_rows cx c _ _ rows r) in Er; auto.
    intros a Ha. unfold pos in Ha. repeat (apply filter_In in Ha; destruct Ha as [Ha _]). exact Ha. }
  apply in_app_or in Hs. destruct Hs as [Hs|Hs].
  { destruct (is_nil non_pos); [inversion E3; subst s3; destruct Hs|].
    destruct (write_args dw cx non_pos option_sort_key) as [rows|] eqn:Er; [|discriminate]. inversion E3; subst s3.
    destruct Hs as [Hs|[]]. subst sec. left. apply (write_args_rows cx c _ _ rows r) in Er; auto.
    intros a Ha. unfold non_pos in Ha. repeat (apply filter_In in Ha; destruct Ha as [Ha _]). exact Ha. }
  apply (heading_sections_rows cx c _ s4 E4 sec r Hs Hr).
Qed.

(** the spec text and the long-form list of every row, in every mode *)
Theorem row_spec_vals c use_long w s sec r :
  write_help dw c use_long w = Some s -> In sec (scr_sections s) -> In r (s_rows sec) ->
  arg_row use_long c r \/ sub_row c r.
Proof.
  unfold write_help. intros H Hs Hr. destruct (usage_pieces c); [|discriminate].
  destruct (write_all_args dw _ c) as [secs|] eqn:E; [|discriminate]. inversion H; subst s.
  apply (write_all_args_rows _ c secs E sec r Hs Hr).
Qed.

(** in particular a listed possible value is never a hidden one *)
Lemma long_list_visible use_long a n :
  In n (long_list use_long a) -> exists pv, In pv (ha_pvs a) /\ pv_hide pv = false /\ pv_name pv = n.
Proof.
  unfold long_list. destruct (negb (ha_hide_pv a) && use_long_pv use_long a); [|intros []].
  intros H. apply in_map_iff in H. destruct H as [pv [E Hv]]. destruct (visible_pvs_sub a pv Hv) as [H1 H2].
  exists pv. auto.
Qed.
Lemma pv_quoted_names_visible a n :
  In n (pv_quoted_names a) -> exists pv, In pv (ha_pvs a) /\ pv_hide pv = false /\ quote_if_ws (pv_name pv) = n.
Proof.
  unfold pv_quoted_names. intros H. apply in_map_iff in H. destruct H as [pv [E Hv]].
  destruct (visible_pvs_sub a pv Hv) as [H1 H2]. exists pv. auto.
Qed.

Lemma listed_pv_visible use_long a n :
  (In n (long_list use_long a) \/ In n (pv_quoted_names a)) ->
  exists pv, In pv (ha_pvs a) /\ pv_hide pv = false /\ (pv_name pv = n \/ quote_if_ws (pv_name pv) = n).
Proof.
  intros [H|H].
  - destruct (long_list_visible use_long a n H) as [pv [H1 [H2 H3]]]. exists pv. auto.
  - destruct (pv_quoted_names_visible a n H) as [pv [H1 [H2 H3]]]. exists pv. auto.
Qed.

End Rows.

(** ---- the row of a shown argument is the one [write_arg] writes for it ---- *)
Section Listed.
Variable dw : bytes -> N.

Definition written (cx : hctx) (a : harg) (r : row) : Prop := exists nl L, write_arg dw cx a nl L = Some r.

Lemma write_args_lists_w cx args key rows a :
  NoDup (map ha_id args) -> write_args dw cx args key = Some rows ->
  In a args -> should_show_arg (cx_use_long cx) a = true ->
  exists r, In r rows /\ written cx a r.
Proof.
  intros Hnd H Ha Hs. unfold write_args in H.
  set (shown := filter (should_show_arg (cx_use_long cx)) args) in *.
  destruct (wa_longest dw shown 2) as [L|]; [|discriminate].
  assert (Hin : In a (map snd (wa_ord key shown))).
  { unfold wa_ord. apply (fold_insert_lists akey_cmp (fun a => (key a, ha_id a)) (fun a => a) akey_cmp_eq).
    - apply NoDup_map_pair. apply NoDup_map_filter. exact Hnd.
    - intros p [].
    - left. exists a. split; [apply filter_In; split; assumption|reflexivity]. }
  apply in_map_iff in Hin. destruct Hin as [p [E Hp]].
  destruct (map_opt_all _ _ _ _ H Hp) as [r [Hr Hrin]]. exists r. split; [exact Hrin|].
  cbn beta in Hr. rewrite E in Hr. eexists _, _. exact Hr.
Qed.

Lemma heading_sections_lists_w cx c hs secs a h :
  NoDup (map ha_id (hc_args c)) -> heading_sections dw cx c hs = Some secs ->
  In h hs -> In a (hc_args c) -> ha_heading a = Some h -> should_show_arg (cx_use_long cx) a = true ->
  exists sec r, In sec secs /\ s_title sec = h /\ In r (s_rows sec) /\ written cx a r.
Proof.
  intros Hnd. revert secs. induction hs as [|h' t IH]; intros secs H Hh Ha Hhd Hs; [destruct Hh|].
  cbn [heading_sections] in H.
  set (args := filter (should_show_arg (cx_use_long cx)) (filter (heading_is h') (hc_args c))) in *.
  destruct (if is_nil args then Some [] else
            match write_args dw cx args option_sort_key with Some rows => Some [mkSec h' rows] | None => None end)
    as [this|] eqn:Ethis; [|discriminate].
  destruct (heading_sections dw cx c t) as [rest|] eqn:Erest; [|discriminate].
  inversion H; subst secs. clear H.
  destruct (beq h' h) eqn:Eh.
  - apply beq_eq in Eh. subst h'.
    assert (Hin : In a args).
    { unfold args. apply filter_In. split; [|exact Hs]. apply filter_In. split; [exact Ha|].
      unfold heading_is, opt_is. rewrite Hhd. apply beq_refl. }
    assert (Hnil : is_nil args = false) by (destruct args; [destruct Hin|reflexivity]).
    rewrite Hnil in Ethis. destruct (write_args dw cx args option_sort_key) as [rows|] eqn:Erows; [|discriminate].
    inversion Ethis; subst this.
    destruct (write_args_lists_w cx args option_sort_key rows a) as [r [Hr Hid]]; auto.
    { unfold args. apply NoDup_map_filter. apply NoDup_map_filter. exact Hnd. }
    exists (mkSec h rows), r. split; [left; reflexivity|]. auto.
  - destruct Hh as [Hh|Hh]; [subst h'; rewrite beq_refl in Eh; discriminate|].
    destruct (IH rest eq_refl Hh Ha Hhd Hs) as [sec [r [H1 H2]]].
    exists sec, r. split; [apply in_or_app; right; exact H1|exact H2].
Qed.

Lemma lists_visible_arg_w cx c secs a :
  NoDup (map ha_id (hc_args c)) -> write_all_args dw cx c = Some secs ->
  In a (hc_args c) -> should_show_arg (cx_use_long cx) a = true ->
  exists sec r, In sec secs /\ s_title sec = arg_section_title a /\ In r (s_rows sec) /\ written cx a r.
Proof.
  intros Hnd H Ha Hs. unfold write_all_args in H.
  set (show := should_show_arg (cx_use_long cx)) in *.
  set (pos := filter show (filter (fun a => negb (is_some (ha_heading a))) (filter ha_is_positional (hc_args c)))) in *.
  set (non_pos := filter show (filter (fun a => negb (is_some (ha_heading a))) (filter (fun a => negb (ha_is_positional a)) (hc_args c)))) in *.
  destruct (if has_visible_subcommands c then _ else _) as [s1|]; [|discriminate].
  destruct (if is_nil pos then _ else _) as [s2|] eqn:E2; [|discriminate].
  destruct (if is_nil non_pos then _ else _) as [s3|] eqn:E3; [|discriminate].
  destruct (heading_sections dw cx c (custom_headings c)) as [s4|] eqn:E4; [|discriminate].
  inversion H; subst secs. clear H. unfold arg_section_title.
  destruct (ha_heading a) as [h|] eqn:Hh.
  - destruct (heading_sections_lists_w cx c (custom_headings c) s4 a h Hnd E4) as [sec [r [H1 H2]]]; auto.
    { unfold custom_headings. destruct (dedup_in h (filter_map ha_heading (hc_args c)) []) as [H|H]; [|exact H|discriminate].
      clear - Ha Hh. induction (hc_args c) as [|x t IH]; [destruct Ha|]. cbn [filter_map].
      destruct Ha as [Ha|Ha]; [subst x; rewrite Hh; left; reflexivity|].
      destruct (ha_heading x); [right|]; apply IH; exact Ha. }
    exists sec, r. split; [|exact H2]. repeat (apply in_or_app; right). exact H1.
  - destruct (ha_is_positional a) eqn:P.
    + assert (Hin : In a pos).
      { unfold pos. repeat (apply filter_In; split); auto. rewrite Hh. reflexivity. }
      assert (Hnil : is_nil pos = false) by (destruct pos; [destruct Hin|reflexivity]).
      rewrite Hnil in E2. destruct (write_args dw cx pos positional_sort_key) as [rows|] eqn:Erows; [|discriminate].
      inversion E2; subst s2.
      destruct (write_args_lists_w cx pos positional_sort_key rows a) as [r [Hr Hid]]; auto.
      { unfold pos. repeat apply NoDup_map_filter. exact Hnd. }
      exists (mkSec s_arguments rows), r. split; [apply in_or_app; right; apply in_or_app; left; left; reflexivity|]. auto.
    + assert (Hin : In a non_pos).
      { unfold non_pos. repeat (apply filter_In; split); auto; [rewrite P|rewrite Hh]; reflexivity. }
      assert (Hnil : is_nil non_pos = false) by (destruct non_pos; [destruct Hin|reflexivity]).
      rewrite Hnil in E3. destruct (write_args dw cx non_pos option_sort_key) as [rows|] eqn:Erows; [|discriminate].
      inversion E3; subst s3.
      destruct (write_args_lists_w cx non_pos option_sort_key rows a) as [r [Hr Hid]]; auto.
      { unfold non_pos. repeat apply NoDup_map_filter. exact Hnd. }
      exists (mkSec s_options rows), r.
      split; [apply in_or_app; right; apply in_or_app; right; apply in_or_app; left; left; reflexivity|]. auto.
Qed.

(** the row of a shown argument carries its spec text and its long-form list *)
Theorem shown_arg_row c use_long w s a :
  NoDup (map ha_id (hc_args c)) -> write_help dw c use_long w = Some s ->
  In a (hc_args c) -> should_show_arg use_long a = true ->
  exists sec r, In sec (scr_sections s) /\ s_title sec = arg_section_title a /\ In r (s_rows sec)
                /\ r_id r = ha_id a /\ r_spec r = spec_vals use_long a /\ r_long_pvs r = long_list use_long a.
Proof.
  intros Hnd E Ha Hs. unfold write_help in E.
  destruct (usage_pieces c); [|discriminate].
  destruct (write_all_args dw _ c) as [secs|] eqn:Es; [|discriminate].
  inversion E; subst s. cbn [scr_sections].
  destruct (lists_visible_arg_w _ c secs a Hnd Es Ha Hs) as [sec [r [H1 [H2 [H3 [nl [L Hw]]]]]]].
  exists sec, r. repeat split; auto; apply (write_arg_fields dw _ _ _ _ _ Hw).
Qed.

(** every possible value that is not hidden is listed in the row of its argument (argument shown,
    [hide_possible_values] off): by the long-form list when that is used, else by the
    [[possible values: ..]] group of the spec text *)
Theorem visible_pv_listed c use_long w s a pv :
  NoDup (map ha_id (hc_args c)) -> write_help dw c use_long w = Some s ->
  In a (hc_args c) -> should_show_arg use_long a = true -> ha_hide_pv a = false ->
  In pv (ha_possible_values a) -> pv_hide pv = false ->
  exists sec r, In sec (scr_sections s) /\ s_title sec = arg_section_title a /\ In r (s_rows sec) /\ r_id r = ha_id a
    /\ r_spec r = intercalate (if use_long then [10] else [32]) (spec_vals_list use_long a)
    /\ ((use_long_pv use_long a = true /\ In (pv_name pv) (r_long_pvs r))
        \/ (use_long_pv use_long a = false
            /\ In (s_pv_open ++ intercalate [44; 32] (pv_quoted_names a) ++ [93]) (spec_vals_list use_long a)
            /\ In (quote_if_ws (pv_name pv)) (pv_quoted_names a))).
Proof.
  intros Hnd E Ha Hs Hhp Hpv Hvis.
  destruct (shown_arg_row c use_long w s a Hnd E Ha Hs) as [sec [r [H1 [H2 [H3 [H4 [H5 H6]]]]]]].
  exists sec, r. repeat split; auto.
  assert (Hv : In pv (visible_pvs a)).
  { unfold visible_pvs. apply filter_In. split; [exact Hpv|]. rewrite Hvis. reflexivity. }
  destruct (use_long_pv use_long a) eqn:U.
  - left. split; [reflexivity|]. rewrite H6. unfold long_list. rewrite Hhp, U. cbn [negb andb].
    apply in_map. exact Hv.
  - right. split; [reflexivity|]. split.
    + unfold spec_vals_list, pv_group. rewrite Hhp, U. cbn [negb andb].
      assert (Hn : is_nil (ha_possible_values a) = false) by (destruct (ha_possible_values a); [destruct Hpv|reflexivity]).
      rewrite Hn. cbn [negb]. repeat (apply in_or_app; right). left. reflexivity.
    + unfold pv_quoted_names. apply (in_map (fun p => quote_if_ws (pv_name p))). exact Hv.
Qed.

End Listed.

(** ---- non-vacuity and two observations ---- *)
Definition sv_arg : harg :=
  (harg_new [111] ASet) <| ha_long := Some [111; 112] |> <| ha_help := Some [104] |>
    <| ha_pvs := [mkPv [97] (Some [104]) false; mkPv [115; 101; 99] (Some [120]) true; mkPv [98; 32; 99] None false] |>
    <| ha_env := Some ([69; 86], Some [118]) |> <| ha_defaults := [[97]; [98; 32; 99]] |>
    <| ha_aliases := [([120; 49], true); ([104; 105; 100], false)] |> <| ha_short_aliases := [(120, false); (121, true)] |>.
Definition sv_cmd : hcmd := h_build_self (cmd_with (hcmd_new [112]) [sv_arg] []).
Definition sv_cmd' : hcmd :=
  h_build_self (cmd_with (hcmd_new [112])
    [sv_arg <| ha_pvs := [mkPv [97] (Some [104]) false; mkPv [122; 122] None true; mkPv [98; 32; 99] None false] |>
            <| ha_aliases := [([120; 49], true); ([113], false)] |> <| ha_short_aliases := [(119, false); (121, true)] |>] []).

(** [sv_cmd] and [sv_cmd'] differ in a hidden possible value and in two hidden aliases only; the
    hypotheses of the theorems above hold, and the short-help spec text is
    "[env: EV=v] [default: a "b c"] [aliases: x1] [short aliases: y] [possible values: a, "b c"]" *)
Example sv_hyps :
  erase_cmd sv_cmd = erase_cmd sv_cmd' /\ sv_cmd <> sv_cmd'
  /\ NoDup (map ha_id (hc_args sv_cmd)) /\ cmd_ok len sv_cmd
  /\ (exists a pv, In a (hc_args sv_cmd) /\ should_show_arg false a = true /\ ha_hide_pv a = false
                   /\ In pv (ha_possible_values a) /\ pv_hide pv = false)
  /\ match write_help len sv_cmd false 80 with
     | Some s => concat (map (fun sec => map r_spec (s_rows sec)) (scr_sections s))
     | None => []
     end
     = [ [91; 101; 110; 118; 58; 32; 69; 86; 61; 118; 93; 32;
          91; 100; 101; 102; 97; 117; 108; 116; 58; 32; 97; 32; 34; 98; 32; 99; 34; 93; 32;
          91; 97; 108; 105; 97; 115; 101; 115; 58; 32; 120; 49; 93; 32;
          91; 115; 104; 111; 114; 116; 32; 97; 108; 105; 97; 115; 101; 115; 58; 32; 121; 93; 32;
          91; 112; 111; 115; 115; 105; 98; 108; 101; 32; 118; 97; 108; 117; 101; 115; 58; 32; 97; 44; 32; 34; 98; 32; 99; 34; 93];
         [] ].
Proof.
  split; [vm_compute; reflexivity|]. split; [intros H; vm_compute in H; discriminate|].
  split; [vm_compute; repeat constructor; cbn; intuition discriminate|].
  split; [apply cmd_okb_sound; vm_compute; reflexivity|].
  split.
  { eexists _, (mkPv [97] (Some [104]) false). vm_compute. split; [left; reflexivity|]. repeat split. left. reflexivity. }
  vm_compute. reflexivity.
Qed.

Lemma sv_hyps5 :
  erase_cmd sv_cmd = erase_cmd sv_cmd' /\ sv_cmd <> sv_cmd'
  /\ NoDup (map ha_id (hc_args sv_cmd)) /\ cmd_ok len sv_cmd
  /\ (exists a pv, In a (hc_args sv_cmd) /\ should_show_arg false a = true /\ ha_hide_pv a = false
                   /\ In pv (ha_possible_values a) /\ pv_hide pv = false).
Proof. destruct sv_hyps as [H1 [H2 [H3 [H4 [H5 _]]]]]. auto. Qed.

(** observation (finding): a default value is printed whether or not it names a hidden possible value --
    "nothing of a hidden possible value appears" cannot be strengthened to "its name occurs nowhere" *)
Definition dflt_hidden_arg : harg :=
  harg_build ((harg_new [111] ASet) <| ha_long := Some [111] |>
    <| ha_pvs := [mkPv [97] None false; mkPv [115; 101; 99] None true] |> <| ha_defaults := [[115; 101; 99]] |>).
Lemma default_names_hidden_pv :
  exists a pv, In pv (ha_pvs a) /\ pv_hide pv = true
    /\ spec_vals false a = s_default_open ++ pv_name pv ++ [93; 32] ++ s_pv_open ++ [97; 93].
Proof. exists dflt_hidden_arg, (mkPv [115; 101; 99] None true). vm_compute. repeat split. right. left. reflexivity. Qed.
