(** C12, round 5: non-vacuity of the classes of Help/HelpFlattenProofs.v, and the rendered example (replayed on the
    real crate through the `help` mode: corpus/C12/help-flatten.examples.cases). *)
From Coq Require Import List Bool Lia NArith.
Import ListNotations.
From ClapModel Require Import Base.Bytes Base.Machine Parse.Cmd Gen.HelpTables Help.UsageModel Help.HelpModel Help.HelpReqs
  Help.HelpProofs Help.HelpFlatten Help.HelpFlattenProofs.
From RecordUpdate Require Import RecordSet.
Import RecordSetNotations.
Open Scope N_scope.

(** [p] (flatten_help; [--v], required [<inp>]) with subcommands [sa] (flatten_help; [--out <o>]; subcommands [sb]
    with [-z], hidden [h2]), hidden [h1], and [sq] with the flags [--lq] / [-q] *)
Definition fx_sb : hcmd := cmd_with (hcmd_new [115;98]) [ (harg_new [122] ASetTrue) <| ha_short := Some 122 |> ] [].
Definition fx_hid2 : hcmd := (hcmd_new [104;50]) <| hc_hide := true |>.
Definition fx_sa : hcmd :=
  cmd_with ((hcmd_new [115;97]) <| hc_about := Some [97;98] |> <| hc_flatten := true |>)
    [ (harg_new [111] ASet) <| ha_long := Some [111;117;116] |> ] [fx_sb; fx_hid2].
Definition fx_hid : hcmd := (hcmd_new [104;49]) <| hc_hide := true |>.
Definition fx_sq : hcmd := (hcmd_new [115;113]) <| hc_long_flag := Some [108;113] |> <| hc_short_flag := Some 113 |>.
Definition fx_root : hcmd :=
  cmd_with ((hcmd_new [112]) <| hc_about := Some [114] |> <| hc_flatten := true |>)
    [ (harg_new [118] ASetTrue) <| ha_long := Some [118] |>;
      (harg_new [105;110;112] ASet) <| ha_required := true |> ] [fx_sa; fx_hid; fx_sq].
(** the same without the setting on [sa]: one level of flattening *)
Definition fx_one : hcmd :=
  cmd_with ((hcmd_new [112]) <| hc_about := Some [114] |> <| hc_flatten := true |>)
    [ (harg_new [118] ASetTrue) <| ha_long := Some [118] |>;
      (harg_new [105;110;112] ASet) <| ha_required := true |> ]
    [fx_sa <| hc_flatten := false |>; fx_hid; fx_sq].

(** what [write_help] sees: the lazily built level, and the built clone *)
Definition fx_c : hcmd := h_build_self fx_root.
Definition fx_b : hcmd := match h_build fx_c with Some b => b | None => fx_c end.
Definition fx_c1 : hcmd := h_build_self fx_one.

(** the usage block of [p], as the real crate prints it:
    {v
    p [OPTIONS] <inp>
           p <inp> sa [OPTIONS]
           p sa sb [OPTIONS]
           p sa help [COMMAND]
           p <inp> {sq|--lq|-q}
           p <inp> help [COMMAND]...
    v} *)
Example fx_usage_text :
  option_map usage_text (render_usage_flat fx_root)
  = Some ([112;32;91;79;80;84;73;79;78;83;93;32;60;105;110;112;62]
          ++ s_usage_sep ++ [112;32;60;105;110;112;62;32;115;97;32;91;79;80;84;73;79;78;83;93]
          ++ s_usage_sep ++ [112;32;115;97;32;115;98;32;91;79;80;84;73;79;78;83;93]
          ++ s_usage_sep ++ [112;32;115;97;32;104;101;108;112;32;91;67;79;77;77;65;78;68;93]
          ++ s_usage_sep ++ [112;32;60;105;110;112;62;32;123;115;113;124;45;45;108;113;124;45;113;125]
          ++ s_usage_sep ++ [112;32;60;105;110;112;62;32;104;101;108;112;32;91;67;79;77;77;65;78;68;93;46;46;46]).
Proof. vm_compute. reflexivity. Qed.

Lemma subs_fresh_b c :
  forallb (fun sc => negb (hc_flatten sc) && match hc_usage_name sc with None => true | Some _ => false end) (hc_subs c) = true ->
  forall sc, In sc (hc_subs c) -> hc_flatten sc = false /\ hc_usage_name sc = None.
Proof.
  intros H sc Hin. rewrite forallb_forall in H. specialize (H sc Hin). apply andb_true_iff in H. destruct H as [H1 H2].
  apply negb_true_iff in H1. split; [exact H1|]. destruct (hc_usage_name sc); [discriminate|reflexivity].
Qed.

(** the hypotheses of [flat_usage_heads] hold for the one-level example, and its block has the own line and one
    line for [sa], [sq] and [help] -- none for the hidden [h1] *)
Example fx_one_hyps :
  hc_built fx_c1 = true /\ flat_cond fx_c1 = true
  /\ (forall sc, In sc (hc_subs fx_c1) -> hc_flatten sc = false /\ hc_usage_name sc = None)
  /\ own_cond fx_c1 = true
  /\ map hc_name (visible_subs fx_c1) = [[115;97]; [115;113]; s_help]
  /\ option_map (map (hd [])) (usage_lines 3 fx_c1)
     = Some [[112]; [112;32;60;105;110;112;62;32;115;97];
             [112;32;60;105;110;112;62;32;123;115;113;124;45;45;108;113;124;45;113;125];
             [112;32;60;105;110;112;62;32] ++ s_help].
Proof.
  split; [vm_compute; reflexivity|]. split; [vm_compute; reflexivity|]. split.
  { apply subs_fresh_b. vm_compute. reflexivity. }
  split; [vm_compute; reflexivity|]. split; vm_compute; reflexivity.
Qed.

(** the hypotheses of the section / padding theorems hold for the nested example *)
Example fx_build : h_build fx_c = Some fx_b.
Proof. vm_compute. reflexivity. Qed.

Example fx_flat_hyps :
  cmd_ok len fx_c /\ refs_ok fx_c = true /\ flat_cond fx_c = true /\ h_build fx_c = Some fx_b
  /\ flat_tree_ok len fx_b /\ usage_ok tree_fuel fx_c /\ flat_distinct fx_b.
Proof.
  split; [apply cmd_okb_sound; vm_compute; reflexivity|]. split; [vm_compute; reflexivity|]. split; [vm_compute; reflexivity|].
  split; [exact fx_build|]. split; [apply (flat_tree_okb_sound len 4); vm_compute; reflexivity|].
  split; [apply usage_okb_sound; vm_compute; reflexivity|].
  apply (flat_distinctb_sound 4). vm_compute. reflexivity.
Qed.

(** the flattened sections of the nested example: [sa] with [--out] and [--help], below it [sb] and the expanded
    [help] of [sa] (no rows), then [sq], then the lazily built [help] of [p] with its [[COMMAND]...] row; nothing
    of [h1] / [h2] *)
Example fx_sections :
  match render_help_flat len fx_root false 80 with
  | Some s => (map s_title (fsc_sections s), map (fun f => (fs_title f, map r_id (fs_rows f))) (fsc_flat s))
  | None => ([], [])
  end
  = ([s_arguments; s_options],
     [([112;32;60;105;110;112;62;32;115;97], [[111]; s_help]);
      ([112;32;115;97;32;115;98], [[122]; s_help]);
      ([112;32;115;97;32] ++ s_help, []);
      ([112;32;60;105;110;112;62;32;123;115;113;124;45;45;108;113;124;45;113;125], [s_help]);
      ([112;32;60;105;110;112;62;32] ++ s_help, [s_subcommand])]).
Proof. vm_compute. reflexivity. Qed.

