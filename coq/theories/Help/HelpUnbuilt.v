(** C12, fourth pass: every level the parser reaches from an UNBUILT tree is [_build_self] of an unbuilt record,
    so a level whose help flag is not disabled contains the generated help argument.

    [C12_build_has_help] (HelpFlagGen.v) gives [In built_help_arg (c_args (build_self c))] for an unbuilt [c]; the
    chain theorems had it as a hypothesis for the level at the END of a non-empty chain.  Here it is derived:
    the class is C18's [tree_all unb] (no node of the user's tree carries the [Built] flag, in its settings or in
    its global settings); the subcommand records of a built parent are [propagate_subcommand] + the global
    arguments copied in ([gl]) of the user's records -- or the generated [help] subcommand --, all unbuilt
    ([tree_all_unb_child], imported from Complete/EngineLevel.v); [_build_subcommand] is [build_self] of such a
    record with its names set. *)
From Coq Require Import List Bool Lia.
Import ListNotations.
From ClapModel Require Import Base.Bytes Base.Machine Base.Utf8.
From ClapModel Require Import Parse.Cmd Parse.Build Parse.Valid.
From ClapModel Require Import Complete.EngineProofs Complete.EngineLevel.
From ClapModel Require Import Help.HelpFlagGen.
From RecordUpdate Require Import RecordSet.
Import RecordSetNotations.
Open Scope N_scope.

(** the level is [_build_self] of a record none of whose nodes is built *)
Definition from_unbuilt (c : cmd) : Prop := exists x, tree_all unb x /\ c = build_self x.

Lemma from_unbuilt_root c0 : tree_all unb c0 -> from_unbuilt (build_self c0).
Proof. intros H. exists c0. split; [exact H|reflexivity]. Qed.

Lemma tree_all_unb_setnm b d x : tree_all unb x -> tree_all unb (setnm b d x).
Proof.
  intros H. inversion H as [x0 Hu Hs]; subst. constructor.
  - destruct x; exact Hu.
  - destruct x; exact Hs.
Qed.

Lemma build_subcommand_inv c n sc : build_subcommand c n = Some sc ->
  exists s0 b d, In s0 (c_subs c) /\ sc = build_self (setnm b d s0).
Proof.
  unfold build_subcommand. destruct (find (fun s => beq (c_name s) n) (c_subs c)) as [s0|] eqn:Ef; [|discriminate].
  intros H. inversion H; subst sc. clear H. exists s0.
  apply find_some in Ef. destruct Ef as [Hin _].
  destruct s0 as [nm al sf lf sfa lfa ar gr su cs gs v lv ev bn dn ab lab]. destruct dn as [dn|].
  - exists (Some (match c_bin_name c with Some b => b ++ [32] ++ nm | None => nm end)), (Some dn).
    split; [exact Hin|reflexivity].
  - exists (Some (match c_bin_name c with Some b => b ++ [32] ++ nm | None => nm end)),
           (Some (opt_default (c_name c) (c_display_name c)
                  ++ (if is_nil (opt_default (c_name c) (c_display_name c)) then [] else [45]) ++ nm)).
    split; [exact Hin|reflexivity].
Qed.

(** the generated [help] subcommand is unbuilt when the parent's global settings are *)
Lemma help_subcommand_unb p : s_built (c_gset p) = false -> tree_all unb (fix_help_unset (help_subcommand p)).
Proof.
  intros Hp. unfold fix_help_unset, help_subcommand.
  set (h0 := (cmd_new s_help) <| c_about := Some s_help_about |> <| c_args := [help_subcommand_arg] |>).
  destruct (propagate_keeps p h0) as [_ [_ [Hs [Hset Hg]]]].
  set (h := propagate_subcommand p h0) in *.
  assert (Hb1 : s_built (c_set h) = false) by (rewrite Hset, settings_or_built, Hp; reflexivity).
  assert (Hb2 : s_built (c_gset h) = false) by (rewrite Hg, settings_or_built, Hp; reflexivity).
  assert (Hs0 : c_subs h = []) by (rewrite Hs; reflexivity).
  clearbody h. destruct h as [nm al sf lf sfa lfa ar gr su cs gs v lv ev bn dn ab lab].
  cbn in Hb1, Hb2, Hs0. subst su. constructor.
  - split; cbn; destruct cs, gs; cbn in *; assumption.
  - cbn. constructor.
Qed.

Lemma c_gset_hv3 c : c_gset (hv3 c) = c_gset c.
Proof. unfold hv3. destruct (negb _); [destruct c|]; reflexivity. Qed.
Lemma c_set_hv3 c : c_set (hv3 c) = c_set c.
Proof. unfold hv3. destruct (negb _); [destruct c|]; reflexivity. Qed.
Lemma c_set_tail c : c_set (bs_tail c) = (c_set c) <| s_built := true |>.
Proof. destruct c; reflexivity. Qed.
Lemma c_gset_tail c : c_gset (bs_tail c) = c_gset c.
Proof. destruct c; reflexivity. Qed.

(** the children of a built level are unbuilt when the user's tree is *)
Lemma built_children_unb x : tree_all unb x -> forall s0, In s0 (c_subs (build_self x)) -> tree_all unb s0.
Proof.
  intros Hx s0 Hin. pose proof (tree_all_here _ _ Hx) as [Hb1 Hb2].
  rewrite (build_self_eq x Hb1), c_subs_tail in Hin.
  set (y := bs_propagate (bs_settings x)) in *.
  set (z := hv3 (hv2 (hv1 y))) in *.
  apply in_map_iff in Hin. destruct Hin as [s1 [Es Hin1]]. subst s0.
  destruct (bs_settings_keeps x) as [_ [_ [Hsub Hgs]]].
  assert (Hgy : c_gset y = c_gset x) by (unfold y; rewrite <- Hgs; destruct (bs_settings x); reflexivity).
  assert (Hsy : c_subs y = map (propagate_subcommand (bs_settings x)) (c_subs x))
    by (unfold y, bs_propagate; rewrite <- Hsub; destruct (bs_settings x); reflexivity).
  destruct (hv1_keeps y) as [_ [_ [Hs1 [_ Hg1]]]]. destruct (hv2_keeps (hv1 y)) as [_ [_ [Hs2 [_ Hg2]]]].
  assert (Hgw : s_built (c_gset (hv2 (hv1 y))) = false) by (rewrite Hg2, Hg1, Hgy; exact Hb2).
  unfold z, hv3 in Hin1. destruct (negb (is_set s_disable_help_sub (hv2 (hv1 y)))) eqn:Eh.
  - rewrite c_subs_set_subs in Hin1. apply in_app_or in Hin1. destruct Hin1 as [Hin1|[<-|[]]].
    + rewrite Hs2, Hs1, Hsy in Hin1. apply in_map_iff in Hin1. destruct Hin1 as [l [<- Hl]].
      apply tree_all_unb_child; [rewrite Hgs; exact Hb2|exact (tree_all_sub _ _ _ Hx Hl)].
    + pose proof (help_subcommand_unb (hv2 (hv1 y)) Hgw) as Hh.
      destruct (gl_keeps z (fix_help_unset (help_subcommand (hv2 (hv1 y))))) as [_ [_ [Hs [Hset Hg]]]].
      fold z. inversion Hh as [h0 [Hu1 Hu2] Hsubs]; subst. constructor.
      * split; [rewrite Hset; exact Hu1|rewrite Hg; exact Hu2].
      * rewrite Hs. exact Hsubs.
  - rewrite Hs2, Hs1, Hsy in Hin1. apply in_map_iff in Hin1. destruct Hin1 as [l [<- Hl]].
    apply tree_all_unb_child; [rewrite Hgs; exact Hb2|exact (tree_all_sub _ _ _ Hx Hl)].
Qed.

(** one step of the descent: [_build_subcommand] of a level built from an unbuilt tree is such a level again *)
Theorem child_from_unbuilt c n sc : from_unbuilt c -> build_subcommand c n = Some sc -> from_unbuilt sc.
Proof.
  intros [x [Hx ->]] Hb. destruct (build_subcommand_inv _ _ _ Hb) as [s0 [b [d [Hin ->]]]].
  exists (setnm b d s0). split; [|reflexivity]. apply tree_all_unb_setnm. exact (built_children_unb x Hx s0 Hin).
Qed.

(** [_build_self] does not change whether the help flag is disabled, from [_propagate] on *)
Lemma dhf_build_self x : s_built (c_set x) = false ->
  is_set s_disable_help_flag (build_self x) = is_set s_disable_help_flag (bs_propagate (bs_settings x)).
Proof.
  intros Hb. rewrite (build_self_eq x Hb). set (y := bs_propagate (bs_settings x)).
  unfold is_set. rewrite c_set_tail, c_gset_tail, c_set_hv3, c_gset_hv3.
  destruct (hv1_keeps y) as [_ [_ [_ [Hs1 Hg1]]]]. destruct (hv2_keeps (hv1 y)) as [_ [_ [_ [Hs2 Hg2]]]].
  rewrite Hs2, Hg2, Hs1, Hg1. destruct (c_set y); reflexivity.
Qed.

(** C12_level_has_help: a level reached from an unbuilt tree whose help flag is not disabled holds the
    generated help argument *)
Theorem level_has_help lv : from_unbuilt lv -> is_set s_disable_help_flag lv = false -> In built_help_arg (c_args lv).
Proof.
  intros [x [Hx ->]] Hd. pose proof (tree_all_here _ _ Hx) as [Hb1 _].
  apply build_self_has_help; [exact Hb1|]. rewrite <- (dhf_build_self x Hb1). exact Hd.
Qed.
