(** Proofs about the help/usage model (C12). *)
From ClapModel Require Import Base.Bytes Base.Machine Parse.Cmd Gen.HelpTables Help.UsageModel Help.HelpModel.
From Coq Require Import Lia.
From RecordUpdate Require Import RecordSet.
Import RecordSetNotations.
Open Scope N_scope.

(** the witness of defect B on the unchanged tree: [disable_help_flag], one short Count flag *)
Definition witness_B : hcmd :=
  cmd_with ((hcmd_new [112]) <| hc_set := hset_none <| hs_no_help_flag := true |> |>
                             <| hc_gset := hset_none <| hs_no_help_flag := true |> |>)
           [ (harg_new [118] ACount) <| ha_short := Some 118 |> ] [].

Lemma padding_safe_refuted :
  exists c w, render_help len c false w = None.
Proof. exists witness_B, 80. vm_compute. reflexivity. Qed.

Lemma hide_never_shown : forall use_long a, ha_hide a = true -> should_show_arg use_long a = false.
Proof. intros l a H. unfold should_show_arg. rewrite H. reflexivity. Qed.
