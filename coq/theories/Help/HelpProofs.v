(** Proofs about the help/usage model (C12). *)
From ClapModel Require Import Base.Bytes Base.Machine Parse.Cmd Parse.Matcher Parse.Errors Parse.Validator ParseProofs.Relations.
From ClapModel Require Import Gen.HelpTables Help.UsageModel Help.HelpModel Help.HelpReqs.
From Coq Require Import Lia.
From RecordUpdate Require Import RecordSet.
Import RecordSetNotations.
Open Scope N_scope.

(** ---- generic helpers ---- *)
Lemma map_opt_some {A B} (f : A -> option B) l :
  (forall x, In x l -> exists y, f x = Some y) -> exists r, map_opt f l = Some r.
Proof.
  induction l as [|a t IH]; intros H; cbn [map_opt].
  - eauto.
  - destruct (H a (or_introl eq_refl)) as [y Hy]. rewrite Hy.
    destruct IH as [r Hr]. { intros x Hx. apply H. right. exact Hx. }
    rewrite Hr. eauto.
Qed.

Lemma map_opt_in {A B} (f : A -> option B) l r y :
  map_opt f l = Some r -> In y r -> exists x, In x l /\ f x = Some y.
Proof.
  revert r. induction l as [|a t IH]; intros r H Hy; cbn [map_opt] in H.
  - inversion H; subst. destruct Hy.
  - destruct (f a) as [b|] eqn:Fa; [|discriminate].
    destruct (map_opt f t) as [r'|] eqn:Ft; [|discriminate].
    inversion H; subst. destruct Hy as [Hy|Hy].
    + subst. exists a. split; [left; reflexivity|exact Fa].
    + destruct (IH r' eq_refl Hy) as [x [Hx Fx]]. exists x. split; [right; exact Hx|exact Fx].
Qed.

Lemma map_opt_all {A B} (f : A -> option B) l r x :
  map_opt f l = Some r -> In x l -> exists y, f x = Some y /\ In y r.
Proof.
  revert r. induction l as [|a t IH]; intros r H Hx; cbn [map_opt] in H.
  - destruct Hx.
  - destruct (f a) as [b|] eqn:Fa; [|discriminate].
    destruct (map_opt f t) as [r'|] eqn:Ft; [|discriminate].
    inversion H; subst. destruct Hx as [Hx|Hx].
    + subst. exists b. split; [exact Fa|left; reflexivity].
    + destruct (IH r' eq_refl Hx) as [y [Fy Hy]]. exists y. split; [exact Fy|right; exact Hy].
Qed.

Lemma checked_sub_some a b : b <= a -> checked_sub a b = Some (a - b).
Proof. intros H. unfold checked_sub. destruct (N.leb_spec b a); [reflexivity|lia]. Qed.

Lemma fmt_pad_some n : n <= FMT_WIDTH_MAX -> fmt_pad n = Some n.
Proof. intros H. unfold fmt_pad. destruct (N.leb_spec n FMT_WIDTH_MAX); [reflexivity|lia]. Qed.

(** ---- an argument renders once it is built ---- *)
Definition arg_ok (a : harg) : bool :=
  is_some (ha_num a) && implb (ha_is_positional a) (ha_takes_value a && is_some (ha_index a)).

Lemma suffix_some a r : arg_ok a = true -> exists s, stylize_arg_suffix a r = Some s.
Proof.
  unfold arg_ok, stylize_arg_suffix, render_arg_val. intros H.
  apply andb_true_iff in H. destruct H as [Hn Hp].
  destruct (ha_num a) as [v|] eqn:En; [|discriminate].
  destruct (ha_takes_value a) eqn:T; destruct (ha_is_positional a) eqn:P; cbn in Hp |- *;
    try discriminate;
    repeat match goal with |- context [if ?b then _ else _] => destruct b end; cbn; eauto.
Qed.

Lemma stylized_some a r : arg_ok a = true -> exists s, stylized a r = Some s.
Proof. intros H. unfold stylized. destruct (suffix_some a r H) as [s Hs]. rewrite Hs. eauto. Qed.

Lemma left_col_some a : arg_ok a = true -> exists s, left_col a = Some s.
Proof. intros H. unfold left_col. destruct (suffix_some a None H) as [s Hs]. rewrite Hs. eauto. Qed.

Lemma positional_index a : arg_ok a = true -> ha_is_positional a = true -> exists i, ha_index a = Some i.
Proof.
  unfold arg_ok. intros H P. rewrite P in H. apply andb_true_iff in H. destruct H as [_ H].
  cbn in H. apply andb_true_iff in H. destruct H as [_ H]. destruct (ha_index a); [eauto|discriminate].
Qed.

Section P.
Variable dw : bytes -> N.

(** what an argument contributes to [longest] *)
Definition contrib (a : harg) : N :=
  match arg_to_string a with
  | Some s => if longest_filter a then (if ha_is_positional a then dw s else dw s + SHORT_SIZE) else dw s
  | None => 0
  end.

Lemma wa_longest_spec l :
  (forall a, In a l -> arg_ok a = true) -> forall acc,
  exists L, wa_longest dw l acc = Some L /\ acc <= L /\ (forall a, In a l -> contrib a <= L)
            /\ (L = acc \/ exists a, In a l /\ L = contrib a).
Proof.
  induction l as [|a t IH]; intros Hok acc; cbn [wa_longest].
  - exists acc. repeat split; [lia|intros a []|left; reflexivity].
  - destruct (stylized_some a None (Hok a (or_introl eq_refl))) as [s Hs].
    assert (Hc : contrib a = if longest_filter a then (if ha_is_positional a then dw s else dw s + SHORT_SIZE) else dw s).
    { unfold contrib, arg_to_string. rewrite Hs. reflexivity. }
    unfold arg_to_string. rewrite Hs.
    set (x := contrib a) in *.
    assert (Hstep : exists L, (if longest_filter a
                               then wa_longest dw t (N.max acc (if ha_is_positional a then dw s else dw s + SHORT_SIZE))
                               else wa_longest dw t (N.max acc (dw s))) = Some L
                              /\ N.max acc x <= L /\ (forall b, In b t -> contrib b <= L)
                              /\ (L = N.max acc x \/ exists b, In b t /\ L = contrib b)).
    { destruct (longest_filter a); rewrite Hc; apply IH; intros b Hb; apply Hok; right; exact Hb. }
    destruct Hstep as [L [H1 [H2 [H3 H4]]]].
    exists L. split.
    { destruct (longest_filter a); exact H1. }
    split; [lia|]. split.
    + intros b [Hb|Hb]; [subst b; fold x; lia|apply H3; exact Hb].
    + destruct H4 as [H4|[b [Hb H4]]].
      * destruct (N.max_spec acc x) as [[_ E]|[_ E]]; rewrite E in H4.
        -- right. exists a. split; [left; reflexivity|exact H4].
        -- left. exact H4.
      * right. exists b. split; [right; exact Hb|exact H4].
Qed.

Lemma positional_longest_filter a : ha_is_positional a = true -> longest_filter a = true.
Proof.
  unfold ha_is_positional, longest_filter. intros H. apply andb_true_iff in H. destruct H as [_ H].
  rewrite H. rewrite !orb_true_r. reflexivity.
Qed.

(** [align_to_about] never underflows once [longest] covers the argument's contribution *)
Lemma align_some cx a nl L :
  arg_ok a = true -> contrib a <= L -> L + 6 <= FMT_WIDTH_MAX ->
  exists p, align_to_about dw cx a nl L = Some p /\ p <= L + 6.
Proof.
  intros Hok Hc Hf. unfold align_to_about.
  destruct (cx_use_long cx || nl).
  { exists 0. rewrite fmt_pad_some by (unfold FMT_WIDTH_MAX; lia). split; [reflexivity|lia]. }
  destruct (stylized_some a None Hok) as [s Hs]. unfold contrib, arg_to_string in *. rewrite Hs in *.
  unfold TAB_WIDTH, SHORT_SIZE in *.
  destruct (ha_is_positional a) eqn:P; cbn [negb].
  - rewrite (positional_longest_filter a P) in Hc.
    rewrite checked_sub_some by lia. rewrite fmt_pad_some by lia. eexists; split; [reflexivity|lia].
  - unfold longest_filter in Hc. destruct (ha_long a) as [l|] eqn:Lg; cbn [is_some] in *.
    + rewrite orb_true_r in Hc. cbn [orb] in Hc.
      rewrite checked_sub_some by lia. rewrite fmt_pad_some by lia. eexists; split; [reflexivity|lia].
    + assert (Hw : dw s <= L) by (destruct (ha_takes_value a || false || negb (is_some (ha_short a))); lia).
      rewrite checked_sub_some by lia. rewrite fmt_pad_some by lia. eexists; split; [reflexivity|lia].
Qed.

(** ---- possible values ---- *)
Lemma max_list_ge l x : In x l -> exists m, max_list l = Some m /\ x <= m.
Proof.
  induction l as [|y t IH]; intros H; [destruct H|]. cbn [max_list].
  destruct H as [H|H].
  - subst. destruct (max_list t); eexists; split; try reflexivity; lia.
  - destruct (IH H) as [m [Hm Hx]]. rewrite Hm. eexists; split; [reflexivity|lia].
Qed.
Lemma max_list_in l m : max_list l = Some m -> In m l.
Proof.
  revert m. induction l as [|y t IH]; intros m H; [discriminate|]. cbn [max_list] in H.
  destruct (max_list t) as [m'|] eqn:E.
  - inversion H; subst. destruct (N.max_spec y m') as [[_ E2]|[_ E2]]; rewrite E2.
    + right. apply IH. reflexivity.
    + left. reflexivity.
  - inversion H; subst. left. reflexivity.
Qed.

Definition pv_widths_ok (a : harg) : Prop := forall p, In p (ha_pvs a) -> dw (pv_name p) <= FMT_WIDTH_MAX.

Lemma visible_pvs_sub a p : In p (visible_pvs a) -> In p (ha_pvs a) /\ pv_hide p = false.
Proof.
  unfold visible_pvs, ha_possible_values. intros H. apply filter_In in H. destruct H as [H1 H2].
  destruct (ha_takes_value a); [|destruct H1]. split; [exact H1|]. destruct (pv_hide p); [discriminate|reflexivity].
Qed.

Lemma help_pvs_some cx a spaces :
  pv_widths_ok a -> spaces + 2 <= FMT_WIDTH_MAX -> exists r, help_pvs dw cx a spaces = Some r.
Proof.
  intros Hw Hs. unfold help_pvs.
  destruct (negb (ha_hide_pv a) && use_long_pv (cx_use_long cx) a) eqn:C; [|eauto].
  destruct (is_nil (ha_possible_values a)) eqn:Nil; [eauto|].
  apply andb_true_iff in C. destruct C as [_ C]. unfold use_long_pv in C.
  apply andb_true_iff in C. destruct C as [_ C]. apply existsb_exists in C. destruct C as [p [Hp Sp]].
  assert (Hv : In p (visible_pvs a)).
  { unfold visible_pvs. apply filter_In. split; [exact Hp|]. unfold pv_should_show_help in Sp.
    apply andb_true_iff in Sp. destruct Sp as [Sp _]. exact Sp. }
  destruct (max_list_ge (map (fun p => dw (pv_name p)) (visible_pvs a)) (dw (pv_name p))) as [m [Hm _]].
  { apply in_map_iff. exists p. split; [reflexivity|exact Hv]. }
  rewrite Hm.
  assert (Hmb : m <= FMT_WIDTH_MAX).
  { apply max_list_in in Hm. apply in_map_iff in Hm. destruct Hm as [q [Eq Hq]]. subst m.
    apply Hw. apply (visible_pvs_sub a q Hq). }
  unfold TAB_WIDTH. rewrite fmt_pad_some by lia.
  destruct (map_opt_some (fun p0 : hpv =>
       match pv_help p0 with
       | Some _ => match checked_sub m (dw (pv_name p0)) with
                   | Some padding => match fmt_pad padding with Some _ => Some (pv_name p0) | None => None end
                   | None => None end
       | None => Some (pv_name p0)
       end) (visible_pvs a)) as [r Hr].
  { intros q Hq. destruct (pv_help q); [|eauto].
    destruct (max_list_ge (map (fun p => dw (pv_name p)) (visible_pvs a)) (dw (pv_name q))) as [m' [Hm' Hle]].
    { apply in_map_iff. exists q. split; [reflexivity|exact Hq]. }
    rewrite Hm in Hm'. inversion Hm'; subst m'.
    rewrite checked_sub_some by exact Hle. rewrite fmt_pad_some by lia. eauto. }
  rewrite Hr. eauto.
Qed.

End P.

(** ---- the BTreeMap holds only (and, with distinct keys, all) inserted values ---- *)
Lemma bt_insert_in {K V} (cmp : K -> K -> comparison) k (v : V) m p :
  In p (bt_insert cmp k v m) -> snd p = v \/ In p m.
Proof.
  induction m as [|[k' v'] t IH]; cbn [bt_insert]; intros H.
  - destruct H as [H|[]]. subst. left. reflexivity.
  - destruct (cmp k k').
    + destruct H as [H|H]; [subst; left; reflexivity|right; right; exact H].
    + destruct H as [H|H]; [subst; left; reflexivity|right; exact H].
    + destruct H as [H|H]; [right; left; exact H|].
      destruct (IH H) as [E|E]; [left; exact E|right; right; exact E].
Qed.

Lemma fold_insert_in {K V A} (cmp : K -> K -> comparison) (kf : A -> K) (vf : A -> V) l : forall m p,
  In p (fold_left (fun m a => bt_insert cmp (kf a) (vf a) m) l m) ->
  In p m \/ exists a, In a l /\ snd p = vf a.
Proof.
  induction l as [|a t IH]; intros m p H; cbn [fold_left] in H.
  - left. exact H.
  - destruct (IH _ _ H) as [H1|[b [Hb E]]].
    + destruct (bt_insert_in _ _ _ _ _ H1) as [E|E].
      * right. exists a. split; [left; reflexivity|exact E].
      * left. exact E.
    + right. exists b. split; [right; exact Hb|exact E].
Qed.

Lemma wa_ord_in key shown p : In p (wa_ord key shown) -> In (snd p) shown.
Proof.
  unfold wa_ord. intros H.
  destruct (fold_insert_in akey_cmp (fun a => (key a, ha_id a)) (fun a => a) shown [] p H) as [[]|[a [Ha E]]].
  rewrite E. exact Ha.
Qed.

Section P2.
Variable dw : bytes -> N.

Definition arg_widths_ok (a : harg) : Prop := contrib dw a + 12 <= FMT_WIDTH_MAX /\ pv_widths_ok dw a.

Lemma write_arg_some cx a nl L :
  arg_ok a = true -> arg_widths_ok a -> contrib dw a <= L -> L + 12 <= FMT_WIDTH_MAX ->
  exists r, write_arg dw cx a nl L = Some r /\ r_id r = ha_id a /\ r_pad r <= L + 6
            /\ (forall p, In p (r_pvs r) -> exists pv, In pv (ha_pvs a) /\ pv_hide pv = false /\ pv_name pv = p).
Proof.
  intros Hok [Hw Hp] Hc HL. unfold write_arg.
  destruct (left_col_some a Hok) as [lc Hlc]. rewrite Hlc.
  destruct (align_some dw cx a nl L Hok Hc) as [pad [Hpad Hb]]; [lia|]. rewrite Hpad.
  unfold help_arg.
  destruct (help_pvs_some dw cx a (if nl then TAB_WIDTH + NEXT_LINE_INDENT_LEN else L + TAB_WIDTH * 2) Hp) as [pvs Hpvs].
  { unfold TAB_WIDTH, NEXT_LINE_INDENT_LEN. destruct nl; lia. }
  rewrite Hpvs. eexists. split; [reflexivity|]. cbn [r_id r_pad r_pvs]. split; [reflexivity|]. split; [exact Hb|].
  intros p Hin. destruct (ha_hide_pv a || is_nil (ha_possible_values a)); [destruct Hin|].
  apply in_map_iff in Hin. destruct Hin as [pv [E Hv]]. exists pv.
  destruct (visible_pvs_sub a pv Hv) as [H1 H2]. repeat split; assumption.
Qed.

(** [write_args]: total; every row comes from a shown argument; the padding is bounded by
    [longest + 6], and [longest] is 2 or the contribution of one of the arguments *)
Lemma write_args_spec cx args key :
  (forall a, In a args -> arg_ok a = true /\ arg_widths_ok a) ->
  exists rows, write_args dw cx args key = Some rows /\
    forall r, In r rows ->
      exists a, In a args /\ should_show_arg (cx_use_long cx) a = true /\ r_id r = ha_id a
                /\ (exists b, (b = 2 \/ exists a', In a' args /\ b = contrib dw a') /\ r_pad r <= b + 6)
                /\ (forall p, In p (r_pvs r) -> exists pv, In pv (ha_pvs a) /\ pv_hide pv = false /\ pv_name pv = p).
Proof.
  intros Hargs. unfold write_args.
  set (shown := filter (should_show_arg (cx_use_long cx)) args).
  assert (Hsh : forall a, In a shown -> In a args /\ should_show_arg (cx_use_long cx) a = true).
  { intros a Ha. apply filter_In in Ha. exact Ha. }
  destruct (wa_longest_spec dw shown) with (acc := 2) as [L [HL [H2 [Hall Hwit]]]].
  { intros a Ha. apply Hargs. apply Hsh. exact Ha. }
  rewrite HL.
  assert (HLb : L + 12 <= FMT_WIDTH_MAX).
  { destruct Hwit as [E|[a [Ha E]]]; [subst; unfold FMT_WIDTH_MAX; lia|].
    subst L. destruct (Hargs a) as [_ [Hw _]]; [apply Hsh; exact Ha|exact Hw]. }
  destruct (map_opt_some (fun p : akey * harg => write_arg dw cx (snd p) (will_args_wrap dw cx args L) L) (wa_ord key shown)) as [rows Hrows].
  { intros p Hp. apply wa_ord_in in Hp. destruct (Hargs (snd p)) as [Hok Hw]; [apply Hsh; exact Hp|].
    destruct (write_arg_some cx (snd p) (will_args_wrap dw cx args L) L Hok Hw (Hall _ Hp) HLb) as [r [Hr _]]. eauto. }
  exists rows. split; [exact Hrows|].
  intros r Hr. destruct (map_opt_in _ _ _ _ Hrows Hr) as [p [Hp Hw]].
  apply wa_ord_in in Hp. destruct (Hsh _ Hp) as [Hin Hshow]. destruct (Hargs _ Hin) as [Hok Hwd].
  destruct (write_arg_some cx (snd p) (will_args_wrap dw cx args L) L Hok Hwd (Hall _ Hp) HLb) as [r' [Hr' [Hid [Hpad Hpv]]]].
  rewrite Hw in Hr'. inversion Hr'; subst r'.
  exists (snd p). repeat split; try assumption.
  exists L. split; [|exact Hpad].
  destruct Hwit as [E|[a [Ha E]]]; [left; exact E|right; exists a; split; [apply Hsh; exact Ha|exact E]].
Qed.

(** ---- subcommands ---- *)
Lemma fold_max_spec {A} (f : A -> N) l : forall acc,
  acc <= fold_left (fun m x => N.max m (f x)) l acc
  /\ (forall x, In x l -> f x <= fold_left (fun m x => N.max m (f x)) l acc)
  /\ (fold_left (fun m x => N.max m (f x)) l acc = acc \/ exists x, In x l /\ fold_left (fun m x => N.max m (f x)) l acc = f x).
Proof.
  induction l as [|a t IH]; intros acc; cbn [fold_left].
  - repeat split; [lia|intros x []|left; reflexivity].
  - destruct (IH (N.max acc (f a))) as [H1 [H2 H3]].
    set (R := fold_left (fun m x => N.max m (f x)) t (N.max acc (f a))) in *. repeat split.
    + lia.
    + intros x [Hx|Hx]; [subst; lia|apply H2; exact Hx].
    + destruct H3 as [H3|[x [Hx H3]]].
      * destruct (N.max_spec acc (f a)) as [[_ E]|[_ E]].
        -- right. exists a. split; [left; reflexivity|lia].
        -- left. lia.
      * right. exists x. split; [right; exact Hx|exact H3].
Qed.

Definition sub_widths_ok (c : hcmd) : Prop := forall sc, In sc (hc_subs c) -> dw (sc_str sc) + 12 <= FMT_WIDTH_MAX.

Lemma write_subcommands_spec cx c :
  sub_widths_ok c ->
  exists rows, write_subcommands dw cx c = Some rows /\
    forall r, In r rows -> exists sc, In sc (hc_subs c) /\ hc_hide sc = false /\ r_id r = hc_name sc
                                      /\ (exists b, (b = 2 \/ exists s', In s' (hc_subs c) /\ b = dw (sc_str s')) /\ r_pad r <= b + 2)
                                      /\ r_pvs r = [].
Proof.
  intros Hw. unfold write_subcommands.
  set (vis := filter should_show_subcommand (hc_subs c)).
  assert (Hvis : forall sc, In sc vis -> In sc (hc_subs c) /\ hc_hide sc = false).
  { intros sc H. apply filter_In in H. destruct H as [H1 H2]. split; [exact H1|].
    unfold should_show_subcommand in H2. destruct (hc_hide sc); [discriminate|reflexivity]. }
  set (L := fold_left (fun acc sc => N.max acc (dw (sc_str sc))) vis 2).
  destruct (fold_max_spec (fun sc => dw (sc_str sc)) vis 2) as [H2 [Hall Hwit]]. fold L in H2, Hall, Hwit.
  assert (HLb : L + 12 <= FMT_WIDTH_MAX).
  { destruct Hwit as [E|[sc [Hsc E]]]; [rewrite E; unfold FMT_WIDTH_MAX; lia|]. rewrite E. apply Hw. apply Hvis. exact Hsc. }
  set (nl := existsb (fun sc => subcommand_next_line_help dw cx sc L) vis).
  set (ord := fold_left (fun m sc => bt_insert key_cmp (hc_display_order sc, sc_str sc) sc m) vis []).
  assert (Hord : forall p, In p ord -> In (snd p) vis).
  { intros p Hp. destruct (fold_insert_in key_cmp (fun sc => (hc_display_order sc, sc_str sc)) (fun sc => sc) vis [] p Hp) as [[]|[a [Ha E]]].
    rewrite E. exact Ha. }
  assert (Hone : forall p, In p ord -> exists pad, subcmd dw (sc_str (snd p)) nl L = Some pad /\ pad <= L + 2).
  { intros p Hp. unfold subcmd. destruct nl; cbn [negb].
    - exists 0. split; [reflexivity|lia].
    - unfold TAB_WIDTH. pose proof (Hall _ (Hord _ Hp)) as Hle. cbn beta in Hle.
      rewrite checked_sub_some by lia. rewrite fmt_pad_some by lia. eexists; split; [reflexivity|lia]. }
  destruct (map_opt_some (fun p : key * hcmd =>
      match subcmd dw (sc_str (snd p)) nl L with
      | Some pad => Some (mkRow (hc_name (snd p)) (sc_str (snd p)) pad nl [] [] [])
      | None => None end) ord) as [rows Hrows].
  { intros p Hp. destruct (Hone p Hp) as [pad [E _]]. rewrite E. eauto. }
  exists rows. split; [exact Hrows|].
  intros r Hr. destruct (map_opt_in _ _ _ _ Hrows Hr) as [p [Hp E]].
  destruct (Hone p Hp) as [pad [E2 Hpad]]. rewrite E2 in E. inversion E; subst r. cbn [r_id r_pad r_pvs].
  destruct (Hvis _ (Hord _ Hp)) as [H1 H3]. exists (snd p). repeat split; try assumption.
  exists L. split; [|exact Hpad].
  destruct Hwit as [E3|[sc [Hsc E3]]]; [left; exact E3|right; exists sc; split; [apply Hvis; exact Hsc|exact E3]].
Qed.

End P2.

(** ---- usage.rs ---- *)
Lemma flatset_insert_in x y l : In x (flatset_insert y l) -> x = y \/ In x l.
Proof.
  unfold flatset_insert. destruct (existsb _ l); intros H; [right; exact H|].
  apply in_app_or in H. destruct H as [H|[H|[]]]; [right; exact H|left; symmetry; exact H].
Qed.
Lemma flatset_insert_keeps x y l : In x l -> In x (flatset_insert y l).
Proof. unfold flatset_insert. destruct (existsb _ l); intros H; [exact H|apply in_or_app; left; exact H]. Qed.
(** the text of an inserted element is in the set afterwards (under its own id or an earlier one) *)
Lemma flatset_insert_text y l : In (snd y) (map snd (flatset_insert y l)).
Proof.
  unfold flatset_insert. destruct (existsb (fun z => beq (snd z) (snd y)) l) eqn:E.
  - apply existsb_exists in E. destruct E as [z [Hz Ez]]. apply beq_eq in Ez. rewrite <- Ez. apply in_map. exact Hz.
  - rewrite map_app. apply in_or_app. right. left. reflexivity.
Qed.
Lemma vec_set_in {A} n (v : A) l x : In x (vec_flatten (vec_set n v l)) -> x = v \/ In x (vec_flatten l).
Proof.
  revert l. induction n as [|n IH]; intros l H; destruct l as [|[y|] t]; cbn [vec_set vec_flatten] in *.
  - destruct H as [H|[]]. left. symmetry. exact H.
  - destruct H as [H|H]; [left; symmetry; exact H|right; right; exact H].
  - destruct H as [H|H]; [left; symmetry; exact H|right; exact H].
  - apply IH in H. cbn [vec_flatten] in H. exact H.
  - destruct H as [H|H]; [right; left; exact H|]. apply IH in H. destruct H; [left|right; right]; assumption.
  - apply IH in H. exact H.
Qed.
Lemma vec_clear_in {A} n (l : list (option A)) x : In x (vec_flatten (vec_clear n l)) -> In x (vec_flatten l).
Proof.
  revert l. induction n as [|n IH]; intros l H; destruct l as [|[y|] t]; cbn [vec_clear vec_flatten] in *.
  - exact H.
  - right. exact H.
  - exact H.
  - exact H.
  - destruct H as [H|H]; [left; exact H|right; apply IH; exact H].
  - apply IH. exact H.
Qed.
Lemma vec_get_in {A} n (l : list (option A)) x : vec_get n l = Some x -> In x (vec_flatten l).
Proof.
  unfold vec_get. revert l. induction n as [|n IH]; intros l H; destruct l as [|[y|] t]; cbn [nth vec_flatten] in *;
    try discriminate.
  - inversion H. left. reflexivity.
  - right. apply IH. exact H.
  - apply IH. exact H.
Qed.

Definition args_ok (c : hcmd) : Prop := forall a, In a (hc_args c) -> arg_ok a = true.

(** the members of the groups the usage line lists *)
Definition usage_members (c : hcmd) : list id :=
  match req_groups c (usage_reqs c) [] [] with Some gm => snd gm | None => [] end.

(** where a usage piece may come from: an argument among the requirements that is not a member of a
    listed group, a positional that is not [hide]n (and not such a member), or a group among the
    requirements (then the text is [format_group]) *)
Definition usage_src (c : hcmd) (x : bytes * bytes) : Prop :=
  (exists a, In a (hc_args c) /\ ha_id a = fst x /\ mem_id (fst x) (usage_members c) = false
             /\ (In (fst x) (usage_reqs c) \/ (ha_is_positional a = true /\ ha_hide a = false)))
  \/ (is_some (find_group (pcmd_of c) (fst x)) = true /\ In (fst x) (usage_reqs c)
      /\ format_group c (fst x) = Some (snd x)).

Lemma format_group_some c grp :
  args_ok c -> rel_wf (pcmd_of c) = true -> In grp (hc_groups c) -> exists s, format_group c (g_id grp) = Some s.
Proof.
  intros Hok W Hg. unfold format_group.
  destruct (unroll_args_in_group_total (pcmd_of c) grp W Hg) as [m Hm]. rewrite Hm.
  destruct (map_opt_some (fun x => if ha_is_positional x then Some (name_no_brackets x) else arg_to_string x)
                         (filter_map (h_find c) m)) as [parts Hp].
  { intros x Hx. apply filter_map_inv in Hx. destruct Hx as [i [_ Hf]]. apply h_find_some in Hf.
    destruct (ha_is_positional x); [eauto|]. unfold arg_to_string. apply stylized_some. apply Hok. apply Hf. }
  rewrite Hp. eauto.
Qed.

(** the groups loop *)
Lemma req_groups_spec c reqs : forall groups members,
  args_ok c -> rel_wf (pcmd_of c) = true -> (forall x, In x reqs -> id_exists (pcmd_of c) x = true) ->
  exists r, req_groups c reqs groups members = Some r
    /\ (forall x, In x (fst r) -> In x groups \/ (is_some (find_group (pcmd_of c) (fst x)) = true /\ In (fst x) reqs
                                                    /\ format_group c (fst x) = Some (snd x)))
    /\ (forall t, In t (map snd groups) -> In t (map snd (fst r)))
    /\ (forall m, In m (snd r) -> In m members \/
          exists g gm txt, In g reqs /\ unroll_args_in_group (pcmd_of c) g = Some gm /\ In m gm
                           /\ format_group c g = Some txt /\ In txt (map snd (fst r)))
    /\ (forall m, In m members -> In m (snd r))
    /\ (forall g gm, In g reqs -> is_some (find_group (pcmd_of c) g) = true ->
          unroll_args_in_group (pcmd_of c) g = Some gm -> forall m, In m gm -> In m (snd r)).
Proof.
  induction reqs as [|req t IH]; intros groups members Hok W Hex; cbn [req_groups].
  - eexists. split; [reflexivity|]. cbn [fst snd]. repeat split; auto. intros g gm [].
  - assert (Ht : forall x, In x t -> id_exists (pcmd_of c) x = true) by (intros x Hx; apply Hex; right; exact Hx).
    destruct (find_group (pcmd_of c) req) as [grp|] eqn:Eg; cbn [is_some].
    + destruct (find_group_id _ _ _ Eg) as [Hid Hin]. rewrite pcmd_groups in Hin.
      destruct (unroll_args_in_group_total (pcmd_of c) grp W Hin) as [gm Hgm]. rewrite Hid in Hgm. rewrite Hgm.
      destruct (format_group_some c grp Hok W Hin) as [txt Htxt]. rewrite Hid in Htxt. rewrite Htxt.
      destruct (IH (flatset_insert (req, txt) groups) (idset_extend gm members) Hok W Ht) as [r [Hr [R1 [R2 [R3 [R4 R5]]]]]].
      exists r. split; [exact Hr|].
      assert (Hext : forall m, In m members \/ In m gm -> In m (idset_extend gm members)).
      { clear. unfold idset_extend. revert members. induction gm as [|x u IHu]; intros members m Hm; cbn [fold_left].
        - destruct Hm as [Hm|[]]. exact Hm.
        - apply IHu. destruct Hm as [Hm|[Hm|Hm]].
          + left. destruct (mem_id x members); [exact Hm|apply in_or_app; left; exact Hm].
          + subst x. left. destruct (mem_id m members) eqn:E; [apply mem_id_In; exact E|apply in_or_app; right; left; reflexivity].
          + right. exact Hm. }
      assert (Hext2 : forall m, In m (idset_extend gm members) -> In m members \/ In m gm).
      { clear. unfold idset_extend. revert members. induction gm as [|x u IHu]; intros members m Hm; cbn [fold_left] in Hm.
        - left. exact Hm.
        - apply IHu in Hm. destruct Hm as [Hm|Hm]; [|right; right; exact Hm].
          destruct (mem_id x members); [left; exact Hm|]. apply in_app_or in Hm. destruct Hm as [Hm|[Hm|[]]]; [left; exact Hm|right; left; exact Hm]. }
      split; [|split; [|split; [|split]]].
      * intros x Hx. destruct (R1 x Hx) as [H|[H1 [H2 H3]]].
        -- apply flatset_insert_in in H. destruct H as [H|H]; [|left; exact H].
           right. subst x. cbn [fst snd]. rewrite Eg. split; [reflexivity|]. split; [left; reflexivity|exact Htxt].
        -- right. split; [exact H1|]. split; [right; exact H2|exact H3].
      * intros tx Htx. apply R2. apply in_map_iff in Htx. destruct Htx as [y [Ey Hy]]. apply in_map_iff. exists y.
        split; [exact Ey|apply flatset_insert_keeps; exact Hy].
      * intros m Hm. destruct (R3 m Hm) as [H|[g [gm' [tx [H1 H2]]]]].
        -- apply Hext2 in H. destruct H as [H|H]; [left; exact H|].
           right. exists req, gm, txt. split; [left; reflexivity|]. split; [exact Hgm|]. split; [exact H|]. split; [exact Htxt|].
           apply R2. apply (flatset_insert_text (req, txt)).
        -- right. exists g, gm', tx. split; [right; exact H1|exact H2].
      * intros m Hm. apply R4. apply Hext. left. exact Hm.
      * intros g gm' [Hg|Hg] Hfg Hu m Hm.
        -- subst g. rewrite Hgm in Hu. inversion Hu; subst gm'. apply R4. apply Hext. right. exact Hm.
        -- apply (R5 g gm' Hg Hfg Hu m Hm).
    + pose proof (Hex req (or_introl eq_refl)) as He. unfold id_exists in He. rewrite Eg in He. cbn [is_some] in He.
      rewrite orb_false_r in He. rewrite find_arg_pcmd_some in He. rewrite He.
      destruct (IH groups members Hok W Ht) as [r [Hr [R1 [R2 [R3 [R4 R5]]]]]].
      exists r. split; [exact Hr|]. split; [|split; [|split; [|split]]].
      * intros x Hx. destruct (R1 x Hx) as [H|[H1 [H2 H3]]]; [left; exact H|right]. split; [exact H1|]. split; [right; exact H2|exact H3].
      * exact R2.
      * intros m Hm. destruct (R3 m Hm) as [H|[g [gm' [tx [H1 H2]]]]]; [left; exact H|].
        right. exists g, gm', tx. split; [right; exact H1|exact H2].
      * exact R4.
      * intros g gm' [Hg|Hg] Hfg Hu m Hm; [subst g; rewrite Eg in Hfg; discriminate|apply (R5 g gm' Hg Hfg Hu m Hm)].
Qed.

(** the arguments loop: [P] is what is known of every piece *)
Lemma req_split_spec c fo members reqs0 (P : bytes * bytes -> Prop) reqs : forall opts poss,
  args_ok c -> (forall x, In x reqs -> id_exists (pcmd_of c) x = true /\ In x reqs0) ->
  (forall a s, In a (hc_args c) -> In (ha_id a) reqs0 -> mem_id (ha_id a) members = false -> P (ha_id a, s)) ->
  (forall x, In x opts -> P x) -> (forall x, In x (vec_flatten poss) -> P x) ->
  exists r, req_split c fo members reqs opts poss = Some r /\ (forall x, In x (fst r) -> P x)
            /\ (forall x, In x (vec_flatten (snd r)) -> P x).
Proof.
  induction reqs as [|req t IH]; intros opts poss Hok Hex HP Ho Hp; cbn [req_split].
  - eexists. split; [reflexivity|]. split; assumption.
  - assert (Ht : forall x, In x t -> id_exists (pcmd_of c) x = true /\ In x reqs0) by (intros x Hx; apply Hex; right; exact Hx).
    destruct (Hex req (or_introl eq_refl)) as [He Hin0].
    destruct (h_find c req) as [a|] eqn:Ea.
    + destruct (h_find_some _ _ _ Ea) as [Hid Hin].
      destruct (mem_id (ha_id a) members) eqn:Em; [apply IH; assumption|].
      destruct (stylized_some a (Some (negb fo)) (Hok a Hin)) as [s Hs]. rewrite Hs.
      assert (Hsrc : P (ha_id a, s)) by (apply HP; [exact Hin|rewrite Hid; exact Hin0|exact Em]).
      destruct (ha_index a) as [i|].
      * apply IH; [exact Hok|exact Ht|exact HP|exact Ho|].
        intros x Hx. apply vec_set_in in Hx. destruct Hx as [Hx|Hx]; [subst; exact Hsrc|apply Hp; exact Hx].
      * apply IH; [exact Hok|exact Ht|exact HP| |exact Hp].
        intros x Hx. apply flatset_insert_in in Hx. destruct Hx as [Hx|Hx]; [subst; exact Hsrc|apply Ho; exact Hx].
    + unfold id_exists in He. rewrite find_arg_pcmd_some, Ea in He. cbn [is_some orb] in He. rewrite He.
      apply IH; assumption.
Qed.

Lemma usage_positionals_spec c fo members (P : bytes * bytes -> Prop) ps : forall poss,
  (forall a, In a ps -> arg_ok a = true /\ In a (hc_args c) /\ ha_is_positional a = true) ->
  (forall a s, In a (hc_args c) -> ha_is_positional a = true -> ha_hide a = false -> mem_id (ha_id a) members = false ->
               P (ha_id a, s)) ->
  (forall i s s', P (i, s) -> P (i, s')) ->
  (forall x, In x (vec_flatten poss) -> P x) ->
  exists r, usage_positionals fo members ps poss = Some r /\ (forall x, In x (vec_flatten r) -> P x).
Proof.
  induction ps as [|a t IH]; intros poss Hps HP Hre Hp; cbn [usage_positionals].
  - eexists. split; [reflexivity|exact Hp].
  - destruct (Hps a (or_introl eq_refl)) as [Hok [Hin Hpos]].
    assert (Ht : forall b, In b t -> arg_ok b = true /\ In b (hc_args c) /\ ha_is_positional b = true)
      by (intros b Hb; apply Hps; right; exact Hb).
    destruct (ha_hide a) eqn:Hh; [apply IH; assumption|].
    destruct (mem_id (ha_id a) members) eqn:Em; [apply IH; assumption|].
    destruct (positional_index a Hok Hpos) as [i Hi]. rewrite Hi.
    assert (H1 : exists poss1, match vec_get (N.to_nat i) poss with
        | Some (pid, styled) => Some (if ha_last a then vec_set (N.to_nat i) (pid, s_dashdash_sp ++ styled) poss else poss)
        | None => match (if ha_last a then match stylized a (Some true) with Some s => Some ([91] ++ s_dashdash_sp ++ s ++ [93]) | None => None end
                         else stylized a (Some false)) with
                  | Some styled => Some (vec_set (N.to_nat i) (ha_id a, styled) poss) | None => None end
        end = Some poss1 /\ forall x, In x (vec_flatten poss1) -> P x).
    { destruct (vec_get (N.to_nat i) poss) as [[pid styled]|] eqn:G.
      - eexists. split; [reflexivity|]. destruct (ha_last a); [|exact Hp].
        intros x Hx. apply vec_set_in in Hx. destruct Hx as [Hx|Hx]; [|apply Hp; exact Hx].
        subst x. apply (Hre pid styled). apply Hp. apply (vec_get_in _ _ _ G).
      - destruct (stylized_some a (Some true) Hok) as [s1 Hs1]. destruct (stylized_some a (Some false) Hok) as [s2 Hs2].
        rewrite Hs1, Hs2.
        destruct (ha_last a); (eexists; split; [reflexivity|]; intros x Hx; apply vec_set_in in Hx;
          destruct Hx as [Hx|Hx]; [subst x; apply HP; assumption|apply Hp; exact Hx]). }
    destruct H1 as [poss1 [E1 Hp1]]. rewrite E1.
    apply IH; [exact Ht|exact HP|exact Hre|].
    destruct (ha_last a && fo); [|exact Hp1]. intros x Hx. apply Hp1. apply (vec_clear_in _ _ _ Hx).
Qed.

Lemma usage_members_eq c gm : req_groups c (usage_reqs c) [] [] = Some gm -> usage_members c = snd gm.
Proof. unfold usage_members. intros ->. reflexivity. Qed.

Lemma usage_arg_items_spec c fo :
  args_ok c -> refs_ok c = true ->
  exists items, usage_arg_items c fo = Some items /\ forall x, In x items -> usage_src c x.
Proof.
  intros Hok Hrefs. unfold usage_arg_items. rewrite usage_reqs_eq.
  assert (W : rel_wf (pcmd_of c) = true).
  { unfold refs_ok in Hrefs. apply andb_true_iff in Hrefs. destruct Hrefs as [H _]. apply andb_true_iff in H. apply H. }
  assert (Hex : forall x, In x (usage_reqs c) -> id_exists (pcmd_of c) x = true) by (intros x; apply usage_reqs_exist; exact Hrefs).
  destruct (req_groups_spec c (usage_reqs c) [] [] Hok W Hex) as [gm [Hgm [G1 _]]]. rewrite Hgm.
  pose proof (usage_members_eq c gm Hgm) as Hmem.
  set (P := fun x : bytes * bytes =>
              exists a, In a (hc_args c) /\ ha_id a = fst x /\ mem_id (fst x) (usage_members c) = false
                        /\ (In (fst x) (usage_reqs c) \/ (ha_is_positional a = true /\ ha_hide a = false))).
  assert (HPa : forall a s, In a (hc_args c) -> In (ha_id a) (usage_reqs c) -> mem_id (ha_id a) (snd gm) = false -> P (ha_id a, s)).
  { intros a s Ha Hr Hm. exists a. cbn [fst]. rewrite Hmem.
    split; [exact Ha|]. split; [reflexivity|]. split; [exact Hm|]. left. exact Hr. }
  destruct (req_split_spec c fo (snd gm) (usage_reqs c) P (usage_reqs c) [] [] Hok) as [sp [Hsp [S1 S2]]].
  { intros x Hx. split; [apply Hex; exact Hx|exact Hx]. }
  { exact HPa. } { intros x []. } { intros x []. }
  rewrite Hsp.
  destruct (usage_positionals_spec c fo (snd gm) P (filter ha_is_positional (hc_args c)) (snd sp)) as [poss [Hposs H3]].
  { intros a Ha. apply filter_In in Ha. destruct Ha as [Ha Hp]. auto. }
  { intros a s Ha Hp Hh Hm. exists a. cbn [fst]. rewrite Hmem.
    split; [exact Ha|]. split; [reflexivity|]. split; [exact Hm|]. right. split; assumption. }
  { intros i s s' [a Ha]. exists a. exact Ha. }
  { exact S2. }
  rewrite Hposs. eexists. split; [reflexivity|].
  intros x Hx. apply in_app_or in Hx. destruct Hx as [Hx|Hx]; [|left; apply H3; exact Hx].
  destruct (negb fo); [|destruct Hx]. apply in_app_or in Hx. destruct Hx as [Hx|Hx]; [left; apply S1; exact Hx|].
  destruct (G1 x Hx) as [[]|[H1 [H2 H3']]]. right. auto.
Qed.
Lemma write_arg_usage_some c incl : args_ok c -> refs_ok c = true -> exists u, write_arg_usage c incl = Some u.
Proof. intros H R. unfold write_arg_usage. destruct (usage_arg_items_spec c (negb incl) H R) as [it [E _]]. rewrite E. eauto. Qed.
Lemma args_okb_sound c : forallb arg_ok (hc_args c) = true -> args_ok c.
Proof. intros H a Ha. rewrite forallb_forall in H. apply H. exact Ha. Qed.
Lemma usage_pieces_some c : args_ok c -> refs_ok c = true -> exists u, usage_pieces c = Some u.
Proof.
  intros H R. unfold usage_pieces. destruct (write_arg_usage_some c true H R) as [u Hu]. rewrite Hu.
  unfold write_subcommand_usage. destruct (has_visible_subcommands c || hc_allow_external c); [|eauto].
  destruct (hc_negates_reqs c || hc_args_conflicts c); [|destruct (hc_sub_required c); eauto].
  destruct (hc_args_conflicts c); [eauto|]. destruct (write_arg_usage_some c false H R) as [v Hv]. rewrite Hv. eauto.
Qed.

Theorem usage_total c : args_ok c -> refs_ok c = true -> usage_pieces c <> None.
Proof. intros H R. destruct (usage_pieces_some c H R) as [u E]. rewrite E. discriminate. Qed.

(** ---- sections ---- *)
Section P3.
Variable dw : bytes -> N.

Definition cmd_ok (c : hcmd) : Prop :=
  (forall a, In a (hc_args c) -> arg_ok a = true /\ arg_widths_ok dw a) /\ sub_widths_ok dw c.

(** the two kinds of rows *)
Definition row_of_arg (use_long : bool) (c : hcmd) (r : row) : Prop :=
  exists a, In a (hc_args c) /\ should_show_arg use_long a = true /\ r_id r = ha_id a
            /\ (exists b, (b = 2 \/ exists a', In a' (hc_args c) /\ b = contrib dw a') /\ r_pad r <= b + 6)
            /\ (forall p, In p (r_pvs r) -> exists pv, In pv (ha_pvs a) /\ pv_hide pv = false /\ pv_name pv = p).
Definition row_of_sub (c : hcmd) (r : row) : Prop :=
  exists sc, In sc (hc_subs c) /\ hc_hide sc = false /\ r_id r = hc_name sc
             /\ (exists b, (b = 2 \/ exists s', In s' (hc_subs c) /\ b = dw (sc_str s')) /\ r_pad r <= b + 2)
             /\ r_pvs r = [].

Lemma write_args_sub cx c args key :
  cmd_ok c -> (forall a, In a args -> In a (hc_args c)) ->
  exists rows, write_args dw cx args key = Some rows /\ forall r, In r rows -> row_of_arg (cx_use_long cx) c r.
Proof.
  intros [Hc _] Hsub.
  destruct (write_args_spec dw cx args key) as [rows [Hrows Hr]].
  { intros a Ha. apply Hc. apply Hsub. exact Ha. }
  exists rows. split; [exact Hrows|]. intros r Hin.
  destruct (Hr r Hin) as [a [Ha [Hs [Hid [[b [Hb Hpad]] Hpv]]]]].
  exists a. repeat split; auto.
  exists b. split; [|exact Hpad]. destruct Hb as [Hb|[a' [Ha' Hb]]]; [left; exact Hb|right; exists a'; auto].
Qed.

Definition secs_ok (use_long : bool) (c : hcmd) (secs : list section) : Prop :=
  forall sec r, In sec secs -> In r (s_rows sec) -> row_of_arg use_long c r \/ row_of_sub c r.

Lemma heading_sections_spec cx c hs :
  cmd_ok c -> exists secs, heading_sections dw cx c hs = Some secs /\ secs_ok (cx_use_long cx) c secs.
Proof.
  intros Hc. induction hs as [|h t IH]; cbn [heading_sections].
  - exists []. split; [reflexivity|]. intros sec r [].
  - destruct IH as [rest [Hrest Hok]]. rewrite Hrest.
    set (args := filter (should_show_arg (cx_use_long cx)) (filter (heading_is h) (hc_args c))).
    destruct (is_nil args).
    + exists rest. split; [reflexivity|exact Hok].
    + destruct (write_args_sub cx c args option_sort_key Hc) as [rows [Hrows Hr]].
      { intros a Ha. unfold args in Ha. apply filter_In in Ha. destruct Ha as [Ha _]. apply filter_In in Ha. apply Ha. }
      rewrite Hrows. eexists. split; [reflexivity|].
      intros sec r [Hs|Hs] Hin; [subst sec; left; apply Hr; exact Hin|apply (Hok sec r Hs Hin)].
Qed.

Lemma write_all_args_spec cx c :
  cmd_ok c -> exists secs, write_all_args dw cx c = Some secs /\ secs_ok (cx_use_long cx) c secs.
Proof.
  intros Hc. unfold write_all_args.
  set (show := should_show_arg (cx_use_long cx)).
  set (pos := filter show (filter (fun a => negb (is_some (ha_heading a))) (filter ha_is_positional (hc_args c)))).
  set (non_pos := filter show (filter (fun a => negb (is_some (ha_heading a))) (filter (fun a => negb (ha_is_positional a)) (hc_args c)))).
  assert (Hs1 : exists s1, (if has_visible_subcommands c
            then match write_subcommands dw cx c with Some rows => Some [mkSec (sub_section_title c) rows] | None => None end
            else Some []) = Some s1 /\ secs_ok (cx_use_long cx) c s1).
  { destruct (has_visible_subcommands c).
    - destruct (write_subcommands_spec dw cx c (proj2 Hc)) as [rows [Hrows Hr]]. rewrite Hrows.
      eexists. split; [reflexivity|]. intros sec r [Hs|[]] Hin. subst sec. right. apply Hr. exact Hin.
    - exists []. split; [reflexivity|]. intros sec r []. }
  destruct Hs1 as [s1 [E1 Ok1]]. rewrite E1.
  assert (Hs2 : exists s2, (if is_nil pos then Some []
            else match write_args dw cx pos positional_sort_key with Some rows => Some [mkSec s_arguments rows] | None => None end) = Some s2
            /\ secs_ok (cx_use_long cx) c s2).
  { destruct (is_nil pos).
    - exists []. split; [reflexivity|]. intros sec r [].
    - destruct (write_args_sub cx c pos positional_sort_key Hc) as [rows [Hrows Hr]].
      { intros a Ha. unfold pos in Ha. repeat (apply filter_In in Ha; destruct Ha as [Ha _]). exact Ha. }
      rewrite Hrows. eexists. split; [reflexivity|]. intros sec r [Hs|[]] Hin. subst sec. left. apply Hr. exact Hin. }
  destruct Hs2 as [s2 [E2 Ok2]]. rewrite E2.
  assert (Hs3 : exists s3, (if is_nil non_pos then Some []
            else match write_args dw cx non_pos option_sort_key with Some rows => Some [mkSec s_options rows] | None => None end) = Some s3
            /\ secs_ok (cx_use_long cx) c s3).
  { destruct (is_nil non_pos).
    - exists []. split; [reflexivity|]. intros sec r [].
    - destruct (write_args_sub cx c non_pos option_sort_key Hc) as [rows [Hrows Hr]].
      { intros a Ha. unfold non_pos in Ha. repeat (apply filter_In in Ha; destruct Ha as [Ha _]). exact Ha. }
      rewrite Hrows. eexists. split; [reflexivity|]. intros sec r [Hs|[]] Hin. subst sec. left. apply Hr. exact Hin. }
  destruct Hs3 as [s3 [E3 Ok3]]. rewrite E3.
  destruct (heading_sections_spec cx c (custom_headings c) Hc) as [s4 [E4 Ok4]]. rewrite E4.
  eexists. split; [reflexivity|].
  intros sec r Hs Hin. repeat (apply in_app_or in Hs; destruct Hs as [Hs|Hs]);
    [apply (Ok1 sec r Hs Hin)|apply (Ok2 sec r Hs Hin)|apply (Ok3 sec r Hs Hin)|apply (Ok4 sec r Hs Hin)].
Qed.

(** [write_help] is total on a built command, for every width, mode and display-width function *)
Lemma write_help_spec c use_long w :
  cmd_ok c -> refs_ok c = true ->
  exists s, write_help dw c use_long w = Some s /\ secs_ok use_long c (scr_sections s)
            /\ scr_about s = write_about use_long c.
Proof.
  intros Hc Hrefs. unfold write_help.
  destruct (usage_pieces_some c) as [u Hu]. { intros a Ha. apply (proj1 Hc a Ha). } { exact Hrefs. }
  rewrite Hu.
  destruct (write_all_args_spec (mkCtx use_long (term_w_of w) (h_is_set hs_next_line c)) c Hc) as [secs [Hs Hok]].
  rewrite Hs. eexists. split; [reflexivity|]. split; [exact Hok|reflexivity].
Qed.

(** the sections of a rendered screen, whatever the usage line did *)
Lemma write_help_secs c use_long w s :
  cmd_ok c -> write_help dw c use_long w = Some s -> secs_ok use_long c (scr_sections s).
Proof.
  intros Hc H. unfold write_help in H. destruct (usage_pieces c) as [u|]; [|discriminate].
  destruct (write_all_args_spec (mkCtx use_long (term_w_of w) (h_is_set hs_next_line c)) c Hc) as [secs [Hs Hok]].
  rewrite Hs in H. inversion H; subst s. exact Hok.
Qed.

End P3.

(** ---- the build step establishes [arg_ok] ---- *)
Definition spec_arg_ok (a : harg) : bool := implb (ha_is_positional a) (ha_takes_value (harg_build a)).

Lemma harg_default_pos a : ha_is_positional (harg_default a) = ha_is_positional a.
Proof. unfold harg_default. destruct (action_default_value _); [destruct (is_nil _)|]; reflexivity. Qed.
Lemma harg_default_num a : ha_num (harg_default a) = ha_num a.
Proof. unfold harg_default. destruct (action_default_value _); [destruct (is_nil _)|]; reflexivity. Qed.
Lemma harg_build_pos a : ha_is_positional (harg_build a) = ha_is_positional a.
Proof.
  unfold harg_build. rewrite <- (harg_default_pos a).
  destruct (ha_num (harg_default a)); [|destruct (1 <? _)]; reflexivity.
Qed.
Lemma harg_build_num a : is_some (ha_num (harg_build a)) = true.
Proof.
  unfold harg_build. destruct (ha_num (harg_default a)) eqn:E; [rewrite E; reflexivity|destruct (1 <? _); reflexivity].
Qed.

Lemma build_hargs_ok args : forall n b,
  (forall a, In a args -> spec_arg_ok a = true) -> In b (build_hargs args n) -> arg_ok b = true.
Proof.
  induction args as [|x t IH]; intros n b Hs Hb; cbn [build_hargs] in Hb; [destruct Hb|].
  pose proof (Hs x (or_introl eq_refl)) as Hx. unfold spec_arg_ok in Hx.
  pose proof (harg_build_num x) as Hn. pose proof (harg_build_pos x) as Hp.
  assert (Ht : forall a, In a t -> spec_arg_ok a = true) by (intros a Ha; apply Hs; right; exact Ha).
  destruct (ha_is_positional (harg_build x) && negb (is_some (ha_index (harg_build x)))) eqn:E.
  - destruct Hb as [Hb|Hb]; [|apply (IH _ _ Ht Hb)]. subst b.
    apply andb_true_iff in E. destruct E as [E1 _].
    unfold arg_ok. cbn. cbn in Hn. rewrite Hn. unfold ha_is_positional in E1 |- *. cbn. rewrite E1. cbn.
    rewrite <- Hp in Hx. unfold ha_is_positional in Hx. rewrite E1 in Hx. cbn in Hx.
    unfold ha_takes_value in Hx |- *. cbn. rewrite Hx. reflexivity.
  - destruct Hb as [Hb|Hb]; [|apply (IH _ _ Ht Hb)]. subst b.
    unfold arg_ok. rewrite Hn. cbn [andb].
    destruct (ha_is_positional (harg_build x)) eqn:P; [|reflexivity].
    cbn [andb] in E. cbn [implb]. rewrite <- Hp in Hx. cbn [implb] in Hx. rewrite Hx.
    destruct (is_some (ha_index (harg_build x))); [reflexivity|discriminate].
Qed.

Lemma help_arg_spec_ok b : spec_arg_ok (h_help_arg b) = true.
Proof. destruct b; reflexivity. Qed.
Lemma version_arg_spec_ok : spec_arg_ok h_version_arg = true.
Proof. reflexivity. Qed.

Definition spec_ok (c : hcmd) : Prop := forall a, In a (hc_args c) -> spec_arg_ok a = true.

Lemma h_build_self_args_ok c : hc_built c = false -> spec_ok c -> args_ok (h_build_self c).
Proof.
  intros Hb Hs. unfold h_build_self. rewrite Hb. unfold args_ok. cbn. intros a Ha.
  apply (build_hargs_ok _ _ _) in Ha; [exact Ha|]. clear Ha a.
  intros a Ha. unfold h_check_help_and_version in Ha.
  repeat match type of Ha with context [if ?x then _ else _] => destruct x end; cbn in Ha;
    repeat (apply in_app_or in Ha; destruct Ha as [Ha|Ha]);
    try (destruct Ha as [Ha|[]]; subst a; first [apply help_arg_spec_ok|apply version_arg_spec_ok]);
    try (apply Hs; exact Ha).
Qed.

(** ---- every visible item is listed ---- *)
Lemma bytes_cmp_eq a : forall b, bytes_cmp a b = Eq -> a = b.
Proof.
  induction a as [|x a IH]; intros [|y b] H; cbn [bytes_cmp] in H; try discriminate; [reflexivity|].
  destruct (x ?= y) eqn:E; try discriminate. apply N.compare_eq in E. subst. f_equal. apply IH. exact H.
Qed.
Lemma akey_cmp_eq_id a b : akey_cmp a b = Eq -> snd a = snd b.
Proof.
  unfold akey_cmp. destruct (key_cmp (fst a) (fst b)); try discriminate. apply bytes_cmp_eq.
Qed.
Lemma key_cmp_eq a b : key_cmp a b = Eq -> a = b.
Proof.
  unfold key_cmp. destruct a as [n s], b as [m t]. cbn [fst snd].
  destruct (n ?= m) eqn:E; try discriminate. intros H. apply N.compare_eq in E. apply bytes_cmp_eq in H. subst. reflexivity.
Qed.

Lemma akey_cmp_eq a b : akey_cmp a b = Eq -> a = b.
Proof.
  unfold akey_cmp. destruct a as [k i], b as [k' i']. cbn [fst snd].
  destruct (key_cmp k k') eqn:E; try discriminate. intros H. apply key_cmp_eq in E. apply bytes_cmp_eq in H. subst. reflexivity.
Qed.

(** inserting keeps every entry whose key differs from the inserted one, and adds the new one *)
Lemma bt_insert_keeps {K V} (cmp : K -> K -> comparison) k (v : V) m p :
  In p m -> cmp k (fst p) <> Eq -> In p (bt_insert cmp k v m).
Proof.
  induction m as [|[k' v'] t IH]; intros H Hne; [destruct H|]. cbn [bt_insert].
  destruct H as [H|H].
  - subst p. cbn [fst] in Hne. destruct (cmp k k'); [contradiction|right; left; reflexivity|left; reflexivity].
  - destruct (cmp k k') eqn:E; [right; exact H|right; right; exact H|right; apply IH; assumption].
Qed.
Lemma bt_insert_has {K V} (cmp : K -> K -> comparison) k (v : V) m :
  In v (map snd (bt_insert cmp k v m)).
Proof.
  induction m as [|[k' v'] t IH]; cbn [bt_insert].
  - left. reflexivity.
  - destruct (cmp k k'); [left; reflexivity|left; reflexivity|right; exact IH].
Qed.
Lemma bt_insert_in_key {K V} (cmp : K -> K -> comparison) k (v : V) m p :
  In p (bt_insert cmp k v m) -> (fst p = k \/ cmp k (fst p) = Eq) \/ In p m.
Proof.
  induction m as [|[k' v'] t IH]; cbn [bt_insert]; intros H.
  - destruct H as [H|[]]. subst. left. left. reflexivity.
  - destruct (cmp k k') eqn:E.
    + destruct H as [H|H]; [subst; left; right; exact E|right; right; exact H].
    + destruct H as [H|H]; [subst; left; left; reflexivity|right; exact H].
    + destruct H as [H|H]; [right; left; exact H|].
      destruct (IH H) as [E2|E2]; [left; exact E2|right; right; exact E2].
Qed.

Lemma fold_insert_lists {K V A} (cmp : K -> K -> comparison) (kf : A -> K) (vf : A -> V)
  (Hcmp : forall a b, cmp a b = Eq -> a = b) l : forall m,
  NoDup (map kf l) -> (forall p, In p m -> ~ In (fst p) (map kf l)) ->
  forall v, ((exists a, In a l /\ vf a = v) \/ In v (map snd m)) ->
  In v (map snd (fold_left (fun m a => bt_insert cmp (kf a) (vf a) m) l m)).
Proof.
  induction l as [|x t IH]; intros m Hnd Hfresh v Hv; cbn [fold_left].
  - destruct Hv as [[a [[] _]]|Hv]. exact Hv.
  - cbn [map] in Hnd. inversion Hnd as [|? ? Hx Hnd']; subst.
    apply IH; [exact Hnd'| |].
    + intros p Hp Hin. destruct (bt_insert_in_key _ _ _ _ _ Hp) as [[E|E]|Hold].
      * rewrite E in Hin. contradiction.
      * apply Hcmp in E. rewrite <- E in Hin. contradiction.
      * apply (Hfresh p Hold). right. exact Hin.
    + destruct Hv as [[a [[Ha|Ha] E]]|Hv].
      * subst a. right. rewrite <- E. apply bt_insert_has.
      * left. exists a. split; assumption.
      * right. apply in_map_iff in Hv. destruct Hv as [p [E Hp]]. apply in_map_iff. exists p. split; [exact E|].
        apply bt_insert_keeps; [exact Hp|]. intros Eq. apply Hcmp in Eq.
        apply (Hfresh p Hp). left. exact Eq.
Qed.

Lemma NoDup_map_filter {A B} (f : A -> B) (p : A -> bool) l : NoDup (map f l) -> NoDup (map f (filter p l)).
Proof.
  induction l as [|x t IH]; intros H; cbn [filter map] in *; [constructor|].
  inversion H as [|? ? Hx Ht]; subst. destruct (p x); cbn [map]; [|apply IH; exact Ht].
  constructor; [|apply IH; exact Ht]. intros Hin. apply Hx. apply in_map_iff in Hin. destruct Hin as [y [E Hy]].
  apply in_map_iff. exists y. split; [exact E|]. apply filter_In in Hy. apply Hy.
Qed.
Lemma NoDup_map_pair {A B C} (f : A -> B) (g : A -> C) l : NoDup (map g l) -> NoDup (map (fun a => (f a, g a)) l).
Proof.
  induction l as [|x t IH]; intros H; cbn [map] in *; [constructor|].
  inversion H as [|? ? Hx Ht]; subst. constructor; [|apply IH; exact Ht].
  intros Hin. apply Hx. apply in_map_iff in Hin. destruct Hin as [y [E Hy]].
  apply in_map_iff. exists y. split; [congruence|exact Hy].
Qed.

Section P4.
Variable dw : bytes -> N.

Lemma write_arg_id cx a nl L r : write_arg dw cx a nl L = Some r -> r_id r = ha_id a.
Proof.
  unfold write_arg. destruct (left_col a); [|discriminate]. destruct (align_to_about dw cx a nl L); [|discriminate].
  destruct (help_arg dw cx a nl L); [|discriminate]. intros H. inversion H. reflexivity.
Qed.

(** with distinct ids every shown argument has a row *)
Lemma write_args_lists cx args key rows a :
  NoDup (map ha_id args) -> write_args dw cx args key = Some rows ->
  In a args -> should_show_arg (cx_use_long cx) a = true ->
  exists r, In r rows /\ r_id r = ha_id a.
Proof.
  intros Hnd H Ha Hs. unfold write_args in H.
  set (shown := filter (should_show_arg (cx_use_long cx)) args) in *.
  destruct (wa_longest dw shown 2) as [L|]; [|discriminate].
  assert (Hin : In a (map snd (wa_ord key shown))).
  { unfold wa_ord. apply (fold_insert_lists akey_cmp (fun a => (key a, ha_id a)) (fun a => a) akey_cmp_eq).
    - apply NoDup_map_pair. apply NoDup_map_filter. exact Hnd.
    - intros p [].
    - left. exists a. split; [apply filter_In; split; assumption|reflexivity]. }
  apply in_map_iff in Hin. destruct Hin as [p [E Hp]].
  destruct (map_opt_all _ _ _ _ H Hp) as [r [Hr Hrin]]. exists r. split; [exact Hrin|].
  rewrite E in Hr. apply (write_arg_id _ _ _ _ _ Hr).
Qed.

Lemma write_subcommands_lists cx c rows sc :
  NoDup (map sc_str (hc_subs c)) -> write_subcommands dw cx c = Some rows ->
  In sc (hc_subs c) -> hc_hide sc = false -> exists r, In r rows /\ r_id r = hc_name sc.
Proof.
  intros Hnd H Hsc Hh. unfold write_subcommands in H.
  set (vis := filter should_show_subcommand (hc_subs c)) in *.
  set (L := fold_left (fun acc sc => N.max acc (dw (sc_str sc))) vis 2) in *.
  assert (Hin : In sc (map snd (fold_left (fun m sc => bt_insert key_cmp (hc_display_order sc, sc_str sc) sc m) vis []))).
  { apply (fold_insert_lists key_cmp (fun sc => (hc_display_order sc, sc_str sc)) (fun sc => sc) key_cmp_eq).
    - apply NoDup_map_pair. apply NoDup_map_filter. exact Hnd.
    - intros p [].
    - left. exists sc. split; [|reflexivity]. apply filter_In. split; [exact Hsc|].
      unfold should_show_subcommand. rewrite Hh. reflexivity. }
  apply in_map_iff in Hin. destruct Hin as [p [E Hp]].
  destruct (map_opt_all _ _ _ _ H Hp) as [r [Hr Hrin]]. exists r. split; [exact Hrin|].
  cbn beta in Hr. rewrite E in Hr. destruct (subcmd dw (sc_str sc) _ L); [|discriminate]. inversion Hr. reflexivity.
Qed.

(** the section an argument belongs to *)
Definition arg_section_title (a : harg) : bytes :=
  match ha_heading a with
  | Some h => h
  | None => if ha_is_positional a then s_arguments else s_options
  end.

Lemma dedup_in x l : forall seen, In x l -> In x (dedup l seen) \/ existsb (beq x) seen = true.
Proof.
  induction l as [|y t IH]; intros seen H; [destruct H|]. cbn [dedup].
  destruct H as [H|H].
  - subst y. destruct (existsb (beq x) seen) eqn:E; [right; reflexivity|left; left; reflexivity].
  - destruct (existsb (beq y) seen) eqn:E.
    + apply IH. exact H.
    + destruct (IH (y :: seen) H) as [H1|H1]; [left; right; exact H1|].
      cbn [existsb] in H1. apply orb_true_iff in H1. destruct H1 as [H1|H1]; [|right; exact H1].
      apply beq_eq in H1. subst y. left. left. reflexivity.
Qed.

Lemma filter_nonnil {A} (p : A -> bool) l x : In x l -> p x = true -> is_nil (filter p l) = false.
Proof.
  intros H Hp. assert (Hin : In x (filter p l)) by (apply filter_In; split; assumption).
  destruct (filter p l); [destruct Hin|reflexivity].
Qed.

Lemma heading_sections_lists cx c hs secs a h :
  NoDup (map ha_id (hc_args c)) -> heading_sections dw cx c hs = Some secs ->
  In h hs -> In a (hc_args c) -> ha_heading a = Some h -> should_show_arg (cx_use_long cx) a = true ->
  exists sec r, In sec secs /\ s_title sec = h /\ In r (s_rows sec) /\ r_id r = ha_id a.
Proof.
  intros Hnd. revert secs. induction hs as [|h' t IH]; intros secs H Hh Ha Hhd Hs; [destruct Hh|].
  cbn [heading_sections] in H.
  set (args := filter (should_show_arg (cx_use_long cx)) (filter (heading_is h') (hc_args c))) in *.
  destruct (if is_nil args then Some [] else
            match write_args dw cx args option_sort_key with Some rows => Some [mkSec h' rows] | None => None end)
    as [this|] eqn:Ethis; [|discriminate].
  destruct (heading_sections dw cx c t) as [rest|] eqn:Erest; [|discriminate].
  inversion H; subst secs. clear H.
  destruct (beq h' h) eqn:Eh.
  - apply beq_eq in Eh. subst h'.
    assert (Hin : In a args).
    { unfold args. apply filter_In. split; [|exact Hs]. apply filter_In. split; [exact Ha|].
      unfold heading_is, opt_is. rewrite Hhd. apply beq_refl. }
    assert (Hnil : is_nil args = false) by (destruct args; [destruct Hin|reflexivity]).
    rewrite Hnil in Ethis. destruct (write_args dw cx args option_sort_key) as [rows|] eqn:Erows; [|discriminate].
    inversion Ethis; subst this.
    destruct (write_args_lists cx args option_sort_key rows a) as [r [Hr Hid]]; auto.
    { unfold args. apply NoDup_map_filter. apply NoDup_map_filter. exact Hnd. }
    exists (mkSec h rows), r. split; [left; reflexivity|]. auto.
  - destruct Hh as [Hh|Hh]; [subst h'; rewrite beq_refl in Eh; discriminate|].
    destruct (IH rest eq_refl Hh Ha Hhd Hs) as [sec [r [H1 H2]]].
    exists sec, r. split; [apply in_or_app; right; exact H1|exact H2].
Qed.

Lemma lists_visible_arg cx c secs a :
  NoDup (map ha_id (hc_args c)) -> write_all_args dw cx c = Some secs ->
  In a (hc_args c) -> should_show_arg (cx_use_long cx) a = true ->
  exists sec r, In sec secs /\ s_title sec = arg_section_title a /\ In r (s_rows sec) /\ r_id r = ha_id a.
Proof.
  intros Hnd H Ha Hs. unfold write_all_args in H.
  set (show := should_show_arg (cx_use_long cx)) in *.
  set (pos := filter show (filter (fun a => negb (is_some (ha_heading a))) (filter ha_is_positional (hc_args c)))) in *.
  set (non_pos := filter show (filter (fun a => negb (is_some (ha_heading a))) (filter (fun a => negb (ha_is_positional a)) (hc_args c)))) in *.
  destruct (if has_visible_subcommands c then _ else _) as [s1|]; [|discriminate].
  destruct (if is_nil pos then _ else _) as [s2|] eqn:E2; [|discriminate].
  destruct (if is_nil non_pos then _ else _) as [s3|] eqn:E3; [|discriminate].
  destruct (heading_sections dw cx c (custom_headings c)) as [s4|] eqn:E4; [|discriminate].
  inversion H; subst secs. clear H. unfold arg_section_title.
  destruct (ha_heading a) as [h|] eqn:Hh.
  - destruct (heading_sections_lists cx c (custom_headings c) s4 a h Hnd E4) as [sec [r [H1 H2]]]; auto.
    { unfold custom_headings. destruct (dedup_in h (filter_map ha_heading (hc_args c)) []) as [H|H]; [|exact H|discriminate].
      clear - Ha Hh. induction (hc_args c) as [|x t IH]; [destruct Ha|]. cbn [filter_map].
      destruct Ha as [Ha|Ha]; [subst x; rewrite Hh; left; reflexivity|].
      destruct (ha_heading x); [right|]; apply IH; exact Ha. }
    exists sec, r. split; [|exact H2]. repeat (apply in_or_app; right). exact H1.
  - destruct (ha_is_positional a) eqn:P.
    + assert (Hin : In a pos).
      { unfold pos. repeat (apply filter_In; split); auto. rewrite Hh. reflexivity. }
      assert (Hnil : is_nil pos = false) by (destruct pos; [destruct Hin|reflexivity]).
      rewrite Hnil in E2. destruct (write_args dw cx pos positional_sort_key) as [rows|] eqn:Erows; [|discriminate].
      inversion E2; subst s2.
      destruct (write_args_lists cx pos positional_sort_key rows a) as [r [Hr Hid]]; auto.
      { unfold pos. repeat apply NoDup_map_filter. exact Hnd. }
      exists (mkSec s_arguments rows), r. split; [apply in_or_app; right; apply in_or_app; left; left; reflexivity|]. auto.
    + assert (Hin : In a non_pos).
      { unfold non_pos. repeat (apply filter_In; split); auto; [rewrite P|rewrite Hh]; reflexivity. }
      assert (Hnil : is_nil non_pos = false) by (destruct non_pos; [destruct Hin|reflexivity]).
      rewrite Hnil in E3. destruct (write_args dw cx non_pos option_sort_key) as [rows|] eqn:Erows; [|discriminate].
      inversion E3; subst s3.
      destruct (write_args_lists cx non_pos option_sort_key rows a) as [r [Hr Hid]]; auto.
      { unfold non_pos. repeat apply NoDup_map_filter. exact Hnd. }
      exists (mkSec s_options rows), r.
      split; [apply in_or_app; right; apply in_or_app; right; apply in_or_app; left; left; reflexivity|]. auto.
Qed.

Lemma lists_visible_sub cx c secs sc :
  NoDup (map sc_str (hc_subs c)) -> write_all_args dw cx c = Some secs ->
  In sc (hc_subs c) -> hc_hide sc = false -> hc_name sc <> s_help ->
  exists sec r, In sec secs /\ s_title sec = sub_section_title c /\ In r (s_rows sec) /\ r_id r = hc_name sc.
Proof.
  intros Hnd H Hsc Hh Hn. unfold write_all_args in H.
  assert (Hv : has_visible_subcommands c = true).
  { unfold has_visible_subcommands. apply existsb_exists. exists sc. split; [exact Hsc|].
    rewrite Hh. destruct (beq (hc_name sc) s_help) eqn:E; [apply beq_eq in E; contradiction|reflexivity]. }
  rewrite Hv in H.
  destruct (write_subcommands dw cx c) as [rows|] eqn:Erows; [|discriminate].
  destruct (if is_nil _ then _ else _) as [s2|]; [|discriminate].
  destruct (if is_nil _ then _ else _) as [s3|]; [|discriminate].
  destruct (heading_sections dw cx c (custom_headings c)) as [s4|]; [|discriminate].
  inversion H; subst secs.
  destruct (write_subcommands_lists cx c rows sc Hnd Erows Hsc Hh) as [r [Hr Hid]].
  exists (mkSec (sub_section_title c) rows), r. split; [left; reflexivity|]. auto.
Qed.

End P4.

(** ---- final statements ---- *)
Section Final.
Variable dw : bytes -> N.

Definition widths_ok (c : hcmd) : Prop :=
  (forall a, In a (hc_args c) -> arg_widths_ok dw a) /\ sub_widths_ok dw c.

Lemma cmd_ok_intro c : args_ok c -> widths_ok c -> cmd_ok dw c.
Proof. intros Ha [Hw Hs]. split; [|exact Hs]. intros a Hin. split; [apply Ha|apply Hw]; exact Hin. Qed.

(** boolean form of the hypotheses (to discharge them by computation) *)
Definition arg_widths_okb (a : harg) : bool :=
  (contrib dw a + 12 <=? FMT_WIDTH_MAX) && forallb (fun p => dw (pv_name p) <=? FMT_WIDTH_MAX) (ha_pvs a).
Definition cmd_okb (c : hcmd) : bool :=
  forallb (fun a => arg_ok a && arg_widths_okb a) (hc_args c)
  && forallb (fun sc => dw (sc_str sc) + 12 <=? FMT_WIDTH_MAX) (hc_subs c).
Lemma cmd_okb_sound c : cmd_okb c = true -> cmd_ok dw c.
Proof.
  unfold cmd_okb. intros H. apply andb_true_iff in H. destruct H as [Ha Hs].
  rewrite forallb_forall in Ha, Hs. split.
  - intros a Hin. specialize (Ha a Hin). apply andb_true_iff in Ha. destruct Ha as [H1 H2]. split; [exact H1|].
    unfold arg_widths_okb in H2. apply andb_true_iff in H2. destruct H2 as [H2 H3]. split.
    + apply N.leb_le. exact H2.
    + intros p Hp. rewrite forallb_forall in H3. apply N.leb_le. apply H3. exact Hp.
  - intros sc Hin. apply N.leb_le. apply Hs. exact Hin.
Qed.

(** C12_padding_safe: on a built command no subtraction underflows, no [expect] fails and no format
    width exceeds the [u16] limit -- for every width, both modes, every display-width function *)
Theorem padding_safe c use_long w : cmd_ok dw c -> refs_ok c = true -> write_help dw c use_long w <> None.
Proof. intros H R. destruct (write_help_spec dw c use_long w H R) as [s [E _]]. rewrite E. discriminate. Qed.

Theorem render_total c use_long w :
  hc_built c = false -> spec_ok c -> widths_ok (h_build_self c) -> refs_ok (h_build_self c) = true ->
  render_help dw c use_long w <> None /\ render_usage c <> None.
Proof.
  intros Hb Hs Hw Hr. pose proof (h_build_self_args_ok c Hb Hs) as Ha. split.
  - unfold render_help. apply padding_safe; [apply cmd_ok_intro; assumption|exact Hr].
  - unfold render_usage. destruct (usage_pieces_some _ Ha Hr) as [u E]. rewrite E. discriminate.
Qed.

(** C12_padding_bounded: the padding of a row never exceeds a bound that does not mention the width *)
Definition width_bound (c : hcmd) : N :=
  fold_left (fun m x => N.max m x) (map (contrib dw) (hc_args c) ++ map (fun sc => dw (sc_str sc)) (hc_subs c)) 2.

Theorem padding_bounded c use_long w s sec r :
  cmd_ok dw c -> write_help dw c use_long w = Some s -> In sec (scr_sections s) -> In r (s_rows sec) ->
  r_pad r <= width_bound c + 6.
Proof.
  intros Hc E Hsec Hr. pose proof (write_help_secs dw c use_long w s Hc E) as Hok.
  destruct (fold_max_spec (fun x : N => x) (map (contrib dw) (hc_args c) ++ map (fun sc => dw (sc_str sc)) (hc_subs c)) 2)
    as [H2 [Hall _]]. fold (width_bound c) in H2, Hall.
  destruct (Hok sec r Hsec Hr) as [[a [_ [_ [_ [[b [Hb Hp]] _]]]]]|[sc [_ [_ [_ [[b [Hb Hp]] _]]]]]].
  - destruct Hb as [Hb|[a' [Ha' Hb]]]; [subst; lia|].
    assert (b <= width_bound c); [|lia]. subst b. apply Hall. apply in_or_app. left. apply in_map. exact Ha'.
  - destruct Hb as [Hb|[s' [Hs' Hb]]]; [subst; lia|].
    assert (b <= width_bound c); [|lia]. subst b. apply Hall. apply in_or_app. right.
    apply (in_map (fun sc => dw (sc_str sc))). exact Hs'.
Qed.

(** C12_lists_visible *)
Theorem lists_visible_args c use_long w s a :
  NoDup (map ha_id (hc_args c)) -> write_help dw c use_long w = Some s ->
  In a (hc_args c) -> should_show_arg use_long a = true ->
  exists sec r, In sec (scr_sections s) /\ s_title sec = arg_section_title a /\ In r (s_rows sec) /\ r_id r = ha_id a.
Proof.
  intros Hnd E Ha Hs. unfold write_help in E.
  destruct (usage_pieces c); [|discriminate].
  destruct (write_all_args dw _ c) as [secs|] eqn:Es; [|discriminate].
  inversion E; subst s. cbn [scr_sections].
  apply (lists_visible_arg dw _ c secs a Hnd Es Ha Hs).
Qed.

Theorem lists_visible_subs c use_long w s sc :
  NoDup (map sc_str (hc_subs c)) -> write_help dw c use_long w = Some s ->
  In sc (hc_subs c) -> hc_hide sc = false -> hc_name sc <> s_help ->
  exists sec r, In sec (scr_sections s) /\ s_title sec = sub_section_title c /\ In r (s_rows sec) /\ r_id r = hc_name sc.
Proof.
  intros Hnd E Hsc Hh Hn. unfold write_help in E.
  destruct (usage_pieces c); [|discriminate].
  destruct (write_all_args dw _ c) as [secs|] eqn:Es; [|discriminate].
  inversion E; subst s. cbn [scr_sections].
  apply (lists_visible_sub dw _ c secs sc Hnd Es Hsc Hh Hn).
Qed.

(** C12_hides_hidden: every row comes from an argument that is shown in this mode (listing only
    possible values that are not hidden) or from a subcommand that is not hidden *)
Theorem hides_hidden_rows c use_long w s sec r :
  cmd_ok dw c -> write_help dw c use_long w = Some s -> In sec (scr_sections s) -> In r (s_rows sec) ->
  (exists a, In a (hc_args c) /\ should_show_arg use_long a = true /\ r_id r = ha_id a
             /\ forall p, In p (r_pvs r) -> exists pv, In pv (ha_pvs a) /\ pv_hide pv = false /\ pv_name pv = p)
  \/ (exists sc, In sc (hc_subs c) /\ hc_hide sc = false /\ r_id r = hc_name sc /\ r_pvs r = []).
Proof.
  intros Hc E Hsec Hr. pose proof (write_help_secs dw c use_long w s Hc E) as Hok.
  destruct (Hok sec r Hsec Hr) as [[a [H1 [H2 [H3 [_ H5]]]]]|[sc [H1 [H2 [H3 [_ H5]]]]]].
  - left. exists a. auto.
  - right. exists sc. auto.
Qed.

End Final.

(** a hidden argument is shown in no mode; one hidden from a mode is not shown in that mode *)
Lemma hidden_not_shown use_long a :
  (ha_hide a = true \/ (use_long = true /\ ha_hide_long a = true) \/ (use_long = false /\ ha_hide_short a = true)) ->
  should_show_arg use_long a = false.
Proof.
  unfold should_show_arg. intros [H|[[H1 H2]|[H1 H2]]].
  - rewrite H. reflexivity.
  - subst. rewrite H2. destruct (ha_hide a); [reflexivity|]. cbn. rewrite andb_false_r. reflexivity.
  - subst. rewrite H2. destruct (ha_hide a); [reflexivity|]. cbn. rewrite andb_false_r. reflexivity.
Qed.

(** every usage piece comes from an argument among the requirements, from a positional that is not
    hidden, or from a group among the requirements; with distinct ids an optional hidden argument that no
    [requires] rule names, and whose id is not a group's, therefore contributes none *)
Theorem usage_hides_hidden c fo items a :
  NoDup (map ha_id (hc_args c)) -> args_ok c -> refs_ok c = true -> usage_arg_items c fo = Some items ->
  In a (hc_args c) -> ha_hide a = true -> req_srcb c (ha_id a) = false -> find_group (pcmd_of c) (ha_id a) = None ->
  ~ In (ha_id a) (map fst items).
Proof.
  intros Hnd Hok Hrefs E Ha Hh Hr Hg Hin. apply req_srcb_false in Hr.
  destruct (usage_arg_items_spec c fo Hok Hrefs) as [items' [E' Hsrc]]. rewrite E in E'. inversion E'; subst items'.
  apply in_map_iff in Hin. destruct Hin as [x [Ex Hx]].
  destruct (Hsrc x Hx) as [[b [Hb [Eid [_ Hcase]]]]|[Hfg _]].
  - assert (b = a).
    { clear - Hnd Ha Hb Eid Ex. rewrite Ex in Eid. induction (hc_args c) as [|y t IH]; [destruct Ha|].
      cbn [map] in Hnd. inversion Hnd as [|? ? Hy Ht]; subst.
      destruct Ha as [Ha|Ha], Hb as [Hb|Hb].
      - congruence.
      - subst y. exfalso. apply Hy. rewrite <- Eid. apply in_map. exact Hb.
      - subst y. exfalso. apply Hy. rewrite Eid. apply in_map. exact Ha.
      - apply IH; assumption. }
    subst b. destruct Hcase as [Hc|[_ Hc]]; [|congruence].
    apply Hr. rewrite <- Ex. apply usage_reqs_src. exact Hc.
  - rewrite Ex, Hg in Hfg. discriminate.
Qed.

(** C12_help_level: the help error of a path renders the level the path leads to *)
Theorem help_level dw root path use_long w s :
  help_at dw root path use_long w = Some (Some s) ->
  exists lv, level_walk (h_build_self (root <| hc_bin_name := Some (opt_default (hc_name root) (hc_bin_name root)) |>)) path
             = Some (Some lv)
             /\ write_help dw lv (use_long && hc_long_help_exists lv) w = Some s
             /\ scr_about s = write_about (use_long && hc_long_help_exists lv) lv.
Proof.
  unfold help_at. intros H.
  destruct (level_walk _ path) as [[lv|]|] eqn:E; try discriminate.
  unfold write_help_err in H. destruct (write_help dw lv _ w) as [s'|] eqn:E2; [|discriminate].
  inversion H; subst s'. exists lv. split; [reflexivity|]. split; [exact E2|].
  unfold write_help in E2. destruct (usage_pieces lv); [|discriminate]. destruct (write_all_args dw _ lv); [|discriminate].
  inversion E2. reflexivity.
Qed.

(** [level_walk] descends by exact subcommand names, one [_build_subcommand] per name *)
Lemma level_walk_step c n rest :
  level_walk c (n :: rest) =
  match h_build_subcommand c n with
  | Some (Some sc) => level_walk sc rest
  | Some None => Some None
  | None => None
  end.
Proof. reflexivity. Qed.

(** ---- the defects of the unchanged tree (before bad6087 / 8ecd1df / 5d02723), as witnesses ---- *)
Definition flag_v_count : harg := harg_build ((harg_new [118] ACount) <| ha_short := Some 118 |>).
Lemma padding_unsafe_before_fix :
  exists a L, arg_ok a = true /\ wa_longest_orig len [a] 2 = Some L
              /\ align_to_about len (mkCtx false 80 false) a false L = None.
Proof. exists flag_v_count, 2. vm_compute. repeat split. Qed.
Lemma padding_safe_after_fix :
  exists L, wa_longest len [flag_v_count] 2 = Some L
            /\ align_to_about len (mkCtx false 80 false) flag_v_count false L = Some 2.
Proof. exists 5. vm_compute. split; reflexivity. Qed.

Definition flag_a : harg := harg_build ((harg_new [97] ASetTrue) <| ha_short := Some 97 |> <| ha_disp_ord := Some 0 |>).
Definition flag_a0 : harg := harg_build ((harg_new [98] ASetTrue) <| ha_long := Some [97; 48] |> <| ha_disp_ord := Some 0 |>).
Lemma sort_key_collision_before_fix :
  option_sort_key flag_a = option_sort_key flag_a0
  /\ map (fun p => ha_id (snd p)) (wa_ord_orig option_sort_key [flag_a; flag_a0]) = [[98]]
  /\ map (fun p => ha_id (snd p)) (wa_ord option_sort_key [flag_a; flag_a0]) = [[97]; [98]].
Proof. vm_compute. repeat split. Qed.

Definition hidden_next_line : harg :=
  (harg_new [120] ASetTrue) <| ha_long := Some [120] |> <| ha_hide_short := true |> <| ha_next_line := true |>.
Lemma next_line_override_before_fix :
  should_show_arg_orig false hidden_next_line = true /\ should_show_arg false hidden_next_line = false.
Proof. vm_compute. split; reflexivity. Qed.

(** ---- non-vacuity: a command that satisfies every hypothesis used above ---- *)
Definition ex_cmd : hcmd :=
  cmd_with ((hcmd_new [112]) <| hc_about := Some [97; 98] |> <| hc_version := true |>)
    [ (harg_new [111] ASet) <| ha_short := Some 111 |> <| ha_long := Some [111; 112; 116] |>
        <| ha_help := Some [104] |>
        <| ha_pvs := [mkPv [97] (Some [104]) false; mkPv [98] None true] |>;
      (harg_new [118] ACount) <| ha_short := Some 118 |> <| ha_heading := Some [72] |>;
      (harg_new [104; 105] ASetTrue) <| ha_long := Some [104; 105] |> <| ha_hide := true |>;
      (harg_new [102] ASet) <| ha_required := true |> ]
    [ (hcmd_new [115]) <| hc_about := Some [115; 97] |>;
      (hcmd_new [116]) <| hc_hide := true |> ].

Example ex_cmd_refs : refs_ok (h_build_self ex_cmd) = true.
Proof. vm_compute. reflexivity. Qed.

Example ex_cmd_hyps :
  hc_built ex_cmd = false /\ spec_ok ex_cmd /\ cmd_ok len (h_build_self ex_cmd)
  /\ NoDup (map ha_id (hc_args (h_build_self ex_cmd))) /\ NoDup (map sc_str (hc_subs (h_build_self ex_cmd))).
Proof.
  split; [reflexivity|]. split.
  { intros a Ha. vm_compute in Ha. repeat (destruct Ha as [Ha|Ha]; [subst a; reflexivity|]). destruct Ha. }
  split; [apply cmd_okb_sound; vm_compute; reflexivity|].
  split; vm_compute; repeat constructor; cbn; intuition discriminate.
Qed.

Example ex_cmd_renders :
  match render_help len ex_cmd false 80 with
  | Some s => map (fun sec => (s_title sec, map r_id (s_rows sec))) (scr_sections s)
  | None => []
  end
  = [ (s_commands, [[115]; s_help]); (s_arguments, [[102]]); (s_options, [[111]; s_help; s_version]); ([72], [[118]]) ].
Proof. vm_compute. reflexivity. Qed.
