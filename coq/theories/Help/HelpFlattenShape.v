(** C12 / C11, round 5: the two shapes of the generated [help] subcommand in the flattened usage.

    [_check_help_and_version(expand_help_tree)] builds the [help] subcommand of a level in one of two shapes: LAZY
    ([_build_self(false)]: what the parser's descent and [render_help] do) -- an argument [[COMMAND]...] --, or
    EXPANDED ([build()], which the flatten branch of [write_help_usage] calls on the clone) -- copies of the
    subcommand trees.  A level the parser entered earlier keeps the lazy shape when an ancestor's help is flattened
    later; a level that is only built for the rendering gets the expanded one.  Theorems:

    - [shape_disabled]: with the help subcommand disabled (or no subcommands, or already built) the two builds
      of a level are EQUAL -- every rendering agrees.
    - [lazy_help_line] / [exp_help_line]: the usage lines of the two shapes as [build()] leaves them in the built
      clone: [name "[COMMAND]..."] and [name "[COMMAND]"] (the latter iff the level has visible subcommands).
    These are the two forms of the recorded finding C11-flatten-help-subcommand-shape; the normalisation of the
    classifier in vp/props/c11.py ([flatten_help_shape]: read ` help [COMMAND]...` as ` help [COMMAND]`) maps one line
    onto the other.  (Help/HelpFlattenLevel.v: the two builds are the same record up to that subcommand, and the two BLOCKS of a
    flattened level are [common ++ [help line]] with the same [common]: [flatten_help_shape_level].) *)
From Coq Require Import List Bool Lia NArith.
Import ListNotations.
From ClapModel Require Import Base.Bytes Base.Machine Parse.Cmd Parse.Valid Parse.Matcher Parse.Errors Parse.Validator.
From ClapModel Require Import Gen.HelpTables Help.UsageModel Help.HelpModel Help.HelpReqs Help.HelpProofs Help.HelpFlatten Help.HelpFlattenProofs.
From RecordUpdate Require Import RecordSet.
Import RecordSetNotations.
Open Scope N_scope.


Definition help_sub_off (c : hcmd) : bool := hc_built c || is_nil (hc_subs c) || h_is_set hs_no_help_sub c.

Theorem shape_disabled c : help_sub_off c = true -> h_build_self_x false c = h_build_self_x true c.
Proof.
  unfold help_sub_off, h_build_self_x. destruct (hc_built c); [reflexivity|]. cbn [orb].
  unfold h_check_help_and_version_x.
  destruct (is_nil (hc_subs c)) eqn:En; cbn [orb].
  - intros _.
    repeat match goal with |- context [if negb (h_is_set hs_no_help_flag ?x) then _ else _] => destruct (negb (h_is_set hs_no_help_flag x)) end;
    repeat match goal with |- context [if negb (h_is_disable_version_flag_set ?x) then _ else _] => destruct (negb (h_is_disable_version_flag_set x)) end;
    reflexivity.
  - intros Hs. unfold h_is_set in Hs.
    repeat match goal with |- context [if negb (h_is_set hs_no_help_flag ?x) then _ else _] => destruct (negb (h_is_set hs_no_help_flag x)) end;
    repeat match goal with |- context [if negb (h_is_disable_version_flag_set ?x) then _ else _] => destruct (negb (h_is_disable_version_flag_set x)) end;
    unfold h_is_set; cbn; rewrite Hs; reflexivity.
Qed.


Definition s_cmd_lazy : bytes := [91] ++ t_helpsub_valname ++ [93] ++ s_dots.
Definition s_cmd_exp : bytes := [91] ++ t_sub_value_name ++ [93].

(* the lazily built help subcommand, as build() leaves it in the built clone *)
Lemma lazy_help_line f p bin t :
  exists h', h_build_bin_names (S f) (h_set_names bin (32 :: t) (h_build_recursive (S f) (h_help_subcommand p))) = Some h'
    /\ hc_hide h' = false /\ hc_flatten h' = false /\ hc_name h' = s_help
    /\ usage_pieces h' = Some [bin ++ (32 :: t) ++ s_help; s_cmd_lazy].
Proof.
  destruct bin as [|b0 bin]; eexists; (split; [vm_compute; reflexivity|]); repeat split; vm_compute; reflexivity.
Qed.

Lemma usage_pieces_noargs c x t :
  hc_args c = [] -> hc_groups c = [] -> usage_name_fallback c = x :: t ->
  hc_negates_reqs c = false -> hc_args_conflicts c = false -> hc_sub_required c = false -> hc_allow_external c = false ->
  hc_sub_value_name c = None ->
  usage_pieces c = Some ([x :: t] ++ (if has_visible_subcommands c then [s_cmd_exp] else [])).
Proof.
  intros Ha Hg Hn H1 H2 H3 H4 H5.
  unfold usage_pieces, write_arg_usage, usage_arg_items, needs_options_tag, write_subcommand_usage, sub_value_name.
  unfold pcmd_of. rewrite Ha, Hg, Hn, H1, H2, H3, H4, H5. cbn [map filter existsb].
  set (pc := cmd_new (hc_name c) <| c_args := [] |> <| c_groups := [] |>).
  replace (required_graph pc) with (@nil id) by (vm_compute; reflexivity).
  cbn [unrolled_reqs req_groups req_split usage_positionals snd fst negb vec_flatten app map is_nil].
  rewrite orb_false_r. destruct (has_visible_subcommands c); reflexivity.
Qed.

Definition nh (c : hcmd) := (hc_name c, hc_hide c).
Definition vis_pred (sc : hcmd) : bool := negb (beq (hc_name sc) s_help) && negb (hc_hide sc).

Lemma existsb_nh l1 l2 : map nh l1 = map nh l2 -> existsb vis_pred l1 = existsb vis_pred l2.
Proof.
  revert l2. induction l1 as [|a t IH]; intros [|b t2] H; try discriminate; [reflexivity|].
  cbn [map] in H. inversion H as [[H1 H2 H3]]. cbn [existsb]. rewrite (IH t2 H3). unfold vis_pred. rewrite H1, H2. reflexivity.
Qed.

Lemma nh_add_subs l : forall n, map nh (add_subs l n) = map nh l.
Proof.
  induction l as [|s t IH]; intros n; [reflexivity|]. cbn [add_subs map]. rewrite IH. f_equal.
  destruct (hc_disp_ord s); reflexivity.
Qed.

Lemma nh_copy c : nh (copy_subtree_for_help c) = nh c.
Proof. destruct c. reflexivity. Qed.

Lemma nh_add_globals gl : forall sc, nh (fold_left h_add_global gl sc) = nh sc.
Proof.
  induction gl as [|g t IH]; intros sc; [reflexivity|]. cbn [fold_left]. rewrite IH. unfold h_add_global.
  destruct (existsb _ (hc_args sc)); reflexivity.
Qed.

Lemma nh_of_hd a b : hd_of a = hd_of b -> nh a = nh b.
Proof. intros H. apply hd_fields in H. destruct H as [H1 [H2 _]]. unfold nh. rewrite H1, H2. reflexivity. Qed.

(** [_build_self] of a command whose help subcommand is disabled keeps the names and [hide] of the subcommands *)
Lemma build_self_subs_nohelp e x : hc_built x = false -> h_is_set hs_no_help_sub x = true ->
  map nh (hc_subs (h_build_self_x e x)) = map nh (hc_subs x).
Proof.
  intros Hb Hs. unfold h_build_self_x. rewrite Hb. unfold h_is_set in Hs.
  unfold h_check_help_and_version_x, h_propagate_global_args.
  destruct (is_nil (hc_subs x)) eqn:En;
    repeat match goal with |- context [if negb (h_is_set hs_no_help_flag ?y) then _ else _] => destruct (negb (h_is_set hs_no_help_flag y)) end;
    repeat match goal with |- context [if negb (h_is_disable_version_flag_set ?y) then _ else _] => destruct (negb (h_is_disable_version_flag_set y)) end;
    unfold h_is_set; cbn; rewrite ?Hs; cbn; rewrite ?orb_true_r; cbn;
    rewrite !map_map; apply map_ext; intros sc;
    match goal with |- nh (if ?b then _ else _) = _ => destruct b end; rewrite ?nh_add_globals; reflexivity.
Qed.

Lemma set_names_subs b m s : hc_subs (h_set_names b m s) = hc_subs s.
Proof. unfold h_set_names. destruct (hc_usage_name s); cbn; destruct (hc_bin_name s); reflexivity. Qed.

Lemma bin_names_subs_nh f bin mid l : forall r,
  map_opt (fun sc => h_build_bin_names f (h_set_names bin mid sc)) l = Some r -> map nh r = map nh l.
Proof.
  induction l as [|a t IH]; intros r H; cbn [map_opt] in H.
  - inversion H. reflexivity.
  - destruct (h_build_bin_names f (h_set_names bin mid a)) as [y|] eqn:Ey; [|discriminate].
    destruct (map_opt _ t) as [r'|]; [|discriminate]. inversion H; subst r. cbn [map]. rewrite (IH r' eq_refl). f_equal.
    pose proof (hd_bin_names f _ y Ey) as H1. apply hd_fields in H1. destruct H1 as [N1 [N2 _]].
    destruct (set_names_head bin mid a) as [M1 [M2 _]]. unfold nh. rewrite N1, N2, M1, M2. reflexivity.
Qed.

Definition help_help : hcmd := (hcmd_new s_help) <| hc_about := Some t_helpsub_about |> <| hc_set := hs_no_help_no_version |>.
Lemma expanded_subs p : hc_subs (h_help_subcommand_expanded p) = add_subs (map copy_subtree_for_help (hc_subs p) ++ [help_help]) 0.
Proof. reflexivity. Qed.

Definition core_of (c : hcmd) :=
  (hc_args c, hc_groups c, hc_negates_reqs c, hc_args_conflicts c, hc_sub_required c, hc_allow_external c, hc_sub_value_name c).
Lemma core_eq a x1 x2 x3 x4 x5 x6 x7 : core_of a = (x1, x2, x3, x4, x5, x6, x7) ->
  hc_args a = x1 /\ hc_groups a = x2 /\ hc_negates_reqs a = x3 /\ hc_args_conflicts a = x4 /\ hc_sub_required a = x5
  /\ hc_allow_external a = x6 /\ hc_sub_value_name a = x7.
Proof. unfold core_of. intros H. inversion H. repeat split. Qed.
Lemma core_set_names b m s : core_of (h_set_names b m s) = core_of s.
Proof. unfold h_set_names. destruct (hc_usage_name s); cbn; destruct (hc_bin_name s); reflexivity. Qed.
Lemma core_subs x l : core_of (x <| hc_subs := l |>) = core_of x.
Proof. destruct x. reflexivity. Qed.
Lemma hd_subs x l : hd_of (x <| hc_subs := l |>) = hd_of x.
Proof. destruct x. reflexivity. Qed.

(** [_build_self] of a command whose help and version flags are disabled: the arguments are the user's, built *)
Lemma build_self_core e x : hc_built x = false -> h_is_set hs_no_help_flag x = true -> h_is_disable_version_flag_set x = true ->
  core_of (h_build_self_x e x)
  = (build_hargs (hc_args x) 1, hc_groups x, hc_negates_reqs x, hc_args_conflicts x, hc_sub_required x, hc_allow_external x, hc_sub_value_name x).
Proof.
  intros Hb Hf Hv. unfold h_build_self_x. rewrite Hb. unfold h_is_disable_version_flag_set, h_is_set in *.
  unfold h_check_help_and_version_x, h_propagate_global_args, h_is_disable_version_flag_set, h_is_set.
  destruct (is_nil (hc_subs x)); cbn -[orb]; rewrite Hf; cbn -[orb]; rewrite Hv; cbn -[orb];
    match goal with |- context [if ?b then _ else _] => destruct b end; reflexivity.
Qed.

Lemma exp_help_line f p bin t he' :
  h_build_bin_names (S f) (h_set_names bin (32 :: t) (h_build_recursive (S f) (h_help_subcommand_expanded p))) = Some he' ->
  hc_hide he' = false /\ hc_flatten he' = false /\ hc_name he' = s_help
  /\ usage_pieces he' = Some ([bin ++ (32 :: t) ++ s_help] ++ (if existsb vis_pred (hc_subs p) then [s_cmd_exp] else [])).
Proof.
  intros H.
  destruct (bin_names_inv f _ he' H) as [mid' [subs' [_ [Hs ->]]]].
  set (he := h_help_subcommand_expanded p) in *.
  set (Z := h_set_names bin (32 :: t) (h_build_recursive (S f) he)) in *.
  assert (Hnh : map nh subs' = map nh (hc_subs p ++ [help_help])).
  { rewrite (bin_names_subs_nh f _ _ _ _ Hs). unfold Z. rewrite set_names_subs. cbn [h_build_recursive].
    change (hc_subs (h_build_self_x true he <| hc_subs := map (h_build_recursive f) (hc_subs (h_build_self_x true he)) |>))
      with (map (h_build_recursive f) (hc_subs (h_build_self_x true he))).
    rewrite map_map. rewrite (map_ext (fun x => nh (h_build_recursive f x)) nh).
    2:{ intros s. apply nh_of_hd. apply hd_build_recursive. }
    rewrite (build_self_subs_nohelp true he); [|reflexivity|reflexivity].
    unfold he. rewrite expanded_subs, nh_add_subs, !map_app, map_map. f_equal. apply map_ext. intros s. apply nh_copy. }
  assert (Hvis : existsb vis_pred subs' = existsb vis_pred (hc_subs p)).
  { rewrite (existsb_nh _ _ Hnh), existsb_app. cbn [existsb]. replace (vis_pred help_help) with false by reflexivity.
    rewrite !orb_false_r. reflexivity. }
  assert (Hhd : hd_of (Z <| hc_subs := subs' |>) = hd_of Z) by apply hd_subs.
  apply hd_fields in Hhd. destruct Hhd as [N1 [N2 [N3 [N4 _]]]].
  destruct (set_names_head bin (32 :: t) (h_build_recursive (S f) he)) as [M1 [M2 [M3 M4]]]. fold Z in M1, M2, M3, M4.
  pose proof (hd_fields _ _ (hd_build_recursive (S f) he)) as [R1 [R2 [R3 [R4 [_ R6]]]]].
  split; [rewrite N2, M2, R2; reflexivity|]. split; [rewrite N3, M3, R3; reflexivity|]. split; [rewrite N1, M1, R1; reflexivity|].
  assert (Hcore : core_of (Z <| hc_subs := subs' |>) = ([], [], false, false, false, false, None)).
  { rewrite core_subs. unfold Z. rewrite core_set_names. cbn [h_build_recursive]. rewrite core_subs.
    rewrite (build_self_core true he); reflexivity. }
  destruct (core_eq _ _ _ _ _ _ _ _ Hcore) as [C1 [C2 [C3 [C4 [C5 [C6 C7]]]]]].
  assert (Hun : usage_name_fallback (Z <| hc_subs := subs' |>) = bin ++ (32 :: t) ++ s_help).
  { unfold usage_name_fallback. rewrite N4. unfold Z. rewrite set_names_usage. cbn [opt_default]. rewrite R4, R6. reflexivity. }
  assert (Hne : exists x0 t0, bin ++ (32 :: t) ++ s_help = x0 :: t0) by (destruct bin; cbn; eauto).
  destruct Hne as [x0 [t0 Hne]].
  rewrite (usage_pieces_noargs _ x0 t0 C1 C2 (eq_trans Hun Hne) C3 C4 C5 C6 C7).
  unfold has_visible_subcommands. change (hc_subs (Z <| hc_subs := subs' |>)) with subs'.
  change (existsb (fun sc => negb (beq (hc_name sc) s_help) && negb (hc_hide sc)) subs') with (existsb vis_pred subs').
  rewrite Hvis, Hne. reflexivity.
Qed.

(** non-vacuity: a level with [disable_help_subcommand] (and a subcommand) is in the class of [shape_disabled]; the
    hypothesis of [exp_help_line] holds for the expanded help subcommand of a level with one visible subcommand *)
Definition sh_off : hcmd :=
  cmd_with ((hcmd_new [112]) <| hc_set := hs_only_no_help_sub |> <| hc_gset := hs_only_no_help_sub |> <| hc_flatten := true |>)
           [] [hcmd_new [97]].
Example shape_disabled_satisfiable :
  help_sub_off sh_off = true /\ hc_built sh_off = false /\ is_nil (hc_subs sh_off) = false
  /\ flat_cond (h_build_self_x false sh_off) = true.
Proof. repeat split; vm_compute; reflexivity. Qed.

Definition sh_on : hcmd := cmd_with ((hcmd_new [112]) <| hc_flatten := true |>) [] [hcmd_new [97]].
Example shape_lines_satisfiable :
  help_sub_off sh_on = false
  /\ (exists he', h_build_bin_names 3 (h_set_names [112] [32] (h_build_recursive 3 (h_help_subcommand_expanded sh_on))) = Some he'
                  /\ usage_pieces he' = Some [[112; 32] ++ s_help; s_cmd_exp])
  /\ (exists hl', h_build_bin_names 3 (h_set_names [112] [32] (h_build_recursive 3 (h_help_subcommand sh_on))) = Some hl'
                  /\ usage_pieces hl' = Some [[112; 32] ++ s_help; s_cmd_lazy]).
Proof.
  split; [vm_compute; reflexivity|]. split; eexists; (split; [vm_compute; reflexivity|vm_compute; reflexivity]).
Qed.
