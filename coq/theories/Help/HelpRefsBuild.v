(** C12, round 3: [refs_ok] is a property of the USER's command: the build step ([_build_self]) keeps the
    groups, keeps the id / [required] / [requires] of every argument and only appends the generated
    [--help] / [--version] arguments (which require nothing), so the references still resolve. *)
From Coq Require Import List Bool Lia.
Import ListNotations.
From ClapModel Require Import Base.Bytes Base.Machine Parse.Cmd Parse.Matcher Parse.Errors Parse.Validator ParseProofs.Relations.
From ClapModel Require Import Gen.HelpTables Help.UsageModel Help.HelpModel Help.HelpReqs Help.HelpProofs.
From RecordUpdate Require Import RecordSet.
Import RecordSetNotations.
Open Scope N_scope.

Lemma forallb_map {A B} (f : B -> bool) (g : A -> B) l : forallb f (map g l) = forallb (fun x => f (g x)) l.
Proof. induction l as [|x t IH]; [reflexivity|]. cbn [map forallb]. rewrite IH. reflexivity. Qed.

(** [refs_ok] in terms of the view *)
Definition prefs_ok (pc : cmd) : bool :=
  rel_wf pc
  && forallb (fun a => forallb (fun r => id_exists pc (snd r)) (a_requires a)) (c_args pc)
  && forallb (fun g => forallb (id_exists pc) (g_requires g)) (c_groups pc).
Lemma refs_ok_view c : refs_ok c = prefs_ok (pcmd_of c).
Proof. unfold refs_ok, prefs_ok. rewrite pcmd_args, pcmd_groups, forallb_map. reflexivity. Qed.

Lemma find_arg_app_some pc pc' ex i :
  c_args pc' = c_args pc ++ ex -> is_some (find_arg pc i) = true -> is_some (find_arg pc' i) = true.
Proof.
  unfold find_arg. intros E H. rewrite E. destruct (find _ (c_args pc)) as [a|] eqn:F; [|discriminate].
  apply find_some in F. destruct F as [F1 F2].
  destruct (find (fun a0 => beq (a_id a0) i) (c_args pc ++ ex)) eqn:G; [reflexivity|].
  exfalso. pose proof (find_none _ _ G a (in_or_app _ _ _ (or_introl F1))) as N. cbn beta in N. rewrite F2 in N. discriminate.
Qed.

Lemma prefs_ok_ext pc pc' ex :
  c_groups pc' = c_groups pc -> c_args pc' = c_args pc ++ ex -> (forall e, In e ex -> a_requires e = []) ->
  prefs_ok pc = true -> prefs_ok pc' = true.
Proof.
  intros Eg Ea Hex H. unfold prefs_ok in *.
  apply andb_true_iff in H. destruct H as [H H3]. apply andb_true_iff in H. destruct H as [H1 H2].
  assert (Hid : forall x, id_exists pc x = true -> id_exists pc' x = true).
  { intros x. unfold id_exists, find_group. rewrite Eg. intros Hx. apply orb_true_iff in Hx. apply orb_true_iff.
    destruct Hx as [Hx|Hx]; [left; apply (find_arg_app_some pc pc' ex x Ea Hx)|right; exact Hx]. }
  apply andb_true_iff. split; [apply andb_true_iff; split|].
  - unfold rel_wf in *. rewrite Eg. rewrite forallb_forall in H1 |- *. intros g Hg. specialize (H1 g Hg).
    apply andb_true_iff in H1. destruct H1 as [Hc Hm]. apply andb_true_iff. split; [exact Hc|].
    rewrite forallb_forall in Hm |- *. intros m Hmi. apply (find_arg_app_some pc pc' ex m Ea). apply Hm. exact Hmi.
  - rewrite Ea. rewrite forallb_app. apply andb_true_iff. split.
    + rewrite forallb_forall in H2 |- *. intros a Ha. specialize (H2 a Ha). rewrite forallb_forall in H2 |- *.
      intros r Hr. apply Hid. apply H2. exact Hr.
    + rewrite forallb_forall. intros e He. rewrite (Hex e He). reflexivity.
  - rewrite Eg. rewrite forallb_forall in H3 |- *. intros g Hg. specialize (H3 g Hg). rewrite forallb_forall in H3 |- *.
    intros r Hr. apply Hid. apply H3. exact Hr.
Qed.

(** the build keeps what the view reads *)
Lemma parg_of_build a : parg_of (harg_build a) = parg_of a.
Proof.
  unfold harg_build, harg_default.
  destruct (action_default_value (ha_action a)); [destruct (is_nil (ha_defaults a))|];
    (destruct (ha_num _); [|destruct (1 <? _)]); reflexivity.
Qed.
Lemma parg_of_build_hargs l : forall n, map parg_of (build_hargs l n) = map parg_of l.
Proof.
  induction l as [|x t IH]; intros n; [reflexivity|]. cbn [build_hargs map].
  destruct (ha_is_positional (harg_build x) && negb (is_some (ha_index (harg_build x)))); cbn [map]; rewrite IH.
  - change (parg_of (harg_build x <| ha_index := Some n |>)) with (parg_of (harg_build x)). rewrite parg_of_build. reflexivity.
  - rewrite parg_of_build. reflexivity.
Qed.

Lemma build_view c : hc_built c = false ->
  exists ex, c_groups (pcmd_of (h_build_self c)) = c_groups (pcmd_of c)
             /\ c_args (pcmd_of (h_build_self c)) = c_args (pcmd_of c) ++ ex
             /\ forall e, In e ex -> a_requires e = [].
Proof.
  intros Hb. unfold h_build_self. rewrite Hb. rewrite !pcmd_groups, !pcmd_args. cbn [hc_groups hc_args].
  set (c1 := if is_nil (hc_subs c) then c <| hc_set := (hc_set c) <| hs_no_help_sub := true |> |> else c).
  set (c2 := c1 <| hc_subs := map (h_propagate_subcommand c1) (hc_subs c1) |>).
  assert (E1 : hc_args c2 = hc_args c) by (unfold c2, c1; destruct (is_nil (hc_subs c)); reflexivity).
  assert (G1 : hc_groups c2 = hc_groups c) by (unfold c2, c1; destruct (is_nil (hc_subs c)); reflexivity).
  assert (Hchk : exists exh, hc_args (h_check_help_and_version c2) = hc_args c2 ++ exh
                             /\ hc_groups (h_check_help_and_version c2) = hc_groups c2
                             /\ forall e, In e exh -> ha_requires e = []).
  { unfold h_check_help_and_version.
    repeat match goal with |- context [if ?x then _ else _] => destruct x end;
      cbn -[h_help_arg h_version_arg h_help_subcommand long_help_exists_];
      (eexists; split; [first [rewrite <- ?app_assoc; reflexivity | symmetry; apply app_nil_r]|]);
      (split; [reflexivity|]); intros e He; cbn -[h_help_arg h_version_arg] in He;
      repeat (destruct He as [He|He]; [subst e; try reflexivity; unfold h_help_arg; destruct (long_help_exists_ c2); reflexivity|]);
      destruct He. }
  destruct Hchk as [exh [E2 [G2 Hex]]].
  exists (map parg_of exh). split; [|split].
  - cbn. rewrite G2, G1. reflexivity.
  - cbn. rewrite parg_of_build_hargs. rewrite E2, E1, map_app. reflexivity.
  - intros e He. apply in_map_iff in He. destruct He as [x [<- Hx]]. rewrite parg_of_requires. apply Hex. exact Hx.
Qed.

(** C12_refs_ok_build: the references of a built command resolve when those of the user's command do *)
Theorem refs_ok_build c : refs_ok c = true -> refs_ok (h_build_self c) = true.
Proof.
  intros H. destruct (hc_built c) eqn:Hb.
  - unfold h_build_self. rewrite Hb. exact H.
  - destruct (build_view c Hb) as [ex [Eg [Ea Hex]]]. rewrite refs_ok_view in *.
    apply (prefs_ok_ext (pcmd_of c) (pcmd_of (h_build_self c)) ex Eg Ea Hex H).
Qed.

(** [render_help] / [render_usage] never panic, hypotheses on the user's command (and on the widths of the built one) *)
Theorem render_total_user dw c use_long w :
  hc_built c = false -> spec_ok c -> refs_ok c = true -> widths_ok dw (h_build_self c) ->
  render_help dw c use_long w <> None /\ render_usage c <> None.
Proof. intros Hb Hs Hr Hw. apply render_total; [exact Hb|exact Hs|exact Hw|apply refs_ok_build; exact Hr]. Qed.
