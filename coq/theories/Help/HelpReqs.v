(** C12, round 3: the requirement walk of the usage line ([required_graph], [unroll_arg_requires],
    [unroll_args_in_group] of the parser model applied to the view [pcmd_of] of a help command):
    it terminates for every command, and every id it produces is the id of a required argument, of a
    required group, or the target of a [requires] rule of an argument / of a required group. *)
From Coq Require Import List Bool Lia.
Import ListNotations.
From ClapModel Require Import Base.Bytes Base.Machine Parse.Cmd Parse.Matcher Parse.Errors Parse.Validator.
From ClapModel Require Import ParseProofs.Relations Gen.HelpTables Help.UsageModel.
From RecordUpdate Require Import RecordSet.
Import RecordSetNotations.
Open Scope N_scope.

(** ---- [Command::find] on the help command and on its view ---- *)
Lemma h_find_some c i a : h_find c i = Some a -> ha_id a = i /\ In a (hc_args c).
Proof. unfold h_find. intros H. apply find_some in H. destruct H as [H1 H2]. apply beq_eq in H2. split; assumption. Qed.

Lemma parg_of_id a : a_id (parg_of a) = ha_id a.
Proof. reflexivity. Qed.
Lemma parg_of_requires a : a_requires (parg_of a) = ha_requires a.
Proof. reflexivity. Qed.
Lemma parg_of_required a : a_required (parg_of a) = ha_required a.
Proof. reflexivity. Qed.

Lemma find_arg_pcmd c i : find_arg (pcmd_of c) i = option_map parg_of (h_find c i).
Proof.
  unfold find_arg, h_find, pcmd_of. cbn [c_args set].
  change (c_args _) with (map parg_of (hc_args c)).
  induction (hc_args c) as [|a t IH]; [reflexivity|]. cbn [map find]. rewrite parg_of_id.
  destruct (beq (ha_id a) i); [reflexivity|exact IH].
Qed.
Lemma find_arg_pcmd_some c i : is_some (find_arg (pcmd_of c) i) = is_some (h_find c i).
Proof. rewrite find_arg_pcmd. destruct (h_find c i); reflexivity. Qed.
Lemma pcmd_groups c : c_groups (pcmd_of c) = hc_groups c.
Proof. reflexivity. Qed.
Lemma pcmd_args c : c_args (pcmd_of c) = map parg_of (hc_args c).
Proof. reflexivity. Qed.

(** ---- [unroll_arg_requires] with the closure of the usage line: what it can return ---- *)
Lemma fold_fst_app {B} (f : list id * B -> id -> list id * B) :
  (forall acc r, fst (f acc r) = fst acc ++ [r]) -> forall l acc, fst (fold_left f l acc) = fst acc ++ l.
Proof.
  intros Hf. induction l as [|r t IH]; intros acc; cbn [fold_left]; [rewrite app_nil_r; reflexivity|].
  rewrite IH, Hf, <- app_assoc. reflexivity.
Qed.
Lemma filter_map_inv {A B} (f : A -> option B) l y : In y (filter_map f l) -> exists x, In x l /\ f x = Some y.
Proof.
  induction l as [|a t IH]; cbn [filter_map]; [intros []|].
  destruct (f a) as [b|] eqn:E.
  - intros [<-|H]; [exists a; split; [left; reflexivity|exact E]|].
    destruct (IH H) as [x [Hx Hf]]. exists x. split; [right; exact Hx|exact Hf].
  - intros H. destruct (IH H) as [x [Hx Hf]]. exists x. split; [right; exact Hx|exact Hf].
Qed.

Section Sound.
Variable c : cmd.
(** the targets of the unconditional [requires] rules of the arguments *)
Definition arg_targets : list id :=
  flat_map (fun a => map snd (filter (fun r => pred_is_present (fst r)) (a_requires a))) (c_args c).

Lemma relevant_help_target is_root rule y :
  relevant_rule is_relevant_help is_root rule = Some y -> y = snd rule /\ pred_is_present (fst rule) = true.
Proof.
  unfold relevant_rule, is_relevant_help. destruct rule as [p t]. cbn [fst snd].
  destruct p; cbn [pred_is_present]; destruct is_root; cbn [orb]; try discriminate; intros [= <-]; split; reflexivity.
Qed.

Lemma loop_sound root : forall fuel r_vec processed args out,
  unroll_requires_loop c is_relevant_help root fuel r_vec processed args = Some out ->
  forall y, In y out -> In y args \/ In y arg_targets.
Proof.
  induction fuel as [|f IH]; intros r_vec processed args out; cbn [unroll_requires_loop]; [discriminate|].
  destruct r_vec as [|a rest]; [intros [= <-] y Hy; left; exact Hy|].
  destruct (mem_id a processed); [apply IH|].
  destruct (find_arg c a) as [arg_def|] eqn:Ea; [|apply IH].
  set (l := filter_map (relevant_rule is_relevant_help (beq a root)) (a_requires arg_def)).
  match goal with |- context [fold_left ?f0 l (args, [])] => set (fn := f0) end.
  assert (Hfn : forall acc r, fst (fn acc r) = fst acc ++ [r]).
  { intros [ar pu] r. subst fn. cbn beta iota. reflexivity. }
  pose proof (fold_fst_app fn Hfn l (args, [])) as Hfst. cbn [fst] in Hfst.
  destruct (fold_left fn l (args, [])) as [args' pushed]. cbn [fst] in Hfst. subst args'.
  intros H y Hy. destruct (IH _ _ _ _ H y Hy) as [Hin|Hin]; [|right; exact Hin].
  apply in_app_or in Hin. destruct Hin as [Hin|Hin]; [left; exact Hin|]. right.
  subst l. apply filter_map_inv in Hin. destruct Hin as [rule [Hr Hf]].
  apply relevant_help_target in Hf. destruct Hf as [-> Hp].
  unfold arg_targets. apply in_flat_map. exists arg_def. split.
  - unfold find_arg in Ea. apply find_some in Ea. apply Ea.
  - apply in_map. apply filter_In. split; assumption.
Qed.

Lemma unroll_help_sound a out : unroll_arg_requires c is_relevant_help a = Some out ->
  forall y, In y out -> In y arg_targets.
Proof.
  unfold unroll_arg_requires. intros H y Hy. destruct (loop_sound _ _ _ _ _ _ H y Hy) as [[]|Hin]. exact Hin.
Qed.

(** [unrolled_reqs]: total; its elements are graph nodes or targets; it contains every graph node *)
Lemma unrolled_reqs_total g : exists reqs, unrolled_reqs c g = Some reqs.
Proof.
  induction g as [|a t [r Hr]]; cbn [unrolled_reqs]; [eauto|].
  destruct (unroll_arg_requires_total c is_relevant_help a) as [u Hu]. rewrite Hu, Hr. eauto.
Qed.
Lemma unrolled_reqs_in g : forall reqs, unrolled_reqs c g = Some reqs ->
  forall y, In y reqs -> In y g \/ In y arg_targets.
Proof.
  induction g as [|a t IH]; intros reqs; cbn [unrolled_reqs]; [intros [= <-] y []|].
  destruct (unroll_arg_requires c is_relevant_help a) as [u|] eqn:Eu; [|discriminate].
  destruct (unrolled_reqs c t) as [r|]; [|discriminate]. intros [= <-] y Hy.
  apply in_app_or in Hy. destruct Hy as [Hy|Hy]; [right; apply (unroll_help_sound a u Eu y Hy)|].
  cbn [app] in Hy. destruct Hy as [Hy|Hy]; [left; left; exact Hy|].
  destruct (IH r eq_refl y Hy) as [H|H]; [left; right; exact H|right; exact H].
Qed.
Lemma unrolled_reqs_has g : forall reqs, unrolled_reqs c g = Some reqs -> forall y, In y g -> In y reqs.
Proof.
  induction g as [|a t IH]; intros reqs; cbn [unrolled_reqs]; [intros _ y []|].
  destruct (unroll_arg_requires c is_relevant_help a) as [u|]; [|discriminate].
  destruct (unrolled_reqs c t) as [r|]; [|discriminate]. intros [= <-] y [Hy|Hy].
  - subst y. apply in_or_app. right. left. reflexivity.
  - apply in_or_app. right. right. apply (IH r eq_refl y Hy).
Qed.

(** [required_graph]: its nodes *)
Definition graph_src (x : id) : Prop :=
  (exists a, In a (c_args c) /\ a_required a = true /\ a_id a = x)
  \/ (exists g, In g (c_groups c) /\ g_required g = true /\ (g_id g = x \/ In x (g_requires g))).

Lemma graph_insert_in g i x : In x (graph_insert g i) -> In x g \/ x = i.
Proof.
  unfold graph_insert. destruct (mem_id i g); [left; assumption|].
  intros H. apply in_app_or in H. destruct H as [H|[H|[]]]; [left; exact H|right; symmetry; exact H].
Qed.
Lemma graph_insert_has g i : In i (graph_insert g i).
Proof.
  unfold graph_insert. destruct (mem_id i g) eqn:E; [apply mem_id_In; exact E|apply in_or_app; right; left; reflexivity].
Qed.
Lemma graph_insert_keeps g i x : In x g -> In x (graph_insert g i).
Proof. unfold graph_insert. destruct (mem_id i g); [auto|intros H; apply in_or_app; left; exact H]. Qed.

Lemma required_graph_in x : In x (required_graph c) -> graph_src x.
Proof.
  unfold required_graph.
  assert (H1 : forall l g, (forall y, In y g -> graph_src y) -> (forall a, In a l -> In a (c_args c)) ->
               forall y, In y (fold_left (fun g a => if a_required a then graph_insert g (a_id a) else g) l g) -> graph_src y).
  { induction l as [|a t IH]; intros g Hg Hl y; cbn [fold_left]; [apply Hg|].
    apply IH; [|intros b Hb; apply Hl; right; exact Hb].
    intros z Hz. destruct (a_required a) eqn:Er; [|apply Hg; exact Hz].
    apply graph_insert_in in Hz. destruct Hz as [Hz| ->]; [apply Hg; exact Hz|].
    left. exists a. split; [apply Hl; left; reflexivity|]. split; [exact Er|reflexivity]. }
  assert (H2 : forall l g, (forall y, In y g -> graph_src y) -> (forall a, In a l -> In a (c_groups c)) ->
               forall y, In y (fold_left (fun g grp => if g_required grp then graph_insert g (g_id grp) ++ g_requires grp else g) l g) -> graph_src y).
  { induction l as [|a t IH]; intros g Hg Hl y; cbn [fold_left]; [apply Hg|].
    apply IH; [|intros b Hb; apply Hl; right; exact Hb].
    intros z Hz. destruct (g_required a) eqn:Er; [|apply Hg; exact Hz].
    assert (Ha : In a (c_groups c)) by (apply Hl; left; reflexivity).
    apply in_app_or in Hz. destruct Hz as [Hz|Hz].
    - apply graph_insert_in in Hz. destruct Hz as [Hz| ->]; [apply Hg; exact Hz|].
      right. exists a. split; [exact Ha|]. split; [exact Er|left; reflexivity].
    - right. exists a. split; [exact Ha|]. split; [exact Er|right; exact Hz]. }
  apply H2; [|auto]. apply H1; [intros y []|auto].
Qed.

Lemma required_graph_has_arg a : In a (c_args c) -> a_required a = true -> In (a_id a) (required_graph c).
Proof.
  intros Ha Hr. unfold required_graph.
  assert (H2 : forall l g y, In y g ->
               In y (fold_left (fun g grp => if g_required grp then graph_insert g (g_id grp) ++ g_requires grp else g) l g)).
  { induction l as [|x t IH]; intros g y Hy; cbn [fold_left]; [exact Hy|]. apply IH.
    destruct (g_required x); [|exact Hy]. apply in_or_app. left. apply graph_insert_keeps. exact Hy. }
  apply H2.
  assert (H1 : forall l g, (In (a_id a) g \/ In a l) ->
               In (a_id a) (fold_left (fun g a => if a_required a then graph_insert g (a_id a) else g) l g)).
  { induction l as [|x t IH]; intros g Hg; cbn [fold_left]; [destruct Hg as [Hg|[]]; exact Hg|].
    apply IH. destruct Hg as [Hg|[Hg|Hg]].
    - left. destruct (a_required x); [apply graph_insert_keeps|]; exact Hg.
    - subst x. rewrite Hr. left. apply graph_insert_has.
    - right. exact Hg. }
  apply H1. right. exact Ha.
Qed.

Lemma required_graph_has_group g : In g (c_groups c) -> g_required g = true -> In (g_id g) (required_graph c).
Proof.
  intros Hg Hr. unfold required_graph.
  generalize (fold_left (fun g a => if a_required a then graph_insert g (a_id a) else g) (c_args c) []).
  assert (H2 : forall l acc, (In (g_id g) acc \/ In g l) ->
               In (g_id g) (fold_left (fun g grp => if g_required grp then graph_insert g (g_id grp) ++ g_requires grp else g) l acc)).
  { induction l as [|x t IH]; intros acc Hacc; cbn [fold_left]; [destruct Hacc as [H|[]]; exact H|]. apply IH.
    destruct Hacc as [H|[H|H]].
    - left. destruct (g_required x); [|exact H]. apply in_or_app. left. apply graph_insert_keeps. exact H.
    - subst x. rewrite Hr. left. apply in_or_app. left. apply graph_insert_has.
    - right. exact H. }
  intros acc. apply H2. right. exact Hg.
Qed.
End Sound.

(** ---- the requirement ids of a help command ---- *)
(** every id a [requires] rule of an argument or of a group names, and every group member, exists
    (debug_asserts.rs: "specified in 'requires*' ... does not exist", "contains non-existent argument",
    "Argument group name must be unique") *)
Definition refs_ok (c : hcmd) : bool :=
  rel_wf (pcmd_of c)
  && forallb (fun a => forallb (fun r => id_exists (pcmd_of c) (snd r)) (ha_requires a)) (hc_args c)
  && forallb (fun g => forallb (id_exists (pcmd_of c)) (g_requires g)) (hc_groups c).

Definition usage_reqs (c : hcmd) : list id :=
  opt_default [] (unrolled_reqs (pcmd_of c) (required_graph (pcmd_of c))).

Lemma usage_reqs_eq c : unrolled_reqs (pcmd_of c) (required_graph (pcmd_of c)) = Some (usage_reqs c).
Proof.
  unfold usage_reqs. destruct (unrolled_reqs_total (pcmd_of c) (required_graph (pcmd_of c))) as [r Hr]. rewrite Hr. reflexivity.
Qed.

(** where a requirement id comes from, in terms of the help command *)
Definition req_src (c : hcmd) (x : id) : Prop :=
  (exists a, In a (hc_args c) /\ ha_required a = true /\ ha_id a = x)
  \/ (exists g, In g (hc_groups c) /\ g_required g = true /\ (g_id g = x \/ In x (g_requires g)))
  \/ (exists a r, In a (hc_args c) /\ In r (ha_requires a) /\ pred_is_present (fst r) = true /\ snd r = x).

Lemma usage_reqs_src c x : In x (usage_reqs c) -> req_src c x.
Proof.
  intros H. destruct (unrolled_reqs_in _ _ _ (usage_reqs_eq c) x H) as [Hg|Ht].
  - apply required_graph_in in Hg. destruct Hg as [[a [Ha [Hr Hi]]]|[g Hg]].
    + rewrite pcmd_args in Ha. apply in_map_iff in Ha. destruct Ha as [b [<- Hb]].
      left. exists b. split; [exact Hb|]. split; [exact Hr|exact Hi].
    + right. left. exists g. exact Hg.
  - right. right. unfold arg_targets in Ht. apply in_flat_map in Ht. destruct Ht as [a [Ha Hin]].
    rewrite pcmd_args in Ha. apply in_map_iff in Ha. destruct Ha as [b [<- Hb]].
    apply in_map_iff in Hin. destruct Hin as [r [Er Hr]]. apply filter_In in Hr. destruct Hr as [Hr Hp].
    exists b, r. rewrite parg_of_requires in Hr. auto.
Qed.

(** under [refs_ok] every requirement id is an argument or a group *)
Lemma usage_reqs_exist c x : refs_ok c = true -> In x (usage_reqs c) -> id_exists (pcmd_of c) x = true.
Proof.
  unfold refs_ok. intros W H. apply andb_true_iff in W. destruct W as [W W3]. apply andb_true_iff in W. destruct W as [W1 W2].
  rewrite forallb_forall in W2, W3.
  destruct (usage_reqs_src c x H) as [[a [Ha [_ Hi]]]|[[g [Hg [_ [Hi|Hi]]]]|[a [r [Ha [Hr [_ Hi]]]]]]].
  - unfold id_exists. rewrite find_arg_pcmd_some. unfold h_find.
    destruct (find (fun b => beq (ha_id b) x) (hc_args c)) eqn:E; [reflexivity|].
    exfalso. pose proof (find_none _ _ E a Ha) as Hn. cbn beta in Hn. rewrite Hi, beq_refl in Hn. discriminate.
  - unfold id_exists. destruct (rel_wf_group (pcmd_of c) g W1 Hg) as [Hf _]. rewrite Hi in Hf. rewrite Hf.
    apply orb_true_r.
  - specialize (W3 g Hg). rewrite forallb_forall in W3. apply W3. exact Hi.
  - specialize (W2 a Ha). rewrite forallb_forall in W2. rewrite <- Hi. apply W2. exact Hr.
Qed.

Lemma required_in_usage_reqs c a : In a (hc_args c) -> ha_required a = true -> In (ha_id a) (usage_reqs c).
Proof.
  intros Ha Hr. apply (unrolled_reqs_has _ _ _ (usage_reqs_eq c)).
  apply (required_graph_has_arg (pcmd_of c) (parg_of a)); [rewrite pcmd_args; apply in_map; exact Ha|exact Hr].
Qed.
Lemma required_group_in_usage_reqs c g : In g (hc_groups c) -> g_required g = true -> In (g_id g) (usage_reqs c).
Proof.
  intros Hg Hr. apply (unrolled_reqs_has _ _ _ (usage_reqs_eq c)).
  apply (required_graph_has_group (pcmd_of c) g); assumption.
Qed.

(** boolean form of [req_src] (the class of the "hidden optional argument" theorem) *)
Definition req_srcb (c : hcmd) (x : id) : bool :=
  existsb (fun a => ha_required a && beq (ha_id a) x) (hc_args c)
  || existsb (fun g => g_required g && (beq (g_id g) x || mem_id x (g_requires g))) (hc_groups c)
  || existsb (fun a => existsb (fun r => pred_is_present (fst r) && beq (snd r) x) (ha_requires a)) (hc_args c).

Lemma req_src_b c x : req_src c x -> req_srcb c x = true.
Proof.
  unfold req_srcb. intros [[a [Ha [Hr Hi]]]|[[g [Hg [Hr Hi]]]|[a [r [Ha [Hr [Hp Hi]]]]]]].
  - apply orb_true_iff. left. apply orb_true_iff. left. apply existsb_exists. exists a. split; [exact Ha|].
    rewrite Hr, Hi, beq_refl. reflexivity.
  - apply orb_true_iff. left. apply orb_true_iff. right. apply existsb_exists. exists g. split; [exact Hg|].
    rewrite Hr. cbn [andb]. apply orb_true_iff. destruct Hi as [Hi|Hi]; [left; rewrite Hi; apply beq_refl|right; apply mem_id_In; exact Hi].
  - apply orb_true_iff. right. apply existsb_exists. exists a. split; [exact Ha|]. apply existsb_exists. exists r.
    split; [exact Hr|]. rewrite Hp, Hi, beq_refl. reflexivity.
Qed.
Lemma req_srcb_false c x : req_srcb c x = false -> ~ req_src c x.
Proof. intros H Hs. apply req_src_b in Hs. rewrite Hs in H. discriminate. Qed.
