(** C12, help level on the parser side: the DisplayHelp errors of the parser model (Parse/Parser.v:
    [react] for [ArgAction::Help*] builds [help_err c], [parse_help_subcommand] is [help_walk]) carry
    the about text of the level whose parser raised them / the level the named path leads to. *)
From ClapModel Require Import Base.Bytes Parse.Cmd Parse.Build Parse.Errors Parse.Parser.
Open Scope N_scope.

(** the level a path of names leads to: [find_subcommand] (name or alias), then [_build_subcommand] *)
Fixpoint p_level_walk (c : cmd) (names : list bytes) : option cmd :=
  match names with
  | [] => Some c
  | n :: rest =>
      match find_subcommand c n with
      | Some s => match build_subcommand c (c_name s) with
                  | Some s' => p_level_walk s' rest
                  | None => None
                  end
      | None => None
      end
  end.

Lemma help_err_level c use_long :
  e_kind (help_err c use_long) = EDisplayHelp /\ e_cmd (help_err c use_long) = opt_default [] (c_about c)
  /\ e_long (help_err c use_long) = use_long.
Proof. repeat split. Qed.

Lemma help_walk_level names : forall c,
  e_kind (help_walk c names) = EDisplayHelp ->
  exists lv, p_level_walk c names = Some lv
             /\ e_cmd (help_walk c names) = opt_default [] (c_about lv) /\ e_long (help_walk c names) = true.
Proof.
  induction names as [|n rest IH]; intros c H; cbn [help_walk p_level_walk] in *.
  - exists c. repeat split.
  - destruct (find_subcommand c n) as [s|]; [|discriminate].
    destruct (build_subcommand c (c_name s)) as [s'|]; [|discriminate].
    apply IH. exact H.
Qed.
