(** C12 / C11, round 5: the two builds of a level differ in exactly the generated [help] subcommand.

    [build_x_on]: for an unbuilt level with subcommands whose help subcommand is not disabled,
    [_build_self(expand_help_tree = e)] is [build_pre c] (everything before the help subcommand is pushed) with the
    subcommands [map (glob_fn ..) (subcommands) ++ [help_of e ..]], the built arguments and the [Built] flag: the flag
    [e] decides the last subcommand and nothing else ([shape_builds]).
    [h_build_built]: [build()] on a built level is a [map_opt] over its subcommands ([sub_built]).
    [block_split]: the usage block of a built flattened level whose subcommands are [S0 ++ [h]] is [common_block] (own
    line + the lines of [S0]) followed by the lines of [h] as [build()] leaves it; [common_block_subs]: the common part
    does not read the level's subcommand list.  [lazy_built] / [exp_built]: the lines of the two help shapes.
    [flatten_help_shape_level]: the flattened usage blocks of the two builds of a flattened level are
    [common ++ [help line]] with the same [common] and the two forms of the help line -- the recorded finding
    C11-flatten-help-subcommand-shape as a theorem; the normalisation of the classifier in vp/props/c11.py
    ([flatten_help_shape]: read ` help [COMMAND]...` as ` help [COMMAND]`) is its conclusion. *)
From Coq Require Import List Bool Lia NArith.
Import ListNotations.
From ClapModel Require Import Base.Bytes Base.Machine Parse.Cmd Parse.Valid Parse.Matcher Parse.Errors Parse.Validator.
From ClapModel Require Import Gen.HelpTables Help.UsageModel Help.HelpModel Help.HelpReqs Help.HelpProofs Help.HelpFlatten Help.HelpFlattenProofs Help.HelpFlattenShape.
From RecordUpdate Require Import RecordSet.
Import RecordSetNotations.
Open Scope N_scope.

(** the part of [_check_help_and_version] before the help subcommand is pushed *)
Definition hcv_pre (c : hcmd) : hcmd :=
  let c := c <| hc_long_help_exists := long_help_exists_ c |> in
  let c := if negb (h_is_set hs_no_help_flag c)
           then c <| hc_args := hc_args c ++ [h_help_arg (hc_long_help_exists c)] |> else c in
  if negb (h_is_disable_version_flag_set c) then c <| hc_args := hc_args c ++ [h_version_arg] |> else c.

Lemma hcv_pre_sets c : hc_set (hcv_pre c) = hc_set c /\ hc_gset (hcv_pre c) = hc_gset c /\ hc_subs (hcv_pre c) = hc_subs c.
Proof.
  unfold hcv_pre. cbn zeta.
  destruct (negb (h_is_set hs_no_help_flag _)); destruct (negb (h_is_disable_version_flag_set _)); repeat split; reflexivity.
Qed.

Lemma hcv_x_on e c : h_is_set hs_no_help_sub c = false ->
  h_check_help_and_version_x e c
  = (hcv_pre c) <| hc_subs := hc_subs (hcv_pre c) ++ [if e then h_help_subcommand_expanded (hcv_pre c) else h_help_subcommand (hcv_pre c)] |>.
Proof.
  intros Hs. unfold h_check_help_and_version_x. fold (hcv_pre c). cbn zeta.
  change ((let c0 := c <| hc_long_help_exists := long_help_exists_ c |> in
       let c1 := if negb (h_is_set hs_no_help_flag c0) then c0 <| hc_args := hc_args c0 ++ [h_help_arg (hc_long_help_exists c0)] |> else c0 in
       if negb (h_is_disable_version_flag_set c1) then c1 <| hc_args := hc_args c1 ++ [h_version_arg] |> else c1)) with (hcv_pre c).
  destruct (hcv_pre_sets c) as [E1 [E2 _]]. unfold h_is_set in *. rewrite E1, E2, Hs. reflexivity.
Qed.

Definition help_of (e : bool) (p : hcmd) : hcmd := if e then h_help_subcommand_expanded p else h_help_subcommand p.
Definition glob_fn (p : hcmd) (sc : hcmd) : hcmd :=
  if beq (hc_name sc) s_help && true then sc else fold_left h_add_global (filter ha_global (hc_args p)) sc.
Definition build_pre (c : hcmd) : hcmd := hcv_pre (c <| hc_subs := map (h_propagate_subcommand c) (hc_subs c) |>).

Lemma propagate_globals_on p l : h_is_set hs_no_help_sub p = false ->
  h_propagate_global_args (p <| hc_subs := l |>) = p <| hc_subs := map (glob_fn p) l |>.
Proof.
  intros Hs. unfold h_propagate_global_args, glob_fn, h_is_set in *. destruct p. cbn in *. rewrite Hs. cbn.
  reflexivity.
Qed.

Lemma glob_help e p : glob_fn p (help_of e p) = help_of e p.
Proof. unfold glob_fn. replace (beq (hc_name (help_of e p)) s_help) with true; [reflexivity|]. destruct e; reflexivity. Qed.

Lemma build_x_on e c : hc_built c = false -> is_nil (hc_subs c) = false -> h_is_set hs_no_help_sub c = false ->
  h_build_self_x e c
  = (build_pre c) <| hc_subs := map (glob_fn (build_pre c)) (hc_subs (build_pre c)) ++ [help_of e (build_pre c)] |>
                  <| hc_args := build_hargs (hc_args (build_pre c)) 1 |> <| hc_built := true |>.
Proof.
  intros Hb Hn Hs. unfold h_build_self_x. rewrite Hb, Hn. cbn zeta.
  set (c2 := c <| hc_subs := map (h_propagate_subcommand c) (hc_subs c) |>).
  assert (Hs2 : h_is_set hs_no_help_sub c2 = false) by (unfold c2, h_is_set in *; destruct c; exact Hs).
  rewrite (hcv_x_on e c2 Hs2). fold (help_of e (hcv_pre c2)). fold (build_pre c).
  assert (HsP : h_is_set hs_no_help_sub (build_pre c) = false).
  { unfold build_pre. fold c2. destruct (hcv_pre_sets c2) as [E1 [E2 _]]. unfold h_is_set in *. rewrite E1, E2. exact Hs2. }
  rewrite (propagate_globals_on (build_pre c) _ HsP). rewrite map_app. cbn [map].
  clear HsP. unfold build_pre. fold c2. generalize (hcv_pre c2). intros p.
  rewrite (glob_help e p). destruct p. reflexivity.
Qed.

Lemma write_arg_usage_subs x l incl : write_arg_usage (x <| hc_subs := l |>) incl = write_arg_usage x incl.
Proof.
  unfold write_arg_usage, usage_arg_items. rewrite pcmd_of_subs.
  destruct (unrolled_reqs (pcmd_of x) (required_graph (pcmd_of x))) as [reqs|]; [|reflexivity].
  rewrite req_groups_subs. destruct (req_groups x reqs [] []) as [gm|]; [|reflexivity].
  rewrite req_split_subs. destruct (req_split x (negb incl) (snd gm) reqs [] []) as [sp|]; [|reflexivity].
  unfold needs_options_tag, in_required_group. rewrite pcmd_of_subs. destruct x; reflexivity.
Qed.

Lemma map_opt_map {A B C} (f : B -> option C) (g : A -> B) l : map_opt f (map g l) = map_opt (fun x => f (g x)) l.
Proof. induction l as [|a t IH]; [reflexivity|]. cbn [map map_opt]. rewrite IH. reflexivity. Qed.

Lemma map_opt_app {A B} (f : A -> option B) l1 l2 :
  map_opt f (l1 ++ l2) = (dO x <- map_opt f l1; dO y <- map_opt f l2; Some (x ++ y)).
Proof.
  induction l1 as [|a t IH]; cbn [app map_opt].
  - destruct (map_opt f l2); reflexivity.
  - destruct (f a); [|reflexivity]. rewrite IH. destruct (map_opt f t); [|reflexivity]. destruct (map_opt f l2); reflexivity.
Qed.

(** what [build()] makes of one subcommand of a built level *)
Definition sub_built (x : hcmd) (mid : bytes) (sc : hcmd) : option hcmd :=
  h_build_bin_names tree_fuel_pred (h_set_names (bin_name_fallback x) mid (h_build_recursive tree_fuel_pred sc)).

Lemma h_build_built x : hc_built x = true ->
  h_build x = (dO mid <- h_mid_string x; dO subs <- map_opt (sub_built x mid) (hc_subs x); Some (x <| hc_subs := subs |>)).
Proof.
  intros Hb. unfold h_build, tree_fuel, sub_built. set (n := tree_fuel_pred).
  cbn [h_build_recursive]. unfold h_build_self_x. rewrite Hb. cbn [h_build_bin_names]. rewrite mid_string_subs.
  destruct (h_mid_string x) as [mid|]; [|reflexivity].
  replace (hc_subs (x <| hc_subs := map (h_build_recursive n) (hc_subs x) |>)) with (map (h_build_recursive n) (hc_subs x)) by (destruct x; reflexivity).
  rewrite map_opt_map.
  replace (bin_name_fallback (x <| hc_subs := map (h_build_recursive n) (hc_subs x) |>)) with (bin_name_fallback x) by (destruct x; reflexivity).
  destruct (map_opt _ (hc_subs x)) as [subs|]; [|reflexivity]. destruct x; reflexivity.
Qed.

Definition own_part (x : hcmd) : option (list (list bytes)) :=
  if own_cond x then dO l <- write_arg_usage x true; Some [l] else Some [].
Definition vis_list (l : list hcmd) : list hcmd := filter (fun s => negb (hc_hide s)) l.
(** the part of the block of a built level that its subcommands [S0] (all but the last) and its own line make up *)
Definition common_block (f : nat) (x : hcmd) (S0 : list hcmd) : option (list (list bytes)) :=
  dO own <- own_part x; dO mid <- h_mid_string x; dO S' <- map_opt (sub_built x mid) S0;
  dO restV <- map_opt (usage_lines f) (vis_list S'); Some (own ++ concat restV).

Lemma block_split f x S0 h mid h' :
  hc_built x = true -> hc_subs x = S0 ++ [h] -> flat_cond x = true ->
  h_mid_string x = Some mid -> sub_built x mid h = Some h' -> hc_hide h' = false ->
  usage_lines (S f) x = (dO cm <- common_block f x S0; dO rl <- usage_lines f h'; Some (cm ++ rl)).
Proof.
  intros Hb Hs Hf Hm Hh Hhide. cbn [usage_lines]. rewrite Hf. fold (own_part x). unfold common_block.
  destruct (own_part x) as [own|]; [|reflexivity]. rewrite (h_build_built x Hb), Hm, Hs, map_opt_app.
  destruct (map_opt (sub_built x mid) S0) as [S'|]; [|reflexivity]. cbn [map_opt]. rewrite Hh.
  unfold visible_subs. replace (hc_subs (x <| hc_subs := S' ++ [h'] |>)) with (S' ++ [h']) by (destruct x; reflexivity).
  rewrite filter_app. cbn [filter]. rewrite Hhide. cbn [negb]. fold (vis_list S'). rewrite map_opt_app.
  destruct (map_opt (usage_lines f) (vis_list S')) as [restV|]; [|reflexivity]. cbn [map_opt].
  destruct (usage_lines f h') as [rl|]; [|reflexivity].
  rewrite concat_app. cbn [concat]. rewrite app_nil_r, app_assoc. reflexivity.
Qed.

Lemma map_opt_ext' {A B} (f g : A -> option B) l : (forall x, f x = g x) -> map_opt f l = map_opt g l.
Proof. intros H. induction l as [|a t IH]; [reflexivity|]. cbn [map_opt]. rewrite H, IH. reflexivity. Qed.

Lemma common_block_subs f x l S0 : common_block f (x <| hc_subs := l |>) S0 = common_block f x S0.
Proof.
  unfold common_block, own_part. rewrite write_arg_usage_subs, mid_string_subs.
  replace (own_cond (x <| hc_subs := l |>)) with (own_cond x) by (destruct x; reflexivity).
  destruct (if own_cond x then _ else _); [|reflexivity]. destruct (h_mid_string x) as [mid|]; [|reflexivity].
  rewrite (map_opt_ext' (sub_built (x <| hc_subs := l |>) mid) (sub_built x mid)); [reflexivity|].
  intros sc. unfold sub_built. replace (bin_name_fallback (x <| hc_subs := l |>)) with (bin_name_fallback x) by (destruct x; reflexivity).
  reflexivity.
Qed.

Lemma mk_subs (P : hcmd) A l l' :
  P <| hc_subs := l' |> <| hc_args := A |> <| hc_built := true |>
  = (P <| hc_subs := l |> <| hc_args := A |> <| hc_built := true |>) <| hc_subs := l' |>.
Proof. destruct P; reflexivity. Qed.
Lemma mk_fields (P : hcmd) A l :
  hc_built (P <| hc_subs := l |> <| hc_args := A |> <| hc_built := true |>) = true
  /\ hc_subs (P <| hc_subs := l |> <| hc_args := A |> <| hc_built := true |>) = l.
Proof. destruct P; split; reflexivity. Qed.
Lemma subs_fields (x : hcmd) l :
  hc_built (x <| hc_subs := l |>) = hc_built x /\ hc_subs (x <| hc_subs := l |>) = l
  /\ hc_flatten (x <| hc_subs := l |>) = hc_flatten x /\ bin_name_fallback (x <| hc_subs := l |>) = bin_name_fallback x.
Proof. destruct x; repeat split; reflexivity. Qed.

Lemma tfp : tree_fuel_pred = S 62%nat.
Proof. reflexivity. Qed.

Lemma nh_glob_fn p sc : nh (glob_fn p sc) = nh sc.
Proof. unfold glob_fn. destruct (beq (hc_name sc) s_help && true); [reflexivity|apply nh_add_globals]. Qed.

Lemma usage_lines_plain f x : hc_flatten x = false -> usage_lines f x = option_map (fun p => [p]) (usage_pieces x).
Proof. intros H. apply usage_lines_off. unfold flat_cond. rewrite H. apply andb_false_r. Qed.

Lemma lazy_built x P t :
  exists h', sub_built x (32 :: t) (help_of false P) = Some h'
    /\ hc_hide h' = false /\ hc_flatten h' = false
    /\ usage_pieces h' = Some [bin_name_fallback x ++ (32 :: t) ++ s_help; s_cmd_lazy].
Proof.
  unfold sub_built, help_of. rewrite tfp.
  destruct (lazy_help_line 62%nat P (bin_name_fallback x) t) as [h' [G [H1 [H2 [_ U]]]]]. exists h'. auto.
Qed.
Lemma exp_built x P t he' :
  sub_built x (32 :: t) (help_of true P) = Some he' ->
  hc_hide he' = false /\ hc_flatten he' = false
  /\ usage_pieces he' = Some ([bin_name_fallback x ++ (32 :: t) ++ s_help] ++ (if existsb vis_pred (hc_subs P) then [s_cmd_exp] else [])).
Proof.
  unfold sub_built, help_of. rewrite tfp. intros G.
  destruct (exp_help_line 62%nat P (bin_name_fallback x) t he' G) as [H1 [H2 [_ U]]]. auto.
Qed.

Lemma lc_vis0 P S0 xl : hc_subs xl = S0 ++ [help_of false P] -> existsb vis_pred S0 = existsb vis_pred (hc_subs P) ->
  flat_cond xl = true -> existsb vis_pred (hc_subs P) = true.
Proof.
  intros Sl Hnh Hf. unfold flat_cond in Hf. apply andb_true_iff in Hf. destruct Hf as [Hv _]. unfold has_visible_subcommands in Hv.
  rewrite Sl in Hv. change (existsb vis_pred (S0 ++ [help_of false P]) = true) in Hv. rewrite existsb_app in Hv.
  cbn [existsb] in Hv. replace (vis_pred (help_of false P)) with false in Hv by reflexivity. rewrite !orb_false_r in Hv.
  rewrite <- Hnh. exact Hv.
Qed.

Lemma lc_flat_e P S0 xl : existsb vis_pred S0 = true -> hc_flatten xl = true ->
  flat_cond (xl <| hc_subs := S0 ++ [help_of true P] |>) = true.
Proof.
  intros Hv Hfl. destruct (subs_fields xl (S0 ++ [help_of true P])) as [_ [Se [Fe _]]].
  unfold flat_cond. apply andb_true_iff. split.
  - unfold has_visible_subcommands. rewrite Se. change (existsb vis_pred (S0 ++ [help_of true P]) = true).
    rewrite existsb_app. apply orb_true_iff. left. exact Hv.
  - rewrite Fe. exact Hfl.
Qed.

Lemma lc_block_l f P S0 xl t ll :
  hc_built xl = true -> hc_subs xl = S0 ++ [help_of false P] -> flat_cond xl = true -> h_mid_string xl = Some (32 :: t) ->
  usage_lines (S f) xl = Some ll ->
  exists cm, common_block f xl S0 = Some cm /\ ll = cm ++ [[bin_name_fallback xl ++ (32 :: t) ++ s_help; s_cmd_lazy]].
Proof.
  intros Bl Sl Hf Hm Hl. destruct (lazy_built xl P t) as [hl' [Gl' [Hhl [Hfl' Ul]]]].
  rewrite (block_split f xl S0 (help_of false P) (32 :: t) hl' Bl Sl Hf Hm Gl' Hhl) in Hl.
  destruct (common_block f xl S0) as [cm|]; [|discriminate].
  rewrite (usage_lines_plain f hl' Hfl'), Ul in Hl. cbn [option_map] in Hl. inversion Hl. exists cm. split; reflexivity.
Qed.

Lemma lc_sub_e f xe S0 h mid le :
  hc_built xe = true -> hc_subs xe = S0 ++ [h] -> flat_cond xe = true -> h_mid_string xe = Some mid ->
  usage_lines (S f) xe = Some le -> exists h', sub_built xe mid h = Some h'.
Proof.
  intros Be Se Hfe Hme He. cbn [usage_lines] in He. rewrite Hfe, (h_build_built xe Be), Hme, Se, map_opt_app in He.
  destruct (if own_cond xe then _ else _); [|discriminate].
  destruct (map_opt (sub_built xe mid) S0); [|discriminate]. cbn [map_opt] in He.
  destruct (sub_built xe mid h) as [h'|]; [eauto|discriminate].
Qed.

Lemma lc_block_e f P S0 xe t le :
  hc_built xe = true -> hc_subs xe = S0 ++ [help_of true P] -> flat_cond xe = true -> h_mid_string xe = Some (32 :: t) ->
  existsb vis_pred (hc_subs P) = true ->
  usage_lines (S f) xe = Some le ->
  exists cm, common_block f xe S0 = Some cm /\ le = cm ++ [[bin_name_fallback xe ++ (32 :: t) ++ s_help; s_cmd_exp]].
Proof.
  intros Be Se Hfe Hme Hv He. destruct (lc_sub_e f xe S0 _ _ le Be Se Hfe Hme He) as [he' Ge].
  destruct (exp_built xe P t he' Ge) as [Hhe [Hfe' Ue]]. rewrite Hv in Ue.
  rewrite (block_split f xe S0 (help_of true P) (32 :: t) he' Be Se Hfe Hme Ge Hhe) in He.
  destruct (common_block f xe S0) as [cm|]; [|discriminate].
  rewrite (usage_lines_plain f he' Hfe'), Ue in He. cbn [option_map] in He. inversion He. exists cm. split; reflexivity.
Qed.

Lemma level_core f P S0 xl ll le :
  hc_built xl = true -> hc_subs xl = S0 ++ [help_of false P] -> existsb vis_pred S0 = existsb vis_pred (hc_subs P) ->
  flat_cond xl = true -> usage_lines (S f) xl = Some ll ->
  usage_lines (S f) (xl <| hc_subs := S0 ++ [help_of true P] |>) = Some le ->
  exists common mid, h_mid_string xl = Some mid
    /\ ll = common ++ [[bin_name_fallback xl ++ mid ++ s_help; s_cmd_lazy]]
    /\ le = common ++ [[bin_name_fallback xl ++ mid ++ s_help; s_cmd_exp]].
Proof.
  intros Bl Sl Hnh Hf Hl He.
  pose proof (lc_vis0 P S0 xl Sl Hnh Hf) as Hvis0.
  assert (Hfl : hc_flatten xl = true) by (unfold flat_cond in Hf; apply andb_true_iff in Hf; apply Hf).
  assert (Hv0 : existsb vis_pred S0 = true) by (rewrite Hnh; exact Hvis0).
  pose proof (lc_flat_e P S0 xl Hv0 Hfl) as Hfe.
  destruct (subs_fields xl (S0 ++ [help_of true P])) as [Be [Se [_ Ne]]]. rewrite Bl in Be.
  destruct (h_mid_string xl) as [mid|] eqn:Hm.
  2:{ exfalso. destruct (lc_sub_e f xl S0 (help_of false P) (32 :: []) ll Bl Sl Hf) as [x _]; try assumption.
      all: cbn [usage_lines] in Hl; rewrite Hf, (h_build_built xl Bl), Hm in Hl; destruct (if own_cond xl then _ else _); discriminate. }
  destruct (mid_string_head xl mid Hm) as [t ->].
  assert (Hme : h_mid_string (xl <| hc_subs := S0 ++ [help_of true P] |>) = Some (32 :: t)) by (rewrite mid_string_subs; exact Hm).
  destruct (lc_block_l f P S0 xl t ll Bl Sl Hf Hm Hl) as [cm [Ec ->]].
  destruct (lc_block_e f P S0 _ t le Be Se Hfe Hme Hvis0 He) as [cm' [Ec' ->]].
  rewrite common_block_subs, Ec in Ec'. inversion Ec'. subst cm'. rewrite Ne.
  exists cm, (32 :: t). repeat split.
Qed.

(** C11_flatten_help_shape_level: an unbuilt level [c] whose help subcommand is not disabled, with the setting and
    visible subcommands.  The flattened usage blocks of its two builds -- lazy (the parser entered it earlier) and
    eager (built for the rendering) -- are the same lines followed by the line of the generated [help] subcommand,
    which reads [.. help [COMMAND]...] in the first and [.. help [COMMAND]] in the second. *)
Theorem flatten_help_shape_level f c ll le :
  help_sub_off c = false ->
  flat_cond (h_build_self_x false c) = true ->
  usage_lines (S f) (h_build_self_x false c) = Some ll ->
  usage_lines (S f) (h_build_self_x true c) = Some le ->
  exists common mid, h_mid_string (h_build_self_x false c) = Some mid
    /\ ll = common ++ [[bin_name_fallback (h_build_self_x false c) ++ mid ++ s_help; s_cmd_lazy]]
    /\ le = common ++ [[bin_name_fallback (h_build_self_x false c) ++ mid ++ s_help; s_cmd_exp]].
Proof.
  unfold help_sub_off. intros Hoff. apply orb_false_iff in Hoff. destruct Hoff as [Hoff Hs].
  apply orb_false_iff in Hoff. destruct Hoff as [Hb Hn].
  rewrite (build_x_on false c Hb Hn Hs), (build_x_on true c Hb Hn Hs).
  generalize (build_pre c). intros P.
  rewrite (mk_subs P (build_hargs (hc_args P) 1) (map (glob_fn P) (hc_subs P) ++ [help_of false P]) (map (glob_fn P) (hc_subs P) ++ [help_of true P])).
  destruct (mk_fields P (build_hargs (hc_args P) 1) (map (glob_fn P) (hc_subs P) ++ [help_of false P])) as [Bl Sl].
  intros Hf Hl He.
  apply (level_core f P (map (glob_fn P) (hc_subs P)) _ ll le Bl Sl); try assumption.
  apply existsb_nh. rewrite map_map. apply map_ext. intros sc. apply nh_glob_fn.
Qed.

(** C11_flatten_help_shape_builds: the lazy and the eager build of a level are the same record up to the LAST
    subcommand, which is the generated [help] in its two shapes *)
Definition mk_level (P : hcmd) (subs : list hcmd) (A : list harg) : hcmd :=
  P <| hc_subs := subs |> <| hc_args := A |> <| hc_built := true |>.
Theorem shape_builds c : help_sub_off c = false ->
  exists P S0 A,
    h_build_self_x false c = mk_level P (S0 ++ [h_help_subcommand P]) A
    /\ h_build_self_x true c = mk_level P (S0 ++ [h_help_subcommand_expanded P]) A
    /\ map nh S0 = map nh (hc_subs P).
Proof.
  unfold help_sub_off. intros Hoff. apply orb_false_iff in Hoff. destruct Hoff as [Hoff Hs].
  apply orb_false_iff in Hoff. destruct Hoff as [Hb Hn].
  exists (build_pre c), (map (glob_fn (build_pre c)) (hc_subs (build_pre c))), (build_hargs (hc_args (build_pre c)) 1).
  split; [exact (build_x_on false c Hb Hn Hs)|]. split; [exact (build_x_on true c Hb Hn Hs)|].
  rewrite map_map. apply map_ext. intros sc. apply nh_glob_fn.
Qed.

Example shape_builds_satisfiable : help_sub_off sh_on = false.
Proof. vm_compute. reflexivity. Qed.

(** non-vacuity of [flatten_help_shape_level]: [sh_on] = `p` (flatten_help) with one subcommand `a`; both builds
    render, and the two blocks are [`p`; `p a`] followed by `p help [COMMAND]...` / `p help [COMMAND]` *)
Example shape_level_satisfiable :
  help_sub_off sh_on = false /\ flat_cond (h_build_self_x false sh_on) = true
  /\ option_map (map line_text) (usage_lines 2 (h_build_self_x false sh_on))
     = Some [[112]; [112; 32; 97]; [112; 32] ++ s_help ++ [32] ++ s_cmd_lazy]
  /\ option_map (map line_text) (usage_lines 2 (h_build_self_x true sh_on))
     = Some [[112]; [112; 32; 97]; [112; 32] ++ s_help ++ [32] ++ s_cmd_exp].
Proof. repeat split; vm_compute; reflexivity. Qed.
