(** C12, usage line: every required positional is mentioned (whether hidden or not -- hence every
    required visible one), for every built command whose positional indices identify the argument. *)
From ClapModel Require Import Base.Bytes Base.Machine Parse.Cmd Gen.HelpTables Help.UsageModel Help.HelpModel Help.HelpProofs.
From Coq Require Import Lia.
From RecordUpdate Require Import RecordSet.
Import RecordSetNotations.
Open Scope N_scope.

Lemma vec_get_set_same {A} n (v : A) l : vec_get n (vec_set n v l) = Some v.
Proof.
  unfold vec_get. revert l. induction n as [|n IH]; intros [|x t]; cbn [vec_set nth]; try reflexivity; apply IH.
Qed.
Lemma vec_get_nil {A} m : vec_get m (@nil (option A)) = None.
Proof. unfold vec_get. destruct m; reflexivity. Qed.
Lemma vec_get_set_other {A} n m (v : A) l : n <> m -> vec_get m (vec_set n v l) = vec_get m l.
Proof.
  unfold vec_get. revert m l. induction n as [|n IH]; intros [|m] [|x t] H; cbn [vec_set nth]; try reflexivity;
    try (exfalso; apply H; reflexivity).
  - destruct m; reflexivity.
  - rewrite IH by (intros E; apply H; f_equal; exact E). destruct m; reflexivity.
  - apply IH. intros E; apply H; f_equal; exact E.
Qed.

(** slot [i] of the positional vector holds an entry of argument [id] *)
Definition slot_has (poss : list (option (bytes * bytes))) (i : N) (id : bytes) : Prop :=
  exists s, vec_get (N.to_nat i) poss = Some (id, s).

Lemma slot_has_set poss i id j x :
  slot_has poss i id -> (j = i -> fst x = id) -> slot_has (vec_set (N.to_nat j) x poss) i id.
Proof.
  intros [s Hs] Hx. destruct (N.eq_dec j i) as [E|E].
  - subst j. exists (snd x). rewrite vec_get_set_same. rewrite <- (Hx eq_refl). destruct x; reflexivity.
  - exists s. rewrite vec_get_set_other; [exact Hs|]. intros H. apply E. apply N2Nat.inj. exact H.
Qed.

Section U.
Variable c : hcmd.
Variable a : harg.
Variable i : N.
Hypothesis Hidx : ha_index a = Some i.
(** the index identifies the argument among the arguments of the command *)
Hypothesis Huniq : forall b, In b (hc_args c) -> ha_index b = Some i -> ha_id b = ha_id a.

Lemma req_split_slot reqs : forall opts poss r,
  (forall b, In b reqs -> In b (hc_args c)) ->
  (slot_has poss i (ha_id a) \/ In a reqs) ->
  req_split reqs opts poss = Some r -> slot_has (snd r) i (ha_id a).
Proof.
  induction reqs as [|b t IH]; intros opts poss r Hsub Hs H; cbn [req_split] in H.
  - inversion H; subst r. destruct Hs as [Hs|[]]. exact Hs.
  - destruct (stylized b (Some true)) as [s|]; [|discriminate].
    assert (Ht : forall x, In x t -> In x (hc_args c)) by (intros x Hx; apply Hsub; right; exact Hx).
    destruct (ha_index b) as [j|] eqn:Ej.
    + apply (IH _ _ _ Ht) in H; [exact H|].
      destruct Hs as [Hs|[Hs|Hs]].
      * left. apply slot_has_set; [exact Hs|]. intros E. subst j. cbn [fst]. apply Huniq; [apply Hsub; left; reflexivity|exact Ej].
      * subst b. rewrite Hidx in Ej. inversion Ej; subst j. left. exists s. apply vec_get_set_same.
      * right. exact Hs.
    + apply (IH _ _ _ Ht) in H; [exact H|].
      destruct Hs as [Hs|[Hs|Hs]]; [left; exact Hs| |right; exact Hs].
      subst b. rewrite Hidx in Ej. discriminate.
Qed.

Lemma usage_positionals_slot ps : forall poss r,
  slot_has poss i (ha_id a) -> usage_positionals ps poss = Some r -> slot_has r i (ha_id a).
Proof.
  induction ps as [|p t IH]; intros poss r Hs H; cbn [usage_positionals] in H.
  - inversion H; subst r. exact Hs.
  - destruct (ha_hide p); [apply (IH _ _ Hs H)|].
    destruct (ha_index p) as [j|]; [|discriminate].
    destruct (vec_get (N.to_nat j) poss) as [[pid styled]|] eqn:G.
    + destruct (ha_last p); [|apply (IH _ _ Hs H)].
      apply (IH _ _) in H; [exact H|]. apply slot_has_set; [exact Hs|].
      intros E. subst j. destruct Hs as [s Hs]. rewrite Hs in G. inversion G. reflexivity.
    + assert (Hne : j <> i) by (intros E; subst j; destruct Hs as [s Hs]; rewrite Hs in G; discriminate).
      destruct (if ha_last p then _ else _) as [styled|]; [|discriminate].
      apply (IH _ _) in H; [exact H|]. apply slot_has_set; [exact Hs|]. intros E. contradiction.
Qed.

Theorem usage_mentions_required_positional items :
  usage_arg_items c = Some items -> In a (hc_args c) -> ha_required a = true ->
  In (ha_id a) (map fst items).
Proof.
  unfold usage_arg_items. intros H Ha Hr.
  destruct (req_split (required_args c) [] []) as [sp|] eqn:E1; [|discriminate].
  destruct (usage_positionals _ (snd sp)) as [poss|] eqn:E2; [|discriminate].
  inversion H; subst items.
  assert (H1 : slot_has (snd sp) i (ha_id a)).
  { apply (req_split_slot (required_args c) [] [] sp); [| |exact E1].
    - intros b Hb. unfold required_args in Hb. apply filter_In in Hb. apply Hb.
    - right. unfold required_args. apply filter_In. split; assumption. }
  destruct (usage_positionals_slot _ _ _ H1 E2) as [s Hs].
  apply vec_get_in in Hs. rewrite map_app. apply in_or_app. right.
  apply (in_map fst) in Hs. exact Hs.
Qed.

End U.

(** the statement for positionals of a built command: [arg_ok] gives the index *)
Theorem usage_lists_required_positionals c items a :
  args_ok c -> usage_arg_items c = Some items ->
  In a (hc_args c) -> ha_is_positional a = true -> ha_required a = true ->
  (forall b, In b (hc_args c) -> ha_index b = ha_index a -> ha_id b = ha_id a) ->
  In (ha_id a) (map fst items).
Proof.
  intros Hok H Ha Hp Hr Hu. destruct (positional_index a (Hok a Ha) Hp) as [i Hi].
  assert (Hq : forall b, In b (hc_args c) -> ha_index b = Some i -> ha_id b = ha_id a)
    by (intros b Hb Eb; apply Hu; [exact Hb|]; rewrite Hi; exact Eb).
  exact (usage_mentions_required_positional c a i Hi Hq items H Ha Hr).
Qed.

(** non-vacuity on [ex_cmd] (HelpProofs.v): its required positional [f] is in the usage line *)
Definition ex_built : hcmd := Eval vm_compute in h_build_self ex_cmd.
Definition ex_f : harg := Eval vm_compute in nth 3 (hc_args ex_built) (harg_new [] ASet).
Lemma ex_built_eq : h_build_self ex_cmd = ex_built.
Proof. vm_compute. reflexivity. Qed.

Lemma uniq_of_bool c a :
  forallb (fun b => match ha_index b, ha_index a with
                    | Some x, Some y => implb (x =? y) (beq (ha_id b) (ha_id a))
                    | None, None => beq (ha_id b) (ha_id a)
                    | _, _ => true end) (hc_args c) = true ->
  forall b, In b (hc_args c) -> ha_index b = ha_index a -> ha_id b = ha_id a.
Proof.
  intros H b Hb E. rewrite forallb_forall in H. specialize (H b Hb). rewrite E in H.
  destruct (ha_index a) as [y|]; [rewrite N.eqb_refl in H; cbn [implb] in H|]; apply beq_eq; exact H.
Qed.

Example ex_cmd_usage :
  args_ok ex_built /\ usage_arg_items ex_built = Some [([102], [60; 102; 62])] /\ In ex_f (hc_args ex_built)
  /\ ha_is_positional ex_f = true /\ ha_required ex_f = true
  /\ (forall b, In b (hc_args ex_built) -> ha_index b = ha_index ex_f -> ha_id b = ha_id ex_f).
Proof.
  split.
  { rewrite <- ex_built_eq. apply h_build_self_args_ok; [reflexivity|]. apply ex_cmd_hyps. }
  split; [vm_compute; reflexivity|].
  split; [right; right; right; left; reflexivity|].
  split; [reflexivity|]. split; [reflexivity|].
  apply uniq_of_bool. vm_compute. reflexivity.
Qed.
