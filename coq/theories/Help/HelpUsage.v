(** C12, usage line: every required argument is mentioned (whether hidden or not -- hence every
    required visible one): a positional by a piece of its own, an option by its rendered text, a member of
    a listed group inside the [<a|b>] piece of that group; for every built command whose ids are distinct
    and whose positional indices identify the argument.  Round 3: groups and [requires]. *)
From ClapModel Require Import Base.Bytes Base.Machine Parse.Cmd Parse.Matcher Parse.Errors Parse.Validator ParseProofs.Relations.
From ClapModel Require Import Gen.HelpTables Help.UsageModel Help.HelpModel Help.HelpReqs Help.HelpProofs.
From Coq Require Import Lia.
From RecordUpdate Require Import RecordSet.
Import RecordSetNotations.
Open Scope N_scope.

Lemma vec_get_set_same {A} n (v : A) l : vec_get n (vec_set n v l) = Some v.
Proof.
  unfold vec_get. revert l. induction n as [|n IH]; intros [|x t]; cbn [vec_set nth]; try reflexivity; apply IH.
Qed.
Lemma vec_get_nil {A} m : vec_get m (@nil (option A)) = None.
Proof. unfold vec_get. destruct m; reflexivity. Qed.
Lemma vec_get_set_other {A} n m (v : A) l : n <> m -> vec_get m (vec_set n v l) = vec_get m l.
Proof.
  unfold vec_get. revert m l. induction n as [|n IH]; intros [|m] [|x t] H; cbn [vec_set nth]; try reflexivity;
    try (exfalso; apply H; reflexivity).
  - destruct m; reflexivity.
  - rewrite IH by (intros E; apply H; f_equal; exact E). destruct m; reflexivity.
  - apply IH. intros E; apply H; f_equal; exact E.
Qed.

(** slot [i] of the positional vector holds an entry of argument [id] *)
Definition slot_has (poss : list (option (bytes * bytes))) (i : N) (id : bytes) : Prop :=
  exists s, vec_get (N.to_nat i) poss = Some (id, s).

Lemma slot_has_set poss i id j x :
  slot_has poss i id -> (j = i -> fst x = id) -> slot_has (vec_set (N.to_nat j) x poss) i id.
Proof.
  intros [s Hs] Hx. destruct (N.eq_dec j i) as [E|E].
  - subst j. exists (snd x). rewrite vec_get_set_same. rewrite <- (Hx eq_refl). destruct x; reflexivity.
  - exists s. rewrite vec_get_set_other; [exact Hs|]. intros H. apply E. apply N2Nat.inj. exact H.
Qed.

Lemma h_find_nodup c a : NoDup (map ha_id (hc_args c)) -> In a (hc_args c) -> h_find c (ha_id a) = Some a.
Proof.
  unfold h_find. induction (hc_args c) as [|x t IH]; intros Hnd Ha; [destruct Ha|].
  cbn [map] in Hnd. inversion Hnd as [|? ? Hx Ht]; subst. cbn [find]. destruct Ha as [Ha|Ha].
  - subst x. rewrite beq_refl. reflexivity.
  - destruct (beq (ha_id x) (ha_id a)) eqn:E; [|apply IH; assumption].
    apply beq_eq in E. exfalso. apply Hx. rewrite E. apply in_map. exact Ha.
Qed.

Section U.
Variable c : hcmd.
Variable a : harg.
Hypothesis Hnd : NoDup (map ha_id (hc_args c)).
Hypothesis Ha : In a (hc_args c).
(** the index identifies the argument among the arguments of the command *)
Hypothesis Huniq : forall b i, In b (hc_args c) -> ha_index b = Some i -> ha_index a = Some i -> ha_id b = ha_id a.

(** what "the argument is in the collected pieces" means: its slot when it has an index, its text otherwise *)
Definition has_piece (opts : list (bytes * bytes)) (poss : list (option (bytes * bytes))) : Prop :=
  match ha_index a with
  | Some i => slot_has poss i (ha_id a)
  | None => forall s, stylized a (Some true) = Some s -> In s (map snd opts)
  end.

Lemma req_split_has members reqs : forall opts poss r,
  mem_id (ha_id a) members = false ->
  (has_piece opts poss \/ In (ha_id a) reqs) ->
  req_split c false members reqs opts poss = Some r -> has_piece (fst r) (snd r).
Proof.
  induction reqs as [|req t IH]; intros opts poss r Hm Hs H; cbn [req_split] in H.
  - inversion H; subst r. destruct Hs as [Hs|[]]. exact Hs.
  - destruct (h_find c req) as [b|] eqn:Eb.
    + destruct (h_find_some _ _ _ Eb) as [Hid Hb].
      assert (Hba : req = ha_id a -> b = a).
      { intros E. rewrite E in Eb. rewrite (h_find_nodup c a Hnd Ha) in Eb. inversion Eb. reflexivity. }
      destruct (mem_id (ha_id b) members) eqn:Emb.
      * apply (IH _ _ _ Hm) in H; [exact H|]. destruct Hs as [Hs|[Hs|Hs]]; [left; exact Hs| |right; exact Hs].
        rewrite (Hba Hs) in Emb. rewrite Emb in Hm. discriminate.
      * cbn [negb] in H. destruct (stylized b (Some true)) as [s|] eqn:Es; [|discriminate].
        destruct (ha_index b) as [j|] eqn:Ej.
        -- apply (IH _ _ _ Hm) in H; [exact H|]. unfold has_piece in *.
           destruct Hs as [Hs|[Hs|Hs]]; [| |right; exact Hs].
           ++ left. destruct (ha_index a) as [i|] eqn:Ei; [|exact Hs].
              apply slot_has_set; [exact Hs|]. intros E. subst j. cbn [fst]. apply (Huniq b i Hb Ej eq_refl).
           ++ pose proof (Hba Hs) as E. subst b. left. rewrite Ej. exists s. apply vec_get_set_same.
        -- apply (IH _ _ _ Hm) in H; [exact H|]. unfold has_piece in *.
           destruct Hs as [Hs|[Hs|Hs]]; [| |right; exact Hs].
           ++ left. destruct (ha_index a) as [i|] eqn:Ei; [exact Hs|].
              intros s' Hs'. specialize (Hs s' Hs'). apply in_map_iff in Hs. destruct Hs as [y [Ey Hy]].
              apply in_map_iff. exists y. split; [exact Ey|apply flatset_insert_keeps; exact Hy].
           ++ pose proof (Hba Hs) as E. subst b. left. rewrite Ej. intros s' Hs'.
              rewrite Es in Hs'. inversion Hs'; subst s'. apply (flatset_insert_text (ha_id a, s)).
    + destruct (is_some (find_group (pcmd_of c) req)); [|discriminate].
      apply (IH _ _ _ Hm) in H; [exact H|]. destruct Hs as [Hs|[Hs|Hs]]; [left; exact Hs| |right; exact Hs].
      rewrite Hs in Eb. rewrite (h_find_nodup c a Hnd Ha) in Eb. discriminate.
Qed.

Lemma usage_positionals_slot members i ps : forall poss r,
  slot_has poss i (ha_id a) -> usage_positionals false members ps poss = Some r -> slot_has r i (ha_id a).
Proof.
  induction ps as [|p t IH]; intros poss r Hs H; cbn [usage_positionals] in H.
  - inversion H; subst r. exact Hs.
  - destruct (ha_hide p); [apply (IH _ _ Hs H)|].
    destruct (mem_id (ha_id p) members); [apply (IH _ _ Hs H)|].
    destruct (ha_index p) as [j|]; [|discriminate].
    rewrite andb_false_r in H.
    destruct (vec_get (N.to_nat j) poss) as [[pid styled]|] eqn:G.
    + destruct (ha_last p); [|apply (IH _ _ Hs H)].
      apply (IH _ _) in H; [exact H|]. apply slot_has_set; [exact Hs|].
      intros E. subst j. destruct Hs as [s Hs]. rewrite Hs in G. inversion G. reflexivity.
    + assert (Hne : j <> i) by (intros E; subst j; destruct Hs as [s Hs]; rewrite Hs in G; discriminate).
      destruct (if ha_last p then _ else _) as [styled|]; [|discriminate].
      apply (IH _ _) in H; [exact H|]. apply slot_has_set; [exact Hs|]. intros E. contradiction.
Qed.

(** C12_usage_mentions_required *)
Theorem usage_mentions_required items :
  args_ok c -> refs_ok c = true -> usage_arg_items c false = Some items -> ha_required a = true ->
  if mem_id (ha_id a) (usage_members c)
  then exists g gm txt, In g (usage_reqs c) /\ unroll_args_in_group (pcmd_of c) g = Some gm /\ In (ha_id a) gm
                        /\ format_group c g = Some txt /\ In txt (map snd items)
  else match ha_index a with
       | Some _ => In (ha_id a) (map fst items)
       | None => forall s, stylized a (Some true) = Some s -> In s (map snd items)
       end.
Proof.
  intros Hok Hrefs H Hr. unfold usage_arg_items in H. rewrite usage_reqs_eq in H.
  assert (W : rel_wf (pcmd_of c) = true).
  { unfold refs_ok in Hrefs. apply andb_true_iff in Hrefs. destruct Hrefs as [X _]. apply andb_true_iff in X. apply X. }
  assert (Hex : forall x, In x (usage_reqs c) -> id_exists (pcmd_of c) x = true) by (intros x; apply usage_reqs_exist; exact Hrefs).
  destruct (req_groups_spec c (usage_reqs c) [] [] Hok W Hex) as [gm [Hgm [_ [_ [G3 _]]]]]. rewrite Hgm in H.
  rewrite (usage_members_eq c gm Hgm).
  destruct (req_split c false (snd gm) (usage_reqs c) [] []) as [sp|] eqn:E1; [|discriminate].
  destruct (usage_positionals false (snd gm) _ (snd sp)) as [poss|] eqn:E2; [|discriminate].
  inversion H; subst items. cbn [negb]. clear H.
  destruct (mem_id (ha_id a) (snd gm)) eqn:Em.
  - apply mem_id_In in Em. destruct (G3 _ Em) as [[]|[g [gm' [txt [H1 [H2 [H3 [H4 H5]]]]]]]].
    exists g, gm', txt. repeat (split; [assumption|]).
    rewrite !map_app. apply in_or_app. left. apply in_or_app. right. exact H5.
  - assert (Hp : has_piece (fst sp) (snd sp)).
    { apply (req_split_has (snd gm) (usage_reqs c) [] [] sp Em); [|exact E1].
      right. apply required_in_usage_reqs; assumption. }
    unfold has_piece in Hp. destruct (ha_index a) as [i|] eqn:Ei.
    + destruct (usage_positionals_slot _ _ _ _ _ Hp E2) as [s Hs].
      apply vec_get_in in Hs. rewrite map_app. apply in_or_app. right.
      apply (in_map fst) in Hs. exact Hs.
    + intros s Hs. rewrite !map_app. apply in_or_app. left. apply in_or_app. left. apply Hp. exact Hs.
Qed.

End U.

(** the statement for positionals (round 2), now for commands with groups: a required positional that is
    not a member of a listed group has a piece of its own *)
Theorem usage_lists_required_positionals c items a :
  NoDup (map ha_id (hc_args c)) -> args_ok c -> refs_ok c = true -> usage_arg_items c false = Some items ->
  In a (hc_args c) -> ha_is_positional a = true -> ha_required a = true ->
  mem_id (ha_id a) (usage_members c) = false ->
  (forall b, In b (hc_args c) -> ha_index b = ha_index a -> ha_id b = ha_id a) ->
  In (ha_id a) (map fst items).
Proof.
  intros Hnd Hok Hrefs H Ha Hp Hr Hm Hu. destruct (positional_index a (Hok a Ha) Hp) as [i Hi].
  assert (Hq : forall b j, In b (hc_args c) -> ha_index b = Some j -> ha_index a = Some j -> ha_id b = ha_id a)
    by (intros b j Hb Eb Ea; apply Hu; [exact Hb|]; rewrite Ea; exact Eb).
  pose proof (usage_mentions_required c a Hnd Ha Hq items Hok Hrefs H Hr) as X.
  rewrite Hm, Hi in X. exact X.
Qed.

Lemma uniq_of_bool c a :
  forallb (fun b => match ha_index b, ha_index a with
                    | Some x, Some y => implb (x =? y) (beq (ha_id b) (ha_id a))
                    | _, _ => true end) (hc_args c) = true ->
  forall b i, In b (hc_args c) -> ha_index b = Some i -> ha_index a = Some i -> ha_id b = ha_id a.
Proof.
  intros H b i Hb E Ea. rewrite forallb_forall in H. specialize (H b Hb). rewrite E, Ea in H.
  rewrite N.eqb_refl in H. cbn [implb] in H. apply beq_eq; exact H.
Qed.

(** ---- non-vacuity: a command with a required group [<--a|--b <b>>], a required option that [requires]
    an optional one, a hidden optional option, a required positional and an optional hidden [last]
    positional (the branch a seeded change made visible as [[-- <l>...]]) ---- *)
Definition rq_cmd : hcmd :=
  (cmd_with (hcmd_new [112])
    [ (harg_new [97] ASetTrue) <| ha_long := Some [97] |>;
      (harg_new [98] ASet) <| ha_long := Some [98] |>;
      (harg_new [114] ASet) <| ha_long := Some [114] |> <| ha_required := true |> <| ha_requires := [(PIsPresent, [120])] |>;
      (harg_new [120] ASetTrue) <| ha_long := Some [120] |>;
      (harg_new [122] ASetTrue) <| ha_long := Some [122] |> <| ha_hide := true |>;
      (harg_new [102] ASet) <| ha_required := true |>;
      (harg_new [108] AAppend) <| ha_last := true |> <| ha_hide := true |> <| ha_num := Some r_full |> ]
    [])
  <| hc_groups := [ (group_new [103]) <| g_args := [[97]; [98]] |> <| g_required := true |> ] |>.
Definition rq_built : hcmd := Eval vm_compute in h_build_self rq_cmd.
Definition rq_arg (n : nat) : harg := nth n (hc_args rq_built) (harg_new [] ASet).

Example rq_usage :
  usage_pieces rq_built
  = Some [[112]; s_options_tag; [45; 45; 120]; [45; 45; 114; 32; 60; 114; 62];
          [60; 45; 45; 97; 124; 45; 45; 98; 32; 60; 98; 62; 62]; [60; 102; 62]].
Proof. vm_compute. reflexivity. Qed.

Example rq_hyps :
  NoDup (map ha_id (hc_args rq_built)) /\ args_ok rq_built /\ refs_ok rq_built = true
  /\ (exists items, usage_arg_items rq_built false = Some items)
  (* [--z]: hidden, optional, named by no rule *)
  /\ In (rq_arg 4) (hc_args rq_built) /\ ha_hide (rq_arg 4) = true /\ req_srcb rq_built (ha_id (rq_arg 4)) = false
  /\ find_group (pcmd_of rq_built) (ha_id (rq_arg 4)) = None
  (* [l]: the optional hidden [last] positional *)
  /\ In (rq_arg 6) (hc_args rq_built) /\ ha_hide (rq_arg 6) = true /\ ha_last (rq_arg 6) = true
  /\ req_srcb rq_built (ha_id (rq_arg 6)) = false /\ find_group (pcmd_of rq_built) (ha_id (rq_arg 6)) = None
  (* [--r] and [f]: required, not members; [--a]: a member of the listed group *)
  /\ ha_required (rq_arg 2) = true /\ ha_required (rq_arg 5) = true
  /\ mem_id (ha_id (rq_arg 2)) (usage_members rq_built) = false
  /\ mem_id (ha_id (rq_arg 0)) (usage_members rq_built) = true
  /\ (forall b i, In b (hc_args rq_built) -> ha_index b = Some i -> ha_index (rq_arg 5) = Some i -> ha_id b = ha_id (rq_arg 5)).
Proof.
  split; [vm_compute; repeat constructor; cbn; intuition discriminate|].
  split; [apply args_okb_sound; vm_compute; reflexivity|].
  split; [vm_compute; reflexivity|].
  split; [eexists; vm_compute; reflexivity|].
  split; [vm_compute; tauto|]. split; [reflexivity|]. split; [vm_compute; reflexivity|]. split; [vm_compute; reflexivity|].
  split; [vm_compute; tauto|]. split; [reflexivity|]. split; [reflexivity|]. split; [vm_compute; reflexivity|].
  split; [vm_compute; reflexivity|].
  split; [reflexivity|]. split; [reflexivity|]. split; [vm_compute; reflexivity|]. split; [vm_compute; reflexivity|].
  apply uniq_of_bool. vm_compute. reflexivity.
Qed.

(** observation: [format_group] prints every member of a listed group, hidden or not -- a hidden optional
    member of a required group appears in the usage line as [<--a|--z>] *)
Definition hg_cmd : hcmd :=
  (cmd_with (hcmd_new [112])
    [ (harg_new [97] ASetTrue) <| ha_long := Some [97] |>;
      (harg_new [122] ASetTrue) <| ha_long := Some [122] |> <| ha_hide := true |> ]
    [])
  <| hc_groups := [ (group_new [103]) <| g_args := [[97]; [122]] |> <| g_required := true |> ] |>.
Example hidden_group_member_shown :
  exists c a, In a (hc_args c) /\ ha_hide a = true /\ ha_required a = false /\ ha_long a = Some [122]
    /\ refs_ok (h_build_self c) = true
    /\ usage_pieces (h_build_self c) = Some [[112]; [60; 45; 45; 97; 124; 45; 45; 122; 62]].
Proof.
  exists hg_cmd, (nth 1 (hc_args hg_cmd) (harg_new [] ASet)).
  split; [vm_compute; tauto|]. repeat split; vm_compute; reflexivity.
Qed.

(** the usage forms under [subcommand_negates_reqs] / [args_conflicts_with_subcommands] /
    [subcommand_required] with a [subcommand_value_name], computed *)
Definition sf_cmd (neg conf req : bool) : hcmd :=
  (cmd_with (hcmd_new [112])
    [ (harg_new [114] ASet) <| ha_long := Some [114] |> <| ha_required := true |>;
      (harg_new [102] ASet) <| ha_required := true |> ]
    [ hcmd_new [115] ])
  <| hc_negates_reqs := neg |> <| hc_args_conflicts := conf |> <| hc_sub_required := req |>
  <| hc_sub_value_name := Some [86] |>.
Example sf_usage :
  usage_pieces (h_build_self (sf_cmd false false false))
    = Some [[112]; [45; 45; 114; 32; 60; 114; 62]; [60; 102; 62]; [91; 86; 93]]
  /\ usage_pieces (h_build_self (sf_cmd false false true))
    = Some [[112]; [45; 45; 114; 32; 60; 114; 62]; [60; 102; 62]; [60; 86; 62]]
  /\ usage_pieces (h_build_self (sf_cmd true false false))
    = Some [[112]; [45; 45; 114; 32; 60; 114; 62]; [60; 102; 62]; s_usage_sep; [112]; [91; 102; 93]; [60; 86; 62]]
  /\ usage_pieces (h_build_self (sf_cmd false true false))
    = Some [[112]; [45; 45; 114; 32; 60; 114; 62]; [60; 102; 62]; s_usage_sep; [112]; [60; 86; 62]].
Proof. repeat split; vm_compute; reflexivity. Qed.

(** the [OPTIONS] tag, declaratively: it is written iff some argument is not positional, is neither [--help] /
    [--version] nor a Help / Version action, is not hidden, not required and not a member of a required group *)
Theorem options_tag_iff c :
  needs_options_tag c = true <->
  exists f, In f (hc_args c) /\ ha_is_positional f = false
    /\ opt_is (ha_long f) s_help = false /\ opt_is (ha_long f) s_version = false
    /\ is_help_or_version_action (ha_action f) = false
    /\ ha_hide f = false /\ ha_required f = false /\ in_required_group c f = false.
Proof.
  unfold needs_options_tag. rewrite existsb_exists. split.
  - intros [f [Hf H]]. apply filter_In in Hf. destruct Hf as [Hin Hp].
    apply andb_true_iff in H. destruct H as [H H5]. apply andb_true_iff in H. destruct H as [H H4].
    apply andb_true_iff in H. destruct H as [H H3]. apply andb_true_iff in H. destruct H as [H1 H2].
    apply negb_true_iff in H1, H2, H3, H4, H5, Hp. apply orb_false_iff in H1. destruct H1 as [H1a H1b].
    exists f. repeat (split; [assumption|]). assumption.
  - intros [f [Hin [Hp [H1a [H1b [H2 [H3 [H4 H5]]]]]]]]. exists f. split.
    + apply filter_In. split; [exact Hin|]. rewrite Hp. reflexivity.
    + rewrite H1a, H1b, H2, H3, H4, H5. reflexivity.
Qed.
