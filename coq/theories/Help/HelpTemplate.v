(** C12, round 3: custom help templates ([HelpTemplate::write_templated_help]).  For EVERY template text:
    rendering is total on a built command, every row any tag writes ([{options}], [{positionals}],
    [{subcommands}], [{all-args}]) comes from an argument shown in the rendered mode or from a subcommand
    that is not hidden, and each of the four tags lists every visible item of its kind. *)
From ClapModel Require Import Base.Bytes Base.Machine Parse.Cmd Parse.Matcher Parse.Errors Parse.Validator.
From ClapModel Require Import Gen.HelpTables Help.UsageModel Help.HelpModel Help.HelpReqs Help.HelpProofs.
From Coq Require Import Lia.
From RecordUpdate Require Import RecordSet.
Import RecordSetNotations.
Open Scope N_scope.

(** the rows a piece contains *)
Definition piece_rows (p : tpiece) : list row :=
  match p with
  | TPAllArgs secs => flat_map s_rows secs
  | TPOptions r | TPPositionals r | TPSubcommands r => r
  | _ => []
  end.

Section T.
Variable dw : bytes -> N.

Definition row_ok (use_long : bool) (c : hcmd) (r : row) : Prop :=
  row_of_arg dw use_long c r \/ row_of_sub dw c r.

(** the four tags that write rows dispatch to the four writers (the [match tag] arms) *)
Lemma tag_options cx c :
  write_tag dw cx c t_options
  = dO rows <- write_args dw cx (filter (fun a => negb (ha_is_positional a)) (hc_args c)) option_sort_key; Some (TPOptions rows).
Proof. reflexivity. Qed.
Lemma tag_positionals cx c :
  write_tag dw cx c t_positionals
  = dO rows <- write_args dw cx (filter ha_is_positional (hc_args c)) positional_sort_key; Some (TPPositionals rows).
Proof. reflexivity. Qed.
Lemma tag_subcommands cx c :
  write_tag dw cx c t_subcommands = dO rows <- write_subcommands dw cx c; Some (TPSubcommands rows).
Proof. reflexivity. Qed.
Lemma tag_all_args cx c :
  write_tag dw cx c t_all_args = dO secs <- write_all_args dw cx c; Some (TPAllArgs secs).
Proof. reflexivity. Qed.

(** what produced a piece *)
Definition piece_src (cx : hctx) (c : hcmd) (p : tpiece) : Prop :=
  match p with
  | TPOptions rows =>
      write_args dw cx (filter (fun a => negb (ha_is_positional a)) (hc_args c)) option_sort_key = Some rows
  | TPPositionals rows => write_args dw cx (filter ha_is_positional (hc_args c)) positional_sort_key = Some rows
  | TPSubcommands rows => write_subcommands dw cx c = Some rows
  | TPAllArgs secs => write_all_args dw cx c = Some secs
  | TPUsage u => usage_pieces c = Some u
  | _ => True
  end.

Lemma write_tag_src cx c tag p : write_tag dw cx c tag = Some p -> piece_src cx c p.
Proof.
  unfold write_tag.
  repeat match goal with |- (if ?b then _ else _) = Some p -> _ => destruct b end;
    try (intros [= <-]; exact I).
  - destruct (usage_pieces c) as [u|] eqn:E; [|discriminate]. intros [= <-]. exact E.
  - destruct (write_all_args dw cx c) as [u|] eqn:E; [|discriminate]. intros [= <-]. exact E.
  - destruct (write_args dw cx _ option_sort_key) as [u|] eqn:E; [|discriminate]. intros [= <-]. exact E.
  - destruct (write_args dw cx _ positional_sort_key) as [u|] eqn:E; [|discriminate]. intros [= <-]. exact E.
  - destruct (write_subcommands dw cx c) as [u|] eqn:E; [|discriminate]. intros [= <-]. exact E.
Qed.

Lemma write_tag_some cx c tag : cmd_ok dw c -> refs_ok c = true -> exists p, write_tag dw cx c tag = Some p.
Proof.
  intros Hc Hr. unfold write_tag.
  repeat match goal with |- exists p, (if ?b then _ else _) = Some p => destruct b end; try (eexists; reflexivity).
  - destruct (usage_pieces_some c) as [u Hu]; [intros a Ha; apply (proj1 Hc a Ha)|exact Hr|]. rewrite Hu. eauto.
  - destruct (write_all_args_spec dw cx c Hc) as [secs [Hs _]]. rewrite Hs. eauto.
  - destruct (write_args_sub dw cx c (filter (fun a => negb (ha_is_positional a)) (hc_args c)) option_sort_key Hc) as [rows [H _]].
    { intros a Ha. apply filter_In in Ha. apply Ha. }
    rewrite H. eauto.
  - destruct (write_args_sub dw cx c (filter ha_is_positional (hc_args c)) positional_sort_key Hc) as [rows [H _]].
    { intros a Ha. apply filter_In in Ha. apply Ha. }
    rewrite H. eauto.
  - destruct (write_subcommands_spec dw cx c (proj2 Hc)) as [rows [H _]]. rewrite H. eauto.
Qed.

(** the rows of a piece come from shown arguments / subcommands that are not hidden *)
Lemma piece_src_rows cx c p : cmd_ok dw c -> piece_src cx c p -> forall r, In r (piece_rows p) -> row_ok (cx_use_long cx) c r.
Proof.
  intros Hc Hs r Hr. destruct p; cbn [piece_rows piece_src] in *; try (destruct Hr).
  - destruct (write_all_args_spec dw cx c Hc) as [secs' [E Hok]]. rewrite Hs in E. inversion E; subst secs'.
    apply in_flat_map in Hr. destruct Hr as [sec [H1 H2]]. apply (Hok sec r H1 H2).
  - destruct (write_args_sub dw cx c (filter (fun a => negb (ha_is_positional a)) (hc_args c)) option_sort_key Hc) as [rows' [E H]].
    { intros a Ha. apply filter_In in Ha. apply Ha. }
    rewrite Hs in E. inversion E; subst rows'. left. apply H. exact Hr.
  - destruct (write_args_sub dw cx c (filter ha_is_positional (hc_args c)) positional_sort_key Hc) as [rows' [E H]].
    { intros a Ha. apply filter_In in Ha. apply Ha. }
    rewrite Hs in E. inversion E; subst rows'. left. apply H. exact Hr.
  - destruct (write_subcommands_spec dw cx c (proj2 Hc)) as [rows' [E H]].
    rewrite Hs in E. inversion E; subst rows'. right. apply H. exact Hr.
Qed.

(** every piece of a rendered template is literal text or the output of one tag *)
Lemma template_pieces cx c t ps p :
  write_templated_help dw cx c t = Some ps -> In p ps ->
  (exists s, p = TPText s) \/ (exists tag, write_tag dw cx c tag = Some p).
Proof.
  unfold write_templated_help. destruct (split_on 123 t) as [first parts].
  destruct (map_opt _ parts) as [rest|] eqn:E; [|discriminate]. intros [= <-] [Hp|Hp].
  - left. eauto.
  - apply in_concat in Hp. destruct Hp as [l [Hl Hpl]].
    destruct (map_opt_in _ _ _ _ E Hl) as [part [_ Hf]]. cbn beta in Hf.
    destruct (split_once 125 part) as [[tag rest']|].
    + destruct (write_tag dw cx c tag) as [p0|] eqn:Et; [|discriminate]. inversion Hf; subst l.
      destruct Hpl as [Hpl|[Hpl|[]]]; [right; exists tag; rewrite <- Hpl; exact Et|left; eauto].
    + inversion Hf; subst l. destruct Hpl.
Qed.

(** C12_template_total: a custom template never panics on a built command *)
Theorem template_total cx c t : cmd_ok dw c -> refs_ok c = true -> write_templated_help dw cx c t <> None.
Proof.
  intros Hc Hr. unfold write_templated_help. destruct (split_on 123 t) as [first parts].
  destruct (map_opt_some (fun part => match split_once 125 part with
                                      | Some (tag, rest) => match write_tag dw cx c tag with Some p => Some [p; TPText rest] | None => None end
                                      | None => Some []
                                      end) parts) as [rest E].
  { intros part _. destruct (split_once 125 part) as [[tag rest']|]; [|eauto].
    destruct (write_tag_some cx c tag Hc Hr) as [p Hp]. rewrite Hp. eauto. }
  rewrite E. discriminate.
Qed.

(** C12_template_hides_hidden: whatever the template, every row it writes comes from an argument shown in
    this mode (listing only possible values that are not hidden) or from a subcommand that is not hidden *)
Theorem template_hides_hidden cx c t ps p r :
  cmd_ok dw c -> write_templated_help dw cx c t = Some ps -> In p ps -> In r (piece_rows p) ->
  (exists a, In a (hc_args c) /\ should_show_arg (cx_use_long cx) a = true /\ r_id r = ha_id a
             /\ forall v, In v (r_pvs r) -> exists pv, In pv (ha_pvs a) /\ pv_hide pv = false /\ pv_name pv = v)
  \/ (exists sc, In sc (hc_subs c) /\ hc_hide sc = false /\ r_id r = hc_name sc /\ r_pvs r = []).
Proof.
  intros Hc H Hp Hr.
  assert (Hok : row_ok (cx_use_long cx) c r).
  { destruct (template_pieces cx c t ps p H Hp) as [[s ->]|[tag Ht]]; [destruct Hr|].
    apply (piece_src_rows cx c p Hc (write_tag_src cx c tag p Ht) r Hr). }
  destruct Hok as [[a [H1 [H2 [H3 [_ H5]]]]]|[sc [H1 [H2 [H3 [_ H5]]]]]].
  - left. exists a. auto.
  - right. exists sc. auto.
Qed.

(** C12_template_lists_visible: each of the four tags lists every visible item of its kind *)
Theorem template_lists_visible cx c t ps :
  NoDup (map ha_id (hc_args c)) -> NoDup (map sc_str (hc_subs c)) ->
  write_templated_help dw cx c t = Some ps ->
  (forall rows a, In (TPOptions rows) ps -> In a (hc_args c) -> ha_is_positional a = false ->
                  should_show_arg (cx_use_long cx) a = true -> exists r, In r rows /\ r_id r = ha_id a)
  /\ (forall rows a, In (TPPositionals rows) ps -> In a (hc_args c) -> ha_is_positional a = true ->
                     should_show_arg (cx_use_long cx) a = true -> exists r, In r rows /\ r_id r = ha_id a)
  /\ (forall rows sc, In (TPSubcommands rows) ps -> In sc (hc_subs c) -> hc_hide sc = false ->
                      exists r, In r rows /\ r_id r = hc_name sc)
  /\ (forall secs a, In (TPAllArgs secs) ps -> In a (hc_args c) -> should_show_arg (cx_use_long cx) a = true ->
                     exists sec r, In sec secs /\ s_title sec = arg_section_title a /\ In r (s_rows sec) /\ r_id r = ha_id a)
  /\ (forall secs sc, In (TPAllArgs secs) ps -> In sc (hc_subs c) -> hc_hide sc = false -> hc_name sc <> s_help ->
                      exists sec r, In sec secs /\ s_title sec = sub_section_title c /\ In r (s_rows sec) /\ r_id r = hc_name sc).
Proof.
  intros Hnd Hnds H.
  assert (Hsrc : forall p, In p ps -> piece_src cx c p).
  { intros p Hp. destruct (template_pieces cx c t ps p H Hp) as [[s ->]|[tag Ht]]; [exact I|apply (write_tag_src cx c tag p Ht)]. }
  repeat split.
  - intros rows a Hp Ha Hpos Hs. specialize (Hsrc _ Hp). cbn [piece_src] in Hsrc.
    apply (write_args_lists dw cx (filter (fun a => negb (ha_is_positional a)) (hc_args c)) option_sort_key rows a);
      [apply NoDup_map_filter; exact Hnd|exact Hsrc| |exact Hs].
    apply filter_In. split; [exact Ha|rewrite Hpos; reflexivity].
  - intros rows a Hp Ha Hpos Hs. specialize (Hsrc _ Hp). cbn [piece_src] in Hsrc.
    apply (write_args_lists dw cx (filter ha_is_positional (hc_args c)) positional_sort_key rows a);
      [apply NoDup_map_filter; exact Hnd|exact Hsrc| |exact Hs].
    apply filter_In. split; assumption.
  - intros rows sc Hp Hsc Hh. specialize (Hsrc _ Hp). cbn [piece_src] in Hsrc.
    apply (write_subcommands_lists dw cx c rows sc Hnds Hsrc Hsc Hh).
  - intros secs a Hp Ha Hs. specialize (Hsrc _ Hp). cbn [piece_src] in Hsrc.
    apply (lists_visible_arg dw cx c secs a Hnd Hsrc Ha Hs).
  - intros secs sc Hp Hsc Hh Hn. specialize (Hsrc _ Hp). cbn [piece_src] in Hsrc.
    apply (lists_visible_sub dw cx c secs sc Hnds Hsrc Hsc Hh Hn).
Qed.

End T.

(** ---- non-vacuity: a template with the four tags, a literal, an unknown tag and a part without ['}'] ---- *)
Definition tp_template : bytes :=
  (* "U {usage}|O:{options}|P:{positionals}|S:{subcommands}|{zz}{all-args}{open" *)
  [85; 32; 123] ++ t_usage ++ [125; 124; 79; 58; 123] ++ t_options ++ [125; 124; 80; 58; 123] ++ t_positionals
  ++ [125; 124; 83; 58; 123] ++ t_subcommands ++ [125; 124; 123; 122; 122; 125; 123] ++ t_all_args ++ [125; 123; 111; 112; 101; 110].

Definition tp_shape (p : tpiece) : bytes * list bytes :=
  match p with
  | TPText s => ([116], [s])
  | TPUsage u => ([117], u)
  | TPOptions r => ([111], map r_id r)
  | TPPositionals r => ([112], map r_id r)
  | TPSubcommands r => ([115], map r_id r)
  | TPAllArgs secs => ([97], map s_title secs)
  | _ => ([120], [])
  end.

Example tp_renders :
  option_map (map tp_shape) (write_templated_help len (mkCtx false 80 false) (h_build_self ex_cmd) tp_template)
  = Some [ ([116], [[85; 32]]); ([117], [[112]; s_options_tag; [60; 102; 62]; [91; 67; 79; 77; 77; 65; 78; 68; 93]]);
           ([116], [[124; 79; 58]]); ([111], [[111]; [118]; s_help; s_version]);
           ([116], [[124; 80; 58]]); ([112], [[102]]);
           ([116], [[124; 83; 58]]); ([115], [[115]; s_help]);
           ([116], [[124]]); ([116], [[123; 122; 122; 125]]); ([116], [[]]);
           ([97], [s_commands; s_arguments; s_options; [72]]); ([116], [[]]) ].
Proof. vm_compute. reflexivity. Qed.
