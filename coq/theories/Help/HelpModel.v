(** Help area (C12), part 2: clap_builder/src/output/help_template.rs and output/help.rs,
    command.rs [write_help_err].

    The column arithmetic of [write_args] / [align_to_about] / [help] / [subcmd] /
    [arg_next_line_help] over machine integers ([checked_sub] = a [usize] subtraction: [None] is a
    panic in debug builds and a wrapped value -- then an absurd [{:width$}] -- in release builds),
    the visibility filters, the [BTreeMap] row order, section assembly.  The wrapped help text itself
    is not rendered here (textwrap is modelled in Wrap/); a row records where its text starts.

    [dw] is [display_width] (unicode-width; an oracle, nothing is assumed about it). *)
From ClapModel Require Import Base.Bytes Base.Machine Parse.Cmd Gen.HelpTables Help.UsageModel.
From RecordUpdate Require Import RecordSet.
Import RecordSetNotations.
Open Scope N_scope.

(** run-time format widths ([{:amount$}]) are limited to [u16] by [core::fmt] since Rust 1.87 *)
Definition FMT_WIDTH_MAX : N := 65535.
Definition fmt_pad (amount : N) : option N := if amount <=? FMT_WIDTH_MAX then Some amount else None.

(** [HelpTemplate]: use_long, term_w, the command's NextLineHelp setting *)
Record hctx := mkCtx { cx_use_long : bool; cx_term_w : N; cx_next_line : bool }.

(** [HelpTemplate::term_w] with an explicit [Command::term_width(w)] *)
Definition term_w_of (w : N) : N := if w =? 0 then usize_max else w.

(** ---- visibility ---- *)
Definition should_show_arg (use_long : bool) (a : harg) : bool :=
  if ha_hide a then false
  else (negb (ha_hide_long a) && use_long) || (negb (ha_hide_short a) && negb use_long).
(** before the repair (5d02723): any argument with [next_line_help] was shown *)
Definition should_show_arg_orig (use_long : bool) (a : harg) : bool :=
  if ha_hide a then false
  else (negb (ha_hide_long a) && use_long) || (negb (ha_hide_short a) && negb use_long) || ha_next_line a.
Definition should_show_subcommand (sc : hcmd) : bool := negb (hc_hide sc).
Definition longest_filter (a : harg) : bool :=
  ha_takes_value a || is_some (ha_long a) || negb (is_some (ha_short a)).

(** ---- sort keys and the BTreeMap ---- *)
Definition key := (N * bytes)%type.
Fixpoint bytes_cmp (a b : bytes) : comparison :=
  match a, b with
  | [], [] => Eq
  | [], _ :: _ => Lt
  | _ :: _, [] => Gt
  | x :: a', y :: b' => match x ?= y with Eq => bytes_cmp a' b' | c => c end
  end.
Definition key_cmp (a b : key) : comparison :=
  match fst a ?= fst b with Eq => bytes_cmp (snd a) (snd b) | c => c end.
(** [BTreeMap::insert]: an equal key keeps its place, the value is replaced *)
Fixpoint bt_insert {K V} (cmp : K -> K -> comparison) (k : K) (v : V) (l : list (K * V)) : list (K * V) :=
  match l with
  | [] => [(k, v)]
  | (k', v') :: t =>
      match cmp k k' with
      | Lt => (k, v) :: l
      | Eq => (k', v) :: t
      | Gt => (k', v') :: bt_insert cmp k v t
      end
  end.
(** the key of [write_args]' map: [((display_order, sort key), id)] *)
Definition akey := (key * bytes)%type.
Definition akey_cmp (a b : akey) : comparison :=
  match key_cmp (fst a) (fst b) with Eq => bytes_cmp (snd a) (snd b) | c => c end.

Definition is_ascii_upper (c : N) := (65 <=? c) && (c <=? 90).
Definition is_ascii_lower (c : N) := (97 <=? c) && (c <=? 122).
Definition to_ascii_lowercase (c : N) := if is_ascii_upper c then c + 32 else c.

Definition positional_sort_key (a : harg) : key := (opt_default 0 (ha_index a), []).
Definition option_sort_key (a : harg) : key :=
  let k := match ha_short a with
           | Some x => [to_ascii_lowercase x; if is_ascii_lower x then 48 else 49]
           | None => match ha_long a with
                     | Some l => l
                     | None => [123] ++ ha_id a
                     end
           end in
  (ha_display_order a, k).

(** ---- the left column ---- *)
Definition short_str (a : harg) : bytes :=
  match ha_short a with
  | Some s => [45; s]
  | None => if is_some (ha_long a) then [32; 32; 32; 32] else []
  end.
Definition long_str (a : harg) : bytes :=
  match ha_long a with
  | Some l => (if is_some (ha_short a) then [44; 32] else []) ++ [45; 45] ++ l
  | None => []
  end.
Definition left_col (a : harg) : option bytes :=
  dO suf <- stylize_arg_suffix a None; Some (short_str a ++ long_str a ++ suf).

(** first whitespace-delimited token of a left column, without a trailing comma (the row's name) *)
Fixpoint drop_spaces (s : bytes) : bytes :=
  match s with 32 :: t => drop_spaces t | _ => s end.
Fixpoint take_token (s : bytes) : bytes :=
  match s with
  | [] => []
  | c :: t => if c =? 32 then [] else c :: take_token t
  end.
Fixpoint strip_trailing_commas (s : bytes) : bytes :=
  match s with
  | [] => []
  | c :: t => match strip_trailing_commas t with
              | [] => if c =? 44 then [] else [c]
              | r => c :: r
              end
  end.
Definition row_key (lcol : bytes) : bytes := strip_trailing_commas (take_token (drop_spaces lcol)).

(** ---- spec_vals ---- *)
Definition use_long_pv (use_long : bool) (a : harg) : bool :=
  use_long && existsb pv_should_show_help (ha_possible_values a).
Definition visible_pvs (a : harg) : list hpv := filter (fun p => negb (pv_hide p)) (ha_possible_values a).

(** [char::is_whitespace] on ASCII; [{:?}] of a [str] ([str::escape_debug] between quotes) on ASCII:
    names and values are ASCII in the domain *)
Definition is_ascii_whitespace (c : N) : bool := ((9 <=? c) && (c <=? 13)) || (c =? 32).
Definition hex_digit (d : N) : N := if d <? 10 then 48 + d else 87 + d.
Definition debug_char (c : N) : bytes :=
  if c =? 0 then [92; 48] else if c =? 9 then [92; 116] else if c =? 10 then [92; 110]
  else if c =? 13 then [92; 114] else if c =? 34 then [92; 34] else if c =? 92 then [92; 92]
  else if (c <? 32) || (c =? 127)
       then [92; 117; 123] ++ (if c <? 16 then [] else [hex_digit (c / 16)]) ++ [hex_digit (c mod 16)] ++ [125]
       else [c].
Definition debug_str (s : bytes) : bytes := [34] ++ flat_map debug_char s ++ [34].
(** [if s.contains(char::is_whitespace) { format!("{s:?}") } else { s }] *)
Definition quote_if_ws (s : bytes) : bytes := if existsb is_ascii_whitespace s then debug_str s else s.

Definition s_env_open : bytes := [91; 101; 110; 118; 58; 32].                               (* "[env: " *)
Definition s_default_open : bytes := [91; 100; 101; 102; 97; 117; 108; 116; 58; 32].         (* "[default: " *)
Definition s_aliases_open : bytes := [91; 97; 108; 105; 97; 115; 101; 115; 58; 32].          (* "[aliases: " *)
Definition s_saliases_open : bytes :=
  [91; 115; 104; 111; 114; 116; 32; 97; 108; 105; 97; 115; 101; 115; 58; 32].               (* "[short aliases: " *)
Definition s_pv_open : bytes := [91; 112; 111; 115; 115; 105; 98; 108; 101; 32; 118; 97; 108; 117; 101; 115; 58; 32].

(** the five pushes of [spec_vals], in the order of the code *)
Definition env_group (a : harg) : list bytes :=
  match ha_env a with
  | Some (name, value) =>
      if negb (ha_hide_env a)
      then [s_env_open ++ name ++ (if negb (ha_hide_env_values a) then [61] ++ opt_default [] value else []) ++ [93]]
      else []
  | None => []
  end.
Definition default_group (a : harg) : list bytes :=
  if ha_takes_value a && negb (ha_hide_default a) && negb (is_nil (ha_defaults a))
  then [s_default_open ++ intercalate [32] (map quote_if_ws (ha_defaults a)) ++ [93]]
  else [].
Definition alias_group (a : harg) : list bytes :=
  let als := intercalate [44; 32] (map fst (filter snd (ha_aliases a))) in
  if negb (is_nil als) then [s_aliases_open ++ als ++ [93]] else [].
Definition salias_group (a : harg) : list bytes :=
  let als := intercalate [44; 32] (map (fun p => [fst p]) (filter snd (ha_short_aliases a))) in
  if negb (is_nil als) then [s_saliases_open ++ als ++ [93]] else [].
(** [PossibleValue::get_visible_quoted_name] over the values that are not hidden *)
Definition pv_quoted_names (a : harg) : list bytes := map (fun p => quote_if_ws (pv_name p)) (visible_pvs a).
Definition pv_group (use_long : bool) (a : harg) : list bytes :=
  if negb (ha_hide_pv a) && negb (use_long_pv use_long a) && negb (is_nil (ha_possible_values a))
  then [s_pv_open ++ intercalate [44; 32] (pv_quoted_names a) ++ [93]]
  else [].
Definition spec_vals_list (use_long : bool) (a : harg) : list bytes :=
  env_group a ++ default_group a ++ alias_group a ++ salias_group a ++ pv_group use_long a.
Definition spec_vals (use_long : bool) (a : harg) : bytes :=
  intercalate (if use_long then [10] else [32]) (spec_vals_list use_long a).

Record row := mkRow {
  r_id : bytes;          (* arg id / subcommand name *)
  r_left : bytes;        (* the text written after TAB *)
  r_pad : N;             (* spaces written by align_to_about / subcmd *)
  r_nl : bool;           (* help starts on the next line *)
  r_pvs : list bytes;    (* possible values listed with the row (inline group or long list) *)
  r_spec : bytes;        (* the [spec_vals] text appended to the help *)
  r_long_pvs : list bytes  (* the names written by the long-form list "Possible values:" *)
}.
(** column (characters from the line start) at which the row's help text starts *)
Definition row_col (r : row) : N := TAB_WIDTH + len (r_left r) + r_pad r.

Record section := mkSec { s_title : bytes; s_rows : list row }.

Section Render.
Variable dw : bytes -> N.

(** [arg_next_line_help]; the f32 comparison [taken/term_w > 0.40] is the exact [5*taken > 2*term_w] *)
Definition arg_next_line_help (cx : hctx) (a : harg) (spec : bytes) (longest : N) : bool :=
  if cx_next_line cx || ha_next_line a || cx_use_long cx then true
  else
    let h := opt_default [] (match ha_help a with Some h => Some h | None => ha_long_help a end) in
    let h_w := dw h + dw spec in
    let taken := longest + TAB_WIDTH * 2 in
    (taken <=? cx_term_w cx) && (2 * cx_term_w cx <? 5 * taken) && (cx_term_w cx - taken <? h_w).

(** [will_args_wrap] *)
Definition will_args_wrap (cx : hctx) (args : list harg) (longest : N) : bool :=
  existsb (fun a => arg_next_line_help cx a (spec_vals (cx_use_long cx) a) longest)
          (filter (should_show_arg (cx_use_long cx)) args).

(** [align_to_about] (the amount handed to [write_padding]) *)
Definition align_to_about (cx : hctx) (a : harg) (next_line_help : bool) (longest : N) : option N :=
  dO padding <-
    (if cx_use_long cx || next_line_help then Some 0
     else if negb (ha_is_positional a) then
       dO s <- arg_to_string a;
       let self_len := dw s + SHORT_SIZE in
       let padding := if is_some (ha_long a) then TAB_WIDTH else TAB_WIDTH + 4 in
       checked_sub (longest + padding) self_len
     else
       dO s <- arg_to_string a;
       let self_len := dw s in
       checked_sub (longest + TAB_WIDTH) self_len);
  fmt_pad padding.

(** the possible-value list of [help] (long form): [longest - display_width(name)] per value *)
Fixpoint max_list (l : list N) : option N :=
  match l with
  | [] => None
  | x :: t => match max_list t with Some m => Some (N.max x m) | None => Some x end
  end.
Definition help_pvs (cx : hctx) (a : harg) (spaces : N) : option (list bytes) :=
  if negb (ha_hide_pv a) && use_long_pv (cx_use_long cx) a then
    let pvs := ha_possible_values a in
    if is_nil pvs then Some [] else
    dO longest <- max_list (map (fun p => dw (pv_name p)) (visible_pvs a));   (* .max().expect(..) *)
    dO _ <- fmt_pad (spaces + TAB_WIDTH - 2);
    map_opt (fun p =>
               match pv_help p with
               | Some _ => dO padding <- checked_sub longest (dw (pv_name p));
                           dO _ <- fmt_pad padding; Some (pv_name p)
               | None => Some (pv_name p)
               end) (visible_pvs a)
  else Some [].

(** [help] for an argument row: the indent of the text and the possible values; the result is
    (values listed in either form, names written by the long-form list) *)
Definition help_arg (cx : hctx) (a : harg) (next_line_help : bool) (longest : N)
  : option (list bytes * list bytes) :=
  let spaces := if next_line_help then TAB_WIDTH + NEXT_LINE_INDENT_LEN else longest + TAB_WIDTH * 2 in
  dO long_pvs <- help_pvs cx a spaces;
  Some (if ha_hide_pv a || is_nil (ha_possible_values a) then []
        else map pv_name (visible_pvs a), long_pvs).

(** [write_arg] *)
Definition write_arg (cx : hctx) (a : harg) (next_line_help : bool) (longest : N) : option row :=
  dO lcol <- left_col a;
  dO pad <- align_to_about cx a next_line_help longest;
  let spec := spec_vals (cx_use_long cx) a in
  dO pvs <- help_arg cx a next_line_help longest;
  Some (mkRow (ha_id a) lcol pad next_line_help (fst pvs) spec (snd pvs)).

(** the first loop of [write_args]: [longest] over the shown args; an arg that [longest_filter]
    skips (a short-only flag) still counts with its own rendered width (repair bad6087) *)
Fixpoint wa_longest (shown : list harg) (longest : N) : option N :=
  match shown with
  | [] => Some longest
  | a :: t =>
      if longest_filter a then
        dO s <- arg_to_string a;
        let width := dw s in
        let actual_width := if ha_is_positional a then width else width + SHORT_SIZE in
        wa_longest t (N.max longest actual_width)
      else
        dO s <- arg_to_string a;
        wa_longest t (N.max longest (dw s))
  end.
(** before the repair: args skipped by [longest_filter] did not count *)
Fixpoint wa_longest_orig (shown : list harg) (longest : N) : option N :=
  match shown with
  | [] => Some longest
  | a :: t =>
      if longest_filter a then
        dO s <- arg_to_string a;
        let width := dw s in
        let actual_width := if ha_is_positional a then width else width + SHORT_SIZE in
        wa_longest_orig t (N.max longest actual_width)
      else wa_longest_orig t longest
  end.

(** the second half of the loop: the [BTreeMap] keyed by [(sort_key(arg), id)] (repair 8ecd1df: the id
    is the tie-breaker; before it two args with equal [(display_order, key)] shared one entry) *)
Definition wa_ord (sort_key : harg -> key) (shown : list harg) : list (akey * harg) :=
  fold_left (fun m a => bt_insert akey_cmp (sort_key a, ha_id a) a m) shown [].
Definition wa_ord_orig (sort_key : harg -> key) (shown : list harg) : list (key * harg) :=
  fold_left (fun m a => bt_insert key_cmp (sort_key a) a m) shown [].

(** [write_args] *)
Definition write_args (cx : hctx) (args : list harg) (sort_key : harg -> key) : option (list row) :=
  let shown := filter (should_show_arg (cx_use_long cx)) args in
  dO longest <- wa_longest shown 2;
  let ord_v := wa_ord sort_key shown in
  let next_line_help := will_args_wrap cx args longest in
  map_opt (fun p => write_arg cx (snd p) next_line_help longest) ord_v.

(** ---- subcommands ---- *)
Definition sc_str (sc : hcmd) : bytes :=
  hc_name sc
  ++ (match hc_short_flag sc with Some s => [44; 32; 45; s] | None => [] end)
  ++ (match hc_long_flag sc with Some l => [44; 32; 45; 45] ++ l | None => [] end).

(** [subcommand_next_line_help] (no visible aliases in the domain: [sc_spec_vals] is empty) *)
Definition subcommand_next_line_help (cx : hctx) (sc : hcmd) (longest : N) : bool :=
  if cx_next_line cx then true
  else
    let h := opt_default [] (match hc_about sc with Some h => Some h | None => hc_long_about sc end) in
    let h_w := dw h + dw [] in
    let taken := longest + TAB_WIDTH * 2 in
    (taken <=? cx_term_w cx) && (2 * cx_term_w cx <? 5 * taken) && (cx_term_w cx - taken <? h_w).

(** [subcmd] *)
Definition subcmd (s : bytes) (next_line_help : bool) (longest : N) : option N :=
  if negb next_line_help then
    dO padding <- checked_sub (longest + TAB_WIDTH) (dw s); fmt_pad padding
  else Some 0.

(** [write_subcommands] *)
Definition write_subcommands (cx : hctx) (c : hcmd) : option (list row) :=
  let vis := filter should_show_subcommand (hc_subs c) in
  let longest := fold_left (fun acc sc => N.max acc (dw (sc_str sc))) vis 2 in
  let ord_v := fold_left (fun m sc => bt_insert key_cmp (hc_display_order sc, sc_str sc) sc m) vis [] in
  let next_line_help := existsb (fun sc => subcommand_next_line_help cx sc longest) vis in
  map_opt (fun p => let sc := snd p in
                    dO pad <- subcmd (sc_str sc) next_line_help longest;
                    Some (mkRow (hc_name sc) (sc_str sc) pad next_line_help [] [] [])) ord_v.

(** ---- [write_all_args] ---- *)
Definition s_commands : bytes := [67; 111; 109; 109; 97; 110; 100; 115].
Definition s_arguments : bytes := [65; 114; 103; 117; 109; 101; 110; 116; 115].
Definition s_options : bytes := [79; 112; 116; 105; 111; 110; 115].

(** the title of the subcommand section: [subcommand_help_heading] or "Commands" *)
Definition sub_section_title (c : hcmd) : bytes := opt_default s_commands (hc_sub_heading c).

Fixpoint dedup (l : list bytes) (seen : list bytes) : list bytes :=
  match l with
  | [] => []
  | x :: t => if existsb (beq x) seen then dedup t seen else x :: dedup t (x :: seen)
  end.
Definition custom_headings (c : hcmd) : list bytes := dedup (filter_map ha_heading (hc_args c)) [].
Definition heading_is (h : bytes) (a : harg) : bool := opt_is (ha_heading a) h.

Fixpoint heading_sections (cx : hctx) (c : hcmd) (hs : list bytes) : option (list section) :=
  match hs with
  | [] => Some []
  | h :: t =>
      let args := filter (should_show_arg (cx_use_long cx)) (filter (heading_is h) (hc_args c)) in
      dO this <- (if is_nil args then Some []
                  else dO rows <- write_args cx args option_sort_key; Some [mkSec h rows]);
      dO rest <- heading_sections cx c t;
      Some (this ++ rest)
  end.

Definition write_all_args (cx : hctx) (c : hcmd) : option (list section) :=
  let show := should_show_arg (cx_use_long cx) in
  let pos := filter show (filter (fun a => negb (is_some (ha_heading a))) (filter ha_is_positional (hc_args c))) in
  let non_pos := filter show (filter (fun a => negb (is_some (ha_heading a)))
                                     (filter (fun a => negb (ha_is_positional a)) (hc_args c))) in
  dO s1 <- (if has_visible_subcommands c
            then dO rows <- write_subcommands cx c; Some [mkSec (sub_section_title c) rows] else Some []);
  dO s2 <- (if is_nil pos then Some []
            else dO rows <- write_args cx pos positional_sort_key; Some [mkSec s_arguments rows]);
  dO s3 <- (if is_nil non_pos then Some []
            else dO rows <- write_args cx non_pos option_sort_key; Some [mkSec s_options rows]);
  dO s4 <- heading_sections cx c (custom_headings c);
  Some (s1 ++ s2 ++ s3 ++ s4).

(** ---- the help screen ([write_help] with the default template) ---- *)
Record screen := mkScreen { scr_about : option bytes; scr_usage : list bytes; scr_sections : list section }.

Definition write_about (use_long : bool) (c : hcmd) : option bytes :=
  if use_long then match hc_long_about c with Some a => Some a | None => hc_about c end else hc_about c.

Definition write_help (c : hcmd) (use_long : bool) (width : N) : option screen :=
  let cx := mkCtx use_long (term_w_of width) (h_is_set hs_next_line c) in
  dO usage <- usage_pieces c;
  dO secs <- write_all_args cx c;
  Some (mkScreen (write_about use_long c) usage secs).

(** ---- [write_templated_help]: custom help templates ---- *)
(** what a template writes, piece by piece.  Texts that the model does not render (name, bin, version,
    author, before/after-help) are [TPOther tag]; an unknown tag is written back as ["{tag}"]. *)
Inductive tpiece :=
| TPText (s : bytes)
| TPAbout (a : option bytes)
| TPUsageHeading
| TPUsage (u : list bytes)
| TPAllArgs (secs : list section)
| TPOptions (rows : list row)
| TPPositionals (rows : list row)
| TPSubcommands (rows : list row)
| TPTab
| TPOther (tag : bytes).

(** [str::split(c)]: always at least one part; [str::split_once(c)] *)
Fixpoint split_on (sep : N) (s : bytes) : bytes * list bytes :=
  match s with
  | [] => ([], [])
  | x :: t => let '(h, r) := split_on sep t in if x =? sep then ([], h :: r) else (x :: h, r)
  end.
Fixpoint split_once (sep : N) (s : bytes) : option (bytes * bytes) :=
  match s with
  | [] => None
  | x :: t => if x =? sep then Some ([], t)
              else match split_once sep t with Some (a, b) => Some (x :: a, b) | None => None end
  end.

Definition t_name : bytes := [110; 97; 109; 101].
Definition t_bin : bytes := [98; 105; 110].
Definition t_version : bytes := [118; 101; 114; 115; 105; 111; 110].
Definition t_author : bytes := [97; 117; 116; 104; 111; 114].
Definition t_author_nl : bytes := t_author ++ [45; 119; 105; 116; 104; 45; 110; 101; 119; 108; 105; 110; 101].
Definition t_author_sec : bytes := t_author ++ [45; 115; 101; 99; 116; 105; 111; 110].
Definition t_about : bytes := [97; 98; 111; 117; 116].
Definition t_about_nl : bytes := t_about ++ [45; 119; 105; 116; 104; 45; 110; 101; 119; 108; 105; 110; 101].
Definition t_about_sec : bytes := t_about ++ [45; 115; 101; 99; 116; 105; 111; 110].
Definition t_usage_heading : bytes := [117; 115; 97; 103; 101; 45; 104; 101; 97; 100; 105; 110; 103].
Definition t_usage : bytes := [117; 115; 97; 103; 101].
Definition t_all_args : bytes := [97; 108; 108; 45; 97; 114; 103; 115].
Definition t_options : bytes := [111; 112; 116; 105; 111; 110; 115].
Definition t_positionals : bytes := [112; 111; 115; 105; 116; 105; 111; 110; 97; 108; 115].
Definition t_subcommands : bytes := [115; 117; 98; 99; 111; 109; 109; 97; 110; 100; 115].
Definition t_tab : bytes := [116; 97; 98].
Definition t_after_help : bytes := [97; 102; 116; 101; 114; 45; 104; 101; 108; 112].
Definition t_before_help : bytes := [98; 101; 102; 111; 114; 101; 45; 104; 101; 108; 112].

(** the [match tag] of [write_templated_help], arm by arm *)
Definition write_tag (cx : hctx) (c : hcmd) (tag : bytes) : option tpiece :=
  if beq tag t_name then Some (TPOther tag)
  else if beq tag t_bin then Some (TPOther tag)
  else if beq tag t_version then Some (TPOther tag)
  else if beq tag t_author then Some (TPOther tag)
  else if beq tag t_author_nl then Some (TPOther tag)
  else if beq tag t_author_sec then Some (TPOther tag)
  else if beq tag t_about then Some (TPAbout (write_about (cx_use_long cx) c))
  else if beq tag t_about_nl then Some (TPAbout (write_about (cx_use_long cx) c))
  else if beq tag t_about_sec then Some (TPAbout (write_about (cx_use_long cx) c))
  else if beq tag t_usage_heading then Some TPUsageHeading
  else if beq tag t_usage then dO u <- usage_pieces c; Some (TPUsage u)
  else if beq tag t_all_args then dO secs <- write_all_args cx c; Some (TPAllArgs secs)
  else if beq tag t_options then
    dO rows <- write_args cx (filter (fun a => negb (ha_is_positional a)) (hc_args c)) option_sort_key; Some (TPOptions rows)
  else if beq tag t_positionals then
    dO rows <- write_args cx (filter ha_is_positional (hc_args c)) positional_sort_key; Some (TPPositionals rows)
  else if beq tag t_subcommands then dO rows <- write_subcommands cx c; Some (TPSubcommands rows)
  else if beq tag t_tab then Some TPTab
  else if beq tag t_after_help then Some (TPOther tag)
  else if beq tag t_before_help then Some (TPOther tag)
  else Some (TPText ([123] ++ tag ++ [125])).

(** [write_templated_help]: the text before the first ['{'], then per part the tag's output and the rest;
    a part without ['}'] writes nothing *)
Definition write_templated_help (cx : hctx) (c : hcmd) (template : bytes) : option (list tpiece) :=
  let '(first, parts) := split_on 123 template in
  dO rest <- map_opt (fun part => match split_once 125 part with
                                  | Some (tag, rest) => dO p <- write_tag cx c tag; Some [p; TPText rest]
                                  | None => Some []
                                  end) parts;
  Some (TPText first :: concat rest).

(** [write_help] when [Command::help_template] is set (help.rs [write_help], second arm) *)
Definition write_help_template (c : hcmd) (use_long : bool) (width : N) : option (option (list tpiece)) :=
  match hc_template c with
  | Some t => dO r <- write_templated_help (mkCtx use_long (term_w_of width) (h_is_set hs_next_line c)) c t; Some (Some r)
  | None => Some None
  end.
Definition render_help_template (c : hcmd) (use_long : bool) (width : N) : option (option (list tpiece)) :=
  write_help_template (h_build_self c) use_long width.

(** [Command::render_help] / [render_long_help] / [render_usage] on the user's command *)
Definition render_help (c : hcmd) (use_long : bool) (width : N) : option screen :=
  write_help (h_build_self c) use_long width.
Definition render_usage (c : hcmd) : option (list bytes) := usage_pieces (h_build_self c).

(** [Command::write_help_err] *)
Definition write_help_err (c : hcmd) (use_long : bool) (width : N) : option screen :=
  write_help c (use_long && hc_long_help_exists c) width.

(** the DisplayHelp error of [bin path.. -h|--help] ([react], [ArgAction::Help]) and of
    [bin help path..] ([parse_help_subcommand]): help of the level the path leads to.
    [Some None]: the path names no subcommand (another error kind, outside this property). *)
Definition help_at (root : hcmd) (path : list bytes) (use_long : bool) (width : N) : option (option screen) :=
  let root := h_build_self (root <| hc_bin_name := Some (opt_default (hc_name root) (hc_bin_name root)) |>) in
  dO lv <- level_walk root path;
  match lv with
  | None => Some None
  | Some c => dO s <- write_help_err c use_long width; Some (Some s)
  end.

End Render.
