(** [ArgMatches::args_present] (parser/matches/arg_matches.rs): some entry of this level has an
    explicit source.  (Model-only definitions; the proofs are in ParseProofs/Sources.v.) *)
From ClapModel Require Import Base.Bytes Parse.Cmd Parse.Matcher.
Open Scope N_scope.

Definition marg_explicit (m : marg) : bool :=
  match m_source m with Some s => src_explicit s | None => false end.

Definition args_present (m : matches) : bool := existsb (fun p => marg_explicit (snd p)) (ms_args m).

(** the value at every level of the subcommand chain, root first *)
Fixpoint present_chain (fuel : nat) (m : matches) : list bool :=
  match fuel with
  | O => []
  | S f => args_present m :: match ms_sub m with Some (_, sm) => present_chain f sm | None => [] end
  end.
