(** Property C15: the round trip through the parser model for structs of POSITIONAL fields
    ([T], [Option<T>], a trailing [Vec<T>]): the printer writes [-- v1 v2 ..], C02's [ITrail]. *)
From ClapModel Require Import Base.Bytes Base.Machine Base.Utf8.
From ClapModel Require Import Parse.Cmd Parse.Build Parse.Valid Parse.Matcher Parse.Errors Parse.Validator Parse.Parser.
From ClapModel Require Import ParseProofs.Safe ParseProofs.Invariant ParseProofs.Totality ParseProofs.TotalityMain
                              ParseProofs.Actions ParseProofs.ActionsLoop ParseProofs.Sources ParseProofs.SourcesLine
                              ParseProofs.Dispatch ParseProofs.Relations ParseProofs.RelationsComplete ParseProofs.ValidateTotal
                              ParseProofs.Unparse ParseProofs.UnparseProofs ParseProofs.UnparseTop
                              ParseProofs.UnparseSub ParseProofs.UnparseTrail ParseProofs.UnparseTree.
From ClapModel Require Import Derive.DeriveModel Derive.DeriveProofs Derive.DeriveCmd Derive.DeriveArgs Derive.DeriveParse
                              Derive.DeriveAccept Derive.DerivePost Derive.DeriveFlat Derive.DeriveTotal Derive.DeriveKeys.
From Coq Require Import ZArith List Bool Lia.
From RecordUpdate Require Import RecordSet.
Import RecordSetNotations.
Import ListNotations.
Open Scope N_scope.

(** * 1. the class *)
(** a positional field the printer can write after [--]: no explicit action / num_args / delimiter / default; a plain
    non-bool [T], an [Option<T>], or a [Vec<T>] *)
Definition pos_field (f : field) : Prop :=
  f_kind f = KPos /\ f_action f = None /\ f_num f = None /\ f_delim f = None /\ f_default f = None /\ f_required f = None
  /\ ((f_ty f = TyOther /\ f_syn f = SynPath /\ f_t f <> TBool) \/ f_ty f = TyOption \/ f_ty f = TyVec).

Lemma pos_field_action f : pos_field f -> field_action f = match f_ty f with TyVec => AAppend | _ => ASet end.
Proof.
  intros (_ & A & _ & _ & _ & _ & T). unfold field_action. rewrite A. unfold default_action. fold (f_ty f).
  destruct T as [(T & S & B)|[T|T]]; rewrite T; try reflexivity. rewrite S. destruct (f_t f); try reflexivity. contradiction B; reflexivity.
Qed.
Lemma pos_field_num f : pos_field f -> bf_num f = match f_ty f with TyVec => r_one_or_more | _ => r_single end.
Proof.
  intros H. pose proof (pos_field_action f H) as A. destruct H as (K & _ & N & _ & _ & _ & T).
  unfold bf_num, field_num, f_is_positional. rewrite N, K, A.
  destruct T as [(T & _)|[T|T]]; rewrite T; reflexivity.
Qed.
Lemma pos_field_default f : pos_field f -> bf_default f = [].
Proof.
  intros H. pose proof (pos_field_action f H) as A. destruct H as (_ & _ & _ & _ & D & _). unfold bf_default. rewrite D, A.
  destruct (f_ty f); reflexivity.
Qed.
Lemma pos_field_dmissing f : pos_field f -> bf_dmissing f = [].
Proof. intros H. unfold bf_dmissing. rewrite (pos_field_action f H). destruct (f_ty f); reflexivity. Qed.
Lemma pos_field_positional f : pos_field f -> f_is_positional f = true.
Proof. intros (K & _). unfold f_is_positional. rewrite K. reflexivity. Qed.

(** the printed values of one positional field, and the single occurrence they make *)
Definition fvals (f : field) (v : dval) : list bytes :=
  match field_groups f v with Some (Some gs) => concat gs | _ => [] end.

Lemma pos_groups f v g : pos_field f -> field_groups f v = Some g ->
  g = None \/ exists vals, g = Some [vals] /\ vals <> [] /\ (f_ty f <> TyVec -> exists s, vals = [s]).
Proof.
  intros H Hg. pose proof (pos_field_action f H) as A. pose proof (pos_field_positional f H) as P.
  destruct H as (_ & _ & _ & _ & _ & _ & T). unfold field_groups in Hg. rewrite P in Hg.
  destruct T as [(T & _)|[T|T]]; rewrite T in *.
  - destruct v; try discriminate Hg. rewrite A in Hg. destruct (ps (f_t f) v) as [s|]; [|discriminate Hg]. inversion Hg; subst.
    right. exists [s]. split; [reflexivity|]. split; [discriminate|]. intros _. exists s. reflexivity.
  - destruct v; try discriminate Hg. destruct o as [x|]; [|inversion Hg; left; reflexivity].
    destruct (ps (f_t f) x) as [s|]; [|discriminate Hg]. inversion Hg; subst.
    right. exists [s]. split; [reflexivity|]. split; [discriminate|]. intros _. exists s. reflexivity.
  - destruct v; try discriminate Hg. destruct l as [|x l]; [inversion Hg; left; reflexivity|].
    destruct (map_opt (ps (f_t f)) (x :: l)) as [ss|] eqn:M; [|discriminate Hg]. inversion Hg; subst.
    right. exists ss. split; [reflexivity|]. split; [apply (map_opt_cons_nonnil _ _ _ _ M)|]. intros X. contradiction X; reflexivity.
Qed.

(** * 2. the printed line *)
Fixpoint nodes_pos (ns : nodes) (vs : list dval) : list bytes :=
  match ns, vs with
  | NCons (NArg f) t, v :: vt => fvals f v ++ nodes_pos t vt
  | _, _ => []
  end.

Lemma occs_toks_pos gs : occs_toks KPos gs = ([], concat gs).
Proof.
  induction gs as [|g gs IH]; [reflexivity|]. cbn [occs_toks fold_right]. fold (occs_toks KPos gs). rewrite IH.
  unfold cat2, occ_toks. cbn [fst snd app concat]. reflexivity.
Qed.

Lemma print_nodes_pos : forall ns vs p, fields_only ns = true -> Forall pos_field (fields_of ns) ->
  print_nodes ns vs = Some p -> p_opts p = [] /\ p_pos p = nodes_pos ns vs /\ p_sub p = [].
Proof.
  induction ns as [|n t IH]; intros vs p Hfo Hp H.
  - destruct vs; [|discriminate H]. cbn in H. inversion H; subst. repeat split; reflexivity.
  - destruct n as [f| |]; cbn [fields_only] in Hfo; try discriminate Hfo.
    cbn [fields_of] in Hp. inversion Hp as [|? ? Hpf Hpt]; subst.
    destruct vs as [|v vt]; [discriminate H|]. cbn [print_nodes print_node] in H. cbn [nodes_pos]. unfold fvals.
    destruct (field_groups f v) as [g|] eqn:G; [|discriminate H].
    destruct (print_nodes t vt) as [b|] eqn:B; [|discriminate H]. inversion H; subst; clear H.
    destruct (IH vt b Hfo Hpt B) as (I1 & I2 & I3).
    cbn [printed_cat p_opts p_pos p_sub fst snd]. rewrite I1, I2, I3.
    destruct Hpf as (K & _). rewrite K. destruct g as [gs|]; [rewrite occs_toks_pos|]; cbn [fst snd app]; repeat split; reflexivity.
Qed.

(** * 3. the values after [--] find the positional fields in order *)
Fixpoint pos_vals (l : list field) (vs : list dval) : list bytes :=
  match l, vs with f :: t, v :: vt => fvals f v ++ pos_vals t vt | _, _ => [] end.
(** an absent positional is followed only by absent ones *)
Fixpoint pos_prefix (l : list field) (vs : list dval) : Prop :=
  match l, vs with f :: t, v :: vt => (fvals f v = [] -> pos_vals t vt = []) /\ pos_prefix t vt | _, _ => True end.
Fixpoint pos_occs (pc : N) (l : list field) (vs : list dval) : list occ :=
  match l, vs with
  | f :: t, v :: vt => match fvals f v with
                       | [] => []
                       | vals => occ_of IIndex (built_of (Some pc, f)) vals :: pos_occs (pc + 1) t vt
                       end
  | _, _ => []
  end.

Lemma nodes_pos_vals : forall ns vs, fields_only ns = true -> nodes_pos ns vs = pos_vals (fields_of ns) vs.
Proof.
  induction ns as [|n t IH]; intros vs H; [reflexivity|]. destruct n as [f| |]; cbn [fields_only] in H; try discriminate H.
  destruct vs as [|v vt]; [reflexivity|]. cbn [nodes_pos fields_of pos_vals]. rewrite (IH vt H). reflexivity.
Qed.

Lemma annot_all_pos : forall l pc, Forall pos_field l -> annot pc l = match l with [] => [] | f :: t => (Some pc, f) :: annot (pc + 1) t end.
Proof. intros [|f t] pc H; [reflexivity|]. inversion H; subst. cbn [annot]. rewrite (pos_field_positional f); [reflexivity|assumption]. Qed.

Lemma built_of_facts k f :
  a_id (built_of (Some k, f)) = f_id f /\ a_num (built_of (Some k, f)) = Some (bf_num f)
  /\ a_get_action (built_of (Some k, f)) = field_action f /\ a_vp (built_of (Some k, f)) = a_vp (bf f)
  /\ a_overrides (built_of (Some k, f)) = [] /\ a_env (built_of (Some k, f)) = None /\ a_default_ifs (built_of (Some k, f)) = []
  /\ a_default (built_of (Some k, f)) = bf_default f /\ a_required (built_of (Some k, f)) = field_required f.
Proof.
  assert (Hof : of_field f (built_of (Some k, f))) by (right; exists k; reflexivity).
  destruct (of_field_facts f _ Hof) as (H1 & H2 & H3 & H4 & H5 & H6 & H7 & H8 & _ & H10 & _).
  exact (conj H1 (conj H3 (conj H4 (conj H2 (conj H10 (conj H8 (conj H7 (conj H6 H5)))))))).
Qed.
Lemma idx_more (a : arg) k : a_delim (a <| a_index := Some k |>) = a_delim a
  /\ a_default_missing (a <| a_index := Some k |>) = a_default_missing a /\ a_ignore_case (a <| a_index := Some k |>) = a_ignore_case a.
Proof. destruct a. repeat split; reflexivity. Qed.
Lemma built_of_delim k f : a_delim (built_of (Some k, f)) = f_delim f /\ a_default_missing (built_of (Some k, f)) = bf_dmissing f.
Proof.
  unfold built_of. cbn [fst snd]. destruct (idx_more (bf f) k) as (H1 & H2 & _). rewrite H1, H2, bf_dmissing_eq.
  split; [apply (bf_frame f)|reflexivity].
Qed.

Lemma pos_multiple k f : pos_field f ->
  a_multiple_values (built_of (Some k, f)) = match f_ty f with TyVec => true | _ => false end
  /\ a_is_multiple (built_of (Some k, f)) = match f_ty f with TyVec => true | _ => false end.
Proof.
  intros H. destruct (built_of_facts k f) as (_ & Hn & Ha & _). unfold a_is_multiple, a_multiple_values.
  rewrite Hn, Ha, (pos_field_num f H), (pos_field_action f H). cbn [opt_default].
  destruct H as (_ & _ & _ & _ & _ & _ & [(T & _)|[T|T]]); rewrite T; split; reflexivity.
Qed.

Section Pos.
Variable d : dinput.
Variable bin : bytes.
Hypothesis Hfo : fields_only (d_nodes d) = true.
Hypothesis Hpf : Forall pos_field (fields_of (d_nodes d)).
Hypothesis Hv : valid (with_bin (derive_cmd d) bin) = true.
(** a [Vec<T>] is the last field *)
Hypothesis Hlast : forall l1 f l2, fields_of (d_nodes d) = l1 ++ f :: l2 -> f_ty f = TyVec -> l2 = [].
Local Notation c := (built d bin).
Local Notation fs := (fields_of (d_nodes d)).

Lemma Hfl : flat_nodes (d_nodes d) = true. Proof. apply (fields_flat _ Hfo). Qed.
Lemma El : leaves (d_nodes d) = fs. Proof. apply (fields_flat _ Hfo). Qed.

Lemma annot_suffix : forall l1 l pc, Forall pos_field (l1 ++ l) -> pc = 1 + N.of_nat (length l1) ->
  forall p, In p (annot pc l) -> In p (annot 1 (l1 ++ l)).
Proof.
  intros l1. induction l1 as [|g t IH] using rev_ind; intros l pc Hall Hpc p Hp.
  - cbn [app length N.of_nat] in *. subst pc. exact Hp.
  - rewrite <- app_assoc in Hall |- *. cbn [app] in Hall |- *. apply (IH (g :: l) (1 + N.of_nat (length t)) Hall eq_refl).
    rewrite (annot_all_pos (g :: l)); [|apply (Forall_app _ _ _) in Hall; apply Hall]. right.
    rewrite app_length in Hpc. cbn [length] in Hpc. replace (1 + N.of_nat (length t) + 1) with pc by lia. exact Hp.
Qed.

Theorem trail_shape : forall l l1 pc vs, fs = l1 ++ l -> pc = 1 + N.of_nat (length l1) -> pos_prefix l vs ->
  wf_trail c pc (pos_vals l vs) = true /\ trail_occs c pc (pos_vals l vs) = pos_occs pc l vs.
Proof.
  induction l as [|f t IH]; intros l1 pc vs E Hpc Hpre; [split; reflexivity|].
  destruct vs as [|v vt]; [split; reflexivity|]. cbn [pos_vals pos_occs pos_prefix] in *. destruct Hpre as [Hpre1 Hpre2].
  assert (Hall : Forall pos_field (l1 ++ f :: t)) by (rewrite <- E; exact Hpf).
  assert (Hf : pos_field f) by (apply Forall_app in Hall; destruct Hall as [_ H]; inversion H; assumption).
  destruct (fvals f v) as [|v0 r] eqn:Fv.
  - rewrite (Hpre1 eq_refl). split; reflexivity.
  - assert (Hin : In (Some pc, f) (annot 1 (leaves (d_nodes d)))).
    { rewrite El, E. apply (annot_suffix l1 (f :: t) pc Hall Hpc). rewrite (annot_all_pos (f :: t)); [left; reflexivity|].
      apply Forall_app in Hall. apply Hall. }
    pose proof (lookup_pos_all d bin Hfl pc f Hin) as Hg. fold (built_of (Some pc, f)) in Hg.
    destruct (pos_multiple pc f Hf) as [Hmv Hm].
    unfold fvals in Fv. destruct (field_groups f v) as [[gs|]|] eqn:G; try discriminate Fv.
    destruct (pos_groups f v _ Hf G) as [X|[vals [Eg [Hne Hone]]]]; [discriminate X|]. inversion Eg; subst gs. cbn [concat] in Fv. rewrite app_nil_r in Fv. subst vals.
    cbn [app wf_trail trail_occs]. unfold built_of in Hg |- *. cbn [fst snd] in Hg |- *. rewrite Hg.
    unfold built_of in Hmv, Hm. cbn [fst snd] in Hmv, Hm. rewrite Hmv, Hm.
    destruct (Ty_eq_dec (f_ty f) TyVec) as [T|T].
    + rewrite T. assert (t = []) by (apply (Hlast l1 f t E T)). subst t. destruct vt; cbn [pos_vals pos_occs]; rewrite app_nil_r; split; reflexivity.
    + destruct (Hone T) as [s Es]. inversion Es; subst v0 r. cbn [app].
      assert (Hm' : match f_ty f with TyVec => true | _ => false end = false) by (destruct (f_ty f); try reflexivity; contradiction T; reflexivity).
      rewrite Hm'.
      destruct (IH (l1 ++ [f]) (pc + 1) vt) as [W O]; [rewrite <- app_assoc; exact E|rewrite app_length; cbn [length]; lia|exact Hpre2|].
      rewrite W, O. split; reflexivity.
Qed.

(** ** the command is conventional *)
Lemma annot_split : forall l pc k f, Forall pos_field l -> In (Some k, f) (annot pc l) ->
  exists l1 l2, l = l1 ++ f :: l2 /\ k = pc + N.of_nat (length l1).
Proof.
  induction l as [|g t IH]; intros pc k f Hall Hin; [destruct Hin|].
  rewrite (annot_all_pos (g :: t) pc Hall) in Hin. inversion Hall as [|? ? Hg Ht]; subst. destruct Hin as [E|Hin].
  - inversion E; subst. exists [], t. split; [reflexivity|cbn; lia].
  - destruct (IH (pc + 1) k f Ht Hin) as [l1 [l2 [-> Ek]]]. exists (g :: l1), l2. split; [reflexivity|].
    cbn [length]. rewrite Nat2N.inj_succ. lia.
Qed.

Lemma filter_all_pos : forall l, Forall pos_field l -> filter f_is_positional l = l.
Proof. induction l as [|g t IH]; intros H; [reflexivity|]. inversion H; subst. cbn [filter]. rewrite (pos_field_positional g), IH by assumption. reflexivity. Qed.

Lemma Hconv : conv c = true.
Proof.
  apply (built_conv_all d bin Hfl Hv). rewrite El. intros k f Hin Hm. rewrite (filter_all_pos _ Hpf).
  destruct (annot_split _ _ _ _ Hpf Hin) as [l1 [l2 [E Ek]]].
  assert (Hf : pos_field f) by (rewrite E in Hpf; apply Forall_app in Hpf; destruct Hpf as [_ H]; inversion H; assumption).
  destruct (pos_multiple k f Hf) as [_ Hm']. unfold built_of in Hm'. cbn [fst snd] in Hm'.
  destruct (idx_conv (bf f) k) as (_ & E2 & _). rewrite E2, Hm in Hm'.
  assert (T : f_ty f = TyVec) by (destruct (f_ty f); try discriminate Hm'; reflexivity).
  rewrite (Hlast l1 f l2 E T) in E. rewrite E, app_length. cbn [length]. rewrite Ek. lia.
Qed.

Lemma built_of_in k f : In (Some k, f) (annot 1 fs) -> In (built_of (Some k, f)) (c_args c).
Proof.
  intros H. rewrite (builtk_args d bin Hfl), El. apply in_or_app. left. apply in_map_iff. exists (Some k, f). split; [reflexivity|exact H].
Qed.

(** ** the occurrences after [--] are accepted, one entry per mentioned field *)
Fixpoint at_list (l : list field) (vs : list dval) (f : field) (v : dval) : Prop :=
  match l, vs with f' :: t, v' :: vt => (f' = f /\ v' = v) \/ at_list t vt f v | _, _ => False end.

Lemma at_list_in : forall l vs f v, at_list l vs f v -> In f l.
Proof. induction l as [|g t IH]; intros vs f v H; [destruct H|]. destruct vs as [|v' vt]; [destruct H|]. destruct H as [[-> _]|H]; [left; reflexivity|right; apply (IH vt f v H)]. Qed.
Lemma pos_vals_nil : forall l vs f v, pos_vals l vs = [] -> at_list l vs f v -> fvals f v = [].
Proof.
  induction l as [|g t IH]; intros vs f v E H; [destruct H|]. destruct vs as [|v' vt]; [destruct H|]. cbn [pos_vals] in E.
  apply app_eq_nil in E. destruct E as [E1 E2]. destruct H as [[-> ->]|H]; [exact E1|apply (IH vt f v E2 H)].
Qed.

(** what the command itself checks of the printed values of a positional field *)
Definition pos_accepted (f : field) (v : dval) : Prop :=
  fvals f v <> [] ->
  range_admits (bf_num f) (N.of_nat (length (fvals f v))) = true
  /\ exists vp, a_vp (bf f) = Some vp /\ Forall (fun s => vp_parse vp s = None) (fvals f v).

Theorem pos_run : forall l l1 pc vs st, fs = l1 ++ l -> pc = 1 + N.of_nat (length l1) -> NoDup (map f_id l) ->
  pos_prefix l vs -> (forall f v, at_list l vs f v -> pos_accepted f v) ->
  wf_m (mt st) -> mt_pending (mt st) = None -> (forall f, In f l -> get (f_id f) (mt st) = None) ->
  exists st', react_all c (pos_occs pc l vs) st = ROk st' /\ wf_m (mt st') /\ mt_pending (mt st') = None
    /\ (forall f0, In f0 fs -> ~ In (f_id f0) (map f_id l) -> get (f_id f0) (mt st') = get (f_id f0) (mt st))
    /\ (forall f v, at_list l vs f v ->
          groups_of (f_id f) (mt st') = match fvals f v with [] => None | vals => Some [vals] end).
Proof.
  induction l as [|f t IH]; intros l1 pc vs st E Hpc Hnd Hpre Hacc Hwf Hp Habs.
  { exists st. cbn [pos_occs react_all]. repeat split; auto. intros f v []. }
  destruct vs as [|v vt].
  { exists st. cbn [pos_occs react_all]. repeat split; auto. intros f0 v0 []. }
  cbn [pos_occs pos_prefix map] in *. destruct Hpre as [Hpre1 Hpre2]. apply NoDup_cons_iff in Hnd. destruct Hnd as [Hni Hnd'].
  assert (Hall : Forall pos_field (l1 ++ f :: t)) by (rewrite <- E; exact Hpf).
  assert (Hf : pos_field f) by (apply Forall_app in Hall; destruct Hall as [_ H]; inversion H; assumption).
  destruct (fvals f v) as [|v0 r] eqn:Fv.
  - (* nothing from here on *)
    exists st. cbn [react_all]. repeat split; auto. intros f' v' Hat.
    assert (Ef : fvals f' v' = []).
    { destruct Hat as [[<- <-]|Hat]; [exact Fv|apply (pos_vals_nil t vt f' v' (Hpre1 eq_refl) Hat)]. }
    rewrite Ef. unfold groups_of. rewrite (Habs f'); [reflexivity|].
    destruct Hat as [[<- _]|Hat]; [left; reflexivity|right; apply (at_list_in _ _ _ _ Hat)].
  - set (vals := v0 :: r) in *. set (a := built_of (Some pc, f)).
    assert (Hin : In (Some pc, f) (annot 1 fs)).
    { rewrite E. apply (annot_suffix l1 (f :: t) pc Hall Hpc). rewrite (annot_all_pos (f :: t)); [left; reflexivity|].
      apply Forall_app in Hall. apply Hall. }
    pose proof (built_of_in pc f Hin) as Ha. fold a in Ha.
    destruct (built_of_facts pc f) as (Fid & Fnum & Fact & Fvp & Fov & _). fold a in Fid, Fnum, Fact, Fvp, Fov.
    destruct (built_of_delim pc f) as [Fdl Fdm]. fold a in Fdl, Fdm.
    pose proof (assert_app_group_ids c a (conv_app c Hconv) Ha) as Hng.
    destruct (Hacc f v (or_introl (conj eq_refl eq_refl))) as [Hadm [vp [Evp Hpass]]]; [rewrite Fv; discriminate|]. rewrite Fv in Hadm, Hpass. fold vals in Hadm, Hpass.
    assert (Hov : occ_values c a vals None = Some vals).
    { unfold occ_values, delimit. rewrite Fdl. destruct Hf as (_ & _ & _ & D & _). rewrite D. reflexivity. }
    assert (Hact : a_get_action a = ASet \/ a_get_action a = AAppend).
    { rewrite Fact, (pos_field_action f Hf). destruct (f_ty f); auto. }
    destruct (react_core_ok c (Some IIndex) a vals None st vals vp Hwf (Hng _)) as [st1 E1].
    { apply (verify_admits c a (bf_num f) vals st Fnum Hadm). }
    { exact Hov. } { rewrite Fvp. exact Evp. }
    { rewrite stored_vals_nonempty by discriminate. exact Hpass. }
    { destruct Hact as [A|A]; rewrite A; [|exact I]. unfold mt_contains, fm_contains. unfold get in Habs.
      rewrite Fid, (Habs f (or_introl eq_refl)). reflexivity. }
    destruct (react_core_spec _ _ _ _ _ _ _ _ _ Hwf (Hng _) E1) as [vals' [Ho' [W1 [P1 [G1 [F1 _]]]]]].
    rewrite Hov in Ho'. inversion Ho'; subst vals'. rewrite Hp in P1.
    assert (Hno : forall j, overridden c a j = false) by (intros j; apply (no_overrides_spec c (built_no_overrides_all d bin Hfl) a j Ha)).
    assert (Hfr : forall f0, In f0 fs -> f_id f0 <> f_id f -> get (f_id f0) (mt st1) = get (f_id f0) (mt st)).
    { intros f0 Hf0 Hne. rewrite (F1 (f_id f0)); [rewrite Hno, andb_false_r; reflexivity|rewrite Fid; exact Hne|].
      assert (Hin0 : exists k0, In (Some k0, f0) (annot 1 fs)).
      { apply in_split in Hf0. destruct Hf0 as [la [lb Ef0]]. exists (1 + N.of_nat (length la)).
        rewrite Ef0. apply (annot_suffix la (f0 :: lb) _ (eq_ind _ _ Hpf _ Ef0) eq_refl).
        rewrite (annot_all_pos (f0 :: lb)); [left; reflexivity|]. rewrite Ef0 in Hpf. apply Forall_app in Hpf. apply Hpf. }
      destruct Hin0 as [k0 Hk0]. pose proof (assert_app_group_ids c _ (conv_app c Hconv) (built_of_in k0 f0 Hk0)) as X.
      destruct (built_of_facts k0 f0) as (I0 & _). rewrite I0 in X. apply X. }
    destruct (IH (l1 ++ [f]) (pc + 1) vt st1) as [st' (E' & W' & P' & Fr' & G')].
    { rewrite <- app_assoc. exact E. } { rewrite app_length. cbn [length]. lia. } { exact Hnd'. } { exact Hpre2. }
    { intros f' v' Hat. apply Hacc. right. exact Hat. } { exact W1. } { exact P1. }
    { intros f' Hf'. rewrite Hfr; [apply Habs; right; exact Hf'| |].
      - rewrite E. apply in_or_app. right. right. exact Hf'.
      - intros Eid. apply Hni. rewrite <- Eid. apply in_map. exact Hf'. }
    exists st'. split.
    { cbn [react_all occ_of o_ident o_src o_arg o_raw o_ti]. fold a. rewrite (react_no_pending c _ _ _ _ _ _ Hp), E1. cbn [rbind fst]. exact E'. }
    split; [exact W'|]. split; [exact P'|]. split.
    + intros f0 Hf0 Hni0. rewrite Fr'; [apply Hfr; [exact Hf0|]|exact Hf0|].
      * intros Eid. apply Hni0. left. symmetry. exact Eid.
      * intros X. apply Hni0. right. exact X.
    + intros f' v' [[<- <-]|Hat].
      * rewrite Fv. unfold groups_of in G1 |- *. rewrite Fr'; [|rewrite E; apply in_or_app; right; left; reflexivity|exact Hni].
        rewrite Fid in G1. rewrite G1. unfold step_self. rewrite (Habs f (or_introl eq_refl)). cbn [opt_map].
        destruct Hact as [A|A]; rewrite A; [reflexivity|]. unfold own_prev. destruct (is_cmdline SCmdLine && overridden c a (a_id a)); reflexivity.
      * apply G'. exact Hat.
Qed.

End Pos.

(** * 4. the round trip *)
Lemma at_node_list : forall ns vs f v, fields_only ns = true -> at_node ns vs f v -> at_list (fields_of ns) vs f v.
Proof.
  induction ns as [|n t IH]; intros vs f v Hfo H; [destruct H|]. destruct n as [f'| |]; cbn [fields_only] in Hfo; try discriminate Hfo.
  destruct vs as [|v' vt]; [destruct H|]. cbn [at_node fields_of at_list] in *. destruct H as [H|H]; [left; exact H|right; apply (IH vt f v Hfo H)].
Qed.

Lemma pos_other_mentioned f v g : pos_field f -> f_ty f = TyOther -> field_groups f v = Some g -> g <> None.
Proof.
  intros H T Hg. pose proof (pos_field_action f H) as A. rewrite T in A. unfold field_groups in Hg. rewrite T in Hg.
  destruct v; try discriminate Hg. rewrite A in Hg. destruct (ps (f_t f) v); [|discriminate Hg]. inversion Hg. discriminate.
Qed.

(** the values: each positional value list fits a [usize] (the only arithmetic side condition of [1..]) *)
Definition pos_fits (l : list field) (vs : list dval) : Prop :=
  forall f v, at_list l vs f v -> N.of_nat (length (fvals f v)) <= usize_max.

Lemma pos_accepted_of f v : pos_field f -> field_ok f -> Forall (srt (f_t f) (f_icase f)) (scalars v) ->
  N.of_nat (length (fvals f v)) <= usize_max -> pos_accepted f v.
Proof.
  intros Hf Hok Hsr Hfit Hne. unfold fvals in *. destruct (field_groups f v) as [[gs|]|] eqn:G; try (contradiction Hne; reflexivity).
  destruct (pos_groups f v _ Hf G) as [X|[vals [Eg [Hvn Hone]]]]; [discriminate X|]. inversion Eg; subst gs. cbn [concat] in *. rewrite app_nil_r in *.
  pose proof (pos_field_action f Hf) as A. pose proof (pos_field_num f Hf) as Nm.
  assert (Hty : ty_ok f = true /\ f_ty f <> TyUnit).
  { destruct Hf as (_ & _ & _ & _ & _ & _ & [(T & _)|[T|T]]); unfold ty_ok; rewrite T; split; try reflexivity; discriminate. }
  destruct Hty as [Hty Hnu]. split.
  - rewrite Nm. destruct (Ty_eq_dec (f_ty f) TyVec) as [T|T].
    + rewrite T. unfold range_admits, r_num_values, r_is_fixed. cbn [r_one_or_more vmin vmax].
      assert (L : 1 <= N.of_nat (length vals)) by (destruct vals; [contradiction Hvn; reflexivity|cbn [length]; lia]).
      replace (N.of_nat (length vals) =? 0) with false by (symmetry; apply N.eqb_neq; lia).
      change (0 <? 1) with true. change (1 =? usize_max) with false. cbv iota. cbn [andb negb].
      apply andb_true_intro. split; apply N.leb_le; assumption.
    + destruct (Hone T) as [s ->]. destruct (f_ty f); reflexivity.
  - exists (vp_of false (f_icase f) (f_t f)). split.
    + rewrite bf_vp_eq. unfold field_vp. rewrite A. destruct (f_ty f); try reflexivity; contradiction Hnu; reflexivity.
    + apply Forall_forall. intros s Hs.
      assert (Hact : field_action f = ASet \/ field_action f = AAppend) by (rewrite A; destruct (f_ty f); auto).
      destruct (printed_scalars f v [vals] Hty G Hact vals s (or_introl eq_refl) Hs) as [x [Hx Px]].
      rewrite Forall_forall in Hsr. apply (scalar_accepts _ (f_icase f) s x). apply (Hsr x Hx). exact Px.
Qed.

Theorem roundtrip_parse_pos d bin vs argv :
  fields_only (d_nodes d) = true -> Forall pos_field (fields_of (d_nodes d)) -> NoDup (map f_id (fields_of (d_nodes d))) ->
  (forall l1 f l2, fields_of (d_nodes d) = l1 ++ f :: l2 -> f_ty f = TyVec -> l2 = []) ->
  ok_nodes (d_nodes d) vs -> pos_prefix (fields_of (d_nodes d)) vs -> pos_fits (fields_of (d_nodes d)) vs ->
  valid (with_bin (derive_cmd d) bin) = true -> print d vs = Some argv ->
  derived_parse d (bin :: argv) = PValue vs.
Proof.
  intros Hfo Hpf Hnd Hlast Hok Hpre Hfit Hv Hprint.
  pose proof (Hfl d Hfo) as Hfl'. pose proof (El d Hfo) as El'.
  pose proof (Hconv d bin Hfo Hpf Hv Hlast) as Hcv.
  assert (Hie : is_set s_ignore_errors (built d bin) = false) by (rewrite (builtf_is_set d bin Hfl'); reflexivity).
  set (fs := fields_of (d_nodes d)) in *. set (c := built d bin) in *.
  (* the printed line *)
  unfold print, print_top in Hprint. destruct (print_nodes (d_nodes d) vs) as [p|] eqn:P; [|discriminate Hprint].
  cbn [opt_map] in Hprint. inversion Hprint as [Ea]; clear Hprint.
  destruct (print_nodes_pos (d_nodes d) vs p Hfo Hpf P) as (R1 & R2 & R3).
  rewrite (nodes_pos_vals _ vs Hfo) in R2. fold fs in R2.
  destruct (trail_shape d bin Hfo Hpf Hlast fs [] 1 vs eq_refl eq_refl Hpre) as [Wt Ot]. fold c in Wt, Ot.
  remember (pos_vals fs vs) as pos eqn:Epos.
  (* per-field facts from the value class *)
  assert (Hokf : forall f v, at_list fs vs f v -> field_ok f /\ Forall (srt (f_t f) (f_icase f)) (scalars v)).
  { clear - Hok Hfo. unfold fs. revert vs Hok. induction (d_nodes d) as [|n t IH]; intros vs Hok f v Hat; [destruct Hat|].
    destruct n as [f'| |]; cbn [fields_only] in Hfo; try discriminate Hfo. destruct vs as [|v' vt]; [destruct Hat|].
    cbn [fields_of at_list ok_nodes ok_node] in *. destruct Hok as [Hk Hokt]. destruct Hat as [[<- <-]|Hat]; [exact Hk|apply (IH Hfo vt Hokt f v Hat)]. }
  assert (Hacc : forall f v, at_list fs vs f v -> pos_accepted f v).
  { intros f v Hat. destruct (Hokf f v Hat) as [K S]. apply (pos_accepted_of f v); [|exact K|exact S|apply (Hfit f v Hat)].
    apply (proj1 (Forall_forall _ _) Hpf f (at_list_in _ _ _ _ Hat)). }
  (* the token loop *)
  destruct (pos_run d bin Hfo Hpf Hv Hlast fs [] 1 vs ps_new eq_refl eq_refl Hnd Hpre Hacc wf_m_new eq_refl) as [st1 (E1 & W1 & P1 & _ & G1)].
  { intros f _. reflexivity. }
  fold c in E1. rewrite <- Ot in E1.
  (* the invocation *)
  set (i := match pos with [] => ILeaf [] | _ => ITrail [] pos end).
  assert (Eargv : argv = render_inv i).
  { rewrite <- Ea. unfold printed_argv. destruct p as [po pp psb pe pm]. cbn [p_opts p_pos p_sub] in *. subst po pp psb.
    unfold i. clear. destruct pos; [reflexivity|]. cbn [render_inv render flat_map app]. rewrite app_nil_r. reflexivity. }
  assert (Hwf : wf_inv c i = true).
  { unfold i. destruct pos as [|v0 r] eqn:Ep; cbn [wf_inv wf_items items_pst items_pos not_pos is_done]; rewrite Hcv, Hie; cbn [negb andb]; [reflexivity|].
    rewrite (nosub_nosubs c ESC (builtf_subs d bin Hfl')), (builtf_is_set d bin Hfl'), Wt. reflexivity. }
  assert (Erun : run_inv c i = (do st1' <- ROk st1; post_loop c st1')).
  { unfold i. destruct pos as [|v0 r] eqn:Ep; cbn [run_inv occs items_pos app]; rewrite <- E1; [|reflexivity].
    cbn [trail_occs react_all]. reflexivity. }
  cbn [rbind] in Erun.
  (* the state after the loop *)
  assert (Hargs : Forall (fun o => In (o_arg o) (c_args c)) (trail_occs c 1 pos)) by (apply (trail_occs_args c pos 1)).
  pose proof (react_all_all_cl c _ _ _ (trail_occs_cmdline c pos 1) E1 all_cl_new) as Hcl.
  assert (Hcomplete : forall a, In a (c_args c) -> arg_complete a).
  { intros a Ha. unfold c in Ha. rewrite built_eq in Ha. apply (build_self_args_complete (with_bin (derive_cmd d) bin)); [apply (builtf_unbuilt d bin Hfl')|exact Ha]. }
  pose proof (react_all_G c Hcomplete _ ps_new st1 Hargs (G_ps_new c Pt Vt I) E1) as HG.
  pose proof (builtg_app d bin Hv) as Happ. fold c in Happ.
  pose proof (builtg_norel d bin Hfl') as Hnr. fold c in Hnr.
  assert (Hcases : forall a, In a (c_args c) -> (exists k f, In f fs /\ a = built_of (Some k, f)) \/ a = hb).
  { intros a Ha. destruct (builtk_cases d bin Hfl' a Ha) as [[[[k|] f] [Hp ->]]| ->]; [left|exfalso|right; reflexivity].
    - exists k, f. split; [|reflexivity]. rewrite <- El', <- (annot_fields (leaves (d_nodes d)) 1). apply in_map_iff. exists (Some k, f). auto.
    - pose proof (annot_none _ _ _ Hp) as X. assert (Hf : In f fs) by (rewrite <- El', <- (annot_fields (leaves (d_nodes d)) 1); apply in_map_iff; exists (None, f); auto).
      rewrite (pos_field_positional f (proj1 (Forall_forall _ _) Hpf f Hf)) in X. discriminate X. }
  assert (Hval : forall f, In f fs -> exists v g, at_list fs vs f v /\ field_groups f v = Some g).
  { intros f Hf. destruct (print_at_node _ _ _ f Hfo P Hf) as [v [g [Hat Hg]]]. exists v, g. split; [apply (at_node_list _ _ _ _ Hfo Hat)|exact Hg]. }
  (* the post-loop phases *)
  assert (Epost : exists st, post_loop c st1 = ROk st).
  { unfold post_loop. rewrite (add_env_noenv c st1).
    2: { intros a Ha. destruct (Hcases a Ha) as [[k [f [_ ->]]]| ->]; [apply (built_of_facts k f)|reflexivity]. }
    cbn [rbind]. destruct (add_defaults_ok c st1) as [st3 (E3 & _ & _)]; [| |exact W1|exact P1|].
    { intros a Ha. apply (assert_app_group_ids c a Happ Ha). }
    { intros a Ha. right. destruct (Hcases a Ha) as [[k [f [Hf ->]]]| ->].
      - destruct (built_of_facts k f) as (_ & _ & _ & _ & _ & _ & I & D & _). split; [exact I|left].
        rewrite D. apply (pos_field_default f (proj1 (Forall_forall _ _) Hpf f Hf)).
      - split; [reflexivity|left; reflexivity]. }
    rewrite E3. cbn [rbind]. destruct (defaults_inert c st1 st3 P1 E3) as [Ev _]. rewrite Ev.
    rewrite (norel_validate c (mt st1) Happ Hnr W1 (G_keys_ok c st1 HG)); [eexists; reflexivity| | | |].
    - intros p0 Hp0. unfold positionals in Hp0. apply filter_In in Hp0. destruct Hp0 as [Ha Hpos].
      destruct (Hcases p0 Ha) as [[k [f [_ ->]]]| ->]; [|discriminate Hpos].
      unfold built_of. cbn [fst snd]. destruct (idx_conv (bf f) k) as (_ & _ & _ & _ & X). rewrite X. discriminate.
    - unfold c. rewrite (builtf_is_set d bin Hfl'). reflexivity.
    - unfold c. rewrite (builtf_is_set d bin Hfl'). reflexivity.
    - intros a Ha Hr. destruct (Hcases a Ha) as [[k [f [Hf ->]]]| ->]; [|discriminate Hr].
      destruct (built_of_facts k f) as (Fid & _ & _ & _ & _ & _ & _ & _ & Frq). rewrite Frq in Hr. rewrite Fid.
      pose proof (proj1 (Forall_forall _ _) Hpf f Hf) as Hpff.
      assert (T : f_ty f = TyOther).
      { unfold field_required in Hr. destruct Hpff as (_ & _ & _ & _ & _ & Rq & _). rewrite Rq in Hr. destruct (f_ty f); try discriminate Hr. reflexivity. }
      destruct (Hval f Hf) as [v [g [Hat Hg]]]. pose proof (G1 f v Hat) as Gf. unfold fvals in Gf. rewrite Hg in Gf.
      destruct g as [gs|]; [|contradiction (pos_other_mentioned f v None Hpff T Hg); reflexivity].
      destruct (pos_groups f v _ Hpff Hg) as [X|[vals [Eg [Hvn _]]]]; [discriminate X|]. inversion Eg; subst gs. cbn [concat] in Gf. rewrite app_nil_r in Gf.
      destruct vals as [|v0 r]; [contradiction Hvn; reflexivity|]. unfold groups_of, get in Gf.
      destruct (fm_get (f_id f) (mt_args (mt st1))) as [e|] eqn:Ge; [|discriminate Gf].
      exists e. split; [exact Ge|]. unfold explicit_m. rewrite (fm_get_forall _ _ _ Hcl Ge). discriminate. }
  destruct Epost as [st E2]. rewrite E2 in Erun.
  (* parse_top *)
  assert (Hnb : is_set s_no_binary_name (derive_cmd d) = false) by (apply (flat_no_binary_flag d Hfl')).
  assert (Hparse : parse_top (derive_cmd d) (bin :: argv) = OOk (into_inner (mt st))).
  { unfold c in Hwf, Erun. rewrite built_eq in Hwf, Erun. rewrite Eargv, (parse_top_inv (derive_cmd d) bin i Hnb Hv Hwf), Erun.
    apply (finish_no_globals _ st (builtg_no_globals d bin Hfl')). }
  (* the matches agree with the printed entries *)
  assert (Hag : forall f v g, at_node (d_nodes d) vs f v -> field_groups f v = Some g ->
            raw_at (f_id f) (ms_args (into_inner (mt st))) = raw_at (f_id f) (field_entry f g)).
  { intros f v g Hat Hg. apply (at_node_list _ _ _ _ Hfo) in Hat. fold fs in Hat. pose proof (at_list_in _ _ _ _ Hat) as Hf.
    pose proof (proj1 (Forall_forall _ _) Hpf f Hf) as Hpff. pose proof (G1 f v Hat) as Gf. unfold fvals in Gf. rewrite Hg in Gf.
    cbn [into_inner ms_args]. rewrite field_entry_raw. unfold raw_at.
    destruct (post_loop_ok c st1 st E2) as [st2 [Ee Ed]].
    destruct (pos_groups f v _ Hpff Hg) as [->|[vals [-> [Hvn _]]]].
    - (* unmentioned: absent at the end *)
      unfold groups_of, get in Gf. destruct (fm_get (f_id f) (mt_args (mt st1))) as [x|] eqn:G0; [discriminate Gf|].
      rewrite (pos_field_default f Hpff).
      assert (Hk0 : exists k0, In (Some k0, f) (annot 1 fs)).
      { apply in_split in Hf. destruct Hf as [la [lb Ef0]]. exists (1 + N.of_nat (length la)). rewrite Ef0.
        apply (annot_suffix d Hlast la (f :: lb) _ (eq_ind _ _ Hpf _ Ef0) eq_refl).
        rewrite (annot_all_pos (f :: lb)); [left; reflexivity|]. rewrite Ef0 in Hpf. apply Forall_app in Hpf. apply Hpf. }
      destruct Hk0 as [k0 Hk0]. pose proof (built_of_in d bin Hfo k0 f Hk0) as Ha. fold c in Ha.
      destruct (built_of_facts k0 f) as (Fid & _ & _ & _ & _ & Fenv & Fifs & Fdef & _). destruct (built_of_delim k0 f) as [Fdl _].
      rewrite <- Fid in G0 |- *.
      rewrite (post_loop_absent c st1 st _ (assert_app_ids_distinct c Happ) P1 E2 Ha Fenv Fifs).
      + rewrite Fdef, (pos_field_default f Hpff). reflexivity.
      + rewrite Fdl. apply Hpff.
      + exact G0.
    - (* mentioned: the entry of the token loop survives the later phases *)
      cbn [concat] in Gf. rewrite app_nil_r in Gf. destruct vals as [|v0 r]; [contradiction Hvn; reflexivity|].
      unfold groups_of, get in Gf. destruct (fm_get (f_id f) (mt_args (mt st1))) as [e|] eqn:Ge; [|discriminate Gf].
      rewrite (add_env_noenv c st1) in Ee.
      2: { intros a Ha. destruct (Hcases a Ha) as [[k [f' [_ ->]]]| ->]; [apply (built_of_facts k f')|reflexivity]. }
      inversion Ee; subst st2. destruct (add_defaults_frame c st1 st P1 Ed) as (_ & _ & _ & Dk & _).
      rewrite (Dk _ _ Ge). cbn [opt_map] in Gf |- *. inversion Gf as [Er]. rewrite Er.
      unfold raw_of. rewrite (pos_field_action f Hpff). destruct (f_ty f); reflexivity. }
  (* extraction *)
  try rewrite Ea. apply (proj2 (parse_factor d (bin :: argv) vs)). exists (into_inner (mt st)). split; [exact Hparse|].
  unfold extract. destruct (extract_fields (d_nodes d) vs p _ Hfo Hnd Hok P Hag) as [m' Ex]. rewrite Ex. reflexivity.
Qed.

(** the "[Vec<T>] is the last field" condition as a boolean *)
Fixpoint vec_last (l : list field) : bool :=
  match l with
  | [] => true
  | f :: t => (match f_ty f with TyVec => is_nil t | _ => true end) && vec_last t
  end.
Lemma vec_last_sound : forall l, vec_last l = true -> forall l1 f l2, l = l1 ++ f :: l2 -> f_ty f = TyVec -> l2 = [].
Proof.
  induction l as [|g t IH]; intros H l1 f l2 E T; [destruct l1; discriminate E|].
  cbn [vec_last] in H. apply andb_prop in H. destruct H as [H1 H2]. destruct l1 as [|g' l1]; cbn [app] in E; inversion E; subst.
  - rewrite T in H1. destruct l2; [reflexivity|discriminate H1].
  - apply (IH H2 l1 f l2 eq_refl T).
Qed.

Theorem roundtrip_parse_positional d bin vs argv :
  fields_only (d_nodes d) = true -> Forall pos_field (fields_of (d_nodes d)) -> NoDup (map f_id (fields_of (d_nodes d))) ->
  vec_last (fields_of (d_nodes d)) = true ->
  ok_nodes (d_nodes d) vs -> pos_prefix (fields_of (d_nodes d)) vs -> pos_fits (fields_of (d_nodes d)) vs ->
  valid (with_bin (derive_cmd d) bin) = true -> print d vs = Some argv ->
  derived_parse d (bin :: argv) = PValue vs.
Proof. intros H1 H2 H3 H4. apply (roundtrip_parse_pos d bin vs argv H1 H2 H3 (vec_last_sound _ H4)). Qed.

(** * non-vacuity: [{ p: u8, q: Option<String>, rest: Vec<String> }], all positional;
    [{7, Some("x"), ["a","b"]}] prints to [-- 7 x a b] *)
Module PosEx.
Definition fp : field := mkField [112] SynPath TU8 KPos None None None None None false.
Definition fq : field := mkField [113] (SynOption SynPath) TStr KPos None None None None None false.
Definition fr : field := mkField [114] (SynVec SynPath) TStr KPos None None None None None false.
Definition d : dinput := mkDinput b_prog [83] (NCons (NArg fp) (NCons (NArg fq) (NCons (NArg fr) NNil))).
Definition v : list dval := [DOne (SvInt 7); DOpt (Some (SvStr [120])); DVec [SvStr [97]; SvStr [98]]].
Definition argv : list bytes := [[45;45]; [55]; [120]; [97]; [98]].
Lemma ex_print : print d v = Some argv. Proof. vm_compute. reflexivity. Qed.
Lemma ex_class : Forall pos_field (fields_of (d_nodes d)).
Proof.
  repeat (apply Forall_cons || apply Forall_nil); unfold pos_field; repeat (split; [reflexivity|]).
  - left. repeat split; try reflexivity. discriminate.
  - right. left. reflexivity.
  - right. right. reflexivity.
Qed.
Lemma ex_nodup : NoDup (map f_id (fields_of (d_nodes d))). Proof. cbn. repeat constructor; cbn; intuition discriminate. Qed.
Lemma ex_ok : ok_nodes (d_nodes d) v.
Proof.
  change (ok_node (NArg fp) (DOne (SvInt 7)) /\ ok_node (NArg fq) (DOpt (Some (SvStr [120])))
          /\ ok_node (NArg fr) (DVec [SvStr [97]; SvStr [98]]) /\ True).
  split; [|split; [|split; [|exact I]]].
  - split; [cbv; intros H; discriminate H|]. constructor; [apply srt_u8|constructor].
  - split; [cbv; auto|]. constructor; [apply srt_str|constructor].
  - split; [cbv; auto|]. constructor; [apply srt_str|constructor; [apply srt_str|constructor]].
Qed.
Lemma ex_prefix : pos_prefix (fields_of (d_nodes d)) v.
Proof. cbn [d_nodes d fields_of pos_prefix v]. repeat split; intros H; vm_compute in H; discriminate H. Qed.
Lemma ex_fits : pos_fits (fields_of (d_nodes d)) v.
Proof.
  intros f x Hat. cbn [d_nodes d fields_of v at_list] in Hat.
  destruct Hat as [[<- <-]|[[<- <-]|[[<- <-]|[]]]]; vm_compute; discriminate.
Qed.
Lemma ex_valid : valid (with_bin (derive_cmd d) b_prog) = true. Proof. vm_compute. reflexivity. Qed.
(** by the theorem ... *)
Theorem ex_roundtrip : derived_parse d (b_prog :: argv) = PValue v.
Proof. exact (roundtrip_parse_positional d b_prog v argv eq_refl ex_class ex_nodup eq_refl ex_ok ex_prefix ex_fits ex_valid ex_print). Qed.
(** ... and by computation *)
Lemma ex_roundtrip_computed : derived_parse d (b_prog :: argv) = PValue v. Proof. vm_compute. reflexivity. Qed.
(** [pos_prefix] is needed: [{7, None, ["a"]}] prints to [-- 7 a], which parses to [{7, Some("a"), []}] *)
Definition v2 : list dval := [DOne (SvInt 7); DOpt None; DVec [SvStr [97]]].
Lemma ex_prefix_needed : print d v2 = Some [[45;45]; [55]; [97]]
  /\ derived_parse d [b_prog; [45;45]; [55]; [97]] = PValue [DOne (SvInt 7); DOpt (Some (SvStr [97])); DVec []]
  /\ ~ pos_prefix (fields_of (d_nodes d)) v2.
Proof.
  split; [vm_compute; reflexivity|]. split; [vm_compute; reflexivity|].
  cbn [d_nodes d fields_of pos_prefix v2]. intros (_ & (H & _)). specialize (H eq_refl). vm_compute in H. discriminate H.
Qed.
End PosEx.
