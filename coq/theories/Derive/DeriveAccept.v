(** Property C15, composition with the parser model (part 5): the command-line phase of the generated command
    ACCEPTS the printed line — every [react] on a printed occurrence group succeeds. *)
From ClapModel Require Import Base.Bytes Base.Machine Base.Utf8.
From ClapModel Require Import Parse.Cmd Parse.Build Parse.Valid Parse.Matcher Parse.Errors Parse.Validator Parse.Parser.
From ClapModel Require Import ParseProofs.Totality ParseProofs.Actions ParseProofs.ActionsLoop ParseProofs.Sources ParseProofs.Dispatch
                              ParseProofs.Unparse ParseProofs.UnparseProofs ParseProofs.UnparseTop
                              ParseProofs.UnparseSub ParseProofs.UnparseTrail ParseProofs.UnparseTree.
From ClapModel Require Import Derive.DeriveModel Derive.DeriveProofs Derive.DeriveCmd Derive.DeriveArgs Derive.DeriveParse.
From Coq Require Import ZArith List Bool Lia.
From RecordUpdate Require Import RecordSet.
Import RecordSetNotations.
Import ListNotations.
Open Scope N_scope.

(** * 1. one storing occurrence succeeds (any command, any argument) *)
Lemma start_push_ok c a s vp vals (st0 : Parser.ps) m :
  wf_m m -> ~ In (a_id a) (groups_for_arg c (a_id a)) -> a_vp a = Some vp ->
  Forall (fun v => vp_parse vp v = None) vals ->
  exists st', (do m2 <- start_custom_arg c a s m; push_arg_values c a vals (st0 <| mt := m2 |>)) = ROk st'.
Proof.
  intros Hwf Hng Evp Hall.
  destruct (start_custom_arg_spec c a s m Hwf) as [m2 [E2 [W2 [P2 [G2 F2]]]]].
  rewrite E2. cbn [rbind]. specialize (G2 Hng). rewrite <- (set_mt_mt st0 m2) in W2, G2.
  set (ma0 := opt_default (marg_new (a_ignore_case a) false) (own_prev c s a (get (a_id a) m))) in *.
  assert (R2 : m_raw (new_val_group (set_source s ma0)) = m_raw ma0 ++ [[]]) by (destruct ma0; reflexivity).
  exact (push_arg_values_ok c a vp Evp vals _ _ _ _ Hall W2 G2 R2).
Qed.

(** the values a storing action pushes *)
Definition stored_vals (a : arg) (vals : list bytes) : list bytes :=
  match a_get_action a with
  | ASetTrue => match vals with [] => [s_true] | _ => vals end
  | ASetFalse => match vals with [] => [s_false] | _ => vals end
  | _ => vals
  end.

Theorem react_core_ok c idn a raw ti st vals vp :
  wf_m (mt st) -> ~ In (a_id a) (groups_for_arg c (a_id a)) ->
  verify_num_args c a raw st = ROk tt -> occ_values c a raw ti = Some vals -> a_vp a = Some vp ->
  Forall (fun v => vp_parse vp v = None) (stored_vals a vals) ->
  match a_get_action a with
  | ASet | ASetTrue | ASetFalse => mt_contains (mt st) (a_id a) = false
  | AAppend => True
  | _ => False
  end ->
  exists st', react_core c idn SCmdLine a raw ti st = ROk (st', PRValuesDone).
Proof.
  intros Hwf Hng Hv Ho Evp Hall Hact. rewrite Actions.react_core_unfold. cbn [is_cmdline]. rewrite Hv. cbn [rbind].
  rewrite Ho. cbn [expect rbind]. unfold react_action, stored_vals in *.
  assert (SL : forall vs bump, mt_contains (mt st) (a_id a) = false -> Forall (fun v => vp_parse vp v = None) vs ->
            exists st', set_like c idn SCmdLine a vs bump st = ROk (st', PRValuesDone)).
  { intros vs bump Hc Hvs. unfold set_like.
    set (st0 := if bump && is_cmdline SCmdLine && is_flag_ident idn then ps_bump st else st).
    assert (Em : mt st0 = mt st) by (unfold st0; destruct (bump && is_cmdline SCmdLine && is_flag_ident idn); [apply ps_bump_mt|reflexivity]).
    rewrite Em. pose proof (mt_remove_wf (mt st) (a_id a) Hwf) as W1. pose proof (mt_remove_removed (mt st) (a_id a)) as R1.
    destruct (mt_remove (mt st) (a_id a)) as [m1 removed]. cbn [fst snd] in W1, R1. rewrite R1, Hc. cbn [andb].
    destruct (start_push_ok c a SCmdLine vp vs (st0 <| mt := m1 |>) m1 W1 Hng Evp Hvs) as [st' E'].
    destruct (start_custom_arg c a SCmdLine m1) as [m2|e s|n]; cbn [rbind] in E' |- *; try discriminate E'.
    rewrite E'. cbn [rbind]. eexists. reflexivity. }
  destruct (a_get_action a); try contradiction.
  - apply SL; assumption.
  - set (st0 := if is_cmdline SCmdLine && is_flag_ident idn then ps_bump st else st).
    assert (Em : mt st0 = mt st) by (unfold st0; destruct (is_cmdline SCmdLine && is_flag_ident idn); [apply ps_bump_mt|reflexivity]).
    rewrite Em. destruct (start_push_ok c a SCmdLine vp vals st0 (mt st) Hwf Hng Evp Hall) as [st' E'].
    destruct (start_custom_arg c a SCmdLine (mt st)) as [m2|e s|n]; cbn [rbind] in E' |- *; try discriminate E'.
    rewrite E'. cbn [rbind]. eexists. reflexivity.
  - apply SL; assumption.
  - apply SL; assumption.
Qed.

(** * 2. the printed occurrences of one field *)
(** what the command itself checks of one printed group: the value count of the occurrence, and the value parser
    on every value it stores (for a Count field: that the built argument is a plain counter) *)
Definition group_accepted (c : cmd) (f : field) (g : list bytes) : Prop :=
  (forall st, verify_num_args c (bf f) g st = ROk tt)
  /\ match field_action f with
     | ACount => count_flag (bf f) /\ g = []
     | _ => exists vp, a_vp (bf f) = Some vp /\
              Forall (fun v => vp_parse vp v = None) (stored_vals (bf f) (match g with [] => bf_dmissing f | _ => g end))
     end.

Lemma map_repeat {A B} (h : A -> B) x n : map h (repeat x n) = repeat (h x) n.
Proof. induction n; [reflexivity|]. cbn [repeat map]. rewrite IHn. reflexivity. Qed.

Section Accept.
Variable d : dinput.
Variable bin : bytes.
Hypothesis Hfo : fields_only (d_nodes d) = true.
Hypothesis Hk : Forall (fun f => kind_ok (f_kind f) = true) (fields_of (d_nodes d)).
Hypothesis Hnd : NoDup (map f_kind (fields_of (d_nodes d))).
Hypothesis Hconv : conv (built d bin) = true.
Local Notation c := (built d bin).

Lemma bf_no_group f x : In f (fields_of (d_nodes d)) -> ~ In (a_id (bf f)) (groups_for_arg c x).
Proof. intros Hf. apply (assert_app_group_ids c (bf f) (conv_app c Hconv) (bf_in d bin Hfo Hk f Hf)). Qed.

Lemma occ_values_field f g : f_delim f = None ->
  occ_values c (bf f) g None = Some (match g with [] => bf_dmissing f | _ => g end).
Proof.
  intros Hd. unfold occ_values. rewrite bf_dmissing_eq.
  assert (D : forall raw ti, delimit c (bf f) raw ti = Some raw).
  { intros raw ti. unfold delimit. destruct (bf_frame f) as (_ & _ & _ & _ & _ & _ & H & _). rewrite H, Hd. reflexivity. }
  destruct g as [|v r]; [destruct (bf_dmissing f)|]; cbn [is_nil negb]; rewrite D; reflexivity.
Qed.

(** one storing occurrence of a field *)
Lemma field_occ_ok f idn g st : In f (fields_of (d_nodes d)) -> f_delim f = None -> group_accepted c f g ->
  match field_action f with
  | ASet | ASetTrue | ASetFalse => mt_contains (mt st) (f_id f) = false
  | AAppend => True
  | _ => False
  end ->
  wf_m (mt st) -> mt_pending (mt st) = None ->
  exists st', react c idn SCmdLine (bf f) g None st = ROk (st', PRValuesDone)
              /\ wf_m (mt st') /\ mt_pending (mt st') = None.
Proof.
  intros Hf Hd [Hv Hacc] Hact Hwf Hp. rewrite (react_no_pending _ _ _ _ _ _ _ Hp).
  assert (Hvp : exists vp, a_vp (bf f) = Some vp /\
            Forall (fun v => vp_parse vp v = None) (stored_vals (bf f) (match g with [] => bf_dmissing f | _ => g end))).
  { destruct (field_action f); try exact Hacc; contradiction. }
  destruct Hvp as [vp [Evp Hall]].
  destruct (react_core_ok c idn (bf f) g None st _ vp Hwf (bf_no_group f _ Hf) (Hv st) (occ_values_field f g Hd) Evp Hall) as [st' E].
  { rewrite bf_action, bf_id. exact Hact. }
  exists st'. split; [exact E|].
  destruct (react_core_spec _ _ _ _ _ _ _ _ _ Hwf (bf_no_group f _ Hf) E) as [vals [_ [W [P _]]]].
  split; [exact W|]. rewrite P. exact Hp.
Qed.

Lemma field_append_ok f (Hf : In f (fields_of (d_nodes d))) : f_delim f = None -> field_action f = AAppend ->
  forall gs st, Forall (group_accepted c f) gs -> wf_m (mt st) -> mt_pending (mt st) = None ->
  exists st', react_all c (field_occs f gs) st = ROk st'.
Proof.
  intros Hd Ha. induction gs as [|g gs IH]; intros st Hall Hwf Hp; [eexists; reflexivity|].
  inversion Hall as [|? ? Hg Hgs]; subst.
  destruct (field_occ_ok f (Some (idn_of f)) g st Hf Hd Hg) as [st1 [E1 [W1 P1]]]; [rewrite Ha; exact I|exact Hwf|exact Hp|].
  destruct (IH st1 Hgs W1 P1) as [st' E']. exists st'.
  change (field_occs f (g :: gs)) with (mkOcc (Some (idn_of f)) SCmdLine (bf f) g None :: field_occs f gs).
  cbn [react_all o_ident o_src o_arg o_raw o_ti]. rewrite E1. cbn [rbind fst]. exact E'.
Qed.

Theorem field_block_ok f gs st : In f (fields_of (d_nodes d)) -> f_delim f = None -> field_form f gs ->
  Forall (group_accepted c f) gs ->
  wf_m (mt st) -> mt_pending (mt st) = None -> mt_contains (mt st) (f_id f) = false ->
  exists st', react_all c (field_occs f gs) st = ROk st'.
Proof.
  intros Hf Hd Hform Hall Hwf Hp Hc. unfold field_form in Hform. destruct (field_action f) eqn:Ha; try contradiction.
  - destruct Hform as [g ->]. inversion Hall as [|? ? Hg _]; subst.
    destruct (field_occ_ok f (Some (idn_of f)) g st Hf Hd Hg) as [st1 [E1 _]]; [rewrite Ha; exact Hc|exact Hwf|exact Hp|].
    exists st1. change (field_occs f [g]) with [mkOcc (Some (idn_of f)) SCmdLine (bf f) g None].
    cbn [react_all o_ident o_src o_arg o_raw o_ti]. rewrite E1. reflexivity.
  - apply (field_append_ok f Hf Hd Ha gs st Hall Hwf Hp).
  - subst gs. inversion Hall as [|? ? Hg _]; subst.
    destruct (field_occ_ok f (Some (idn_of f)) [] st Hf Hd Hg) as [st1 [E1 _]]; [rewrite Ha; exact Hc|exact Hwf|exact Hp|].
    exists st1. change (field_occs f [[]]) with [mkOcc (Some (idn_of f)) SCmdLine (bf f) [] None].
    cbn [react_all o_ident o_src o_arg o_raw o_ti]. rewrite E1. reflexivity.
  - destruct Hform as [n [-> Hn]]. destruct n as [|n]; [lia|]. inversion Hall as [|? ? [_ Hg] _]; subst.
    rewrite Ha in Hg. destruct Hg as [Hcf _].
    assert (G0 : groups_of (a_id (bf f)) (mt st) = enc 0).
    { unfold groups_of, get. rewrite bf_id. unfold mt_contains, fm_contains in Hc.
      destruct (fm_get (f_id f) (mt_args (mt st))); [discriminate Hc|reflexivity]. }
    destruct (count_total c (bf f) (Some (idn_of f)) SCmdLine None Hcf (bf_no_group f _ Hf) (S n) st 0 Hwf Hp G0) as [st' [E' _]].
    exists st'. unfold field_occs. rewrite map_repeat. exact E'.
Qed.

(** * 3. the whole printed line: the command-line phase accepts it *)
Definition accepted_nodes (ns : nodes) (vs : list dval) : Prop :=
  forall f v gs, at_node ns vs f v -> field_groups f v = Some (Some gs) ->
    field_form f gs /\ Forall (group_accepted c f) gs.

Theorem nodes_accepted : forall ns vs st, fields_only ns = true -> incl (fields_of ns) (fields_of (d_nodes d)) ->
  NoDup (map f_id (fields_of ns)) -> Forall (fun f => f_delim f = None) (fields_of ns) ->
  accepted_nodes ns vs ->
  wf_m (mt st) -> mt_pending (mt st) = None ->
  (forall f, In f (fields_of ns) -> mt_contains (mt st) (f_id f) = false) ->
  exists st', react_all c (nodes_occs ns vs) st = ROk st'.
Proof.
  induction ns as [|n t IH]; intros vs st Hfo' Hin Hndi Hdl Hacc Hwf Hp Habs; [eexists; reflexivity|].
  destruct n as [f| |]; cbn [fields_only] in Hfo'; try discriminate Hfo'.
  destruct vs as [|v vt]; [eexists; reflexivity|]. cbn [nodes_occs fields_of map] in *.
  inversion Hndi as [|? ? Hni Hndi']; subst. inversion Hdl as [|? ? Hd Hdl']; subst.
  assert (Hf : In f (fields_of (d_nodes d))) by (apply Hin; left; reflexivity).
  assert (Hin' : incl (fields_of t) (fields_of (d_nodes d))) by (intros x Hx; apply Hin; right; exact Hx).
  assert (Hacc' : accepted_nodes t vt).
  { intros f' v' gs Hat Hg. apply (Hacc f' v' gs); [right; exact Hat|exact Hg]. }
  rewrite react_all_app.
  assert (Hblock : exists st1, react_all c (match field_groups f v with Some (Some gs) => field_occs f gs | _ => [] end) st = ROk st1).
  { destruct (field_groups f v) as [[gs|]|] eqn:G; try (eexists; reflexivity).
    destruct (Hacc f v gs (or_introl (conj eq_refl eq_refl)) G) as [Hform Hall].
    apply (field_block_ok f gs st Hf Hd Hform Hall Hwf Hp). apply Habs. left. reflexivity. }
  destruct Hblock as [st1 E1]. rewrite E1. cbn [rbind].
  (* the state after the block: unique keys, nothing pending, the later fields still absent *)
  assert (Hframe : forall f', In f' (fields_of (d_nodes d)) -> groups_of (f_id f') (mt st1) =
            fold_left (step_abs c (f_id f')) (match field_groups f v with Some (Some gs) => field_occs f gs | _ => [] end)
                      (groups_of (f_id f') (mt st))
            /\ wf_m (mt st1) /\ mt_pending (mt st1) = None).
  { intros f' Hf'. apply (react_all_denote c (f_id f') _ st st1 Hwf Hp); [|exact E1].
    destruct (field_groups f v) as [[gs|]|]; try constructor.
    apply Forall_forall. intros o Ho. unfold field_occs in Ho. apply in_map_iff in Ho. destruct Ho as [g0 [<- _]].
    split; cbn [o_arg]; [apply (bf_no_group f _ Hf)|]. rewrite <- (bf_id f'). apply (bf_no_group f' _ Hf'). }
  destruct (Hframe f Hf) as [_ [W1 P1]].
  apply (IH vt st1 Hfo' Hin' Hndi' Hdl' Hacc' W1 P1).
  intros f' Hf'. destruct (Hframe f' (Hin' f' Hf')) as [G _].
  assert (Hne : f_id f <> f_id f').
  { intros E. apply Hni. rewrite E. apply in_map. exact Hf'. }
  rewrite fold_unrelated in G.
  - unfold groups_of, get in G. pose proof (Habs f' (or_intror Hf')) as A. unfold mt_contains, fm_contains in *.
    destruct (fm_get (f_id f') (mt_args (mt st))); [discriminate A|].
    destruct (fm_get (f_id f') (mt_args (mt st1))); [discriminate G|reflexivity].
  - destruct (field_groups f v) as [[gs|]|]; try constructor.
    apply Forall_forall. intros o Ho. unfold field_occs in Ho. apply in_map_iff in Ho. destruct Ho as [g0 [<- _]].
    split; cbn [o_arg o_src].
    + rewrite bf_id. apply beq_neq. exact Hne.
    + rewrite (overridden_none d bin Hfo Hk (bf f) (f_id f') (bf_in d bin Hfo Hk f Hf)). reflexivity.
Qed.

End Accept.

(** THE COMMAND-LINE PHASE ACCEPTS THE PRINTED LINE.  If every printed group passes the generated argument's own
    value-count check and value parser ([accepted_nodes], stated with the parser's own [verify_num_args] / [vp_parse]),
    every [react] of the token loop succeeds; [get_matches_with] on the printed line is then exactly the
    environment / default / validation phases ([post_loop]) applied to the state that holds the printed groups. *)
Theorem print_cmdline_accepted d bin vs argv fuel :
  opt_struct d -> printable (d_nodes d) vs -> accepted_nodes d bin (d_nodes d) vs ->
  valid (with_bin (derive_cmd d) bin) = true -> print d vs = Some argv ->
  exists st1, react_all (built d bin) (nodes_occs (d_nodes d) vs) ps_new = ROk st1
              /\ get_matches_with (S fuel) (built d bin) argv ps_new = post_loop (built d bin) st1.
Proof.
  intros Hs Hpr Hacc Hv Hp. pose proof Hs as (Hfo & Hof & Hndk & Hndi).
  assert (Hk : Forall (fun f => kind_ok (f_kind f) = true) (fields_of (d_nodes d))).
  { eapply Forall_impl; [|exact Hof]. intros f Hf. apply Hf. }
  assert (Hdl : Forall (fun f => f_delim f = None) (fields_of (d_nodes d))).
  { eapply Forall_impl; [|exact Hof]. intros f Hf. apply Hf. }
  pose proof (built_conv d bin Hfo Hk Hv) as Hconv.
  pose proof (built_no_ignore_errors d bin Hfo) as Hie.
  destruct (print_is_render d bin vs argv Hs Hpr Hp) as (Ea & W & O).
  destruct (nodes_accepted d bin Hfo Hk Hconv (d_nodes d) vs ps_new Hfo (incl_refl _) Hndi Hdl Hacc wf_m_new eq_refl) as [st1 E1].
  { intros f _. reflexivity. }
  exists st1. split; [exact E1|].
  rewrite Ea. cbn [render_inv]. rewrite (gmw_items (built d bin) Hconv Hie fuel _ W), O, E1. reflexivity.
Qed.
