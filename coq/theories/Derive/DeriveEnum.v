(** Property C15, round 5: the value parser of a derived [ValueEnum] field is the real [EnumValueParser].

    [DeriveModel.vp_of .. ic (TEnum e)] = [Cmd.VPPossible ic (enum_pvs e)]: the parser model's
    [PossibleValuesParser] over the possible values of the NON-SKIPPED variants, hidden ones included.
    This file: that parser's language is exactly the domain of the derive model's typed reading
    ([parse_scalar (TEnum e)] = [ValueEnum::from_str] on UTF-8 strings) and of [Value.PossibleValues.enum_parse]
    (the model of [EnumValueParser::parse_ref]); names and aliases of hidden variants are in it, nothing maps to a
    skipped variant; names <-> kept variants is a bijection modulo aliases.  (Until round 5 [VPString] stood in
    for the parser and [derived_parse] re-checked the stored values: [DeriveModel.enum_ok_nodes].) *)
From ClapModel Require Import Base.Bytes Base.Machine Base.Utf8.
From ClapModel Require Import Parse.Cmd Parse.Build Parse.Matcher Parse.Errors Parse.Parser.
From ClapModel Require Import Value.ValueBase Value.PossibleValues Value.PossibleValuesProofs.
From ClapModel Require Import Derive.DeriveModel Derive.DeriveProofs.
From Coq Require Import ZArith List Bool Lia.
Import ListNotations.
Open Scope N_scope.

(** * 1. [enum_pvs] against [lits] *)
Lemma enum_pvs_lits e : forall k, map fst (enum_pvs e) = map snd (lits_from k e).
Proof.
  induction e as [|v e IH]; intros k; cbn [enum_pvs lits_from]; [reflexivity|].
  destruct (vv_skip v); cbn [map fst snd]; rewrite (IH (S k)); reflexivity.
Qed.

Lemma enum_pvs_in e pv h :
  In (pv, h) (enum_pvs e) <-> exists i v, nth_error e i = Some v /\ vv_skip v = false /\ pv = vv_pv v /\ h = vv_hide v.
Proof.
  induction e as [|x e IH]; cbn [enum_pvs].
  - split; [intros []|intros (i & v & H & _); destruct i; discriminate H].
  - destruct (vv_skip x) eqn:Hs.
    + rewrite IH. split.
      * intros (i & v & H1 & H2 & H3 & H4). exists (S i), v. auto.
      * intros (i & v & H1 & H2 & H3 & H4). destruct i as [|i]; cbn [nth_error] in H1.
        { inversion H1; subst. congruence. }
        exists i, v. auto.
    + cbn [In]. rewrite IH. split.
      * intros [H|(i & v & H1 & H2 & H3 & H4)].
        { inversion H; subst. exists O, x. auto. }
        exists (S i), v. auto.
      * intros (i & v & H1 & H2 & H3 & H4). destruct i as [|i]; cbn [nth_error] in H1.
        { inversion H1; subst. left. reflexivity. }
        right. exists i, v. auto.
Qed.

Lemma existsb_is_some_find {A} (f : A -> bool) l : existsb f l = is_some (find f l).
Proof. induction l as [|a l IH]; [reflexivity|]. cbn [existsb find]. destruct (f a); [reflexivity|exact IH]. Qed.

Lemma existsb_map_comp {A B} (g : A -> B) (f : B -> bool) l : existsb f (map g l) = existsb (fun x => f (g x)) l.
Proof. induction l as [|a l IH]; [reflexivity|]. cbn [map existsb]. rewrite IH. reflexivity. Qed.

(** some possible value of the parser matches iff [from_str] finds a variant *)
Lemma enum_any_matches e ic s :
  existsb (fun pv => pv_matches uni pv s ic) (map fst (enum_pvs e)) = is_some (ve_from_str e s ic).
Proof.
  unfold ve_from_str, lits. rewrite (enum_pvs_lits e 0), existsb_map_comp, existsb_is_some_find.
  destruct (find (fun p : nat * possible_value => pv_matches uni (snd p) s ic) (lits_from 0 e)); reflexivity.
Qed.

(** * 2. the language of the field's parser = the domain of the typed reading *)
Theorem enum_accepts_iff cnt e ic s :
  vp_parse (vp_of cnt ic (TEnum e)) s = None <-> exists i, parse_scalar (TEnum e) ic s = Some (SvEnum i).
Proof.
  cbn [vp_of vp_parse parse_scalar]. unfold possible_parse. change clap_unicode with uni.
  destruct (utf8_valid s); cbn [negb].
  - rewrite enum_any_matches. destruct (ve_from_str e s ic) as [i|]; cbn.
    + split; [intros _; exists i; reflexivity|reflexivity].
    + split; [discriminate|intros [i H]; discriminate H].
  - cbn. split; [discriminate|intros [i H]; discriminate H].
Qed.

Lemma enum_accepts_scalar cnt e ic s :
  vp_parse (vp_of cnt ic (TEnum e)) s = None -> is_some (parse_scalar (TEnum e) ic s) = true.
Proof. intros H. apply enum_accepts_iff in H. destruct H as [i ->]. reflexivity. Qed.

Lemma enum_scalar_accepts cnt e ic s x :
  parse_scalar (TEnum e) ic s = Some x -> vp_parse (vp_of cnt ic (TEnum e)) s = None.
Proof.
  intros H. apply enum_accepts_iff. cbn [parse_scalar] in *. destruct (negb (utf8_valid s)); [discriminate H|].
  destruct (ve_from_str e s ic) as [i|]; [|discriminate H]. exists i. reflexivity.
Qed.

(** the one difference between [EnumValueParser] and the [PossibleValuesParser] standing for it: the KIND of the
    rejection of a non-UTF-8 string ([invalid_value] there, [invalid_utf8] here); Ok / Err agree *)
Theorem enum_reject_kind cnt e ic s k :
  vp_parse (vp_of cnt ic (TEnum e)) s = Some k ->
  k = if utf8_valid s then EInvalidValue else EInvalidUtf8.
Proof.
  cbn [vp_of vp_parse]. unfold possible_parse. destruct (utf8_valid s); cbn [negb].
  - destruct (existsb _ _); cbn; intros H; [discriminate H|inversion H; reflexivity].
  - cbn. intros H. inversion H. reflexivity.
Qed.

(** [EnumValueParser::parse_ref] ([Value.PossibleValues.enum_parse] over the same possible values) answers a variant
    exactly on that language, and its rejections are all [InvalidValue] *)
Theorem enum_parse_ref_language e ic s :
  (exists k, enum_parse clap_unicode ic (map fst (enum_pvs e)) s = VOk k) <->
  vp_parse (VPPossible ic (enum_pvs e)) s = None.
Proof.
  cbn [vp_parse]. unfold enum_parse, possible_parse. destruct (utf8_valid s); cbn [negb].
  - induction (map fst (enum_pvs e)) as [|pv l IH].
    + cbn. split; [intros [k H]; discriminate H|discriminate].
    + cbn [existsb]. unfold find_index; fold (@find_index possible_value).
      destruct (pv_matches clap_unicode pv s ic); cbn [orb].
      * cbn. split; [reflexivity|intros _; exists O; reflexivity].
      * split.
        -- intros [k H]. destruct (existsb (fun pv0 => pv_matches clap_unicode pv0 s ic) l) eqn:E; [reflexivity|].
           exfalso. destruct (find_index (fun pv0 => pv_matches clap_unicode pv0 s ic) l 1) as [j|] eqn:F; [|discriminate H].
           apply find_index_spec in F. destruct F as (j0 & x & _ & Hn & Hx & _).
           assert (X : existsb (fun pv0 => pv_matches clap_unicode pv0 s ic) l = true)
             by (apply existsb_exists; exists x; split; [eapply nth_error_In; exact Hn|exact Hx]).
           congruence.
        -- intros H. destruct (existsb (fun pv0 => pv_matches clap_unicode pv0 s ic) l) eqn:E; [|discriminate H].
           apply existsb_exists in E. destruct E as [x [Hin Hx]]. apply In_nth_error in Hin. destruct Hin as [n Hn].
           destruct (find_index (fun pv0 => pv_matches clap_unicode pv0 s ic) l 1) as [j|] eqn:F; [exists j; reflexivity|].
           exfalso. clear - F Hn Hx. revert n F Hn. generalize 1%nat. induction l as [|y l IHl]; intros k n F Hn; [destruct n; discriminate Hn|].
           cbn [find_index] in F. destruct n as [|n]; cbn [nth_error] in Hn.
           { inversion Hn; subst. rewrite Hx in F. discriminate F. }
           destruct (pv_matches clap_unicode y s ic); [discriminate F|]. apply (IHl (S k) n F Hn).
  - cbn. split; [intros [k H]; discriminate H|discriminate].
Qed.

(** * 3. which strings are in the language: names and aliases of KEPT variants -- hidden or not --, nothing else *)
(** every name and alias of a non-skipped variant is accepted, whatever [#[value(hide)]] says *)
Theorem enum_variant_accepted cnt e ic i v n :
  nth_error e i = Some v -> vv_skip v = false ->
  In n (name_and_aliases (vv_pv v)) -> utf8_valid n = true ->
  vp_parse (vp_of cnt ic (TEnum e)) n = None.
Proof.
  intros Hn Hs Hin Hu. apply enum_accepts_iff. cbn [parse_scalar]. rewrite Hu. cbn [negb].
  assert (Hl : In (i, vv_pv v) (lits e)) by (apply lits_spec; exists v; auto).
  assert (Hm : pv_matches uni (vv_pv v) n ic = true) by (apply pv_matches_own; exact Hin).
  unfold ve_from_str.
  destruct (find_some_ex (fun p => pv_matches uni (snd p) n ic) (lits e) (i, vv_pv v) Hl Hm) as [[j pj] Hf].
  rewrite Hf. exists j. reflexivity.
Qed.

(** HIDDEN VARIANTS ARE VALUES: a name or alias of a variant carrying [#[value(hide = true)]] passes the field's value
    parser, and is read as that variant when no other variant claims the string.  ([EnumValueParser::parse_ref] applies
    [is_hide_set] to the list of the error message only; a parser that drops hidden variants before matching -- the
    seeded change -- rejects a string [ValueEnum::from_str] maps to a variant: [hidden_filter_refuted] below.) *)
Theorem enum_hidden_accepted cnt e ic i v n :
  nth_error e i = Some v -> vv_skip v = false -> vv_hide v = true ->
  In n (name_and_aliases (vv_pv v)) -> utf8_valid n = true ->
  In (vv_pv v, true) (enum_pvs e)
  /\ vp_parse (vp_of cnt ic (TEnum e)) n = None
  /\ (names_disjoint ic e -> parse_scalar (TEnum e) ic n = Some (SvEnum i)).
Proof.
  intros Hn Hs Hh Hin Hu. split; [|split].
  - apply enum_pvs_in. exists i, v. auto.
  - apply (enum_variant_accepted cnt e ic i v n Hn Hs Hin Hu).
  - intros Hd. cbn [parse_scalar]. rewrite Hu. cbn [negb].
    rewrite (value_enum_names e ic i v n Hd Hn Hs Hin). reflexivity.
Qed.

(** whatever the parser accepts is claimed by a NON-SKIPPED variant, and is read as such a variant *)
Theorem enum_language_kept cnt e ic s :
  vp_parse (vp_of cnt ic (TEnum e)) s = None ->
  utf8_valid s = true /\
  exists i v, nth_error e i = Some v /\ vv_skip v = false /\ pv_matches uni (vv_pv v) s ic = true
              /\ parse_scalar (TEnum e) ic s = Some (SvEnum i).
Proof.
  intros H. apply enum_accepts_iff in H. destruct H as [i H]. cbn [parse_scalar] in H.
  destruct (utf8_valid s) eqn:U; cbn [negb] in H; [|discriminate H]. split; [reflexivity|].
  destruct (ve_from_str e s ic) as [j|] eqn:F; [|discriminate H]. cbn in H.
  destruct (value_enum_sound e s ic j F) as (v & H1 & H2 & H3). exists j, v.
  split; [exact H1|]. split; [exact H2|]. split; [exact H3|].
  cbn [parse_scalar]. rewrite U, F. reflexivity.
Qed.

(** SKIPPED VARIANTS ARE NOT IN THE LANGUAGE: a string no kept variant claims is rejected -- even if it is the name the
    casing rule would give a [#[value(skip)]] variant --, and no string is read as a skipped variant *)
Theorem enum_skipped_rejected cnt e ic s :
  (forall i v, nth_error e i = Some v -> vv_skip v = false -> pv_matches uni (vv_pv v) s ic = false) ->
  vp_parse (vp_of cnt ic (TEnum e)) s <> None.
Proof.
  intros Hno H. destruct (enum_language_kept cnt e ic s H) as (_ & i & v & H1 & H2 & H3 & _).
  rewrite (Hno i v H1 H2) in H3. discriminate H3.
Qed.

Theorem enum_never_reads_skipped e ic s i v :
  nth_error e i = Some v -> vv_skip v = true -> parse_scalar (TEnum e) ic s <> Some (SvEnum i).
Proof.
  intros Hn Hs H. cbn [parse_scalar] in H. destruct (negb (utf8_valid s)); [discriminate H|].
  destruct (ve_from_str e s ic) as [j|] eqn:F; [|discriminate H]. cbn in H. inversion H; subst j.
  destruct (value_enum_skipped e i v Hn Hs) as [_ Hx]. exact (Hx s ic F).
Qed.

(** * 4. names <-> kept variants: a bijection modulo aliases *)
Theorem enum_bijection e ic :
  names_disjoint ic e ->
  (* the canonical name of a kept variant is printed for it and reads back as it *)
  (forall i v, nth_error e i = Some v -> vv_skip v = false -> utf8_valid (pv_name (vv_pv v)) = true ->
     print_scalar (TEnum e) (SvEnum i) = Some (pv_name (vv_pv v))
     /\ parse_scalar (TEnum e) ic (pv_name (vv_pv v)) = Some (SvEnum i))
  (* an accepted string is a name or alias of the variant it is read as, of no other kept variant, and the canonical name
     printed for that variant denotes the same variant *)
  /\ (forall s i, parse_scalar (TEnum e) ic s = Some (SvEnum i) ->
        exists v, nth_error e i = Some v /\ vv_skip v = false
                  /\ (exists n, In n (name_and_aliases (vv_pv v)) /\ name_eq uni ic n s)
                  /\ print_scalar (TEnum e) (SvEnum i) = Some (pv_name (vv_pv v))
                  /\ (forall j w, nth_error e j = Some w -> vv_skip w = false ->
                                  pv_matches uni (vv_pv w) s ic = true -> j = i))
  (* two kept variants never share the canonical name *)
  /\ (forall i j n, print_scalar (TEnum e) (SvEnum i) = Some n -> print_scalar (TEnum e) (SvEnum j) = Some n -> i = j).
Proof.
  intros Hd. split; [|split].
  - intros i v Hn Hs Hu. split.
    + cbn [print_scalar]. unfold ve_to_possible_value. rewrite Hn, Hs. reflexivity.
    + cbn [parse_scalar]. rewrite Hu. cbn [negb].
      rewrite (value_enum_names e ic i v (pv_name (vv_pv v)) Hd Hn Hs); [reflexivity|left; reflexivity].
  - intros s i H. cbn [parse_scalar] in H. destruct (negb (utf8_valid s)); [discriminate H|].
    destruct (ve_from_str e s ic) as [j|] eqn:F; [|discriminate H]. cbn in H. inversion H; subst j.
    destruct (value_enum_sound e s ic i F) as (v & H1 & H2 & H3). exists v. split; [exact H1|]. split; [exact H2|].
    split; [apply pv_matches_spec; exact H3|]. split.
    + cbn [print_scalar]. unfold ve_to_possible_value. rewrite H1, H2. reflexivity.
    + intros j w Hj Hw Hm. apply (Hd j i (vv_pv w) (vv_pv v) s); [apply nth_error_lits; assumption|apply nth_error_lits; assumption|exact Hm|exact H3].
  - intros i j n Hi Hj. cbn [print_scalar] in Hi, Hj. unfold ve_to_possible_value in Hi, Hj.
    destruct (nth_error e i) as [v|] eqn:Ni; [|discriminate Hi]. destruct (vv_skip v) eqn:Si; [discriminate Hi|].
    destruct (nth_error e j) as [w|] eqn:Nj; [|discriminate Hj]. destruct (vv_skip w) eqn:Sj; [discriminate Hj|].
    cbn in Hi, Hj. inversion Hi as [Hi']. inversion Hj as [Hj'].
    apply (Hd i j (vv_pv v) (vv_pv w) n); [apply nth_error_lits; assumption|apply nth_error_lits; assumption| |].
    + apply pv_matches_own. left. exact Hi'.
    + apply pv_matches_own. left. exact Hj'.
Qed.

(** * 5. examples: the corpus enum [EnC]-like {alpha, beta (skip), delta (hidden; alias "d")} *)
Definition ex_henum : venum :=
  [mkVv false {| pv_name := [97; 108; 112; 104; 97]; pv_aliases := [] |} false;
   mkVv true  {| pv_name := [98; 101; 116; 97]; pv_aliases := [] |} false;
   mkVv false {| pv_name := [100; 101; 108; 116; 97]; pv_aliases := [[100]] |} true].

(** the hypotheses of [enum_hidden_accepted] hold for the hidden variant's alias "d"; the skipped "beta" is rejected;
    and the parser that filters hidden variants out (the seeded change) rejects "d" although [from_str] reads it *)
Definition enum_pvs_visible (e : venum) := filter (fun p => negb (snd p)) (enum_pvs e).
Example hidden_accepted_example :
  nth_error ex_henum 2 = Some (mkVv false {| pv_name := [100; 101; 108; 116; 97]; pv_aliases := [[100]] |} true)
  /\ vp_parse (vp_of false false (TEnum ex_henum)) [100] = None
  /\ vp_parse (vp_of false true (TEnum ex_henum)) [68; 69; 76; 84; 65] = None          (* "DELTA" under ignore_case *)
  /\ vp_parse (vp_of false false (TEnum ex_henum)) [68; 69; 76; 84; 65] = Some EInvalidValue
  /\ parse_scalar (TEnum ex_henum) false [100] = Some (SvEnum 2)
  /\ vp_parse (vp_of false false (TEnum ex_henum)) [98; 101; 116; 97] = Some EInvalidValue.
Proof. vm_compute. repeat split; reflexivity. Qed.

Theorem hidden_filter_refuted :
  exists e ic s i, ve_from_str e s ic = Some i /\ vp_parse (VPPossible ic (enum_pvs_visible e)) s <> None.
Proof. exists ex_henum, false, [100], 2%nat. split; [vm_compute; reflexivity|vm_compute; discriminate]. Qed.

Lemma ex_henum_disjoint_cs : names_disjoint false ex_henum.
Proof.
  intros i j pi pj s Hi Hj Mi Mj. apply lits_spec in Hi, Hj.
  destruct Hi as (v & Hi & Si & ->), Hj as (w & Hj & Sj & ->).
  unfold pv_matches in Mi, Mj. apply existsb_exists in Mi, Mj.
  destruct Mi as (a & Ia & Ea), Mj as (b & Ib & Eb). apply beq_eq in Ea, Eb. subst s.
  destruct i as [|[|[|i]]]; cbn in Hi; try (destruct i; discriminate Hi); inversion Hi; subst v; try discriminate Si;
  destruct j as [|[|[|j]]]; cbn in Hj; try (destruct j; discriminate Hj); inversion Hj; subst w; try discriminate Sj;
  try reflexivity; exfalso; cbn in Ia, Ib; intuition (subst; discriminate).
Qed.
