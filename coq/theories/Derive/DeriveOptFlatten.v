(** Property C15, round 5 (3): [try_update_from] on [#[command(flatten)] x: Option<Inner>] when the value is ALREADY [Some]:
    [gen_updater]'s [Some] arm updates the inner struct IN PLACE ([update_from_arg_matches_mut] on the members), so a member
    the line does not name keeps its value and the flatten stays [Some].  (The [None] arm builds the struct from the matches:
    the recorded finding C15-update-optflatten-materialised -- unchanged.)

    [field_ato] looks a leaf field up through required flattens AND through optional flattens whose value is [Some]
    ([DeriveProofs.field_at] stops at optional flattens).  Matches level: [frame_field_ato]; all argv: the statement of
    DeriveUpdateLine.v for this lookup. *)
From ClapModel Require Import Base.Bytes Base.Machine Base.Utf8.
From ClapModel Require Import Parse.Cmd Parse.Build Parse.Valid Parse.Matcher Parse.Errors Parse.Validator Parse.Parser.
From ClapModel Require Import ParseProofs.Totality ParseProofs.TotalityMain ParseProofs.Actions ParseProofs.Sources ParseProofs.Dispatch
                              ParseProofs.KindSound
                              ParseProofs.Unparse ParseProofs.UnparseProofs ParseProofs.UnparseTop
                              ParseProofs.UnparseSub ParseProofs.UnparseTrail ParseProofs.UnparseTree.
From ClapModel Require Import Derive.DeriveModel Derive.DeriveProofs Derive.DeriveCmd Derive.DeriveArgs Derive.DeriveParse
                              Derive.DeriveUpdate Derive.DeriveFlat Derive.DeriveUpdateLine.
From Coq Require Import ZArith List Bool Lia.
From RecordUpdate Require Import RecordSet.
Import RecordSetNotations.
Import ListNotations.
Open Scope N_scope.

(** * 1. the [Some] arm of [gen_updater] for an optional flatten: update in place *)
Theorem update_optflatten_some gid body fs m v' m' :
  update_node (NFlatten true gid body) (DOptStruct (Some fs)) m = XOk (v', m') ->
  exists fs', v' = DOptStruct (Some fs') /\ update_nodes body fs m = XOk (fs', m').
Proof.
  cbn [update_node]. intros H. xinv H. destruct r as [fs' m1]. inversion H; subst. exists fs'. split; reflexivity.
Qed.

(** * 2. lookup through present optional flattens *)
Fixpoint field_ato (ns : nodes) (vs : list dval) (i : id) {struct ns} : option dval :=
  match ns, vs with
  | NCons n t, v :: vt =>
      match field_ato_node n v i with
      | Some x => Some x
      | None => field_ato t vt i
      end
  | _, _ => None
  end
with field_ato_node (n : node) (v : dval) (i : id) {struct n} : option dval :=
  match n, v with
  | NArg f, _ => if beq (f_id f) i then Some v else None
  | NFlatten false _ body, DStruct fs => field_ato body fs i
  | NFlatten true _ body, DOptStruct (Some fs) => field_ato body fs i
  | _, _ => None
  end.

Lemma field_ato_ids :
  (forall n v i x, field_ato_node n v i = Some x -> In i (level_ids_node n))
  /\ (forall ns vs i x, field_ato ns vs i = Some x -> In i (level_ids ns))
  /\ (forall vs : variants, True).
Proof.
  apply derive_mutind; try (intros; exact I).
  - intros f v i x H. cbn [field_ato_node] in H. destruct (beq (f_id f) i) eqn:E; [|discriminate H].
    apply beq_eq in E. left. exact E.
  - intros opt gid body IH v i x H. cbn [level_ids_node]. right. destruct opt; cbn [field_ato_node] in H.
    + destruct v; try discriminate H. destruct o as [fs|]; [|discriminate H]. apply (IH fs i x H).
    + destruct v; try discriminate H. apply (IH fs i x H).
  - intros opt vs _ v i x H. destruct v; discriminate H.
  - intros vs i x H. discriminate H.
  - intros n IHn t IHt vs i x H. destruct vs as [|v vt]; [discriminate H|]. cbn [field_ato] in H. cbn [level_ids].
    apply in_or_app. destruct (field_ato_node n v i) as [y|] eqn:F.
    + left. apply (IHn v i y F).
    + right. apply (IHt vt i x H).
Qed.

(** the frame of one update, for this lookup: a field whose id is not in the matches and that IS reachable in the old value
    (every optional flatten on the way is [Some]) is reachable in the new value, with the same value *)
Lemma frame_field_ato :
  (forall n m v v' i x, wf_node n -> frame_node n m v v' -> m_contains i m = false ->
     field_ato_node n v i = Some x -> field_ato_node n v' i = Some x)
  /\ (forall ns m vs vs' i x, wf_nodes ns -> frame_nodes ns m vs vs' -> m_contains i m = false ->
     field_ato ns vs i = Some x -> field_ato ns vs' i = Some x)
  /\ (forall vs : variants, True).
Proof.
  apply derive_mutind; try (intros; exact I).
  - intros f m v v' i x _ F C H. cbn [field_ato_node] in *. destruct (beq (f_id f) i) eqn:E; [|discriminate H].
    apply beq_eq in E. subst i. cbn [frame_node] in F. rewrite (F C). exact H.
  - intros opt gid body IH m v v' i x [_ W] F C H. destruct opt; cbn [frame_node] in F.
    + destruct v; try discriminate H. destruct o as [fs|]; [|discriminate H].
      destruct F as (fs' & -> & F). cbn [field_ato_node] in *. apply (IH m fs fs' i x W F C H).
    + destruct F as (fs & fs' & -> & -> & F). cbn [field_ato_node] in *. apply (IH m fs fs' i x W F C H).
  - intros opt vs _ m v v' i x _ _ _ H. destruct v; discriminate H.
  - intros m vs vs' i x _ _ _ H. discriminate H.
  - intros n IHn t IHt m vs vs' i x (Wn & Wt & Wd & _) F C H.
    destruct vs as [|v vt]; [discriminate H|]. destruct vs' as [|v' vt']; [destruct F|]. cbn [frame_nodes] in F. destruct F as [F1 F2].
    cbn [field_ato] in *. destruct (field_ato_node n v i) as [y|] eqn:Fo.
    + rewrite (IHn m v v' i y Wn F1 C Fo). exact H.
    + pose proof (IHt m vt vt' i x Wt F2 C H) as Ht.
      destruct (field_ato_node n v' i) as [z|] eqn:Fn; [|exact Ht].
      exfalso. apply (Wd i).
      * apply (proj1 field_ato_ids n v' i z Fn).
      * apply (proj1 (proj2 field_ato_ids) t vt i x H).
Qed.

(** matches level, every derive input: one [update] keeps every reachable field whose id is not in the matches *)
Theorem update_frame_ato d vs m vs' i x :
  wf_nodes (d_nodes d) -> update d vs m = XOk vs' -> m_contains i m = false ->
  field_ato (d_nodes d) vs i = Some x -> field_ato (d_nodes d) vs' i = Some x.
Proof.
  intros W U C H. apply (proj1 (proj2 frame_field_ato) (d_nodes d) m vs vs' i x W (update_frame d vs m vs' U) C H).
Qed.

(** * 3. all argv *)
(** UPDATE IN PLACE BELOW A PRESENT OPTIONAL FLATTEN, ALL ARGV: for every struct of argument fields and (optional) flattened
    structs whose update command passes clap's assertions, every line and every leaf field whose argument has no default:
    if the field is reachable in the current value -- every [Option<Inner>] on the way is [Some] -- and no token names its
    argument, then after a successful [try_update_from] it is still reachable (the flattens are still [Some]) and has the
    same value. *)
Theorem update_unoccurring_untouched_opt d bin toks vs vs' f x :
  flat_nodes (d_nodes d) = true -> wf_nodes (d_nodes d) -> In f (leaves (d_nodes d)) -> bf_default f = [] ->
  valid (with_bin (derive_cmd_for_update d) bin) = true ->
  (forall a, In a (c_args (builtu d bin)) -> a_id a = f_id f -> ~ occurs (builtu d bin) toks a) ->
  derived_update d vs (bin :: toks) = PValue vs' ->
  field_ato (d_nodes d) vs (f_id f) = Some x -> field_ato (d_nodes d) vs' (f_id f) = Some x.
Proof.
  intros Hfo Hwf Hf Hdef Hv Hocc Hupd Hx.
  unfold derived_update in Hupd.
  assert (Hnb : is_set s_no_binary_name (derive_cmd_for_update d) = false).
  { unfold derive_cmd_for_update. rewrite (derive_cmd_flat true d Hfo). reflexivity. }
  assert (E : parse_top (derive_cmd_for_update d) (bin :: toks) = do_parse (with_bin (derive_cmd_for_update d) bin) toks).
  { unfold parse_top. rewrite Hnb. reflexivity. }
  rewrite E, do_parse_unfold, Hv in Hupd. cbn [negb] in Hupd. fold (builtu d bin) in Hupd.
  destruct (get_matches_with (S (S (depth (builtu d bin)))) (builtu d bin) toks ps_new) as [st|e st|n] eqn:G.
  2: { unfold finish_outcome in Hupd. fold (builtu d bin) in Hupd. rewrite (builtu_is_set d bin Hfo) in Hupd. discriminate Hupd. }
  2: { unfold finish_outcome in Hupd. destruct n; discriminate Hupd. }
  rewrite (finish_no_globals _ st (builtu_no_globals_tree d bin Hfo)) in Hupd.
  set (m := into_inner (mt st)) in *.
  cbn [of_outcome] in Hupd.
  destruct (update d vs m) as [r|k|s] eqn:U; cbn [of_xres] in Hupd; try discriminate Hupd.
  inversion Hupd; subst r; clear Hupd.
  destruct (builtuf_field d bin Hfo f Hf) as [a (Ha & Hid & Henv & Hifs & Hda)].
  assert (Gf : fm_get (a_id a) (mt_args (mt st)) = None).
  { apply (unoccurring_absent d bin Hfo Hv toks st a Ha Henv Hifs (eq_trans Hda Hdef)); [|exact G].
    intros a2 Ha2 E2. apply (Hocc a2 Ha2). rewrite E2. exact Hid. }
  rewrite Hid in Gf.
  apply (update_frame_ato d vs m vs' (f_id f) x Hwf U); [|exact Hx].
  rewrite m_contains_get. unfold m. cbn [into_inner ms_args]. rewrite Gf. reflexivity.
Qed.

(** * 4. non-vacuity: [{ t: Option<String>, #[command(flatten)] opt: Option<Inner { e: Option<u8>, g: Option<u8> }> }],
      value [{ t: None, opt: Some { e: Some(5), g: Some(6) } }] updated from [prog --ee 9]: [g] is named by no token, the flatten
      stays [Some], [g] keeps 6 (and [e] becomes 9: updated in place, not rebuilt) *)
From ClapModel Require Import ParseProofs.TypedInv.
Module OptFlattenEx.
Definition b_prog : bytes := [112; 114; 111; 103].
Definition ft : field := mkField [116] (SynOption SynPath) TStr (KLong [116;116]) None None None None None false.
Definition fe : field := mkField [101] (SynOption SynPath) TU8 (KLong [101;101]) None None None None None false.
Definition fg : field := mkField [103] (SynOption SynPath) TU8 (KLong [103;103]) None None None None None false.
Definition inner : nodes := NCons (NArg fe) (NCons (NArg fg) NNil).
Definition ns : nodes := NCons (NArg ft) (NCons (NFlatten true [73] inner) NNil).
Definition d : dinput := mkDinput b_prog [83] ns.
Definition v0 : list dval := [DOpt None; DOptStruct (Some [DOpt (Some (SvInt 5)); DOpt (Some (SvInt 6))])].
Definition v1 : list dval := [DOpt None; DOptStruct (Some [DOpt (Some (SvInt 9)); DOpt (Some (SvInt 6))])].
Definition toks : list bytes := [[45;45;101;101]; [57]].

Local Notation cu := (builtu d b_prog).
Definition ag : arg := nth 2 (c_args cu) help_arg.
Lemma some_inj {A} (x y : A) : Some x = Some y -> x = y.
Proof. intros H. inversion H. reflexivity. Qed.
Lemma f_app : assert_app cu = true. Proof. vm_compute. reflexivity. Qed.
Lemma f_find : find_arg cu (f_id fg) = Some ag. Proof. vm_compute. reflexivity. Qed.
Lemma f_long : get_long cu [101;101] <> Some ag. Proof. vm_compute. discriminate. Qed.
Lemma f_infer : is_set s_infer_long cu = false. Proof. vm_compute. reflexivity. Qed.
Lemma f_index : a_index ag = None. Proof. vm_compute. reflexivity. Qed.
Lemma ex_unnamed : forall a, In a (c_args cu) -> a_id a = f_id fg -> ~ occurs cu toks a.
Proof.
  intros a Ha Hid. pose proof (TypedInv.assert_app_W3 cu f_app a Ha) as W. rewrite Hid, f_find in W.
  apply some_inj in W. subst a. clear Ha Hid. intros [tok [Hin Hn]].
  destruct Hin as [<-|[<-|[]]]; destruct Hn as [[f [ok [v [Hl Hs]]]]|[[r [Hr Hs]]|Hi]];
    try (vm_compute in Hl; discriminate Hl); try (vm_compute in Hr; discriminate Hr); try (apply Hi; exact f_index).
  vm_compute in Hl. inversion Hl; subst f ok v. destruct Hs as [Hg|[Hinf _]].
  - exact (f_long Hg).
  - rewrite f_infer in Hinf. discriminate Hinf.
Qed.
Lemma ex_wf : wf_nodes (d_nodes d).
Proof. cbn. unfold disjoint. cbn. intuition congruence. Qed.
Lemma ex_facts :
  flat_nodes (d_nodes d) = true /\ In fg (leaves (d_nodes d)) /\ bf_default fg = []
  /\ valid (UnparseTree.with_bin (derive_cmd_for_update d) b_prog) = true
  /\ derived_update d v0 (b_prog :: toks) = PValue v1
  /\ field_ato (d_nodes d) v0 (f_id fg) = Some (DOpt (Some (SvInt 6%Z)))
  /\ field_at (d_nodes d) v0 (f_id fg) = None.
Proof. split; [reflexivity|]. split; [right; right; left; reflexivity|]. repeat split; vm_compute; reflexivity. Qed.
(** by the theorem *)
Theorem ex_in_place : field_ato (d_nodes d) v1 (f_id fg) = Some (DOpt (Some (SvInt 6%Z))).
Proof.
  destruct ex_facts as (H1 & H2 & H3 & H4 & H5 & H6 & _).
  exact (update_unoccurring_untouched_opt d b_prog toks v0 v1 fg _ H1 ex_wf H2 H3 H4 ex_unnamed H5 H6).
Qed.
(** the [None] arm is the recorded finding: the same line applied to [opt: None] materialises the flatten *)
Lemma ex_none_arm : derived_update d [DOpt None; DOptStruct None] [b_prog]
                    = PValue [DOpt None; DOptStruct (Some [DOpt None; DOpt None])].
Proof. vm_compute. reflexivity. Qed.
End OptFlattenEx.
