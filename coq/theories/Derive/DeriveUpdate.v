(** Property C15, composition with the parser model (part 4): [try_update_from] changes only fields NAMED ON THE
    COMMAND LINE, with "named" defined by the line: the field's argument has no occurrence in the invocation
    (C02's [occs]).  For fields whose argument carries no default (neither [default_value] nor an action default,
    i.e. not a flag / counter: for those the statement is refuted, [C15_update_frame_argv_refuted]). *)
From ClapModel Require Import Base.Bytes Base.Machine Base.Utf8.
From ClapModel Require Import Parse.Cmd Parse.Build Parse.Valid Parse.Matcher Parse.Errors Parse.Validator Parse.Parser.
From ClapModel Require Import ParseProofs.Totality ParseProofs.Actions ParseProofs.Sources ParseProofs.Dispatch
                              ParseProofs.Unparse ParseProofs.UnparseProofs ParseProofs.UnparseTop
                              ParseProofs.UnparseSub ParseProofs.UnparseTrail ParseProofs.UnparseTree.
From ClapModel Require Import Derive.DeriveModel Derive.DeriveProofs Derive.DeriveCmd Derive.DeriveArgs Derive.DeriveParse.
From Coq Require Import ZArith List Bool Lia.
From RecordUpdate Require Import RecordSet.
Import RecordSetNotations.
Import ListNotations.
Open Scope N_scope.

(** * 1. the update flavour of the generated argument: [.required(false)] on top of the parse flavour *)
Definition field_arg_cfu (f : field) : arg :=
  mkArg (f_id f)
    (match f_kind f with KShort c => Some c | _ => None end)
    (match f_kind f with KLong l => Some l | _ => None end)
    [] [] None (Some (field_action f)) (field_num f)
    0 (f_delim f) None (field_vp f) false
    false false false false false false false false (f_icase f)
    (match f_default f with Some d => [d] | None => [] end) [] [] None [] [] [] [] [] [] [] [] None.

Transparent field_arg.
Lemma field_arg_update_closed f : field_arg true f = field_arg_cfu f.
Proof.
  unfold field_arg, field_arg_cfu, field_num, field_required, field_vp, f_is_positional.
  generalize (field_action f). intros act.
  destruct (f_ty f), (f_kind f), (f_default f), (f_required f) as [[|]|], (f_num f), (f_delim f), (f_icase f); reflexivity.
Qed.
Global Opaque field_arg.

Notation bu f := (arg_build (field_arg true f)) (only parsing).

Lemma bu_frame f :
  a_id (bu f) = f_id f /\ a_env (bu f) = None /\ a_default_ifs (bu f) = [] /\ a_global (bu f) = false
  /\ a_default (bu f) = bf_default f.
Proof.
  destruct (arg_build_frame (field_arg true f)) as (H1 & _ & _ & _ & _ & _ & _ & _ & H9 & H10 & _).
  destruct (arg_build_id (field_arg true f)) as [_ Hg].
  rewrite H1, H9, H10, Hg. rewrite field_arg_update_closed.
  split; [reflexivity|]. split; [reflexivity|]. split; [reflexivity|]. split; [reflexivity|].
  unfold bf_default, arg_build, field_arg_cfu.
  destruct (field_num f) as [r|], (field_vp f) as [v|], (f_default f) as [d|], (field_action f); reflexivity.
Qed.

(** * 2. the built update command *)
Definition builtu (d : dinput) (bin : bytes) : cmd := build_self (with_bin (derive_cmd_for_update d) bin).

Lemma set_index_frame (a : arg) k :
  a_id (a <| a_index := Some k |>) = a_id a /\ a_env (a <| a_index := Some k |>) = a_env a
  /\ a_default_ifs (a <| a_index := Some k |>) = a_default_ifs a /\ a_global (a <| a_index := Some k |>) = a_global a
  /\ a_default (a <| a_index := Some k |>) = a_default a.
Proof. destruct a. repeat split; reflexivity. Qed.

(** every built argument is [Arg::_build] of a source argument, possibly with its positional index filled in *)
Definition core_of (a0 a' : arg) : Prop :=
  a_id a' = a_id (arg_build a0) /\ a_env a' = a_env (arg_build a0) /\ a_default_ifs a' = a_default_ifs (arg_build a0)
  /\ a_global a' = a_global (arg_build a0) /\ a_default a' = a_default (arg_build a0).
Lemma bargs_spec : forall args pc, Forall2 core_of args (bargs pc args).
Proof.
  induction args as [|a t IH]; intros pc; [constructor|]. cbn [bargs].
  destruct (a_is_positional (arg_build a) && negb (is_some (a_index (arg_build a)))).
  - constructor; [|apply IH]. unfold core_of. destruct (set_index_frame (arg_build a) pc) as (H1 & H2 & H3 & H4 & H5).
    rewrite H1, H2, H3, H4, H5. repeat split; reflexivity.
  - constructor; [|apply IH]. unfold core_of. repeat split; reflexivity.
Qed.
Lemma Forall2_in_l {A B} (R : A -> B -> Prop) l l' x : Forall2 R l l' -> In x l -> exists y, In y l' /\ R x y.
Proof.
  intros H. induction H as [|a b l l' Hab H IH]; intros Hin; [destruct Hin|].
  destruct Hin as [<-|Hin]; [exists b; split; [left; reflexivity|exact Hab]|].
  destruct (IH Hin) as [y [Hy Hr]]. exists y. split; [right; exact Hy|exact Hr].
Qed.
Lemma Forall2_in_r {A B} (R : A -> B -> Prop) l l' y : Forall2 R l l' -> In y l' -> exists x, In x l /\ R x y.
Proof.
  intros H. induction H as [|a b l l' Hab H IH]; intros Hin; [destruct Hin|].
  destruct Hin as [<-|Hin]; [exists a; split; [left; reflexivity|exact Hab]|].
  destruct (IH Hin) as [x [Hx Hr]]. exists x. split; [right; exact Hx|exact Hr].
Qed.

Lemma field_arg_update_groups f : a_groups (field_arg true f) = [].
Proof. rewrite field_arg_update_closed. reflexivity. Qed.

Section Update.
Variable d : dinput.
Variable bin : bytes.
Hypothesis Hfo : fields_only (d_nodes d) = true.

Lemma builtu_root :
  builtu d bin = build_self (root_cmd (d_name d) (map (field_arg true) (fields_of (d_nodes d)))
                                     [struct_group (d_gid d) (d_nodes d)] (bin_of bin)).
Proof. unfold builtu, derive_cmd_for_update. rewrite (derive_cmd_fields true d Hfo), with_bin_root. reflexivity. Qed.

Lemma builtu_args : c_args (builtu d bin) = bargs 1 (map (field_arg true) (fields_of (d_nodes d)) ++ [help_arg]).
Proof.
  rewrite builtu_root, root_built_args, build_args_bargs; [reflexivity|].
  apply Forall_app. split; [|constructor; [reflexivity|constructor]].
  apply Forall_forall. intros a Ha. apply in_map_iff in Ha. destruct Ha as [f [<- _]]. apply field_arg_update_groups.
Qed.
Lemma builtu_subs : c_subs (builtu d bin) = [].
Proof. rewrite builtu_root. apply root_built_subs. Qed.

(** the built argument of a field: same id, no env, no conditional defaults, the field's default list *)
Lemma builtu_field f : In f (fields_of (d_nodes d)) ->
  exists a, In a (c_args (builtu d bin)) /\ a_id a = f_id f /\ a_env a = None /\ a_default_ifs a = []
            /\ a_default a = bf_default f.
Proof.
  intros Hf. rewrite builtu_args.
  destruct (Forall2_in_l _ _ _ (field_arg true f) (bargs_spec (map (field_arg true) (fields_of (d_nodes d)) ++ [help_arg]) 1))
    as [a [Ha (H1 & H2 & H3 & _ & H5)]].
  { apply in_or_app. left. apply in_map. exact Hf. }
  exists a. split; [exact Ha|].
  destruct (bu_frame f) as (B1 & B2 & B3 & _ & B5). rewrite H1, H2, H3, H5. auto.
Qed.

Lemma builtu_no_globals : forallb (fun a => negb (a_global a)) (c_args (builtu d bin)) = true.
Proof.
  apply forallb_forall. intros a Ha. rewrite builtu_args in Ha.
  destruct (Forall2_in_r _ _ _ a (bargs_spec (map (field_arg true) (fields_of (d_nodes d)) ++ [help_arg]) 1) Ha)
    as [a0 [Ha0 (_ & _ & _ & Hg & _)]].
  rewrite Hg. apply in_app_or in Ha0. destruct Ha0 as [Ha0|[<-|[]]].
  - apply in_map_iff in Ha0. destruct Ha0 as [f [<- _]]. destruct (bu_frame f) as (_ & _ & _ & G & _).
    rewrite G. reflexivity.
  - reflexivity.
Qed.

End Update.

(** * 3. an argument without occurrence and without default has no entry in the matches *)
Lemma count_zero_absent i : forall os, Actions.count_occ i os = 0%nat -> Forall (fun o => beq (a_id (o_arg o)) i = false) os.
Proof.
  induction os as [|o os IH]; intros H; [constructor|]. cbn [Actions.count_occ] in H.
  destruct (beq (a_id (o_arg o)) i) eqn:E; [discriminate H|]. constructor; [exact E|apply IH; exact H].
Qed.

Lemma post_loop_nodefault c st1 st a : ids_distinct c -> mt_pending (mt st1) = None -> post_loop c st1 = ROk st ->
  In a (c_args c) -> a_env a = None -> a_default_ifs a = [] -> a_default a = [] ->
  fm_get (a_id a) (mt_args (mt st1)) = None -> fm_get (a_id a) (mt_args (mt st)) = None.
Proof.
  intros [Hnd Hng] P1 H Ha He Hi Hd G1. destruct (post_loop_ok c st1 st H) as [st2 [E2 E3]].
  destruct (in_split _ _ Ha) as [pre [post Hsplit]].
  destruct (add_env_frame c st1 st2 P1 E2) as [P2 [_ [_ [_ [_ Ea]]]]].
  assert (G2 : fm_get (a_id a) (mt_args (mt st2)) = None).
  { apply Ea; [apply Hng; exact Ha|exact G1|]. intros a' Hin' Hid.
    assert (a' = a) by (eapply nodup_map_inj; eassumption). subst a'. exact He. }
  destruct (add_defaults_decides c st2 st pre a post Hnd Hsplit P2 E3) as [st_a [_ [_ Hdec]]].
  destruct (Hdec G2) as [ch [Hch Hres]]. inversion Hch as [l1 i p dd l2 Hr Hx1 Hx2 Hx3|Hno Ech]; subst.
  - rewrite Hi in Hr. destruct l1; discriminate Hr.
  - rewrite Hd in Hres. exact Hres.
Qed.

(** UPDATE CHANGES ONLY WHAT THE LINE NAMES.  For every struct of argument fields, every well-formed invocation
    [its] of the update command (C02's class: any mix of long/short spellings, clusters, positional runs) and every
    field whose argument has no default: if no occurrence of the invocation belongs to the field's argument, a
    successful [try_update_from] leaves the field's value as it was. *)
Theorem update_unnamed_untouched d bin its vs vs' f :
  fields_only (d_nodes d) = true -> In f (fields_of (d_nodes d)) -> bf_default f = [] ->
  valid (with_bin (derive_cmd_for_update d) bin) = true ->
  wf_inv (builtu d bin) (ILeaf its) = true ->
  Actions.count_occ (f_id f) (occs (builtu d bin) 1 its) = 0%nat ->
  derived_update d vs (bin :: render its) = PValue vs' ->
  field_at (d_nodes d) vs' (f_id f) = field_at (d_nodes d) vs (f_id f).
Proof.
  intros Hfo Hf Hdef Hv Hwf Hcnt Hupd.
  destruct (wf_inv_parts _ _ Hwf) as [Hconv [Hie Hwi]].
  (* the command's parse *)
  unfold derived_update in Hupd.
  assert (Hnb : is_set s_no_binary_name (derive_cmd_for_update d) = false).
  { unfold derive_cmd_for_update. rewrite (derive_cmd_fields true d Hfo). reflexivity. }
  change (render its) with (render_inv (ILeaf its)) in Hupd.
  unfold builtu in Hwf. rewrite (parse_top_inv (derive_cmd_for_update d) bin (ILeaf its) Hnb Hv Hwf) in Hupd.
  fold (builtu d bin) in Hupd. cbn [run_inv] in Hupd.
  destruct (react_all (builtu d bin) (occs (builtu d bin) 1 its) ps_new) as [st1|e s|n] eqn:E1; cbn [rbind] in Hupd.
  2: { unfold finish_outcome in Hupd. fold (builtu d bin) in Hupd. rewrite Hie in Hupd. discriminate Hupd. }
  2: { unfold finish_outcome in Hupd. destruct n; discriminate Hupd. }
  destruct (post_loop (builtu d bin) st1) as [st|e s|n] eqn:E2.
  2: { unfold finish_outcome in Hupd. fold (builtu d bin) in Hupd. rewrite Hie in Hupd. discriminate Hupd. }
  2: { unfold finish_outcome in Hupd. destruct n; discriminate Hupd. }
  rewrite finish_no_globals in Hupd.
  2: { fold (builtu d bin). cbn [build_recursive]. fold (builtu d bin). apply no_globals_intro.
       - rewrite (proj2 (set_subs_args _ _)), (builtu_subs d bin Hfo). reflexivity.
       - rewrite (proj1 (set_subs_args _ _)). apply (builtu_no_globals d bin Hfo). }
  set (m := into_inner (mt st)) in *.
  cbn [of_outcome] in Hupd.
  destruct (update d vs m) as [r|k|s] eqn:U; cbn [of_xres] in Hupd; try discriminate Hupd.
  inversion Hupd; subst r; clear Hupd.
  (* the field's argument has no entry *)
  destruct (builtu_field d bin Hfo f Hf) as [a (Ha & Hid & Henv & Hifs & Hda)].
  pose proof (assert_app_ids_distinct _ (conv_app _ Hconv)) as Hids.
  pose proof (react_all_pending_keep _ _ _ _ E1 eq_refl) as P1.
  destruct (react_all_occs_denote (builtu d bin) Hconv its st1 a Ha E1) as [G _].
  unfold denote_arg, denote_os in G. rewrite Hid in G.
  rewrite (fold_absent (builtu d bin) (f_id f) _ (count_zero_absent _ _ Hcnt)) in G.
  unfold groups_of, get in G. rewrite <- Hid in G.
  destruct (fm_get (a_id a) (mt_args (mt st1))) as [x|] eqn:G1; [discriminate G|].
  pose proof (post_loop_nodefault (builtu d bin) st1 st a Hids P1 E2 Ha Henv Hifs (eq_trans Hda Hdef) G1) as Gf.
  rewrite Hid in Gf.
  (* hence update leaves the field alone *)
  apply (proj1 (proj2 frame_field_at) (d_nodes d) m vs vs' (f_id f)).
  - apply (update_frame d vs m vs' U).
  - rewrite m_contains_get. unfold m. cbn [into_inner ms_args]. rewrite Gf. reflexivity.
Qed.
