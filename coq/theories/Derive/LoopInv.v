(** Property C15, whole-parse invariants for ALL argv (part 1): a walk of [get_matches_with] that is PARAMETRIC in a
    state predicate [Q] of one level.  [Q] must (a) depend on the argument entries only and (b) be preserved by one
    successful [react_core] on an argument of the level (for a non-command-line source: with at least one raw value,
    which is how the environment / default phases call it).  Then every successful [get_matches_with] of a level without
    [ignore_errors] ends in a state satisfying [Q].  (Partial correctness in the style of C04's TypedInv.v / C09's
    Dispatch.v; error states are not constrained: the error predicate is [True].)

    Part 2 instantiates [Q] with "every value group stored for an argument whose occurrences cannot be empty is
    non-empty" ([NE]), which the closure conditions of C01's generic invariant cannot express (a new value group is
    empty until the first value is pushed). *)
From ClapModel Require Import Base.Bytes Base.Machine Base.Utf8 Lex.OsStrExtModel.
From ClapModel Require Import Parse.Cmd Parse.Build Parse.Valid Parse.Matcher Parse.Errors Parse.Validator Parse.Parser.
From ClapModel Require Import ParseProofs.Safe ParseProofs.Invariant ParseProofs.Relations ParseProofs.Totality ParseProofs.TotalityMain
                              ParseProofs.Provenance ParseProofs.Spelling ParseProofs.Globals ParseProofs.Dispatch
                              ParseProofs.Chain ParseProofs.TypedInv ParseProofs.Actions ParseProofs.Sources.
From Coq Require Import ZArith Lia List Bool.
From RecordUpdate Require Import RecordSet.
Import RecordSetNotations.
Import ListNotations.
Open Scope N_scope.

Definition Tr : ps -> Prop := fun _ => True.

Section Walk.
Variable c : cmd.
Variable Q : ps -> Prop.
Hypothesis Qargs : forall st st', mt_args (mt st') = mt_args (mt st) -> Q st -> Q st'.
Hypothesis Qreact : forall idn s a raw ti st, In a (c_args c) -> (s <> SCmdLine -> raw <> []) -> Q st ->
  holds (fun x => Q (fst x)) Tr (react_core c idn s a raw ti st).
Hypothesis Hie : is_set s_ignore_errors c = false.

Lemma resolve_pending_Q st : Q st -> holds Q Tr (resolve_pending c st).
Proof.
  intros Hs. unfold resolve_pending. destruct (mt_pending (mt st)) as [p|]; [|exact Hs].
  destruct (find_arg c (p_id p)) as [a|] eqn:Ef; cbn [expect rbind]; [|exact I].
  destruct (find_arg_some _ _ _ Ef) as [Hin _].
  eapply holds_bind; [apply Qreact; [exact Hin|intros H; contradiction H; reflexivity|]|].
  - apply (Qargs st); [reflexivity|exact Hs].
  - intros x Hx. exact Hx.
Qed.

Lemma react_Q idn sr a raw ti st : In a (c_args c) -> (sr <> SCmdLine -> raw <> []) ->
  Q st -> holds (fun x => Q (fst x)) Tr (react c idn sr a raw ti st).
Proof.
  intros Hin Hr Hs. unfold react. eapply holds_bind; [apply resolve_pending_Q; exact Hs|].
  intros st1 H1. apply Qreact; assumption.
Qed.

Lemma resolve_pending_ignore_any st : holds Tr Tr (resolve_pending_ignore c st).
Proof. unfold resolve_pending_ignore. destruct (resolve_pending c st); exact I. Qed.

Lemma cl_any (raw : list bytes) : SCmdLine <> SCmdLine -> raw <> [].
Proof. intros H. contradiction H. reflexivity. Qed.

Lemma parse_opt_value_Q idn att a he st : In a (c_args c) ->
  Q st -> holds (fun x => Q (fst x)) Tr (parse_opt_value c idn att a he st).
Proof.
  intros Hin Hs. unfold parse_opt_value. destruct (a_req_eq a && negb he).
  - eapply holds_bind; [apply holds_expect; intros; exact I|]. intros r _.
    destruct (vmin r =? 0); [|exact Hs].
    eapply holds_bind; [apply react_Q; [exact Hin|apply cl_any|exact Hs]|]. intros x Hx. exact Hx.
  - destruct att as [v|].
    + eapply holds_bind; [apply react_Q; [exact Hin|apply cl_any|exact Hs]|]. intros x Hx. exact Hx.
    + eapply holds_bind; [apply resolve_pending_Q; exact Hs|]. intros st1 H1.
      eapply holds_bind.
      { apply (holds_expect (fun m => mt_args m = mt_args (mt st1))). intros m Hm.
        apply pending_values_push_args in Hm. exact Hm. }
      intros m Hm. cbn [fst]. apply (Qargs st1); [cbn; exact Hm|exact H1].
Qed.

Lemma parse_long_arg_Q f ok v pst pos vaf st :
  Q st -> holds (fun x => Q (fst (fst x))) Tr (parse_long_arg c f ok v pst pos vaf st).
Proof.
  intros Hs. rewrite parse_long_arg_unfold.
  eapply holds_bind; [apply state_arg_any|]. intros sa _.
  destruct (match sa with Some a => a_hyphen a | None => false end); [exact Hs|].
  destruct (negb ok); [exact Hs|].
  destruct (is_nil f && negb (is_some v)); [exact I|].
  unfold parse_long_found. destruct (lookup_long c f) as [a|] eqn:El.
  - pose proof (lookup_long_in c f a El) as Hin.
    destruct (a_takes_value a).
    + eapply holds_bind; [apply parse_opt_value_Q; [exact Hin|exact Hs]|]. intros x Hx. exact Hx.
    + destruct v as [r|]; [exact Hs|].
      eapply holds_bind; [apply react_Q; [exact Hin|apply cl_any|exact Hs]|]. intros x Hx. exact Hx.
  - destruct (possible_long_flag_subcommand c f); [exact Hs|].
    destruct (match get_pos c pos with Some a => a_hyphen a && negb (a_last a) | None => false end); exact Hs.
Qed.

Lemma short_loop_Q : forall fuel r ret vaf st,
  Q st -> holds (fun x => Q (fst (fst x))) Tr (short_loop c fuel r ret vaf st).
Proof.
  induction fuel as [|f IH]; intros r ret vaf st Hs; cbn [short_loop]; [exact I|].
  destruct (sf_next r) as [[[ch|rs] r']|]; [|exact Hs|exact Hs].
  destruct (get_short c ch) as [a|] eqn:Eg.
  - destruct (get_short_in _ _ _ Eg) as [Hin _].
    destruct (negb (a_takes_value a)).
    + eapply holds_bind; [apply react_Q; [exact Hin|apply cl_any|exact Hs]|]. intros x Hx. apply IH. exact Hx.
    + match goal with |- context [let '(_, _) := ?X in _] => destruct X as [val he] end.
      eapply holds_bind; [apply parse_opt_value_Q; [exact Hin|exact Hs]|]. intros x Hx.
      destruct (snd x); try exact Hx. apply IH. exact Hx.
  - destruct (find_short_subcmd c ch) as [n|]; [|exact Hs].
    eapply holds_bind; [apply resolve_pending_Q; exact Hs|]. intros st1 H1.
    cbn [holds fst]. apply (Qargs st1); [destruct st1; reflexivity|exact H1].
Qed.

Lemma parse_short_arg_Q r pst pos vaf st :
  Q st -> holds (fun x => Q (fst (fst x))) Tr (parse_short_arg c r pst pos vaf st).
Proof.
  intros Hs. unfold parse_short_arg.
  eapply holds_bind; [apply state_arg_any|]. intros sa _.
  match goal with |- holds _ _ (if ?b then _ else _) => destruct b end; [exact Hs|].
  match goal with |- holds _ _ (if ?b then _ else _) => destruct b end; [exact Hs|].
  match goal with |- holds _ _ (if ?b then _ else _) => destruct b end; [exact Hs|].
  eapply holds_bind; [apply holds_expect; intros; exact I|]. intros r0 _.
  apply short_loop_Q. apply (Qargs st); [destruct st; reflexivity|exact Hs].
Qed.

Notation LQ := (fun lr => Q (lr_st lr)).

Ltac useQ H := first [exact H | match type of H with Q ?s => apply (Qargs s); [try reflexivity; try (destruct s; reflexivity)|exact H] end].

Lemma parse_loop_Q : forall toks ls st, Q st -> holds LQ Tr (parse_loop c toks ls st).
Proof.
  induction toks as [|tok rest IH]; intros ls st Hs; [useQ Hs|].
  cbn [parse_loop].
  match goal with |- holds _ _ (rbind ?ph _) => set (phase1 := ph) end.
  assert (Hph : holds (fun x => let '(early, ls1, st1) := x in
                         match early with Some r => holds LQ Tr r | None => Q st1 end) Tr phase1).
  { subst phase1. destruct (l_trailing ls); [cbn; useQ Hs|].
    destruct (if is_set s_sub_precedence c || match l_pst ls with PSValuesDone => true | _ => false end
              then possible_subcommand c tok (l_vaf ls) else None) as [sc|].
    { destruct (beq sc s_help && negb (is_set s_disable_help_sub c)); cbn; useQ Hs. }
    assert (After : forall x, Q (fst (fst x)) ->
       holds (fun y => let '(early, ls1, st1) := y in
                        match early with Some r => holds LQ Tr r | None => Q st1 end) Tr
         (let '(st1, pr, vaf1) := x in
          let ls1 := mkL (l_pst ls) (l_pos ls) vaf1 false in
          match pr with
          | PRValuesDone => ROk (Some (parse_loop c rest (mkL PSValuesDone (l_pos ls) vaf1 false) st1), ls1, st1)
          | PROpt i => ROk (Some (parse_loop c rest (mkL (PSOpt i) (l_pos ls) vaf1 false) st1), ls1, st1)
          | PRFlagSub n => ROk (Some (ROk (LSub n false vaf1 st1 rest)), ls1, st1)
          | PREqualsNotProvided a =>
              do st2 <- resolve_pending_ignore c st1; ROk (Some (RErr (mkerr c ENoEquals a) st2), ls1, st2)
          | PRNoMatchingArg a =>
              do st2 <- resolve_pending_ignore c st1; ROk (Some (RErr (mkerr c EUnknownArgument a) st2), ls1, st2)
          | PRUnneeded r a =>
              do st2 <- resolve_pending_ignore c st1; ROk (Some (RErr (mkerr c ETooManyValues a) st2), ls1, st2)
          | PRMaybeHyphen => ROk (None, ls1, st1)
          | PRNoArg => ROk (None, ls1, st1)
          | PRAttachedNotConsumed => RPanic 203
          end)).
    { intros [[st1 pr] vaf1] H1. cbn [fst] in H1. cbv zeta.
      destruct pr; cbn [holds].
      - useQ H1.
      - apply IH. useQ H1.
      - apply IH. useQ H1.
      - exact I.
      - eapply holds_bind; [apply resolve_pending_ignore_any|]. intros st2 _. exact I.
      - useQ H1.
      - eapply holds_bind; [apply resolve_pending_ignore_any|]. intros st2 _. exact I.
      - eapply holds_bind; [apply resolve_pending_ignore_any|]. intros st2 _. exact I.
      - useQ H1. }
    destruct (is_escape tok).
    { eapply holds_bind; [apply state_arg_any|]. intros sa _.
      destruct (match sa with Some a => a_hyphen a | None => false end); cbn [holds]; [useQ Hs|].
      apply IH. apply (Qargs st); [cbn; apply start_trailing_args|useQ Hs]. }
    destruct (to_long tok) as [[[f ok] v]|].
    { eapply holds_bind; [apply parse_long_arg_Q; useQ Hs|].
      intros [[st1 pr] vaf1] H1. cbn [fst snd] in *.
      pose proof (After (st1, pr, vaf1) H1) as HA.
      destruct pr; try exact I; cbn in HA |- *; exact HA. }
    destruct (to_short tok) as [r|]; [|cbn; useQ Hs].
    eapply holds_bind; [apply parse_short_arg_Q; useQ Hs|].
    intros [[st1 pr] vaf1] H1. cbn [fst] in H1.
    pose proof (After (st1, pr, vaf1) H1) as HA.
    destruct pr; try exact I; try (cbn in HA |- *; exact HA). clear HA.
    destruct (fs_at st1) as [a0|]; [|cbn; useQ H1].
    eapply holds_bind; [apply holds_expect; intros; exact I|]. intros d _. cbn. useQ H1. }
  eapply holds_bind; [exact Hph|]. clear Hph phase1.
  intros [[early ls1] st1] He.
  destruct early as [r|]; [exact He|]. rename He into H1.
  match goal with
  | |- holds _ _ (match _ with PSValuesDone => ?t | PSOpt _ => _ | PSPos _ => _ end) =>
      assert (Hpos : holds LQ Tr t)
  end.
  { cbv zeta.
    eapply (holds_bind (fun _ : N => True)).
    { match goal with |- holds _ _ (if ?b then _ else _) => destruct b end.
      - destruct rest as [|n rest']; [exact I|].
        destruct (List.find _ (positionals c)) as [a|]; [|exact I].
        eapply holds_bind; [apply is_new_arg_any|]. intros na _. exact I.
      - match goal with |- holds _ _ (if ?b then _ else _) => destruct b end; exact I. }
    intros pcv _.
    destruct (get_pos c pcv) as [a|].
    - destruct (a_last a && negb (l_trailing ls1)).
      + eapply holds_bind; [apply resolve_pending_ignore_any|]. intros s2 _. exact I.
      + eapply (holds_bind Q).
        { match goal with |- holds _ _ (if ?b then _ else _) => destruct b end;
            [apply resolve_pending_Q; useQ H1|useQ H1]. }
        intros s2 H2.
        destruct (check_terminator a tok); [apply IH; exact H2|].
        eapply holds_bind.
        { apply (holds_expect (fun m => mt_args m = mt_args (mt s2))). intros m Hm.
          apply pending_values_push_args in Hm. exact Hm. }
        intros m1 Hm1. destruct (negb (a_is_multiple a)); apply IH; (apply (Qargs s2); [cbn; exact Hm1|exact H2]).
    - destruct (is_set s_allow_external c).
      + destruct (utf8_valid tok); [useQ H1|].
        eapply holds_bind; [apply resolve_pending_ignore_any|]. intros s2 _. exact I.
      + eapply holds_bind; [apply resolve_pending_ignore_any|]. intros s2 _. exact I. }
  destruct (if l_trailing ls1 then PSValuesDone else l_pst ls1).
  - exact Hpos.
  - eapply holds_bind; [apply holds_expect; intros; exact I|]. intros a _.
    destruct (check_terminator a tok); [apply IH; useQ H1|].
    eapply holds_bind.
    { apply (holds_expect (fun m => mt_args m = mt_args (mt st1))). intros m Hm.
      apply pending_values_push_args in Hm. exact Hm. }
    intros m1 Hm1.
    eapply holds_bind; [apply holds_expect; intros; exact I|]. intros more _.
    apply IH. apply (Qargs st1); [cbn; exact Hm1|useQ H1].
  - exact Hpos.
Qed.

Lemma fold_res_Q {X} (f : ps -> X -> res ps) (l : list X) (Qx : X -> Prop) :
  (forall x, In x l -> Qx x) ->
  (forall st x, Qx x -> Q st -> holds Q Tr (f st x)) ->
  forall r, holds Q Tr r -> holds Q Tr (fold_left (fun rst x => do st <- rst; f st x) l r).
Proof.
  intros HQ Hf. induction l as [|x t IH]; intros r Hr; cbn [fold_left]; [exact Hr|].
  apply IH; [intros y Hy; apply HQ; right; exact Hy|].
  eapply holds_bind; [exact Hr|]. intros st Hst. apply Hf; [apply HQ; left; reflexivity|exact Hst].
Qed.

Lemma add_env_Q st : Q st -> holds Q Tr (add_env c st).
Proof.
  intros Hs. unfold add_env.
  apply (fold_res_Q (fun st a => if mt_contains (mt st) (a_id a) then ROk st
       else match a_env a with Some v => do x <- react c None SEnv a [v] None st; ROk (fst x) | None => ROk st end)
       (c_args c) (fun a => In a (c_args c))); [auto| |exact Hs].
  intros st0 a Hin H0. destruct (mt_contains _ _); [exact H0|]. destruct (a_env a); [|exact H0].
  eapply holds_bind; [apply react_Q; [exact Hin|intros _; discriminate|exact H0]|]. intros x Hx. exact Hx.
Qed.

Lemma add_default_value_Q a st : In a (c_args c) -> Q st -> holds Q Tr (add_default_value c a st).
Proof.
  intros Hin Hs. unfold add_default_value.
  assert (Hplain : holds Q Tr (if negb (is_nil (a_default a)) then
      if mt_contains (mt st) (a_id a) then ROk st
      else do x <- react c None SDefault a (a_default a) None st; ROk (fst x) else ROk st)).
  { destruct (a_default a) as [|d0 dr]; cbn [is_nil negb]; [exact Hs|]. destruct (mt_contains _ _); [exact Hs|].
    eapply holds_bind; [apply react_Q; [exact Hin|intros _; discriminate|exact Hs]|]. intros x Hx. exact Hx. }
  destruct (_ && _); [|exact Hplain].
  destruct (List.find _ _) as [[[i p] [d|]]|]; [| exact Hs | exact Hplain].
  eapply holds_bind; [apply react_Q; [exact Hin|intros _; discriminate|exact Hs]|]. intros x Hx. exact Hx.
Qed.

Lemma add_defaults_Q st : Q st -> holds Q Tr (add_defaults c st).
Proof.
  intros Hs. unfold add_defaults.
  apply (fold_res_Q (fun st a => add_default_value c a st) (c_args c) (fun a => In a (c_args c))); [auto| |exact Hs].
  intros st0 a Hin H0. apply add_default_value_Q; assumption.
Qed.

Lemma post_Q parsed : holds Q Tr parsed -> holds Q Tr (post c parsed).
Proof.
  destruct parsed as [st|e st|x]; cbn [holds post]; intros Hs; [| |exact I].
  - eapply holds_bind; [apply resolve_pending_Q; exact Hs|]. intros st1 H1.
    eapply holds_bind; [apply add_env_Q; exact H1|]. intros st2 H2.
    eapply holds_bind; [apply add_defaults_Q; exact H2|]. intros st3 H3.
    unfold vres_to_res. destruct (validate c (mt st3)); cbn [holds]; auto. exact I.
  - rewrite Hie. exact I.
Qed.

(** THE WALK: a successful level ends in a [Q]-state *)
Theorem gmw_Q fuel toks st0 : Q st0 -> holds Q Tr (get_matches_with fuel c toks st0).
Proof.
  destruct fuel as [|f]; intros H0; [exact I|]. rewrite gmw_unfold. apply post_Q. unfold parsed_of.
  eapply holds_bind; [apply (parse_loop_Q toks _ st0 H0)|].
  intros lr Hlr. destruct lr as [st|name keep vaf st rest|name vals st|names st]; cbn [lr_st] in Hlr.
  - exact Hlr.
  - unfold after_sub. destruct (_ && _); [exact I|].
    eapply holds_bind; [apply holds_expect; intros; exact I|]. intros sc0 _.
    destruct (build_subcommand c (c_name sc0)) as [sc|]; [|exact Hlr].
    destruct (negb (assert_app sc)); [exact I|].
    destruct (get_matches_with f sc rest (sub_init keep st)) as [sub_st|e sub_st|x]; cbn [holds].
    + apply (Qargs st); [reflexivity|exact Hlr].
    + rewrite Hie. exact I.
    + exact I.
  - pose proof (external_verbatim c name vals st) as Hx.
    destruct (external_matches c name vals st) as [st'|e st'|x]; cbn [holds] in Hx |- *; [|exact I|exact I].
    subst st'. apply (Qargs st); [reflexivity|exact Hlr].
  - exact I.
Qed.

End Walk.

(** * Part 2: stored value groups are non-empty *)
Section NonEmpty.
Variable c : cmd.
Hypothesis Happ : assert_app c = true.
Hypothesis Hie : is_set s_ignore_errors c = false.

(** arguments every stored group of which holds a value: a flag / counter action stores its literal; a Set / Append
    argument whose value range starts at 1 cannot occur without a value *)
Definition full_groups (a : arg) : Prop :=
  match a_get_action a with
  | ASet | AAppend => exists r, a_num a = Some r /\ 0 < vmin r
  | ASetTrue | ASetFalse | ACount => True
  | _ => False
  end.
Definition NE (l : list (id * marg)) : Prop :=
  forall a m, In a (c_args c) -> full_groups a -> fm_get (a_id a) l = Some m ->
    m_raw m <> [] /\ Forall (fun g : list bytes => g <> []) (m_raw m).
Definition QN (st : ps) : Prop := wf_m (mt st) /\ NE (mt_args (mt st)).

Lemma QN_args st st' : mt_args (mt st') = mt_args (mt st) -> QN st -> QN st'.
Proof. intros E [W N]. unfold QN, wf_m. rewrite E. split; assumption. Qed.

Lemma QN_new : QN ps_new.
Proof. split; [apply wf_m_new|]. intros a m _ _ H. discriminate H. Qed.

Lemma QN_react idn s a raw ti st : In a (c_args c) -> (s <> SCmdLine -> raw <> []) -> QN st ->
  holds (fun x => QN (fst x)) Tr (react_core c idn s a raw ti st).
Proof.
  intros Hin Hraw [W N].
  destruct (react_core c idn s a raw ti st) as [[st' pr]|e s0|n] eqn:E; cbn [holds fst]; try exact I.
  pose proof (assert_app_group_ids c a Happ Hin) as Hng.
  destruct (react_core_spec c idn s a raw ti st st' pr W (Hng _) E) as [vals [Ho [W' [_ [G [F _]]]]]].
  split; [exact W'|].
  (* the values of the occurrence *)
  assert (Hvals : (exists r, a_num a = Some r /\ 0 < vmin r) -> vals <> []).
  { intros [r [Er Hr]].
    assert (Hr0 : raw <> []).
    { destruct s; try (apply Hraw; discriminate).
      rewrite Actions.react_core_unfold in E. cbn [is_cmdline] in E.
      destruct raw as [|v0 rr]; [|discriminate]. exfalso.
      unfold verify_num_args in E. rewrite Hie, Er in E. cbn [expect rbind length N.of_nat] in E.
      apply N.ltb_lt in Hr. rewrite Hr in E. cbn [N.eqb andb rbind] in E. discriminate E. }
    unfold occ_values in Ho. destruct raw as [|v0 rr]; [contradiction Hr0; reflexivity|].
    apply (delimit_nonempty c a (v0 :: rr) ti vals); [discriminate|exact Ho]. }
  intros b m Hb Hfull Gm.
  pose proof (assert_app_W3 c Happ) as W3.
  destruct (list_eq_dec N.eq_dec (a_id b) (a_id a)) as [Eid|Nid].
  - assert (b = a) by (pose proof (W3 b Hb) as X; rewrite Eid, (W3 a Hin) in X; inversion X; reflexivity). subst b.
    unfold groups_of, get in G. rewrite Gm in G. cbn [opt_map] in G. inversion G as [Gr]. clear G.
    unfold full_groups in Hfull.
    assert (Hprev : forall gs, opt_map m_raw (fm_get (a_id a) (mt_args (mt st))) = Some gs -> Forall (fun g : list bytes => g <> []) gs).
    { intros gs Hgs. destruct (fm_get (a_id a) (mt_args (mt st))) as [m0|] eqn:G0; [|discriminate Hgs].
      inversion Hgs; subst gs. apply (N a m0 Hin Hfull G0). }
    rewrite Gr. clear Gr. unfold step_self.
    destruct (a_get_action a); try contradiction.
    + split; [discriminate|]. constructor; [apply Hvals; exact Hfull|constructor].
    + split; [destruct (opt_default [] _); discriminate|]. apply Forall_app. split.
      * unfold own_prev. destruct (is_cmdline s && overridden c a (a_id a)); cbn [opt_default]; [constructor|].
        destruct (opt_map m_raw (fm_get (a_id a) (mt_args (mt st)))) as [gs|] eqn:Hg; cbn [opt_default]; [|constructor].
        apply Hprev. reflexivity.
      * constructor; [apply Hvals; exact Hfull|constructor].
    + split; [discriminate|]. constructor; [destruct vals; discriminate|constructor].
    + split; [discriminate|]. constructor; [destruct vals; discriminate|constructor].
    + split; [discriminate|]. constructor; [destruct vals; discriminate|constructor].
  - unfold get in F. rewrite (F (a_id b) Nid (assert_app_group_ids c b Happ Hb _)) in Gm.
    destruct (is_cmdline s && overridden c a (a_id b)); [discriminate Gm|]. apply (N b m Hb Hfull Gm).
Qed.

(** EVERY SUCCESSFUL LEVEL: unique keys, and non-empty groups for the arguments of [full_groups] *)
Theorem gmw_nonempty fuel toks st : get_matches_with fuel c toks ps_new = ROk st -> QN st.
Proof.
  intros H. pose proof (gmw_Q c QN QN_args QN_react Hie fuel toks ps_new QN_new) as G.
  rewrite H in G. exact G.
Qed.
End NonEmpty.
