(** Property C15, round 5: the round trip for POSITIONAL enum-typed fields ([E], [Option<E>], a last [Vec<E>]) through the real
    [EnumValueParser]; instance of [DerivePos.roundtrip_parse_positional] with [ok_nodes] derived from [enum_field]. *)
From ClapModel Require Import Base.Bytes Base.Machine Base.Utf8.
From ClapModel Require Import Parse.Cmd Parse.Build Parse.Valid Parse.Matcher Parse.Errors Parse.Validator Parse.Parser.
From ClapModel Require Import Value.PossibleValues.
From ClapModel Require Import ParseProofs.Unparse ParseProofs.UnparseTree ParseProofs.Actions.
From ClapModel Require Import Derive.DeriveModel Derive.DeriveProofs Derive.DeriveCmd Derive.DeriveArgs Derive.DeriveParse
                              Derive.DeriveAccept Derive.DerivePost Derive.DeriveParseEx Derive.DeriveEnum Derive.DeriveEnumEx
                              Derive.DerivePos.
From Coq Require Import ZArith List Bool Lia.
Import ListNotations.
Open Scope N_scope.

Theorem roundtrip_parse_enum_positional d bin vs argv :
  fields_only (d_nodes d) = true -> Forall pos_field (fields_of (d_nodes d)) -> NoDup (map f_id (fields_of (d_nodes d))) ->
  vec_last (fields_of (d_nodes d)) = true -> Forall enum_field (fields_of (d_nodes d)) ->
  pos_prefix (fields_of (d_nodes d)) vs -> pos_fits (fields_of (d_nodes d)) vs ->
  valid (with_bin (derive_cmd d) bin) = true -> print d vs = Some argv ->
  derived_parse d (bin :: argv) = PValue vs.
Proof.
  intros Hfo Hpf Hnd Hvl Hen Hpp Hfit Hv Hp.
  exact (roundtrip_parse_positional d bin vs argv Hfo Hpf Hnd Hvl (enum_fields_ok _ vs Hfo Hen) Hpp Hfit Hv Hp).
Qed.

Module EnumPosEx.
Definition E := ex_henum.
Definition fp : field := mkField [112] SynPath (TEnum E) KPos None None None None None false.
Definition fq : field := mkField [113] (SynOption SynPath) (TEnum E) KPos None None None None None false.
Definition fr : field := mkField [114] (SynVec SynPath) (TEnum E) KPos None None None None None false.
Definition ns : nodes := NCons (NArg fp) (NCons (NArg fq) (NCons (NArg fr) NNil)).
Definition d : dinput := mkDinput b_prog [83] ns.
(** { p: Delta (hidden), q: Some(Alpha), r: [Delta, Delta] } = [-- delta alpha delta delta] *)
Definition v : list dval := [DOne (SvEnum 2); DOpt (Some (SvEnum 0)); DVec [SvEnum 2; SvEnum 2]].
Definition argv : list bytes := [[45;45]; EnumEx.s_delta; EnumEx.s_alpha; EnumEx.s_delta; EnumEx.s_delta].
Lemma ex_print : print d v = Some argv. Proof. vm_compute. reflexivity. Qed.
Lemma ex_valid : valid (with_bin (derive_cmd d) b_prog) = true. Proof. vm_compute. reflexivity. Qed.
Lemma ex_computed : derived_parse d (b_prog :: argv) = PValue v. Proof. vm_compute. reflexivity. Qed.
Lemma ex_class : Forall pos_field (fields_of (d_nodes d)).
Proof.
  repeat (apply Forall_cons || apply Forall_nil); unfold pos_field; repeat (split; [reflexivity|]).
  - left. repeat split; try reflexivity. discriminate.
  - right. left. reflexivity.
  - right. right. reflexivity.
Qed.
Lemma ex_nodup : NoDup (map f_id (fields_of (d_nodes d))). Proof. cbn. repeat constructor; cbn; intuition discriminate. Qed.
Lemma ex_enum_fields : Forall enum_field (fields_of (d_nodes d)).
Proof.
  assert (He : forall f, f_t f = TEnum E -> f_icase f = false -> field_ok f -> enum_field f).
  { intros f Et Hic Hok. split; [exact Hok|]. exists E. rewrite Hic.
    split; [exact Et|]. split; [exact ex_henum_disjoint_cs|exact EnumEx.ex_utf8]. }
  cbn [d_nodes d ns fields_of].
  repeat (apply Forall_cons; [apply He; [reflexivity|reflexivity|first [solve [cbv; intros H; discriminate H]|solve [cbv; auto]]]|]).
  apply Forall_nil.
Qed.
Lemma ex_prefix : pos_prefix (fields_of (d_nodes d)) v.
Proof. cbn [d_nodes d fields_of pos_prefix v]. repeat split; intros H; vm_compute in H; discriminate H. Qed.
Lemma ex_fits : pos_fits (fields_of (d_nodes d)) v.
Proof.
  intros f x Hat. cbn [d_nodes d fields_of v at_list] in Hat.
  destruct Hat as [[<- <-]|[[<- <-]|[[<- <-]|[]]]]; vm_compute; discriminate.
Qed.
Theorem ex_roundtrip : derived_parse d (b_prog :: argv) = PValue v.
Proof. exact (roundtrip_parse_enum_positional d b_prog v argv eq_refl ex_class ex_nodup eq_refl ex_enum_fields ex_prefix ex_fits ex_valid ex_print). Qed.
End EnumPosEx.
