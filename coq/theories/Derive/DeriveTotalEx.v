(** Property C15: non-vacuity of [extract_total_argv] / [parse_iff_command] (DeriveTotal.v).
    (1) the struct of DerivePostEx.v on a line the printer never writes (separate values, a cluster, repeated counter);
    (2) a struct with positional fields [{ p: u8, rest: Vec<String> }] on [prog 7 a b];
    (3) the class is needed: [required = false] on a plain field (NotRequiredEx) is not [guarded], and there the command
        accepts the empty line while the derived parser fails. *)
From ClapModel Require Import Base.Bytes Base.Machine Base.Utf8.
From ClapModel Require Import Parse.Cmd Parse.Build Parse.Valid Parse.Matcher Parse.Errors Parse.Validator Parse.Parser.
From ClapModel Require Import ParseProofs.Unparse ParseProofs.UnparseTree ParseProofs.Actions.
From ClapModel Require Import Derive.DeriveModel Derive.DeriveProofs Derive.DeriveCmd Derive.DeriveArgs Derive.DeriveParse
                              Derive.DeriveAccept Derive.DerivePost Derive.DerivePostEx Derive.DeriveParseEx Derive.DeriveFlat Derive.DeriveTotal.
From Coq Require Import ZArith List Bool Lia.
Import ListNotations.
Open Scope N_scope.

Ltac guarded_tac := split; [vm_compute; discriminate|]; intros _; split; [vm_compute; try exact I; reflexivity|];
  first [left; vm_compute; reflexivity | right; vm_compute; discriminate].
Ltac guarded_np := split; [vm_compute; discriminate|]; intros H; vm_compute in H; discriminate H.

Module TotalEx.
(** [prog --kk z --nn a -cc --vv]: not a printed line *)
Definition argv : list bytes := [b_prog; [45;45;107;107]; [122]; [45;45;110;110]; [97]; [45;99;99]; [45;45;118;118]].
Lemma ex_guarded : Forall guarded (fields_of (d_nodes PostEx.d)).
Proof.
  repeat (apply Forall_cons || apply Forall_nil).
  - guarded_tac.
  - guarded_tac.
  - guarded_tac.
  - guarded_np.
  - guarded_tac.
Qed.
Lemma ex_valid : valid (with_bin (derive_cmd PostEx.d) (hd [] argv)) = true. Proof. vm_compute. reflexivity. Qed.
Lemma ex_command_accepts : exists m, parse_top (derive_cmd PostEx.d) argv = OOk m.
Proof. eexists. vm_compute. reflexivity. Qed.
(** by the theorem: the derived parser succeeds ... *)
Theorem ex_parses : exists vs, derived_parse PostEx.d argv = PValue vs.
Proof. apply (proj2 (parse_iff_command PostEx.d argv eq_refl ex_guarded ex_valid)). exact ex_command_accepts. Qed.
(** ... with this value (computed) *)
Lemma ex_value : derived_parse PostEx.d argv =
  PValue [DOne (SvStr [97]); DOne (SvBool true); DOne (SvInt 2); DOpt None; DOne (SvStr [122])].
Proof. vm_compute. reflexivity. Qed.

(** positional fields *)
Definition fp : field := mkField [112] SynPath TU8 KPos None None None None None false.
Definition fr : field := mkField [114] (SynVec SynPath) TStr KPos None None None None None false.
Definition dp : dinput := mkDinput b_prog [83] (NCons (NArg fp) (NCons (NArg fr) NNil)).
Definition argvp : list bytes := [b_prog; [55]; [97]; [98]].
Lemma exp_guarded : Forall guarded (fields_of (d_nodes dp)).
Proof. repeat (apply Forall_cons || apply Forall_nil); [guarded_tac|guarded_np]. Qed.
Lemma exp_valid : valid (with_bin (derive_cmd dp) (hd [] argvp)) = true. Proof. vm_compute. reflexivity. Qed.
Theorem exp_parses : exists vs, derived_parse dp argvp = PValue vs.
Proof.
  apply (proj2 (parse_iff_command dp argvp eq_refl exp_guarded exp_valid)). eexists. vm_compute. reflexivity.
Qed.
Lemma exp_value : derived_parse dp argvp = PValue [DOne (SvInt 7); DVec [SvStr [97]; SvStr [98]]].
Proof. vm_compute. reflexivity. Qed.
(** and a missing required positional is the COMMAND's rejection *)
Lemma exp_missing : derived_parse dp [b_prog] = PError EMissingRequiredArgument
  /\ exists e, parse_top (derive_cmd dp) [b_prog] = OErr e.
Proof. split; [vm_compute; reflexivity|eexists; vm_compute; reflexivity]. Qed.

(** the class is needed *)
Lemma not_guarded : ~ Forall guarded (fields_of (d_nodes NotRequiredEx.d)).
Proof.
  intros H. inversion H as [|? ? [_ Hg] _]; subst. destruct (Hg eq_refl) as [_ [Hr|Hd]].
  - vm_compute in Hr. discriminate Hr.
  - apply Hd. vm_compute. reflexivity.
Qed.
End TotalEx.

(** flattened structs: [{ a: String, #[flatten] inner: { b: u8, c: bool }, #[flatten] opt: Option<{ e: Option<u8> }> }] *)
Module FlatEx.
Definition fa : field := mkField [97] SynPath TStr (KLong [97;97]) None None None None None false.
Definition fb : field := mkField [98] SynPath TU8 (KLong [98;98]) None None None None None false.
Definition fc : field := mkField [99] SynPath TBool (KLong [99;99]) None None None None None false.
Definition fe : field := mkField [101] (SynOption SynPath) TU8 (KLong [101;101]) None None None None None false.
Definition ns : nodes :=
  NCons (NArg fa) (NCons (NFlatten false [73] (NCons (NArg fb) (NCons (NArg fc) NNil)))
                  (NCons (NFlatten true [74] (NCons (NArg fe) NNil)) NNil)).
Definition d : dinput := mkDinput b_prog [83] ns.
Definition argv : list bytes := [b_prog; [45;45;98;98]; [51]; [45;45;97;97]; [120]].
Lemma ex_flat : flat_nodes (d_nodes d) = true. Proof. reflexivity. Qed.
Lemma ex_wf : wf_nodes (d_nodes d).
Proof.
  cbn. unfold disjoint. cbn.
  repeat split; try exact I; try discriminate; intros; intuition (try discriminate; subst; try discriminate).
Qed.
Lemma ex_guarded : Forall guarded (leaves (d_nodes d)).
Proof. repeat (apply Forall_cons || apply Forall_nil); [guarded_tac|guarded_tac|guarded_tac|guarded_np]. Qed.
Lemma ex_valid : valid (with_bin (derive_cmd d) (hd [] argv)) = true. Proof. vm_compute. reflexivity. Qed.
Theorem ex_parses : exists vs, derived_parse d argv = PValue vs.
Proof.
  apply (proj2 (parse_iff_command_flat d argv ex_flat ex_wf ex_guarded ex_valid)). eexists. vm_compute. reflexivity.
Qed.
Lemma ex_value : derived_parse d argv =
  PValue [DOne (SvStr [120]); DStruct [DOne (SvInt 3); DOne (SvBool false)]; DOptStruct None].
Proof. vm_compute. reflexivity. Qed.
End FlatEx.
