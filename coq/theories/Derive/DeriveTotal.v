(** Property C15, first sentence for ALL argv: whenever the generated command of a struct of argument fields accepts a
    line -- any line, not only printed ones -- field extraction succeeds, PROVIDED every plain field is [required] or has a
    default (what the macro generates unless [required = false] / a value range starting at 0 is written explicitly).

    Ingredients: C04's typed invariant ([gmw_typed]: every stored raw value passed the argument's value parser),
    C03's soundness ([gmw_sound]: required arguments are present), C06's [precedence] (a declared default gives an
    entry), the non-empty-groups invariant of LoopInv.v, and [C15_extract_total]. *)
From ClapModel Require Import Base.Bytes Base.Machine Base.Utf8.
From ClapModel Require Import Parse.Cmd Parse.Build Parse.Valid Parse.Matcher Parse.Errors Parse.Validator Parse.Parser.
From ClapModel Require Import ParseProofs.Safe ParseProofs.Invariant ParseProofs.Totality ParseProofs.TotalityMain
                              ParseProofs.Actions ParseProofs.ActionsLoop ParseProofs.Sources ParseProofs.SourcesLine
                              ParseProofs.Dispatch ParseProofs.Relations ParseProofs.RelationsComplete ParseProofs.ValidateTotal
                              ParseProofs.TypedInv
                              ParseProofs.Unparse ParseProofs.UnparseProofs ParseProofs.UnparseTop
                              ParseProofs.UnparseSub ParseProofs.UnparseTrail ParseProofs.UnparseTree.
From ClapModel Require Import Derive.DeriveModel Derive.DeriveProofs Derive.DeriveCmd Derive.DeriveArgs Derive.DeriveParse
                              Derive.DeriveAccept Derive.DerivePost Derive.LoopInv Derive.DeriveFlat Derive.DeriveEnum.
From Coq Require Import ZArith List Bool Lia.
From RecordUpdate Require Import RecordSet.
Import RecordSetNotations.
Import ListNotations.
Open Scope N_scope.

(** * 1. the built arguments of a struct of fields, options AND positionals *)
Lemma bf_unfold f : bf f = arg_build (field_arg false f).
Proof. Transparent bf. reflexivity. Qed.
Global Opaque bf.

Lemma idx_frame (a : arg) k :
  a_id (a <| a_index := Some k |>) = a_id a /\ a_vp (a <| a_index := Some k |>) = a_vp a
  /\ a_num (a <| a_index := Some k |>) = a_num a /\ a_get_action (a <| a_index := Some k |>) = a_get_action a
  /\ a_required (a <| a_index := Some k |>) = a_required a /\ a_default (a <| a_index := Some k |>) = a_default a
  /\ a_default_ifs (a <| a_index := Some k |>) = a_default_ifs a /\ a_env (a <| a_index := Some k |>) = a_env a
  /\ a_global (a <| a_index := Some k |>) = a_global a /\ a_overrides (a <| a_index := Some k |>) = a_overrides a
  /\ same_rel (a <| a_index := Some k |>) a.
Proof. destruct a. repeat split; reflexivity. Qed.

Lemma bargs_in : forall args pc a', In a' (bargs pc args) ->
  exists a0, In a0 args /\ (a' = arg_build a0 \/ (a_is_positional (arg_build a0) = true /\ exists k, a' = (arg_build a0) <| a_index := Some k |>)).
Proof.
  induction args as [|a t IH]; intros pc a' H; [destruct H|]. cbn [bargs] in H.
  destruct (a_is_positional (arg_build a) && negb (is_some (a_index (arg_build a)))) eqn:E.
  - destruct H as [<-|H].
    + exists a. split; [left; reflexivity|]. right. apply andb_prop in E. split; [apply E|]. exists pc. reflexivity.
    + destruct (IH _ _ H) as [a0 [H0 X]]. exists a0. split; [right; exact H0|exact X].
  - destruct H as [<-|H].
    + exists a. split; [left; reflexivity|left; reflexivity].
    + destruct (IH _ _ H) as [a0 [H0 X]]. exists a0. split; [right; exact H0|exact X].
Qed.
Lemma bargs_of : forall args pc a0, In a0 args ->
  exists a', In a' (bargs pc args) /\ (a' = arg_build a0 \/ exists k, a' = (arg_build a0) <| a_index := Some k |>).
Proof.
  induction args as [|a t IH]; intros pc a0 H; [destruct H|]. cbn [bargs].
  destruct (a_is_positional (arg_build a) && negb (is_some (a_index (arg_build a)))).
  - destruct H as [->|H].
    + eexists. split; [left; reflexivity|]. right. exists pc. reflexivity.
    + destruct (IH (pc + 1) a0 H) as [a' [H' X]]. exists a'. split; [right; exact H'|exact X].
  - destruct H as [->|H].
    + eexists. split; [left; reflexivity|]. left. reflexivity.
    + destruct (IH pc a0 H) as [a' [H' X]]. exists a'. split; [right; exact H'|exact X].
Qed.

(** the built argument of a field: [Arg::_build] of the generated argument, with its index when positional *)
Definition of_field (f : field) (a' : arg) : Prop := a' = bf f \/ exists k, a' = (bf f) <| a_index := Some k |>.

Lemma of_field_facts f a' : of_field f a' ->
  a_id a' = f_id f /\ a_vp a' = a_vp (bf f) /\ a_num a' = Some (bf_num f) /\ a_get_action a' = field_action f
  /\ a_required a' = field_required f /\ a_default a' = bf_default f /\ a_default_ifs a' = [] /\ a_env a' = None
  /\ a_global a' = false /\ a_overrides a' = [] /\ same_rel a' (bf f).
Proof.
  destruct (bf_frame f) as (B1 & _ & _ & _ & _ & _ & _ & B8 & B9 & B10 & B11 & _).
  intros [->|[k ->]].
  - rewrite B1, bf_num_eq, bf_action, B11, bf_default_eq, B10, B9, bf_global, B8.
    do 10 (split; [reflexivity|]). apply same_rel_refl.
  - destruct (idx_frame (bf f) k) as (H1 & H2 & H3 & H4 & H5 & H6 & H7 & H8 & H9 & H10 & H11).
    rewrite H1, H2, H3, H4, H5, H6, H7, H8, H9, H10, B1, bf_num_eq, bf_action, B11, bf_default_eq, B10, B9, bf_global, B8.
    do 10 (split; [reflexivity|]). exact H11.
Qed.

Section Fields.
Variable d : dinput.
Variable bin : bytes.
Hypothesis Hfo : flat_nodes (d_nodes d) = true.
Hypothesis Hv : valid (with_bin (derive_cmd d) bin) = true.
Local Notation c := (built d bin).

Lemma builtg_cases a' : In a' (c_args c) -> (exists f, In f (leaves (d_nodes d)) /\ of_field f a') \/ a' = hb.
Proof.
  intros H. rewrite (builtf_args d bin Hfo) in H. destruct (bargs_in _ _ _ H) as [a0 [H0 X]].
  apply in_app_or in H0. destruct H0 as [H0|[<-|[]]].
  - apply in_map_iff in H0. destruct H0 as [f [<- Hf]]. left. exists f. split; [exact Hf|]. rewrite <- bf_unfold in X.
    destruct X as [X|[_ X]]; [left; exact X|right; exact X].
  - right. destruct X as [X|[X _]]; [exact X|discriminate X].
Qed.
Lemma builtg_of f : In f (leaves (d_nodes d)) -> exists a', In a' (c_args c) /\ of_field f a'.
Proof.
  intros Hf. rewrite (builtf_args d bin Hfo).
  destruct (bargs_of (map (field_arg false) (leaves (d_nodes d)) ++ [help_arg]) 1 (field_arg false f)) as [a' [H X]].
  { apply in_or_app. left. apply in_map. exact Hf. }
  exists a'. split; [exact H|]. rewrite <- bf_unfold in X. exact X.
Qed.

Lemma builtg_app : assert_app c = true.
Proof. rewrite built_eq. apply valid_assert_app. exact Hv. Qed.

Lemma builtg_norel : norel c = true.
Proof.
  unfold norel. rewrite (builtf_groups d bin Hfo). apply andb_true_intro. split.
  - apply forallb_forall. intros a Ha. destruct (builtg_cases a Ha) as [[f [_ Hof]]| ->]; [|reflexivity].
    destruct (of_field_facts f a Hof) as (_ & _ & _ & _ & _ & _ & _ & _ & _ & H10 & (R1 & R2 & R3 & R4 & R5 & R6 & R7)).
    destruct (bf_rel f) as (H1 & H2 & H3 & H4 & H5 & H6 & H7).
    rewrite R1, R2, R3, R4, R5, R6, R7, H1, H2, H3, H4, H5, H6, H7, H10. reflexivity.
  - apply forallb_forall. intros g [<-|Hg].
    + destruct (struct_group_facts (d_gid d) (d_nodes d)) as (H1 & H2 & H3 & H4). rewrite H1, H2, H3, H4. reflexivity.
    + destruct (sgroups_facts _ g Hg) as (H1 & H2 & H3 & H4). rewrite H1, H2, H3, H4. reflexivity.
Qed.

Lemma builtg_no_globals :
  no_globals (build_recursive (S (S (depth (build_self (with_bin (derive_cmd d) bin))))) (with_bin (derive_cmd d) bin)) = true.
Proof.
  rewrite <- built_eq. cbn [build_recursive]. rewrite <- built_eq. apply no_globals_intro.
  - rewrite (proj2 (set_subs_args _ _)), (builtf_subs d bin Hfo). reflexivity.
  - rewrite (proj1 (set_subs_args _ _)). apply forallb_forall. intros a Hin.
    destruct (builtg_cases a Hin) as [[f [_ Hof]]| ->]; [|reflexivity].
    destruct (of_field_facts f a Hof) as (_ & _ & _ & _ & _ & _ & _ & _ & G & _). rewrite G. reflexivity.
Qed.

End Fields.

(** * 2. from the value parser's language to the typed value *)
Lemma vp_accepts_scalar cnt t ic s :
  vp_parse (vp_of cnt ic t) s = None -> is_some (parse_scalar t ic s) = true.
Proof.
  destruct t as [| | | |e]; [| | | |apply enum_accepts_scalar]; cbn [vp_of parse_scalar vp_parse].
  - destruct (beq s s_true); [reflexivity|]. destruct (beq s s_false); [reflexivity|discriminate].
  - unfold parse_int_in. destruct cnt; cbn [vp_parse]; destruct (negb (utf8_valid s)); try discriminate;
      destruct (parse_i64 s) as [z|]; try discriminate; destruct ((0 <=? z) && (z <=? 255))%Z; try discriminate; reflexivity.
  - unfold parse_int_in. destruct (negb (utf8_valid s)); try discriminate.
    destruct (parse_i64 s) as [z|]; try discriminate. destruct ((i64_lo <=? z) && (z <=? i64_hi))%Z; try discriminate; reflexivity.
  - destruct (utf8_valid s); [reflexivity|discriminate].
Qed.

Lemma forallb_map_opt {A B} (g : A -> option B) : forall l, forallb (fun x => is_some (g x)) l = true ->
  exists r, map_opt g l = Some r /\ length r = length l.
Proof.
  induction l as [|x l IH]; intros H; [exists []; split; reflexivity|]. cbn [forallb] in H. apply andb_prop in H. destruct H as [Hx Hl].
  destruct (IH Hl) as [r [Er Lr]]. cbn [map_opt]. destruct (g x) as [y|]; [|discriminate Hx]. rewrite Er.
  exists (y :: r). split; [reflexivity|cbn; rewrite Lr; reflexivity].
Qed.

Lemma typed_groups_of_ok t ic ma :
  forallb (forallb (fun s => is_some (parse_scalar t ic s))) (m_raw ma) = true ->
  exists gs, typed_groups t ic ma = Some gs
             /\ (m_raw ma <> [] -> Forall (fun g : list bytes => g <> []) (m_raw ma) -> concat gs <> []).
Proof.
  unfold typed_groups. generalize (m_raw ma). induction l as [|g l IH]; intros H.
  - exists []. split; [reflexivity|]. intros X. contradiction X. reflexivity.
  - cbn [forallb] in H. apply andb_prop in H. destruct H as [Hg Hl]. destruct (IH Hl) as [gs [Eg _]].
    destruct (forallb_map_opt _ g Hg) as [r [Er Lr]]. cbn [map_opt]. rewrite Er, Eg.
    exists (r :: gs). split; [reflexivity|]. intros _ Hall. inversion Hall as [|? ? Hne _]; subst.
    cbn [concat]. destruct r as [|y r]; [|discriminate]. destruct g; [contradiction Hne; reflexivity|discriminate Lr].
Qed.

(** * 3. the class, and the theorem *)
(** the field's argument cannot be stored without a value *)
Definition field_full (f : field) : Prop :=
  match field_action f with
  | ASet | AAppend => 0 < vmin (bf_num f)
  | ASetTrue | ASetFalse | ACount => True
  | _ => False
  end.
(** a plain field ([T], not [Option] / [Vec]) is required or has a default, and its occurrences carry a value *)
Definition guarded (f : field) : Prop :=
  f_ty f <> TyUnit /\ (f_ty f = TyOther -> field_full f /\ (field_required f = true \/ bf_default f <> [])).

Lemma full_of_field f a' : of_field f a' -> field_full f -> full_groups a'.
Proof.
  intros Hof H. destruct (of_field_facts f a' Hof) as (_ & _ & Hn & Ha & _). unfold full_groups, field_full in *. rewrite Ha.
  destruct (field_action f); try exact H; exists (bf_num f); split; assumption.
Qed.

(** every value stored for a leaf field passed the field's own value parser, hence has a typed reading -- enum fields
    included: their parser is the real [EnumValueParser] ([vp_of] = [VPPossible ic (enum_pvs e)], [DeriveEnum]) *)
Lemma level_typed d bin toks st :
  flat_nodes (d_nodes d) = true -> valid (with_bin (derive_cmd d) bin) = true ->
  get_matches_with (S (S (depth (built d bin)))) (built d bin) toks ps_new = ROk st ->
  forall f ma, In f (leaves (d_nodes d)) -> f_ty f <> TyUnit -> fm_get (f_id f) (mt_args (mt st)) = Some ma ->
  forallb (forallb (fun s => is_some (parse_scalar (f_t f) (f_icase f) s))) (m_raw ma) = true.
Proof.
  intros Hfo Hv Hr f ma Hf Hnu Ge. set (c := built d bin) in *.
  pose proof (builtg_app d bin Hv) as Happ. pose proof (assert_app_W3 c Happ) as W3.
  pose proof (gmw_typed (S (S (depth c))) c toks ps_new Happ (TS_ps_new c)) as Hty. rewrite Hr in Hty. cbn [holds] in Hty. destruct Hty as [Hte _].
  destruct (builtg_of d bin Hfo f Hf) as [a' [Ha' Hof]].
  destruct (of_field_facts f a' Hof) as (Fid & Fvp & _).
  rewrite <- Fid in Ge.
  assert (Hvp : a_vp a' = Some (vp_of (is_count (Some (field_action f))) (f_icase f) (f_t f)))
    by (rewrite Fvp, bf_vp_eq; unfold field_vp; destruct (f_ty f); try reflexivity; contradiction Hnu; reflexivity).
  pose proof (Hte (a_id a') ma a' _ (fm_get_In _ _ _ Ge) (W3 a' Ha') Hvp) as Hacc.
  apply forallb_forall; intros g Hgin; apply forallb_forall; intros s Hs.
  apply (vp_accepts_scalar (is_count (Some (field_action f))) (f_t f) (f_icase f) s).
  rewrite Forall_forall in Hacc; pose proof (Hacc g Hgin) as Hg0; rewrite Forall_forall in Hg0; apply (Hg0 s Hs).
Qed.

(** ... so the check the derive model made after the parse until round 5 ([enum_ok_nodes]: every raw value held for an
    enum-typed field is a name of the enum) is a THEOREM about the matches of a successful level *)
Theorem level_enum_ok d bin toks st :
  flat_nodes (d_nodes d) = true -> Forall (fun f => f_ty f <> TyUnit) (leaves (d_nodes d)) ->
  valid (with_bin (derive_cmd d) bin) = true ->
  get_matches_with (S (S (depth (built d bin)))) (built d bin) toks ps_new = ROk st ->
  enum_ok_nodes (d_nodes d) (into_inner (mt st)) = true.
Proof.
  intros Hfo Hnu Hv Hr. pose proof (level_typed d bin toks st Hfo Hv Hr) as Hty.
  assert (Hfield : forall f, In f (leaves (d_nodes d)) -> entry_ok (f_t f) (f_icase f) (f_id f) (into_inner (mt st)) = true).
  { intros f Hf. unfold entry_ok. destruct (f_t f) as [| | | |e] eqn:Et; try reflexivity. cbn [into_inner ms_args].
    destruct (fm_get (f_id f) (mt_args (mt st))) as [ma|] eqn:Ge; [|reflexivity].
    rewrite <- Et. apply (Hty f ma Hf (proj1 (Forall_forall _ _) Hnu f Hf) Ge). }
  revert Hfield. generalize (into_inner (mt st)). intros m. generalize (d_nodes d) Hfo. clear.
  assert (H : (forall nd, flat_node nd = true ->
                 (forall f, In f (leaves_node nd) -> entry_ok (f_t f) (f_icase f) (f_id f) m = true) -> enum_ok_node nd m = true)
              /\ (forall ns, flat_nodes ns = true ->
                 (forall f, In f (leaves ns) -> entry_ok (f_t f) (f_icase f) (f_id f) m = true) -> enum_ok_nodes ns m = true)
              /\ (forall vs : variants, True)).
  { apply derive_mutind.
    - intros f _ Hfield. cbn [enum_ok_node]. apply Hfield. left. reflexivity.
    - intros opt gid body IH Hfl Hfield. cbn [enum_ok_node]. apply IH; assumption.
    - intros opt vs _ Hfl. discriminate Hfl.
    - intros _ _. reflexivity.
    - intros nd IHn t IHt Hfl Hfield. cbn [flat_nodes] in Hfl. apply andb_prop in Hfl. destruct Hfl as [F1 F2].
      cbn [enum_ok_nodes]. apply andb_true_intro. split.
      + apply IHn; [exact F1|]. intros f Hf. apply Hfield. cbn [leaves]. apply in_or_app. left. exact Hf.
      + apply IHt; [exact F2|]. intros f Hf. apply Hfield. cbn [leaves]. apply in_or_app. right. exact Hf.
    - exact I.
    - intros; exact I. }
  intros n Hfl Hfield. apply (proj1 (proj2 H) n Hfl Hfield).
Qed.

Theorem level_guarantees d bin toks st :
  flat_nodes (d_nodes d) = true -> Forall guarded (leaves (d_nodes d)) ->
  valid (with_bin (derive_cmd d) bin) = true ->
  get_matches_with (S (S (depth (built d bin)))) (built d bin) toks ps_new = ROk st ->
  guar_nodes (d_nodes d) (into_inner (mt st)).
Proof.
  intros Hfo Hg Hv Hr. pose proof (level_typed d bin toks st Hfo Hv Hr) as Htyped. set (c := built d bin) in *.
  pose proof (builtg_app d bin Hv) as Happ. assert (Hie : is_set s_ignore_errors (built d bin) = false) by (rewrite (builtf_is_set d bin Hfo); reflexivity).
  pose proof (assert_app_W3 c Happ) as W3.
  (* the facts about the final state *)
  destruct (gmw_nonempty c Happ Hie _ toks st Hr) as [Wf Hne].
  pose proof (gmw_sound (S (S (depth c))) c toks ps_new st Happ Hr Wf) as Hrel.
  destruct (precedence (S (depth c)) c toks ps_new st (assert_app_ids_distinct c Happ) Hr) as (st_c & st1 & st2 & _ & _ & _ & _ & Hprec).
  (* field by field *)
  assert (Hfield : forall f, In f (leaves (d_nodes d)) -> guar_node (NArg f) (into_inner (mt st))).
  { intros f Hf. pose proof (proj1 (Forall_forall _ _) Hg f Hf) as [Hnu Hplain].
    destruct (builtg_of d bin Hfo f Hf) as [a' [Ha' Hof]].
    destruct (of_field_facts f a' Hof) as (Fid & Fvp & Fnum & Fact & Freq & Fdef & Fifs & Fenv & _).
    cbn [guar_node into_inner ms_args]. rewrite <- Fid.
    destruct (fm_get (a_id a') (mt_args (mt st))) as [ma|] eqn:Ge.
    - (* the entry is typed, and holds a value when the field is plain *)
      assert (Hraw : forallb (forallb (fun s => is_some (parse_scalar (f_t f) (f_icase f) s))) (m_raw ma) = true)
        by (apply (Htyped f ma Hf Hnu); rewrite <- Fid; exact Ge).
      destruct (typed_groups_of_ok _ _ ma Hraw) as [gs [Etg Hcat]]. exists gs. split; [exact Etg|].
      intros Hoth. destruct (Hplain Hoth) as [Hfull _].
      destruct (Hne a' ma Ha' (full_of_field f a' Hof Hfull) Ge) as [N1 N2]. apply (Hcat N1 N2).
    - (* no entry: the field is not plain *)
      intros Hoth. destruct (Hplain Hoth) as [_ [Hreq|Hdef]].
      + (* required: the validator accepted, so the argument is present *)
        assert (HR : Required c (mt st) (present (mt st)) (a_id a')) by (apply Rq_static; [exact Ha'|rewrite Freq; exact Hreq]).
        assert (Hneg : negates_reqs c (mt st) = false).
        { unfold negates_reqs. unfold c. rewrite (builtf_is_set d bin Hfo). reflexivity. }
        destruct (rel_required c (mt st) _ Hrel Hneg (a_id a') HR) as [Hsat _].
        destruct (Hsat a' (W3 a' Ha')) as [[m [Gm _]]|[[e [b [Hb [Hx _]]]]|Hex]].
        * rewrite Ge in Gm. discriminate Gm.
        * destruct (find_arg_id c e b Hb) as [_ Hin]. destruct (norel_arg c b (builtg_norel d bin Hfo) Hin) as (_ & _ & _ & _ & _ & _ & _ & X).
          rewrite X in Hx. discriminate Hx.
        * exfalso. destruct Hex as [[y [_ [_ [D|D]]]]|[g [y [_ [_ [_ [D|D]]]]]]]; apply (norel_no_declares c _ _ (builtg_norel d bin Hfo) D).
      + (* a declared default gives an entry *)
        destruct (in_split _ _ Ha') as [pre [post Hsplit]]. specialize (Hprec pre a' post Hsplit).
        destruct (fm_get (a_id a') (mt_args (mt st1))) as [m1|]; [rewrite Ge in Hprec; discriminate Hprec|].
        rewrite Fenv in Hprec. destruct Hprec as [st_a [ch [_ [Hch Hres]]]].
        inversion Hch as [l1 i p dd l2 Hr0 Hx1 Hx2 Hx3|Hno Ech]; subst.
        * rewrite Fifs in Hr0. destruct l1; discriminate Hr0.
        * rewrite Fdef in Hres. destruct (bf_default f) as [|d0 dr]; [contradiction Hdef; reflexivity|].
          cbn [is_nil] in Hres. destruct Hres as [vs [e [_ [_ [Gx _]]]]]. rewrite Ge in Gx. discriminate Gx. }
  (* all fields, through the flatten nesting *)
  clear Hprec Hrel Hne Htyped. revert Hfield. generalize (into_inner (mt st)). intros m.
  generalize (d_nodes d) Hfo. clear.
  assert (H : (forall nd, flat_node nd = true ->
                 (forall f, In f (leaves_node nd) -> guar_node (NArg f) m) -> guar_node nd m)
              /\ (forall ns, flat_nodes ns = true ->
                 (forall f, In f (leaves ns) -> guar_node (NArg f) m) -> guar_nodes ns m)
              /\ (forall vs : variants, True)).
  { apply derive_mutind.
    - intros f _ Hfield. apply Hfield. left. reflexivity.
    - intros opt gid body IH Hfl Hfield. cbn [guar_node]. intros _. apply IH; assumption.
    - intros opt vs _ Hfl. discriminate Hfl.
    - intros _ _. exact I.
    - intros nd IHn t IHt Hfl Hfield. cbn [flat_nodes] in Hfl. apply andb_prop in Hfl. destruct Hfl as [F1 F2].
      cbn [guar_nodes]. split.
      + apply IHn; [exact F1|]. intros f Hf. apply Hfield. cbn [leaves]. apply in_or_app. left. exact Hf.
      + apply IHt; [exact F2|]. intros f Hf. apply Hfield. cbn [leaves]. apply in_or_app. right. exact Hf.
    - exact I.
    - intros; exact I. }
  intros n Hfl Hfield. apply (proj1 (proj2 H) n Hfl Hfield).
Qed.

(** * 4. the ids of a struct of fields are distinct once the command passed clap's assertions *)
Lemma bargs_ids : forall args pc, map a_id (bargs pc args) = map a_id args.
Proof.
  induction args as [|a t IH]; intros pc; [reflexivity|]. cbn [bargs].
  destruct (arg_build_frame a) as (Hid & _).
  destruct (a_is_positional (arg_build a) && negb (is_some (a_index (arg_build a)))); cbn [map]; rewrite IH; f_equal.
  - destruct (idx_frame (arg_build a) pc) as (H1 & _). rewrite H1. exact Hid.
  - exact Hid.
Qed.

Lemma fields_wf : forall ns, fields_only ns = true -> NoDup (map f_id (fields_of ns)) -> wf_nodes ns.
Proof.
  induction ns as [|n t IH]; intros Hfo Hnd; [exact I|].
  destruct n as [f| |]; cbn [fields_only] in Hfo; try discriminate Hfo.
  cbn [fields_of map] in Hnd. inversion Hnd as [|? ? Hni Hnd']; subst.
  cbn [wf_nodes wf_node level_ids_node has_sub_node]. split; [exact I|]. split; [apply IH; assumption|]. split; [|discriminate].
  intros i [<-|[]] Hin. apply Hni. clear - Hin Hfo. induction t as [|n t IHt]; [destruct Hin|].
  destruct n as [f2| |]; cbn [fields_only] in Hfo; try discriminate Hfo.
  cbn [level_ids level_ids_node app fields_of map] in *. destruct Hin as [<-|Hin]; [left; reflexivity|right; apply IHt; assumption].
Qed.

Lemma NoDup_app_l {A} (l l' : list A) : NoDup (l ++ l') -> NoDup l.
Proof.
  induction l as [|x l IH]; intros H; [constructor|]. cbn [app] in H. inversion H as [|? ? Hni Hnd]; subst.
  constructor; [intros Hin; apply Hni; apply in_or_app; left; exact Hin|apply IH; exact Hnd].
Qed.

Lemma valid_fields_wf d bin : fields_only (d_nodes d) = true -> valid (with_bin (derive_cmd d) bin) = true -> wf_nodes (d_nodes d).
Proof.
  intros Hfo Hv. apply (fields_wf _ Hfo).
  destruct (assert_app_ids_distinct _ (builtg_app d bin Hv)) as [Hnd _].
  rewrite (built_args d bin Hfo), bargs_ids, map_app, map_map in Hnd.
  apply NoDup_app_l in Hnd.
  erewrite map_ext; [exact Hnd|]. intros f. cbv beta. rewrite field_arg_closed. reflexivity.
Qed.

(** * 5. [parse_top] of the generated command, any argv *)
Lemma parse_top_flat d argv m : flat_nodes (d_nodes d) = true ->
  valid (with_bin (derive_cmd d) (hd [] argv)) = true ->
  parse_top (derive_cmd d) argv = OOk m ->
  exists st, get_matches_with (S (S (depth (built d (hd [] argv))))) (built d (hd [] argv)) (tl argv) ps_new = ROk st
             /\ m = into_inner (mt st).
Proof.
  intros Hfo Hv H. set (bin := hd [] argv) in *.
  assert (E : parse_top (derive_cmd d) argv = do_parse (with_bin (derive_cmd d) bin) (tl argv)).
  { unfold parse_top. rewrite (flat_no_binary_flag d Hfo). destruct argv as [|b rest]; [|reflexivity].
    unfold bin, with_bin. cbn [hd tl]. destruct (c_bin_name (derive_cmd d)); reflexivity. }
  rewrite E, do_parse_unfold, Hv in H. cbn [negb] in H. rewrite <- built_eq in H.
  destruct (get_matches_with (S (S (depth (built d bin)))) (built d bin) (tl argv) ps_new) as [st|e st|n] eqn:G.
  - rewrite (finish_no_globals _ st (builtg_no_globals d bin Hfo)) in H. inversion H. exists st. split; reflexivity.
  - unfold finish_outcome in H. rewrite <- built_eq, (builtf_is_set d bin Hfo) in H. discriminate H.
  - unfold finish_outcome in H. destruct n; discriminate H.
Qed.

(** EXTRACTION CANNOT FAIL AFTER A SUCCESSFUL COMMAND PARSE, ANY ARGV -- structs of fields and flattened structs *)
Theorem extract_total_argv_flat d argv m :
  flat_nodes (d_nodes d) = true -> wf_nodes (d_nodes d) -> Forall guarded (leaves (d_nodes d)) ->
  valid (with_bin (derive_cmd d) (hd [] argv)) = true ->
  parse_top (derive_cmd d) argv = OOk m ->
  exists vs, extract d m = XOk vs.
Proof.
  intros Hfo Hwf Hg Hv Hp. destruct (parse_top_flat d argv m Hfo Hv Hp) as [st [Hr ->]].
  apply extract_total; [exact Hwf|]. apply (level_guarantees d _ _ st Hfo Hg Hv Hr).
Qed.

(** the matches of a successful parse of the generated command hold only enum names for enum-typed fields *)
Theorem parse_enum_ok d argv m :
  flat_nodes (d_nodes d) = true -> Forall (fun f => f_ty f <> TyUnit) (leaves (d_nodes d)) ->
  valid (with_bin (derive_cmd d) (hd [] argv)) = true ->
  parse_top (derive_cmd d) argv = OOk m -> enum_ok_nodes (d_nodes d) m = true.
Proof.
  intros Hfo Hnu Hv Hp. destruct (parse_top_flat d argv m Hfo Hv Hp) as [st [Hr ->]].
  apply (level_enum_ok d _ _ st Hfo Hnu Hv Hr).
Qed.

Theorem parse_iff_command_flat d argv :
  flat_nodes (d_nodes d) = true -> wf_nodes (d_nodes d) -> Forall guarded (leaves (d_nodes d)) ->
  valid (with_bin (derive_cmd d) (hd [] argv)) = true ->
  ((exists vs, derived_parse d argv = PValue vs) <-> (exists m, parse_top (derive_cmd d) argv = OOk m)).
Proof.
  intros Hfo Hwf Hg Hv. split.
  - intros [vs H]. apply parse_factor in H. destruct H as [m [Hp _]]. exists m. exact Hp.
  - intros [m Hp].
    destruct (extract_total_argv_flat d argv m Hfo Hwf Hg Hv Hp) as [vs Hx]. exists vs.
    apply parse_factor. exists m. auto.
Qed.

(** the struct-of-fields instances ([wf_nodes] follows from [valid]) *)
Theorem extract_total_argv d argv m :
  fields_only (d_nodes d) = true -> Forall guarded (fields_of (d_nodes d)) ->
  valid (with_bin (derive_cmd d) (hd [] argv)) = true ->
  parse_top (derive_cmd d) argv = OOk m ->
  exists vs, extract d m = XOk vs.
Proof.
  intros Hfo Hg Hv. destruct (fields_flat _ Hfo) as (Hfl & El & _).
  apply (extract_total_argv_flat d argv m Hfl (valid_fields_wf d _ Hfo Hv)); [rewrite El; exact Hg|exact Hv].
Qed.

Theorem parse_iff_command d argv :
  fields_only (d_nodes d) = true -> Forall guarded (fields_of (d_nodes d)) ->
  valid (with_bin (derive_cmd d) (hd [] argv)) = true ->
  ((exists vs, derived_parse d argv = PValue vs) <-> (exists m, parse_top (derive_cmd d) argv = OOk m)).
Proof.
  intros Hfo Hg Hv. destruct (fields_flat _ Hfo) as (Hfl & El & _).
  apply (parse_iff_command_flat d argv Hfl (valid_fields_wf d _ Hfo Hv)); [rewrite El; exact Hg|exact Hv].
Qed.

(** * 6. [wf_nodes] of a struct with flattened structs follows from clap's assertions on the generated command
    (argument ids distinct, group ids distinct, no argument id is a group id) *)
From Coq Require Import Permutation.

Lemma NoDup_app_r {A} (l l' : list A) : NoDup (l ++ l') -> NoDup l'.
Proof. induction l as [|x l IH]; intros H; [exact H|]. cbn [app] in H. inversion H; subst. apply IH. assumption. Qed.
Lemma NoDup_app_disj {A} (l l' : list A) : NoDup (l ++ l') -> forall x, In x l -> ~ In x l'.
Proof.
  induction l as [|y l IH]; intros H x Hx; [destruct Hx|]. cbn [app] in H. inversion H as [|? ? Hni Hnd]; subst.
  destruct Hx as [<-|Hx]; [intros Hin; apply Hni; apply in_or_app; right; exact Hin|apply IH; assumption].
Qed.
Lemma NoDup_app_intro {A} (l l' : list A) : NoDup l -> NoDup l' -> (forall x, In x l -> ~ In x l') -> NoDup (l ++ l').
Proof.
  induction l as [|y l IH]; intros H1 H2 Hd; [exact H2|]. inversion H1 as [|? ? Hni Hnd]; subst. cbn [app]. constructor.
  - intros Hin. apply in_app_or in Hin. destruct Hin as [Hin|Hin]; [apply Hni; exact Hin|apply (Hd y (or_introl eq_refl) Hin)].
  - apply IH; [exact Hnd|exact H2|]. intros x Hx. apply Hd. right. exact Hx.
Qed.

Lemma flat_no_sub : (forall nd, flat_node nd = true -> has_sub_node nd = false)
  /\ (forall ns, flat_nodes ns = true -> has_sub_nodes ns = false) /\ (forall vs : variants, True).
Proof.
  apply derive_mutind; try (intros; exact I).
  - intros f _. reflexivity.
  - intros opt gid body IH H. cbn [flat_node] in H. cbn [has_sub_node]. apply IH. exact H.
  - intros opt vs _ H. discriminate H.
  - intros _. reflexivity.
  - intros nd IHn t IHt H. cbn [flat_nodes] in H. apply andb_prop in H. destruct H as [H1 H2].
    cbn [has_sub_nodes]. rewrite (IHn H1), (IHt H2). reflexivity.
Qed.

Lemma nodup_wf : (forall nd, flat_node nd = true -> NoDup (level_ids_node nd) -> wf_node nd)
  /\ (forall ns, flat_nodes ns = true -> NoDup (level_ids ns) -> wf_nodes ns) /\ (forall vs : variants, True).
Proof.
  apply derive_mutind; try (intros; exact I).
  - intros opt gid body IH H Hnd. cbn [flat_node] in H. cbn [level_ids_node] in Hnd. inversion Hnd as [|? ? Hni Hnd']; subst.
    cbn [wf_node]. split; [exact Hni|apply IH; assumption].
  - intros opt vs _ H. discriminate H.
  - intros nd IHn t IHt H Hnd. cbn [flat_nodes] in H. apply andb_prop in H. destruct H as [H1 H2].
    cbn [level_ids] in Hnd. cbn [wf_nodes]. split; [apply IHn; [exact H1|apply (NoDup_app_l _ _ Hnd)]|].
    split; [apply IHt; [exact H2|apply (NoDup_app_r _ _ Hnd)]|]. split; [exact (NoDup_app_disj _ _ Hnd)|].
    intros Hs. rewrite (proj1 flat_no_sub nd H1) in Hs. discriminate Hs.
Qed.

Lemma struct_group_id gid ns : g_id (struct_group gid ns) = gid.
Proof. unfold struct_group. destruct (has_flatten ns); reflexivity. Qed.

Lemma level_ids_perm :
  (forall nd, flat_node nd = true -> Permutation (level_ids_node nd) (map f_id (leaves_node nd) ++ map g_id (sgroups_node nd)))
  /\ (forall ns, flat_nodes ns = true -> Permutation (level_ids ns) (map f_id (leaves ns) ++ map g_id (sgroups ns)))
  /\ (forall vs : variants, True).
Proof.
  apply derive_mutind; try (intros; exact I).
  - intros f _. cbn [level_ids_node leaves_node sgroups_node map app]. apply Permutation_refl.
  - intros opt gid body IH H. cbn [flat_node] in H. cbn [level_ids_node leaves_node sgroups_node map].
    rewrite struct_group_id. apply Permutation_cons_app. apply IH. exact H.
  - intros opt vs _ H. discriminate H.
  - intros _. apply Permutation_refl.
  - intros nd IHn t IHt H. cbn [flat_nodes] in H. apply andb_prop in H. destruct H as [H1 H2].
    cbn [level_ids leaves sgroups]. rewrite !map_app.
    eapply Permutation_trans; [apply (Permutation_app (IHn H1) (IHt H2))|].
    rewrite <- !app_assoc. apply Permutation_app_head. rewrite !app_assoc. apply Permutation_app_tail. apply Permutation_app_comm.
Qed.

Lemma count_nodup_gid : forall l : list group,
  (forall g, In g l -> (count_if (fun x => beq (g_id x) (g_id g)) l < 2)%nat) -> NoDup (map g_id l).
Proof.
  induction l as [|g t IH]; intros H; [constructor|]. cbn [map]. constructor.
  - intros Hin. apply in_map_iff in Hin. destruct Hin as [g' [E Hg']].
    specialize (H g (or_introl eq_refl)). unfold count_if in H. cbn [filter] in H. rewrite beq_refl in H. cbn [length] in H.
    assert (Hf : In g' (filter (fun x => beq (g_id x) (g_id g)) t)) by (apply filter_In; split; [exact Hg'|rewrite E; apply beq_refl]).
    destruct (filter (fun x => beq (g_id x) (g_id g)) t); [destruct Hf|cbn [length] in H; lia].
  - apply IH. intros g' Hg'. specialize (H g' (or_intror Hg')). unfold count_if in *. cbn [filter] in H.
    destruct (beq (g_id g) (g_id g')); cbn [length] in H; lia.
Qed.

Lemma valid_flat_wf d bin : flat_nodes (d_nodes d) = true -> valid (with_bin (derive_cmd d) bin) = true -> wf_nodes (d_nodes d).
Proof.
  intros Hfl Hv. apply (proj1 (proj2 nodup_wf) _ Hfl).
  apply (Permutation_NoDup (Permutation_sym (proj1 (proj2 level_ids_perm) _ Hfl))).
  pose proof (builtg_app d bin Hv) as Happ.
  destruct (assert_app_ids_distinct _ Happ) as [Hnd Hng].
  apply NoDup_app_intro.
  - rewrite (builtf_args d bin Hfl), bargs_ids, map_app, map_map in Hnd. apply NoDup_app_l in Hnd.
    erewrite map_ext; [exact Hnd|]. intros f. cbv beta. rewrite field_arg_closed. reflexivity.
  - pose proof (assert_app_rel_wf _ Happ) as Hrw. unfold rel_wf in Hrw. rewrite forallb_forall in Hrw.
    assert (Hall : NoDup (map g_id (c_groups (built d bin)))).
    { apply count_nodup_gid. intros g Hg. specialize (Hrw g Hg). apply andb_prop in Hrw. destruct Hrw as [Hc _].
      apply Nat.ltb_lt in Hc. exact Hc. }
    rewrite (builtf_groups d bin Hfl) in Hall. cbn [map] in Hall. inversion Hall; assumption.
  - intros i Hi Hg. apply in_map_iff in Hi. destruct Hi as [f [<- Hf]].
    destruct (builtg_of d bin Hfl f Hf) as [a' [Ha' Hof]]. destruct (of_field_facts f a' Hof) as (Fid & _).
    specialize (Hng a' Ha'). rewrite Fid in Hng.
    apply in_map_iff in Hg. destruct Hg as [g [Eg Hgin]].
    unfold find_group in Hng. pose proof (find_none _ _ Hng g) as X. cbn beta in X.
    rewrite Eg, beq_refl in X. discriminate X. rewrite (builtf_groups d bin Hfl). right. exact Hgin.
Qed.

(** the flat theorems with [wf_nodes] discharged *)
Theorem extract_total_argv_flat_valid d argv m :
  flat_nodes (d_nodes d) = true -> Forall guarded (leaves (d_nodes d)) ->
  valid (with_bin (derive_cmd d) (hd [] argv)) = true ->
  parse_top (derive_cmd d) argv = OOk m ->
  exists vs, extract d m = XOk vs.
Proof. intros Hfl Hg Hv. apply (extract_total_argv_flat d argv m Hfl (valid_flat_wf d _ Hfl Hv) Hg Hv). Qed.

Theorem parse_iff_command_flat_valid d argv :
  flat_nodes (d_nodes d) = true -> Forall guarded (leaves (d_nodes d)) ->
  valid (with_bin (derive_cmd d) (hd [] argv)) = true ->
  ((exists vs, derived_parse d argv = PValue vs) <-> (exists m, parse_top (derive_cmd d) argv = OOk m)).
Proof. intros Hfl Hg Hv. apply (parse_iff_command_flat d argv Hfl (valid_flat_wf d _ Hfl Hv) Hg Hv). Qed.
