(** Property C15: non-vacuity of the composition theorems of DeriveParse.v — a struct with a flag,
    an [Option<u8>], a [Vec<String>] and a counter; the value [{ vv: true, oo: Some(7), x: ["a","b"], c: 3 }]
    prints to [--vv --oo=7 -x=a -x=b -c -c -c]. *)
From ClapModel Require Import Base.Bytes Base.Machine Base.Utf8.
From ClapModel Require Import Parse.Cmd Parse.Build Parse.Valid Parse.Matcher Parse.Errors Parse.Validator Parse.Parser.
From ClapModel Require Import ParseProofs.Unparse ParseProofs.UnparseTree.
From ClapModel Require Import Derive.DeriveModel Derive.DeriveProofs Derive.DeriveCmd Derive.DeriveArgs Derive.DeriveParse Derive.DeriveUpdate Derive.DeriveAccept.
From ClapModel Require Import ParseProofs.Actions.
From Coq Require Import ZArith List Bool Lia.
Import ListNotations.
Open Scope N_scope.

Module ParseEx.
Definition fl : field := mkField [118] SynPath TBool (KLong [118;118]) None None None None None false.
Definition fo : field := mkField [111] (SynOption SynPath) TU8 (KLong [111;111]) None None None None None false.
Definition fv : field := mkField [120] (SynVec SynPath) TStr (KShort 120) None None None None None false.
Definition fc : field := mkField [99] SynPath TU8 (KShort 99) (Some ACount) None None None None false.
Definition ns : nodes := NCons (NArg fl) (NCons (NArg fo) (NCons (NArg fv) (NCons (NArg fc) NNil))).
Definition d : dinput := mkDinput b_prog [83] ns.
Definition v : list dval := [DOne (SvBool true); DOpt (Some (SvInt 7)); DVec [SvStr [97]; SvStr [98]]; DOne (SvInt 3)].
Definition argv : list bytes :=
  [[45;45;118;118]; [45;45;111;111;61;55]; [45;120;61;97]; [45;120;61;98]; [45;99]; [45;99]; [45;99]].

Lemma ex_print : print d v = Some argv. Proof. vm_compute. reflexivity. Qed.

Lemma ex_struct : opt_struct d.
Proof.
  split; [reflexivity|]. split; [|split].
  - repeat constructor; vm_compute; reflexivity.
  - cbn. repeat constructor; cbn; intuition discriminate.
  - cbn. repeat constructor; cbn; intuition discriminate.
Qed.

Lemma ex_printable : printable (d_nodes d) v.
Proof.
  intros f x gs Hat Hg. cbn [d_nodes d ns v at_node] in Hat.
  destruct Hat as [[<- <-]|[[<- <-]|[[<- <-]|[[<- <-]|[]]]]]; vm_compute in Hg; inversion Hg; subst; clear Hg.
  - split; [reflexivity|vm_compute; reflexivity].
  - split; [exists [[55]]; reflexivity|vm_compute; reflexivity].
  - split; [discriminate|vm_compute; reflexivity].
  - split; [exists 3%nat; split; [reflexivity|lia]|vm_compute; reflexivity].
Qed.

Lemma ex_ok : ok_nodes (d_nodes d) v.
Proof.
  change (ok_node (NArg fl) (DOne (SvBool true)) /\ ok_node (NArg fo) (DOpt (Some (SvInt 7)))
          /\ ok_node (NArg fv) (DVec [SvStr [97]; SvStr [98]]) /\ ok_node (NArg fc) (DOne (SvInt 3)) /\ True).
  split; [|split; [|split; [|split; [|exact I]]]].
  - split; [cbv; auto|]. constructor; [apply srt_bool|constructor].
  - split; [cbv; auto|]. constructor; [apply srt_u8|constructor].
  - split; [cbv; auto|]. constructor; [apply srt_str|constructor; [apply srt_str|constructor]].
  - split; [cbv; auto|]. constructor; [apply srt_u8|constructor].
Qed.

Lemma ex_valid : valid (with_bin (derive_cmd d) b_prog) = true. Proof. vm_compute. reflexivity. Qed.

(** the line parses (computed), hence by [roundtrip_parse_sound] the derived parser returns the value *)
Lemma ex_parses : exists m, parse_top (derive_cmd d) (b_prog :: argv) = OOk m.
Proof. eexists. vm_compute; reflexivity. Qed.

Theorem ex_roundtrip : derived_parse d (b_prog :: argv) = PValue v.
Proof.
  destruct ex_parses as [m Hp]. apply parse_factor. exists m. split; [exact Hp|].
  exact (roundtrip_parse_sound d b_prog v argv m ex_struct ex_printable ex_ok ex_valid ex_print Hp).
Qed.

Ltac acc_num := intros st; vm_compute; reflexivity.
Ltac acc_vals vp := exists vp; split; [vm_compute; reflexivity|];
  apply Forall_forall; intros x Hx; vm_compute in Hx;
  repeat (destruct Hx as [<-|Hx]; [vm_compute; reflexivity|]); destruct Hx.
Ltac acc_act := cbn [field_action default_action from_syn_ty get_vec_ty is_generic_vec is_generic_option f_action f_syn f_t fl fo fv fc].
Lemma ex_accepted : accepted_nodes d b_prog (d_nodes d) v.
Proof.
  intros f x gs Hat Hg. cbn [d_nodes d ns v at_node] in Hat.
  destruct Hat as [[<- <-]|[[<- <-]|[[<- <-]|[[<- <-]|[]]]]]; vm_compute in Hg; inversion Hg; subst; clear Hg.
  - split; [reflexivity|]. apply Forall_cons; [|apply Forall_nil]. split; [acc_num|]. acc_act.
    acc_vals VPBool.
  - split; [exists [[55]]; reflexivity|]. apply Forall_cons; [|apply Forall_nil]. split; [acc_num|]. acc_act.
    acc_vals (VPI64 0 255).
  - split; [discriminate|]. apply Forall_cons; [|apply Forall_cons; [|apply Forall_nil]]; (split; [acc_num|]); acc_act;
      acc_vals VPString.
  - split; [exists 3%nat; split; [reflexivity|lia]|].
    apply Forall_cons; [|apply Forall_cons; [|apply Forall_cons; [|apply Forall_nil]]]; (split; [acc_num|]); acc_act;
      (split; [repeat split; vm_compute; reflexivity|reflexivity]).
Qed.

Lemma ex_conv : conv (built d b_prog) = true /\ wf_inv (built d b_prog) (ILeaf (nodes_items (d_nodes d) v)) = true
  /\ render_inv (ILeaf (nodes_items (d_nodes d) v)) = argv.
Proof. split; [|split]; vm_compute; reflexivity. Qed.
End ParseEx.

(** When can extraction fail after the command accepted the line?  When the generated command does not declare the
    requiredness extraction relies on: a plain field with the explicit attribute [required = false] (corpus type
    BPlainNotRequired; model = implementation).  The command accepts the empty line, extraction reports
    MissingRequiredArgument. *)
Module NotRequiredEx.
Definition fn : field := mkField [110] SynPath TStr (KLong [110;110]) None None (Some false) None None false.
Definition d : dinput := mkDinput b_prog [83] (NCons (NArg fn) NNil).
Lemma ex_extract_fails :
  exists m, parse_top (derive_cmd d) [b_prog] = OOk m /\ extract d m = XErr EMissingRequiredArgument
            /\ derived_parse d [b_prog] = PError EMissingRequiredArgument.
Proof. eexists. split; [vm_compute; reflexivity|]. split; vm_compute; reflexivity. Qed.
End NotRequiredEx.

(** update: the line [--vv -x=z] names the flag and the vector; the [Option<u8>] field [oo] has no occurrence and
    no default, and keeps its value [Some(7)] (the counter [c], which has the action default "0", is reset: the
    recorded finding C15-update-default-reset) *)
Module UpdateEx.
Definition its : list item := [ItLong [118;118]; ItCluster [] (TEq 120 [122])].
Definition v0 : list dval := [DOne (SvBool false); DOpt (Some (SvInt 7)); DVec [SvStr [97]]; DOne (SvInt 3)].
Definition v1 : list dval := [DOne (SvBool true); DOpt (Some (SvInt 7)); DVec [SvStr [122]]; DOne (SvInt 0)].
Lemma ex_update :
  fields_only (d_nodes ParseEx.d) = true /\ In ParseEx.fo (fields_of (d_nodes ParseEx.d)) /\ bf_default ParseEx.fo = []
  /\ valid (with_bin (derive_cmd_for_update ParseEx.d) b_prog) = true
  /\ wf_inv (builtu ParseEx.d b_prog) (ILeaf its) = true
  /\ Actions.count_occ (f_id ParseEx.fo) (occs (builtu ParseEx.d b_prog) 1 its) = 0%nat
  /\ render its = [[45;45;118;118]; [45;120;61;122]]
  /\ derived_update ParseEx.d v0 (b_prog :: render its) = PValue v1
  /\ field_at (d_nodes ParseEx.d) v1 (f_id ParseEx.fo) = Some (DOpt (Some (SvInt 7))).
Proof.
  split; [reflexivity|]. split; [right; left; reflexivity|]. repeat split; vm_compute; reflexivity.
Qed.
End UpdateEx.
