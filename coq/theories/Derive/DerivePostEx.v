(** Property C15: non-vacuity of [roundtrip_parse] (DerivePost.v) on a struct that exercises what the post-loop phases do:
    a required plain field, a flag left false (the action default "false" is stored by the defaults phase), a counter
    left 0 (default "0"), an absent [Option<u8>], and a plain field with [default_value] (always printed).
    [{ n: "a", vv: false, c: 0, oo: None, k: "z" }] prints to [--nn=a --kk=z]. *)
From ClapModel Require Import Base.Bytes Base.Machine Base.Utf8.
From ClapModel Require Import Parse.Cmd Parse.Build Parse.Valid Parse.Matcher Parse.Errors Parse.Validator Parse.Parser.
From ClapModel Require Import ParseProofs.Unparse ParseProofs.UnparseTree ParseProofs.Actions.
From ClapModel Require Import Derive.DeriveModel Derive.DeriveProofs Derive.DeriveCmd Derive.DeriveArgs Derive.DeriveParse
                              Derive.DeriveAccept Derive.DerivePost Derive.DeriveParseEx.
From Coq Require Import ZArith List Bool Lia.
Import ListNotations.
Open Scope N_scope.

Module PostEx.
Definition fn : field := mkField [110] SynPath TStr (KLong [110;110]) None None None None None false.
Definition fl : field := mkField [118] SynPath TBool (KLong [118;118]) None None None None None false.
Definition fc : field := mkField [99] SynPath TU8 (KShort 99) (Some ACount) None None None None false.
Definition fo : field := mkField [111] (SynOption SynPath) TU8 (KLong [111;111]) None None None None None false.
Definition fk : field := mkField [107] SynPath TStr (KLong [107;107]) None (Some [100;102]) None None None false.
Definition ns : nodes := NCons (NArg fn) (NCons (NArg fl) (NCons (NArg fc) (NCons (NArg fo) (NCons (NArg fk) NNil)))).
Definition d : dinput := mkDinput b_prog [83] ns.
Definition v : list dval := [DOne (SvStr [97]); DOne (SvBool false); DOne (SvInt 0); DOpt None; DOne (SvStr [122])].
Definition argv : list bytes := [[45;45;110;110;61;97]; [45;45;107;107;61;122]].

Lemma ex_print : print d v = Some argv. Proof. vm_compute. reflexivity. Qed.
Lemma ex_required : field_required fn = true /\ bf_default fl = [s_false] /\ bf_default fc = [[48]].
Proof. repeat split; reflexivity. Qed.

Lemma ex_struct : opt_struct d.
Proof.
  split; [reflexivity|]. split; [|split].
  - repeat constructor; vm_compute; reflexivity.
  - cbn. repeat constructor; cbn; intuition discriminate.
  - cbn. repeat constructor; cbn; intuition discriminate.
Qed.
Lemma ex_takes : Forall takes_ok (fields_of (d_nodes d)).
Proof. repeat constructor; vm_compute; reflexivity. Qed.

Lemma ex_ok : ok_nodes (d_nodes d) v.
Proof.
  change (ok_node (NArg fn) (DOne (SvStr [97])) /\ ok_node (NArg fl) (DOne (SvBool false))
          /\ ok_node (NArg fc) (DOne (SvInt 0)) /\ ok_node (NArg fo) (DOpt None) /\ ok_node (NArg fk) (DOne (SvStr [122])) /\ True).
  split; [|split; [|split; [|split; [|split; [|exact I]]]]].
  - split; [cbv; intros H; discriminate H|]. constructor; [apply srt_str|constructor].
  - split; [cbv; auto|]. constructor; [apply srt_bool|constructor].
  - split; [cbv; auto|]. constructor; [apply srt_u8|constructor].
  - split; [cbv; auto|]. constructor.
  - split; [cbv; intros H; discriminate H|]. constructor; [apply srt_str|constructor].
Qed.

Lemma ex_valid : valid (with_bin (derive_cmd d) b_prog) = true. Proof. vm_compute. reflexivity. Qed.

Ltac acc_num := intros st; vm_compute; reflexivity.
Ltac acc_vals vp := exists vp; split; [vm_compute; reflexivity|];
  apply Forall_forall; intros x Hx; vm_compute in Hx;
  repeat (destruct Hx as [<-|Hx]; [vm_compute; reflexivity|]); destruct Hx.
Ltac acc_act := cbn [field_action default_action from_syn_ty get_vec_ty is_generic_vec is_generic_option f_action f_syn f_t fn fl fc fo fk].
Lemma ex_accepted : accepted_nodes d b_prog (d_nodes d) v.
Proof.
  intros f x gs Hat Hg. cbn [d_nodes d ns v at_node] in Hat.
  destruct Hat as [[<- <-]|[[<- <-]|[[<- <-]|[[<- <-]|[[<- <-]|[]]]]]]; vm_compute in Hg; inversion Hg; subst; clear Hg.
  - split; [exists [[97]]; reflexivity|]. apply Forall_cons; [|apply Forall_nil]. split; [acc_num|]. acc_act. acc_vals VPString.
  - split; [exists [[122]]; reflexivity|]. apply Forall_cons; [|apply Forall_nil]. split; [acc_num|]. acc_act. acc_vals VPString.
Qed.

Lemma ex_required_mentioned : required_mentioned (d_nodes d) v.
Proof.
  intros f x Hat Hr. cbn [d_nodes d ns v at_node] in Hat.
  destruct Hat as [[<- <-]|[[<- <-]|[[<- <-]|[[<- <-]|[[<- <-]|[]]]]]]; vm_compute in Hr; try discriminate Hr.
  eexists. vm_compute. reflexivity.
Qed.

(** by the theorem ... *)
Theorem ex_roundtrip : derived_parse d (b_prog :: argv) = PValue v.
Proof. exact (roundtrip_parse d b_prog v argv ex_struct ex_takes ex_ok ex_accepted ex_required_mentioned ex_valid ex_print). Qed.
(** ... and by computation (cross-check of the statement on this input) *)
Lemma ex_roundtrip_computed : derived_parse d (b_prog :: argv) = PValue v.
Proof. vm_compute. reflexivity. Qed.
(** the hypothesis [required_mentioned] is needed: with the required field's occurrence dropped the command rejects *)
Lemma ex_missing_required : derived_parse d [b_prog; [45;45;107;107;61;122]] = PError EMissingRequiredArgument.
Proof. vm_compute. reflexivity. Qed.
Lemma ex_fits : fits_all (d_nodes d) v.
Proof. vm_compute. repeat split; reflexivity. Qed.
(** the struct of DeriveParseEx.v (flag set, counter 3, a vector) *)
Lemma ex_fits2 : fits_all (d_nodes ParseEx.d) ParseEx.v /\ Forall takes_ok (fields_of (d_nodes ParseEx.d))
  /\ required_mentioned (d_nodes ParseEx.d) ParseEx.v.
Proof.
  split; [vm_compute; repeat split; reflexivity|]. split; [repeat constructor; vm_compute; reflexivity|].
  intros f x Hat Hr. cbn [d_nodes ParseEx.d ParseEx.ns ParseEx.v at_node] in Hat.
  destruct Hat as [[<- <-]|[[<- <-]|[[<- <-]|[[<- <-]|[]]]]]; vm_compute in Hr; discriminate Hr.
Qed.
Theorem ex_roundtrip_class : derived_parse d (b_prog :: argv) = PValue v.
Proof. exact (roundtrip_parse_class d b_prog v argv ex_struct ex_takes ex_ok ex_fits ex_required_mentioned ex_valid ex_print). Qed.
Theorem ex_roundtrip_class2 : derived_parse ParseEx.d (b_prog :: ParseEx.argv) = PValue ParseEx.v.
Proof.
  destruct ex_fits2 as (H1 & H2 & H3).
  exact (roundtrip_parse_class ParseEx.d b_prog ParseEx.v ParseEx.argv ParseEx.ex_struct H2 ParseEx.ex_ok H1 H3 ParseEx.ex_valid ParseEx.ex_print).
Qed.
End PostEx.

(** [fits] is needed: [Option<Vec<String>> = Some([])] prints to a bare [--xx], which the Append action's [1..=1] rejects *)
Module FitsEx.
Definition fov : field := mkField [120] (SynOption (SynVec SynPath)) TStr (KLong [120;120]) None None None None None false.
Definition dv : dinput := mkDinput b_prog [83] (NCons (NArg fov) NNil).
Lemma ex_unfit : print dv [DOptVec (Some [])] = Some [[45;45;120;120]]
  /\ derived_parse dv [b_prog; [45;45;120;120]] = PError EInvalidValue
  /\ ~ fits fov (DOptVec (Some [])).
Proof. split; [vm_compute; reflexivity|]. split; [vm_compute; reflexivity|]. intros H. vm_compute in H. destruct H as [_ H]. discriminate H. Qed.
End FitsEx.
