(** Proofs about the derive model (property C15). *)
From ClapModel Require Import Base.Bytes Base.Machine Base.Utf8.
From ClapModel Require Import Parse.Cmd Parse.Build Parse.Matcher Parse.Errors Parse.Parser.
From ClapModel Require Import Value.ValueBase Value.PossibleValues.
From ClapModel Require Import Derive.DeriveModel.
From Coq Require Import ZArith Lia.
From RecordUpdate Require Import RecordSet.
Import RecordSetNotations.
Open Scope N_scope.

(** ================================================================ value enums *)
Lemma lits_from_spec e : forall k i pv,
  In (i, pv) (lits_from k e) <->
  exists j v, i = (k + j)%nat /\ nth_error e j = Some v /\ vv_skip v = false /\ pv = vv_pv v.
Proof.
  induction e as [|x e IH]; intros k i pv; cbn [lits_from].
  - split; [intros [] | intros (j & v & _ & H & _); destruct j; discriminate].
  - destruct (vv_skip x) eqn:Hs.
    + rewrite IH. split.
      * intros (j & v & -> & H1 & H2 & H3). exists (S j), v. repeat split; auto; lia.
      * intros (j & v & -> & H1 & H2 & H3). destruct j as [|j]; cbn in H1.
        { inversion H1; subst. congruence. }
        exists j, v. repeat split; auto; lia.
    + cbn [In]. rewrite IH. split.
      * intros [H | (j & v & -> & H1 & H2 & H3)].
        { inversion H; subst. exists O, x. repeat split; auto; lia. }
        exists (S j), v. repeat split; auto; lia.
      * intros (j & v & -> & H1 & H2 & H3). destruct j as [|j]; cbn in H1.
        { inversion H1; subst. left. f_equal. lia. }
        right. exists j, v. repeat split; auto; lia.
Qed.

Lemma lits_spec e i pv :
  In (i, pv) (lits e) <-> exists v, nth_error e i = Some v /\ vv_skip v = false /\ pv = vv_pv v.
Proof.
  unfold lits. rewrite lits_from_spec. split.
  - intros (j & v & -> & H). exists v. exact H.
  - intros (v & H). exists i, v. split; [reflexivity | exact H].
Qed.

Lemma eq_ignore_case_refl u a : eq_ignore_case u a a = true.
Proof.
  unfold eq_ignore_case, unicase_eq, eq_ignore_ascii_case.
  destruct u; [destruct (is_ascii a && is_ascii a)|]; apply beq_refl.
Qed.

Lemma pv_matches_own u pv name ic : In name (name_and_aliases pv) -> pv_matches u pv name ic = true.
Proof.
  intros Hin. unfold pv_matches. destruct ic; apply existsb_exists; exists name; split; auto.
  - apply eq_ignore_case_refl.
  - apply beq_refl.
Qed.

Lemma find_some_ex {A} (f : A -> bool) l x : In x l -> f x = true -> exists y, find f l = Some y.
Proof.
  induction l as [|a l IH]; intros Hin Hf; [destruct Hin|].
  cbn [find]. destruct (f a) eqn:E; [eexists; reflexivity|].
  destruct Hin as [->|Hin]; [congruence | auto].
Qed.

(** no string is claimed by two different listed variants under the comparison in use *)
Definition names_disjoint (ic : bool) (e : venum) : Prop :=
  forall i j pi pj s, In (i, pi) (lits e) -> In (j, pj) (lits e) ->
    pv_matches uni pi s ic = true -> pv_matches uni pj s ic = true -> i = j.

Theorem value_enum_names e ic i v name :
  names_disjoint ic e ->
  nth_error e i = Some v -> vv_skip v = false -> In name (name_and_aliases (vv_pv v)) ->
  ve_from_str e name ic = Some i.
Proof.
  intros Hd Hn Hs Hin. unfold ve_from_str.
  assert (Hl : In (i, vv_pv v) (lits e)) by (apply lits_spec; exists v; auto).
  assert (Hm : pv_matches uni (vv_pv v) name ic = true) by (apply pv_matches_own; exact Hin).
  destruct (find_some_ex (fun p => pv_matches uni (snd p) name ic) (lits e) (i, vv_pv v) Hl Hm) as [[j pj] Hf].
  rewrite Hf. cbn. apply find_some in Hf. destruct Hf as [Hjl Hjm]. cbn in Hjm.
  f_equal. symmetry. exact (Hd i j (vv_pv v) pj name Hl Hjl Hm Hjm).
Qed.

(** whatever [from_str] answers is a listed (non-skipped) variant one of whose names matches *)
Theorem value_enum_sound e s ic i :
  ve_from_str e s ic = Some i ->
  exists v, nth_error e i = Some v /\ vv_skip v = false /\ pv_matches uni (vv_pv v) s ic = true.
Proof.
  unfold ve_from_str. destruct (find _ (lits e)) as [[j pj]|] eqn:Hf; cbn; [|discriminate].
  intros H; inversion H; subst. apply find_some in Hf. destruct Hf as [Hl Hm]. cbn in Hm.
  apply lits_spec in Hl. destruct Hl as (v & H1 & H2 & ->). exists v. auto.
Qed.

(** a skipped variant has no textual form and nothing maps to it *)
Theorem value_enum_skipped e i v :
  nth_error e i = Some v -> vv_skip v = true ->
  ve_to_possible_value e i = None /\ forall s ic, ve_from_str e s ic <> Some i.
Proof.
  intros Hn Hs. split.
  - unfold ve_to_possible_value. rewrite Hn, Hs. reflexivity.
  - intros s ic H. apply value_enum_sound in H. destruct H as (v' & H1 & H2 & _). congruence.
Qed.

(** ================================================================ per-shape extraction *)
Definition entry (f : field) (m : matches) := fm_get (f_id f) (ms_args m).
Definition tg (f : field) (ma : marg) := typed_groups (f_t f) (f_icase f) ma.

Definition shape_spec (f : field) (m : matches) (v : dval) : Prop :=
  match f_ty f with
  | TyUnit => v = DUnit
  | TyOther => exists ma gs x, entry f m = Some ma /\ tg f ma = Some gs /\ hd_error (concat gs) = Some x /\ v = DOne x
  | TyOption => (entry f m = None /\ v = DOpt None)
                \/ exists ma gs, entry f m = Some ma /\ tg f ma = Some gs /\ v = DOpt (hd_error (concat gs))
  | TyOptionOption => (entry f m = None /\ v = DOptOpt None)
                \/ exists ma gs, entry f m = Some ma /\ tg f ma = Some gs /\ v = DOptOpt (Some (hd_error (concat gs)))
  | TyVec => (entry f m = None /\ v = DVec [])
                \/ exists ma gs, entry f m = Some ma /\ tg f ma = Some gs /\ v = DVec (concat gs)
  | TyOptionVec => (entry f m = None /\ v = DOptVec None)
                \/ exists ma gs, entry f m = Some ma /\ tg f ma = Some gs /\ v = DOptVec (Some (concat gs))
  | TyVecVec => (entry f m = None /\ v = DVecVec [])
                \/ exists ma gs, entry f m = Some ma /\ tg f ma = Some gs /\ v = DVecVec gs
  | TyOptionVecVec => (entry f m = None /\ v = DOptVecVec None)
                \/ exists ma gs, entry f m = Some ma /\ tg f ma = Some gs /\ v = DOptVecVec (Some gs)
  end.

Lemma remove_typed_ok t ic i m r :
  remove_typed t ic i m = XOk r ->
  (fm_get i (ms_args m) = None /\ r = (None, m))
  \/ exists ma gs, fm_get i (ms_args m) = Some ma /\ typed_groups t ic ma = Some gs /\ r = (Some gs, m_remove i m).
Proof.
  unfold remove_typed. destruct (fm_get i (ms_args m)) as [ma|] eqn:E.
  - destruct (typed_groups t ic ma) as [gs|] eqn:G; [|discriminate].
    intros H; inversion H; subst. right. exists ma, gs. auto.
  - intros H; inversion H; subst. left. auto.
Qed.

Lemma m_contains_get i m : m_contains i m = is_some (fm_get i (ms_args m)).
Proof. reflexivity. Qed.

Theorem field_value_shapes f m v m' :
  field_value f m = XOk (v, m') ->
  shape_spec f m v /\ (m' = m \/ m' = m_remove (f_id f) m).
Proof.
  unfold field_value, shape_spec, entry, tg, remove_one, remove_many, remove_occurrences.
  destruct (f_ty f); try rewrite m_contains_get.
  - intros H; inversion H; auto.
  - (* Vec *)
    destruct (remove_typed _ _ _ m) as [r| |] eqn:R; cbn; try discriminate.
    intros H; inversion H; subst; clear H. apply remove_typed_ok in R.
    destruct R as [[E ->]|(ma & gs & E & G & ->)]; cbn; split; auto.
    right. exists ma, gs. auto.
  - (* VecVec *)
    destruct (remove_typed _ _ _ m) as [r| |] eqn:R; cbn; try discriminate.
    intros H; inversion H; subst; clear H. apply remove_typed_ok in R.
    destruct R as [[E ->]|(ma & gs & E & G & ->)]; cbn; split; auto.
    right. exists ma, gs. auto.
  - (* Option *)
    destruct (remove_typed _ _ _ m) as [r| |] eqn:R; cbn; try discriminate.
    intros H; inversion H; subst; clear H. apply remove_typed_ok in R.
    destruct R as [[E ->]|(ma & gs & E & G & ->)]; cbn; split; auto.
    right. exists ma, gs. auto.
  - (* OptionOption *)
    destruct (fm_get (f_id f) (ms_args m)) as [ma0|] eqn:E0; cbn [is_some].
    + destruct (remove_typed _ _ _ m) as [r| |] eqn:R; cbn; try discriminate.
      intros H; inversion H; subst; clear H. apply remove_typed_ok in R.
      destruct R as [[E ->]|(ma & gs & E & G & ->)]; cbn; [congruence|]. split; auto.
      right. exists ma, gs. rewrite <- E0. auto.
    + intros H; inversion H; subst. auto.
  - (* OptionVec *)
    destruct (fm_get (f_id f) (ms_args m)) as [ma0|] eqn:E0; cbn [is_some].
    + destruct (remove_typed _ _ _ m) as [r| |] eqn:R; cbn; try discriminate.
      intros H; inversion H; subst; clear H. apply remove_typed_ok in R.
      destruct R as [[E ->]|(ma & gs & E & G & ->)]; cbn; [congruence|]. split; auto.
      right. exists ma, gs. rewrite <- E0. auto.
    + intros H; inversion H; subst. auto.
  - (* OptionVecVec *)
    destruct (remove_typed _ _ _ m) as [r| |] eqn:R; cbn; try discriminate.
    intros H; inversion H; subst; clear H. apply remove_typed_ok in R.
    destruct R as [[E ->]|(ma & gs & E & G & ->)]; cbn; split; auto.
    right. exists ma, gs. auto.
  - (* Other *)
    destruct (remove_typed _ _ _ m) as [r| |] eqn:R; cbn; try discriminate.
    apply remove_typed_ok in R.
    destruct R as [[E ->]|(ma & gs & E & G & ->)]; cbn; [discriminate|].
    destruct (hd_error (concat gs)) as [x|] eqn:Hx; [|discriminate].
    intros H; inversion H; subst. split; auto. exists ma, gs, x. auto.
Qed.

(** ================================================================ what extraction does to the matches *)
Lemma fm_get_remove_none {V} (i j : id) (l : list (id * V)) :
  fm_get i l = None -> fm_get i (fst (fm_remove j l)) = None.
Proof.
  induction l as [|[k v] l IH]; cbn [fm_get fm_remove]; auto.
  destruct (beq k i) eqn:Ei; [discriminate|]. intros H.
  destruct (beq k j) eqn:Ej; cbn [fst]; auto.
  destruct (fm_remove j l) as [t b] eqn:R. cbn [fst fm_get] in *. rewrite Ei. auto.
Qed.

Lemma fm_get_remove_other {V} (i j : id) (l : list (id * V)) :
  i <> j -> fm_get i (fst (fm_remove j l)) = fm_get i l.
Proof.
  intros Hne. induction l as [|[k v] l IH]; cbn [fm_get fm_remove]; auto.
  destruct (beq k j) eqn:Ej; cbn [fst].
  - apply beq_eq in Ej. subst k. destruct (beq j i) eqn:Ei; auto. apply beq_eq in Ei. congruence.
  - destruct (fm_remove j l) as [t b] eqn:R. cbn [fst fm_get] in *. rewrite IH. reflexivity.
Qed.

(** [le_m m' m]: [m'] is [m] with some entries (and possibly the subcommand) taken out *)
Definition le_m (m' m : matches) : Prop :=
  (forall i, fm_get i (ms_args m) = None -> fm_get i (ms_args m') = None)
  /\ (ms_sub m = None -> ms_sub m' = None).
Lemma le_m_refl m : le_m m m. Proof. split; auto. Qed.
Lemma le_m_trans a b c : le_m a b -> le_m b c -> le_m a c.
Proof. intros [H1 H2] [H3 H4]. split; auto. Qed.
Lemma le_m_remove i m : le_m (m_remove i m) m.
Proof. split; cbn; auto. intros j H. apply fm_get_remove_none. exact H. Qed.
Lemma le_m_nosub m : le_m (Matches (ms_args m) None) m.
Proof. split; cbn; auto. Qed.

Lemma remove_typed_le t ic i m r : remove_typed t ic i m = XOk r -> le_m (snd r) m.
Proof.
  intros H. apply remove_typed_ok in H. destruct H as [[_ ->]|(ma & gs & _ & _ & ->)]; cbn.
  - apply le_m_refl. - apply le_m_remove.
Qed.

Lemma field_value_le f m v m' : field_value f m = XOk (v, m') -> le_m m' m.
Proof.
  intros H. apply field_value_shapes in H. destruct H as [_ [->| ->]]; [apply le_m_refl | apply le_m_remove].
Qed.

Ltac xinv H :=
  match type of H with
  | xbind ?e _ = XOk _ => let E := fresh "E" in let x := fresh "r" in
                          destruct e as [x| |] eqn:E; cbn [xbind] in H; [|discriminate H|discriminate H]
  end.

Lemma sub_from_matches_ok ev m r :
  sub_from_matches ev m = XOk r -> ms_sub m <> None /\ le_m (snd r) m.
Proof.
  unfold sub_from_matches, ms_remove_subcommand. destruct (ms_sub m) as [[name sm]|]; [|discriminate].
  intros H. xinv H. inversion H; subst. cbn. split; [discriminate | apply le_m_nosub].
Qed.

Lemma sub_update_ok uv ev vi fs m r :
  sub_update uv ev vi fs m = XOk r -> (ms_sub m = None -> r = (vi, fs, m)) /\ le_m (snd r) m.
Proof.
  unfold sub_update. destruct (ms_sub m) as [[name sm]|] eqn:S.
  - intros H. split; [discriminate|]. xinv H. destruct r0 as [fs'|].
    + inversion H; subst. cbn. apply le_m_nosub.
    + apply sub_from_matches_ok in H. apply H.
  - intros H. inversion H; subst. split; auto. apply le_m_refl.
Qed.

Lemma extract_le :
  (forall n m v m', extract_node n m = XOk (v, m') -> le_m m' m)
  /\ (forall ns m vs m', extract_nodes ns m = XOk (vs, m') -> le_m m' m)
  /\ (forall vs : variants, True).
Proof.
  apply derive_mutind; auto.
  - intros f m v m' H. cbn in H. eapply field_value_le; eauto.
  - intros opt gid body IH m v m' H. cbn [extract_node] in H. destruct opt.
    + destruct (m_contains gid m).
      * xinv H. destruct r as [fs m1]. inversion H; subst. cbn. eapply IH; eauto.
      * inversion H; subst. apply le_m_refl.
    + xinv H. destruct r as [fs m1]. inversion H; subst. cbn. eapply IH; eauto.
  - intros opt vs _ m v m' H. cbn [extract_node] in H. destruct opt.
    + destruct (match ms_sub m with Some (name, _) => has_subcommand vs name | None => false end).
      * xinv H. inversion H; subst. apply sub_from_matches_ok in E. apply E.
      * inversion H; subst. apply le_m_refl.
    + xinv H. inversion H; subst. apply sub_from_matches_ok in E. apply E.
  - intros m vs m' H. cbn in H. inversion H; subst. apply le_m_refl.
  - intros n IHn t IHt m vs m' H. cbn [extract_nodes] in H.
    xinv H. destruct r as [v m1]. xinv H. destruct r as [vt m2]. inversion H; subst. cbn in *.
    eapply le_m_trans; [eapply IHt; eauto | eapply IHn; eauto].
Qed.

(** ================================================================ update touches only what the matches name *)
Fixpoint frame_node (n : node) (m : matches) (v v' : dval) {struct n} : Prop :=
  match n with
  | NArg f => m_contains (f_id f) m = false -> v' = v
  | NFlatten false _ body =>
      exists fs fs', v = DStruct fs /\ v' = DStruct fs' /\ frame_nodes body m fs fs'
  | NFlatten true _ body =>
      match v with
      | DOptStruct (Some fs) => exists fs', v' = DOptStruct (Some fs') /\ frame_nodes body m fs fs'
      | _ => True
      end
  | NSub opt _ => ms_sub m = None -> v' = v
  end
with frame_nodes (ns : nodes) (m : matches) (vs vs' : list dval) {struct ns} : Prop :=
  match ns, vs, vs' with
  | NNil, [], [] => True
  | NCons n t, v :: vt, v' :: vt' => frame_node n m v v' /\ frame_nodes t m vt vt'
  | _, _, _ => False
  end.

Lemma update_frame_mut :
  (forall n m0 m v v' m', le_m m m0 -> update_node n v m = XOk (v', m') -> frame_node n m0 v v' /\ le_m m' m0)
  /\ (forall ns m0 m vs vs' m', le_m m m0 -> update_nodes ns vs m = XOk (vs', m') -> frame_nodes ns m0 vs vs' /\ le_m m' m0)
  /\ (forall vs : variants, True).
Proof.
  apply derive_mutind; auto.
  - (* NArg *)
    intros f m0 m v v' m' Hle H. cbn [update_node] in H. cbn [frame_node].
    destruct (m_contains (f_id f) m) eqn:C.
    + split.
      * intros C0. exfalso. rewrite m_contains_get in C, C0.
        destruct (fm_get (f_id f) (ms_args m0)) eqn:G0; [discriminate|].
        destruct Hle as [Hle _]. rewrite (Hle _ G0) in C. discriminate.
      * eapply le_m_trans; [eapply field_value_le; eauto | exact Hle].
    + inversion H; subst. split; auto.
  - (* NFlatten *)
    intros opt gid body IH m0 m v v' m' Hle H. cbn [update_node] in H. cbn [frame_node]. destruct opt.
    + destruct v; try discriminate. destruct o as [fs|].
      * xinv H. destruct r as [fs' m1]. inversion H; subst. cbn.
        destruct (IH _ _ _ _ _ Hle E) as [F L]. split; auto. exists fs'. auto.
      * xinv H. destruct r as [fs' m1]. inversion H; subst. cbn. split; auto.
        eapply le_m_trans; [eapply (proj1 (proj2 extract_le)); eauto | exact Hle].
    + destruct v; try discriminate.
      xinv H. destruct r as [fs' m1]. inversion H; subst. cbn.
      destruct (IH _ _ _ _ _ Hle E) as [F L]. split; auto. exists fs, fs'. auto.
  - (* NSub *)
    intros opt vs _ m0 m v v' m' Hle H. cbn [update_node] in H. cbn [frame_node].
    assert (Hsub0 : ms_sub m0 = None -> ms_sub m = None) by (destruct Hle; auto).
    destruct opt; destruct v; try discriminate.
    + destruct o as [[vi fs]|].
      * xinv H. inversion H; subst. apply sub_update_ok in E. destruct E as [E1 E2]. split.
        -- intros S0. rewrite (E1 (Hsub0 S0)). reflexivity.
        -- eapply le_m_trans; eauto.
      * xinv H. inversion H; subst. apply sub_from_matches_ok in E. destruct E as [E1 E2]. split.
        -- intros S0. exfalso. apply E1. auto.
        -- eapply le_m_trans; eauto.
    + xinv H. inversion H; subst. apply sub_update_ok in E. destruct E as [E1 E2]. split.
      * intros S0. rewrite (E1 (Hsub0 S0)). reflexivity.
      * eapply le_m_trans; eauto.
  - (* NNil *)
    intros m0 m vs vs' m' Hle H. cbn in H. destruct vs; [|discriminate]. inversion H; subst. cbn. auto.
  - (* NCons *)
    intros n IHn t IHt m0 m vs vs' m' Hle H. cbn [update_nodes] in H. destruct vs as [|v vt]; [discriminate|].
    xinv H. destruct r as [v1 m1]. xinv H. destruct r as [vt1 m2]. inversion H; subst. cbn [fst snd] in *.
    destruct (IHn _ _ _ _ _ Hle E) as [F1 L1].
    destruct (IHt _ _ _ _ _ L1 E0) as [F2 L2].
    cbn [frame_nodes]. auto.
Qed.

Theorem update_frame d vs m vs' :
  update d vs m = XOk vs' -> frame_nodes (d_nodes d) m vs vs'.
Proof.
  unfold update. intros H. xinv H. destruct r as [vs1 m1]. inversion H; subst. cbn.
  eapply (proj1 (proj2 update_frame_mut)); [apply le_m_refl | eauto].
Qed.

(** the value of the argument field [i], looked up through required flattens *)
Fixpoint field_at (ns : nodes) (vs : list dval) (i : id) {struct ns} : option dval :=
  match ns, vs with
  | NCons n t, v :: vt =>
      match field_at_node n v i with
      | Some x => Some x
      | None => field_at t vt i
      end
  | _, _ => None
  end
with field_at_node (n : node) (v : dval) (i : id) {struct n} : option dval :=
  match n, v with
  | NArg f, _ => if beq (f_id f) i then Some v else None
  | NFlatten false _ body, DStruct fs => field_at body fs i
  | _, _ => None
  end.

Lemma frame_field_at :
  (forall n m v v' i, frame_node n m v v' -> m_contains i m = false -> field_at_node n v' i = field_at_node n v i)
  /\ (forall ns m vs vs' i, frame_nodes ns m vs vs' -> m_contains i m = false -> field_at ns vs' i = field_at ns vs i)
  /\ (forall vs : variants, True).
Proof.
  apply derive_mutind; try (intros; exact I).
  - intros f m v v' i F C. cbn in *. destruct (beq (f_id f) i) eqn:E; auto.
    apply beq_eq in E. subst i. rewrite (F C). reflexivity.
  - intros opt gid body IH m v v' i F C. destruct opt; cbn [field_at_node]; auto.
    cbn [frame_node] in F. destruct F as (fs & fs' & -> & -> & F). eapply IH; eauto.
  - intros opt vs _ m v v' i F C. reflexivity.
  - intros m vs vs' i F C. cbn in F. destruct vs, vs'; try contradiction. reflexivity.
  - intros n IHn t IHt m vs vs' i F C. cbn [frame_nodes] in F.
    destruct vs as [|v vt]; [contradiction|]. destruct vs' as [|v' vt']; [contradiction|].
    destruct F as [F1 F2]. cbn [field_at]. rewrite (IHn _ _ _ _ F1 C), (IHt _ _ _ _ F2 C). reflexivity.
Qed.

(** for every sequence of update calls: an argument never named by any of the matches keeps its value *)
Theorem update_seq_frame d ms : forall vs vs' i,
  update_seq d vs ms = XOk vs' ->
  Forall (fun m => m_contains i m = false) ms ->
  field_at (d_nodes d) vs' i = field_at (d_nodes d) vs i.
Proof.
  induction ms as [|m ms IH]; intros vs vs' i H Hall; cbn [update_seq] in H.
  - inversion H; subst. reflexivity.
  - inversion Hall; subst. xinv H. rewrite (IH _ _ _ H H3).
    eapply (proj1 (proj2 frame_field_at)); [eapply update_frame; eauto | auto].
Qed.

(** ================================================================ well-formed inputs *)
Fixpoint level_ids_node (n : node) {struct n} : list id :=
  match n with
  | NArg f => [f_id f]
  | NFlatten _ gid body => gid :: level_ids body
  | NSub _ _ => []
  end
with level_ids (ns : nodes) {struct ns} : list id :=
  match ns with
  | NNil => []
  | NCons n t => level_ids_node n ++ level_ids t
  end.
Fixpoint has_sub_node (n : node) {struct n} : bool :=
  match n with
  | NArg _ => false
  | NFlatten _ _ body => has_sub_nodes body
  | NSub _ _ => true
  end
with has_sub_nodes (ns : nodes) {struct ns} : bool :=
  match ns with
  | NNil => false
  | NCons n t => has_sub_node n || has_sub_nodes t
  end.
Definition disjoint (a b : list id) : Prop := forall i, In i a -> ~ In i b.

(** ids (arguments and groups) are distinct within one command level, at most one subcommand
    field per level: what clap's own assertions demand of any command *)
Fixpoint wf_node (n : node) {struct n} : Prop :=
  match n with
  | NArg _ => True
  | NFlatten _ gid body => ~ In gid (level_ids body) /\ wf_nodes body
  | NSub _ vs => wf_variants vs
  end
with wf_nodes (ns : nodes) {struct ns} : Prop :=
  match ns with
  | NNil => True
  | NCons n t => wf_node n /\ wf_nodes t /\ disjoint (level_ids_node n) (level_ids t)
                 /\ (has_sub_node n = true -> has_sub_nodes t = false)
  end
with wf_variants (vs : variants) {struct vs} : Prop :=
  match vs with
  | VNil => True
  | VCons _ _ body t => wf_nodes body /\ wf_variants t
  end.

(** ================================================================ extraction is total on the command's guarantees *)
(** What the generated command guarantees of a successful parse, read off the matches:
    a non-Option, non-Vec field has an entry with a value (it is required, or has a default,
    or is a flag/counter with its implied default); every stored value is in the language of
    the field's value parser; a required subcommand is present and is one of the variants. *)
Fixpoint guar_node (n : node) (m : matches) {struct n} : Prop :=
  match n with
  | NArg f =>
      match fm_get (f_id f) (ms_args m) with
      | None => f_ty f <> TyOther
      | Some ma => exists gs, typed_groups (f_t f) (f_icase f) ma = Some gs
                              /\ (f_ty f = TyOther -> concat gs <> [])
      end
  | NFlatten opt gid body => (opt = true -> m_contains gid m = true) -> guar_nodes body m
  | NSub opt vs =>
      match ms_sub m with
      | None => opt = true
      | Some (name, sm) =>
          if has_subcommand vs name
          then m_contains ext_id sm = false /\ guar_variants vs name sm
          else opt = true
      end
  end
with guar_nodes (ns : nodes) (m : matches) {struct ns} : Prop :=
  match ns with
  | NNil => True
  | NCons n t => guar_node n m /\ guar_nodes t m
  end
with guar_variants (vs : variants) (name : bytes) (sm : matches) {struct vs} : Prop :=
  match vs with
  | VNil => True
  | VCons cname _ body t => if beq cname name then guar_nodes body sm else guar_variants t name sm
  end.

Lemma beq_sym a b : beq a b = beq b a.
Proof.
  destruct (beq a b) eqn:E1, (beq b a) eqn:E2; auto.
  - apply beq_eq in E1. subst. rewrite beq_refl in E2. discriminate.
  - apply beq_eq in E2. subst. rewrite beq_refl in E1. discriminate.
Qed.

Lemma field_value_total f m :
  guar_node (NArg f) m -> exists v m', field_value f m = XOk (v, m').
Proof.
  cbn [guar_node]. unfold field_value, remove_one, remove_many, remove_occurrences, remove_typed.
  rewrite m_contains_get.
  destruct (fm_get (f_id f) (ms_args m)) as [ma|] eqn:E.
  - intros (gs & G & Hne). rewrite G. cbn [is_some].
    destruct (f_ty f) eqn:T; cbn; eauto.
    destruct (concat gs) eqn:C; [exfalso; apply Hne; auto|]. cbn. eauto.
  - intros Hne. cbn [is_some]. destruct (f_ty f) eqn:T; cbn; eauto. congruence.
Qed.

Lemma sub_from_matches_args ev m r : sub_from_matches ev m = XOk r -> ms_args (snd r) = ms_args m.
Proof.
  unfold sub_from_matches, ms_remove_subcommand.
  destruct (ms_sub m) as [[name sm]|]; [|discriminate]. intros Hr. xinv Hr. inversion Hr; subst. reflexivity.
Qed.

(** extraction of a node leaves every entry outside the node's own ids alone, and the
    subcommand too unless the node holds the subcommand field *)
Lemma extract_frame :
  (forall n m v m', extract_node n m = XOk (v, m') ->
     (forall i, ~ In i (level_ids_node n) -> fm_get i (ms_args m') = fm_get i (ms_args m))
     /\ (has_sub_node n = false -> ms_sub m' = ms_sub m))
  /\ (forall ns m vs m', extract_nodes ns m = XOk (vs, m') ->
     (forall i, ~ In i (level_ids ns) -> fm_get i (ms_args m') = fm_get i (ms_args m))
     /\ (has_sub_nodes ns = false -> ms_sub m' = ms_sub m))
  /\ (forall vs : variants, True).
Proof.
  apply derive_mutind; try (intros; exact I).
  - intros f m v m' H. cbn in H. apply field_value_shapes in H. destruct H as [_ [-> | ->]]; split; auto.
    intros i Hi. cbn. apply fm_get_remove_other. intros ->. apply Hi. cbn. auto.
  - intros opt gid body IH m v m' H. cbn [extract_node] in H. cbn [level_ids_node has_sub_node]. destruct opt.
    + destruct (m_contains gid m).
      * xinv H. destruct r as [fs m1]. inversion H; subst. cbn [snd].
        destruct (IH _ _ _ E) as [A B]. split; auto. intros i Hi. apply A. intros Hin. apply Hi. right. exact Hin.
      * inversion H; subst. split; auto.
    + xinv H. destruct r as [fs m1]. inversion H; subst. cbn [snd].
      destruct (IH _ _ _ E) as [A B]. split; auto. intros i Hi. apply A. intros Hin. apply Hi. right. exact Hin.
  - intros opt vs _ m v m' H. cbn [extract_node] in H. cbn [has_sub_node]. split; [|discriminate].
    intros i _. destruct opt.
    + destruct (match ms_sub m with Some (name, _) => has_subcommand vs name | None => false end).
      * xinv H. inversion H; subst. rewrite (sub_from_matches_args _ _ _ E). reflexivity.
      * inversion H; subst. reflexivity.
    + xinv H. inversion H; subst. rewrite (sub_from_matches_args _ _ _ E). reflexivity.
  - intros m vs m' H. cbn in H. inversion H; subst. split; auto.
  - intros n IHn t IHt m vs m' H. cbn [extract_nodes] in H.
    xinv H. destruct r as [v m1]. xinv H. destruct r as [vt m2]. inversion H; subst. cbn [fst snd] in *.
    destruct (IHn _ _ _ E) as [A1 B1]. destruct (IHt _ _ _ E0) as [A2 B2].
    cbn [level_ids has_sub_nodes]. split.
    + intros i Hi. rewrite A2, A1; auto; intros Hin; apply Hi; apply in_or_app; auto.
    + intros Hs. apply orb_false_iff in Hs. destruct Hs as [S1 S2]. rewrite B2, B1; auto.
Qed.

(** the guarantees of a node only concern its own ids (and the subcommand if it has the field) *)
Lemma guar_local :
  (forall n m m', guar_node n m ->
     (forall i, In i (level_ids_node n) -> fm_get i (ms_args m') = fm_get i (ms_args m)) ->
     (has_sub_node n = true -> ms_sub m' = ms_sub m) -> guar_node n m')
  /\ (forall ns m m', guar_nodes ns m ->
     (forall i, In i (level_ids ns) -> fm_get i (ms_args m') = fm_get i (ms_args m)) ->
     (has_sub_nodes ns = true -> ms_sub m' = ms_sub m) -> guar_nodes ns m')
  /\ (forall vs : variants, True).
Proof.
  apply derive_mutind; try (intros; exact I).
  - intros f m m' G A _. cbn [guar_node] in *. rewrite A; [exact G | cbn; auto].
  - intros opt gid body IH m m' G A B. cbn [guar_node] in *. intros C. apply IH with (m := m).
    + apply G. intros Ho. specialize (C Ho). rewrite m_contains_get in *. rewrite <- A; [exact C | cbn; auto].
    + intros i Hi. apply A. cbn. auto.
    + exact B.
  - intros opt vs _ m m' G _ B. cbn [guar_node] in *. rewrite B; auto.
  - intros n IHn t IHt m m' [G1 G2] A B. cbn [guar_nodes level_ids has_sub_nodes] in *. split.
    + apply IHn with (m := m); auto.
      * intros i Hi. apply A. apply in_or_app. auto.
      * intros Hs. apply B. rewrite Hs. reflexivity.
    + apply IHt with (m := m); auto.
      * intros i Hi. apply A. apply in_or_app. auto.
      * intros Hs. apply B. rewrite Hs. apply orb_true_r.
Qed.

Lemma extract_total_mut :
  (forall n m, wf_node n -> guar_node n m -> exists v m', extract_node n m = XOk (v, m'))
  /\ (forall ns m, wf_nodes ns -> guar_nodes ns m -> exists vs m', extract_nodes ns m = XOk (vs, m'))
  /\ (forall vs k name sm, wf_variants vs -> has_subcommand vs name = true ->
        m_contains ext_id sm = false -> guar_variants vs name sm ->
        exists r, extract_variants vs k name sm = XOk r).
Proof.
  apply derive_mutind.
  - intros f m _ G. cbn [extract_node]. apply field_value_total. exact G.
  - intros opt gid body IH m [_ W] G. cbn [extract_node guar_node] in *. destruct opt.
    + destruct (m_contains gid m) eqn:C.
      * destruct (IH m W (G (fun _ => eq_refl))) as (fs & m' & E). rewrite E. cbn. eauto.
      * eauto.
    + destruct (IH m W) as (fs & m' & E); [apply G; discriminate|]. rewrite E. cbn. eauto.
  - intros opt vs IH m W G. cbn [extract_node guar_node wf_node] in *.
    unfold sub_from_matches, ms_remove_subcommand. destruct (ms_sub m) as [[name sm]|] eqn:S.
    + destruct (has_subcommand vs name) eqn:Hs.
      * destruct G as [C G]. destruct (IH 0%nat name sm W Hs C G) as (r & E).
        destruct opt; rewrite E; cbn; eauto.
      * subst opt. eauto.
    + subst opt. eauto.
  - intros m _ _. cbn. eauto.
  - intros n IHn t IHt m (W1 & W2 & D & S) [G1 G2]. cbn [extract_nodes].
    destruct (IHn m W1 G1) as (v & m1 & E1). rewrite E1. cbn [xbind fst snd].
    destruct (proj1 extract_frame _ _ _ _ E1) as [A B].
    assert (G2' : guar_nodes t m1).
    { apply (proj1 (proj2 guar_local)) with (m := m); auto.
      - intros i Hi. apply A. intros Hin. exact (D i Hin Hi).
      - intros Hs. apply B. destruct (has_sub_node n) eqn:Hn; auto. rewrite (S eq_refl) in Hs. discriminate. }
    destruct (IHt m1 W2 G2') as (vt & m2 & E2). rewrite E2. cbn. eauto.
  - intros k name sm _ Hs. cbn in Hs. discriminate.
  - intros cname gid body IHb t IHt k name sm [Wb Wt] Hs C G. cbn [extract_variants guar_variants has_subcommand] in *.
    rewrite C. cbn [negb]. rewrite andb_true_r. rewrite (beq_sym name cname).
    destruct (beq cname name) eqn:E.
    + destruct (IHb sm Wb G) as (fs & m' & Ex). rewrite Ex. cbn. eauto.
    + cbn [orb] in Hs. apply IHt; auto.
Qed.

Theorem extract_total d m :
  wf_nodes (d_nodes d) -> guar_nodes (d_nodes d) m -> exists vs, extract d m = XOk vs.
Proof.
  intros W G. unfold extract. destruct (proj1 (proj2 extract_total_mut) _ m W G) as (vs & m' & E).
  rewrite E. cbn. eauto.
Qed.

(** ================================================================ non-vacuity and witnesses *)
Definition b_prog : bytes := [112; 114; 111; 103].
Definition ex_flag : field := mkField [118] SynPath TBool (KLong [118]) None None None None None false.
Definition ex_opt : field := mkField [111] (SynOption SynPath) TU8 (KLong [111]) None None None None None false.
Definition ex_nodes : nodes := NCons (NArg ex_flag) (NCons (NArg ex_opt) NNil).
Definition ex_input : dinput := mkDinput b_prog [83] ex_nodes.
Definition ex_enum : venum := [mkVv false {| pv_name := [97]; pv_aliases := [[98]] |} false; mkVv true {| pv_name := [99]; pv_aliases := [] |} false].

Example wf_example : wf_nodes ex_nodes.
Proof. cbn. unfold disjoint. cbn. intuition congruence. Qed.

(** the hypotheses of [extract_total] hold of what the parser model returns for `prog --v` *)
Example guar_example :
  exists m, parse_top (derive_cmd ex_input) [b_prog; [45; 45; 118]] = OOk m /\ guar_nodes ex_nodes m.
Proof. eexists. split; [vm_compute; reflexivity|]. cbn. repeat split; try discriminate. eexists. split; [vm_compute; reflexivity| discriminate]. Qed.

Example names_disjoint_example : names_disjoint true ex_enum.
Proof.
  intros i j pi pj s Hi Hj _ _. apply lits_spec in Hi, Hj.
  destruct Hi as (v & Hi & Si & _), Hj as (w & Hj & Sj & _).
  destruct i as [|[|i]], j as [|[|j]]; cbn in *; try reflexivity;
    try (inversion Hi; subst; discriminate); try (inversion Hj; subst; discriminate);
    try (destruct i; discriminate); try (destruct j; discriminate).
Qed.

(** At the argv level the frame statement is false of the faithful model: a flag that is true
    is reset by an update whose command line names nothing (its implied default "false" is in
    the matches).  Replayed on the implementation: known finding C15-update-default-reset. *)
Lemma update_argv_frame_witness :
  derived_update ex_input [DOne (SvBool true); DOpt None] [b_prog] = PValue [DOne (SvBool false); DOpt None].
Proof. vm_compute. reflexivity. Qed.

(** ================================================================ round trip, one field *)
(** a scalar prints to a text that the field's value parser reads back as the same scalar *)
Definition srt (t : vty) (ic : bool) (x : sval) : Prop :=
  forall s, print_scalar t x = Some s -> parse_scalar t ic s = Some x.

Lemma srt_bool ic x : srt TBool ic x.
Proof. intros s. destruct x as [[|]| | |]; cbn; intros H; inversion H; subst; reflexivity. Qed.

Lemma srt_str ic x : srt TStr ic x.
Proof.
  intros s. destruct x; cbn; try discriminate. destruct (utf8_valid s0) eqn:U; [|discriminate].
  intros H; inversion H; subst. rewrite U. reflexivity.
Qed.

Lemma nth_error_lits e i v : nth_error e i = Some v -> vv_skip v = false -> In (i, vv_pv v) (lits e).
Proof. intros. apply lits_spec. eauto. Qed.

(** enum values: under distinct names (for the comparison in use) and UTF-8 names *)
Lemma srt_enum e ic x :
  names_disjoint ic e -> Forall (fun v => utf8_valid (pv_name (vv_pv v)) = true) e -> srt (TEnum e) ic x.
Proof.
  intros Hd Hu s. destruct x; cbn; try discriminate. unfold ve_to_possible_value.
  destruct (nth_error e i) as [v|] eqn:N; [|discriminate]. destruct (vv_skip v) eqn:S; [discriminate|].
  cbn. intros H; inversion H; subst.
  rewrite Forall_forall in Hu. rewrite (Hu v (nth_error_In _ _ N)). cbn.
  rewrite (value_enum_names e ic i v (pv_name (vv_pv v)) Hd N S); [reflexivity | cbn; auto].
Qed.

(** u8: by enumeration of the 256 values (decimal printing and parsing computed) *)
Lemma u8_table :
  forallb (fun k => match parse_int_in 0 255 (z_to_dec (Z.of_nat k)) with
                    | Some (SvInt z) => (z =? Z.of_nat k)%Z | _ => false end
                    && match parse_int_in 0 255 (n_to_dec (N.of_nat k)) with
                       | Some (SvInt z) => (z =? Z.of_nat k)%Z | _ => false end) (seq 0 256) = true.
Proof. vm_compute. reflexivity. Qed.

Lemma u8_rt z : (0 <= z <= 255)%Z ->
  parse_int_in 0 255 (z_to_dec z) = Some (SvInt z)
  /\ parse_int_in 0 255 (n_to_dec (N.of_nat (Z.to_nat z))) = Some (SvInt z).
Proof.
  intros Hz. pose proof u8_table as T. rewrite forallb_forall in T.
  specialize (T (Z.to_nat z)). rewrite Z2Nat.id in T by lia.
  assert (Hin : In (Z.to_nat z) (seq 0 256)) by (apply in_seq; lia).
  specialize (T Hin). apply andb_true_iff in T. destruct T as [T1 T2]. split.
  - destruct (parse_int_in 0 255 (z_to_dec z)) as [[| z' | |]|]; try discriminate.
    apply Z.eqb_eq in T1. subst. reflexivity.
  - destruct (parse_int_in 0 255 (n_to_dec (N.of_nat (Z.to_nat z)))) as [[| z' | |]|]; try discriminate.
    apply Z.eqb_eq in T2. subst. reflexivity.
Qed.

Lemma srt_u8 ic x : srt TU8 ic x.
Proof.
  intros s. destruct x; cbn; try discriminate.
  destruct ((0 <=? z) && (z <=? 255))%Z eqn:R; [|discriminate]. intros H; inversion H; subst.
  apply andb_true_iff in R. destruct R as [R1 R2]. apply Z.leb_le in R1, R2. apply u8_rt. lia.
Qed.

Lemma map_opt_rt {A B} (pr : A -> option B) (pa : B -> option A) l : forall ss,
  Forall (fun x => forall s, pr x = Some s -> pa s = Some x) l ->
  map_opt pr l = Some ss -> map_opt pa ss = Some l.
Proof.
  induction l as [|x l IH]; intros ss Hall H; cbn in H.
  - inversion H; subst. reflexivity.
  - inversion Hall; subst. destruct (pr x) as [s|] eqn:P; [|discriminate].
    destruct (map_opt pr l) as [r|] eqn:M; [|discriminate]. inversion H; subst. cbn.
    rewrite (H2 s eq_refl), (IH r H3 eq_refl). reflexivity.
Qed.

Lemma map_opt_singletons {A B} (pa : A -> option B) ss l :
  map_opt pa ss = Some l -> map_opt (map_opt pa) (map (fun s => [s]) ss) = Some (map (fun x => [x]) l).
Proof.
  revert l. induction ss as [|s ss IH]; intros l H; cbn in *.
  - inversion H; subst. reflexivity.
  - destruct (pa s) as [x|]; [|discriminate]. destruct (map_opt pa ss) as [r|]; [|discriminate].
    inversion H; subst. cbn. rewrite (IH r eq_refl). reflexivity.
Qed.

Lemma concat_singletons {A} (l : list A) : concat (map (fun x => [x]) l) = l.
Proof. induction l; cbn; congruence. Qed.

(** the scalars a field value holds *)
Definition scalars (v : dval) : list sval :=
  match v with
  | DOne x => [x]
  | DOpt (Some x) | DOptOpt (Some (Some x)) => [x]
  | DVec l | DOptVec (Some l) => l
  | DVecVec l | DOptVecVec (Some l) => concat l
  | _ => []
  end.

(** the attribute combinations under which the canonical printer is an inverse: the action is the
    inferred one or Count on a u8; a default only on a non-Option/Vec field that is not a flag or counter *)
Definition field_ok (f : field) : Prop :=
  match f_ty f with
  | TyOther =>
      match f_action f with
      | None => default_action (f_syn f) (f_t f) = ASetTrue -> f_t f = TBool /\ f_default f = None
      | Some ACount => f_t f = TU8 /\ f_default f = None
      | Some ASet => True
      | Some _ => False
      end
  | _ => f_action f = None /\ f_default f = None
  end.

Lemma fm_get_single {V} (i : id) (x : V) : fm_get i [(i, x)] = Some x.
Proof. cbn. rewrite beq_refl. reflexivity. Qed.

Ltac fv_setup :=
  unfold field_value, remove_one, remove_many, remove_occurrences, remove_typed; rewrite ?m_contains_get.

Theorem field_roundtrip f v g m :
  field_ok f ->
  Forall (srt (f_t f) (f_icase f)) (scalars v) ->
  field_groups f v = Some g ->
  fm_get (f_id f) (ms_args m) = fm_get (f_id f) (field_entry f g) ->
  exists m', field_value f m = XOk (v, m').
Proof.
  intros Hok Hs Hg Hm. unfold field_groups in Hg. unfold field_ok in Hok.
  assert (Hact : forall T, f_ty f = T -> T <> TyOther -> field_action f = default_action (f_syn f) (f_t f)
                                                       /\ f_default f = None).
  { intros T ET NT. rewrite ET in Hok. destruct T; try congruence; destruct Hok as [A D];
      unfold field_action; rewrite A; auto. }
  assert (Hda : forall T, f_ty f = T -> T <> TyOther -> T <> TyUnit ->
                 action_default_value (default_action (f_syn f) (f_t f)) = None
                 /\ default_action (f_syn f) (f_t f) <> ASetTrue /\ default_action (f_syn f) (f_t f) <> ACount).
  { intros T ET NT NU. unfold default_action. unfold f_ty in ET. rewrite ET.
    destruct T; try congruence; cbn; repeat split; discriminate. }
  destruct (f_ty f) eqn:T.
  - (* Unit *) destruct v; try discriminate. fv_setup. rewrite T. eauto.
  - (* Vec *)
    destruct (Hact _ eq_refl ltac:(discriminate)) as [HA HD].
    destruct (Hda _ eq_refl ltac:(discriminate) ltac:(discriminate)) as (HV & N1 & N2).
    destruct v; try discriminate. fv_setup. rewrite T. rewrite Hm. clear Hm.
    destruct l as [|x l].
    + inversion Hg; subst. cbn [field_entry]. rewrite HD, HA, HV. cbn. eauto.
    + destruct (map_opt (ps (f_t f)) (x :: l)) as [ss|] eqn:M; [|discriminate]. inversion Hg; subst; clear Hg.
      pose proof (map_opt_rt _ (parse_scalar (f_t f) (f_icase f)) _ _ Hs M) as R.
      cbn [field_entry]. rewrite HA. rewrite fm_get_single. unfold typed_groups. cbn [m_raw].
      destruct (default_action (f_syn f) (f_t f)) eqn:DA; try congruence;
      (destruct (f_is_positional f);
       [ cbn [map_opt]; rewrite R; cbn; rewrite app_nil_r; eauto
       | rewrite (map_opt_singletons _ _ _ R); cbn; rewrite concat_singletons; eauto ]).
  - (* VecVec *)
    destruct (Hact _ eq_refl ltac:(discriminate)) as [HA HD].
    destruct (Hda _ eq_refl ltac:(discriminate) ltac:(discriminate)) as (HV & N1 & N2).
    destruct v; try discriminate. fv_setup. rewrite T. rewrite Hm. clear Hm.
    destruct l as [|x l].
    + inversion Hg; subst. cbn [field_entry]. rewrite HD, HA, HV. cbn. eauto.
    + destruct (map_opt (map_opt (ps (f_t f))) (x :: l)) as [gs|] eqn:M; [|discriminate]. inversion Hg; subst; clear Hg.
      assert (R : map_opt (map_opt (parse_scalar (f_t f) (f_icase f))) gs = Some (x :: l)).
      { eapply map_opt_rt; [|exact M]. cbn [scalars] in Hs.
        clear M. induction (x :: l) as [|a r IHr]; constructor.
        - intros s Ms. eapply map_opt_rt; [|exact Ms]. cbn in Hs. apply Forall_app in Hs. apply Hs.
        - apply IHr. cbn in Hs. apply Forall_app in Hs. apply Hs. }
      cbn [field_entry]. rewrite HA. rewrite fm_get_single. unfold typed_groups. cbn [m_raw].
      destruct (default_action (f_syn f) (f_t f)) eqn:DA; try congruence; rewrite R; cbn; eauto.
  - (* Option *)
    destruct (Hact _ eq_refl ltac:(discriminate)) as [HA HD].
    destruct (Hda _ eq_refl ltac:(discriminate) ltac:(discriminate)) as (HV & N1 & N2).
    destruct v; try discriminate. fv_setup. rewrite T. rewrite Hm. clear Hm.
    destruct o as [x|].
    + destruct (ps (f_t f) x) as [s|] eqn:P; [|discriminate]. inversion Hg; subst; clear Hg.
      cbn [scalars] in Hs. inversion Hs; subst. rewrite (H1 s P) || pose proof (H1 s P) as R.
      cbn [field_entry]. rewrite HA. rewrite fm_get_single. unfold typed_groups. cbn [m_raw].
      destruct (default_action (f_syn f) (f_t f)) eqn:DA; try congruence; cbn; rewrite (H1 s P); cbn; eauto.
    + inversion Hg; subst. cbn [field_entry]. rewrite HD, HA, HV. cbn. eauto.
  - (* OptionOption *)
    destruct (Hact _ eq_refl ltac:(discriminate)) as [HA HD].
    destruct (Hda _ eq_refl ltac:(discriminate) ltac:(discriminate)) as (HV & N1 & N2).
    destruct v; try discriminate. fv_setup. rewrite T. rewrite Hm. clear Hm.
    destruct o as [[x|]|].
    + destruct (ps (f_t f) x) as [s|] eqn:P; [|discriminate]. inversion Hg; subst; clear Hg.
      cbn [scalars] in Hs. inversion Hs; subst.
      cbn [field_entry]. rewrite HA. rewrite fm_get_single. unfold typed_groups. cbn [m_raw is_some].
      destruct (default_action (f_syn f) (f_t f)) eqn:DA; try congruence; cbn; rewrite (H1 s P); cbn; eauto.
    + inversion Hg; subst; clear Hg.
      cbn [field_entry]. rewrite HA. rewrite fm_get_single. unfold typed_groups. cbn [m_raw is_some].
      destruct (default_action (f_syn f) (f_t f)) eqn:DA; try congruence; cbn; eauto.
    + inversion Hg; subst. cbn [field_entry]. rewrite HD, HA, HV. cbn. eauto.
  - (* OptionVec *)
    destruct (Hact _ eq_refl ltac:(discriminate)) as [HA HD].
    destruct (Hda _ eq_refl ltac:(discriminate) ltac:(discriminate)) as (HV & N1 & N2).
    destruct v; try discriminate. fv_setup. rewrite T. rewrite Hm. clear Hm.
    destruct o as [[|x l]|].
    + inversion Hg; subst; clear Hg.
      cbn [field_entry]. rewrite HA. rewrite fm_get_single. unfold typed_groups. cbn [m_raw is_some].
      destruct (default_action (f_syn f) (f_t f)) eqn:DA; try congruence; cbn; eauto.
    + destruct (map_opt (ps (f_t f)) (x :: l)) as [ss|] eqn:M; [|discriminate]. inversion Hg; subst; clear Hg.
      pose proof (map_opt_rt _ (parse_scalar (f_t f) (f_icase f)) _ _ Hs M) as R.
      cbn [field_entry]. rewrite HA. rewrite fm_get_single. unfold typed_groups. cbn [m_raw is_some].
      destruct (default_action (f_syn f) (f_t f)) eqn:DA; try congruence;
      (destruct (f_is_positional f);
       [ cbn [map_opt]; rewrite R; cbn; rewrite app_nil_r; eauto
       | rewrite (map_opt_singletons _ _ _ R); cbn; rewrite concat_singletons; eauto ]).
    + inversion Hg; subst. cbn [field_entry]. rewrite HD, HA, HV. cbn. eauto.
  - (* OptionVecVec *)
    destruct (Hact _ eq_refl ltac:(discriminate)) as [HA HD].
    destruct (Hda _ eq_refl ltac:(discriminate) ltac:(discriminate)) as (HV & N1 & N2).
    destruct v; try discriminate. fv_setup. rewrite T. rewrite Hm. clear Hm.
    destruct o as [[|x l]|]; try discriminate.
    + destruct (map_opt (map_opt (ps (f_t f))) (x :: l)) as [gs|] eqn:M; [|discriminate]. inversion Hg; subst; clear Hg.
      assert (R : map_opt (map_opt (parse_scalar (f_t f) (f_icase f))) gs = Some (x :: l)).
      { eapply map_opt_rt; [|exact M]. cbn [scalars] in Hs.
        clear M. induction (x :: l) as [|a r IHr]; constructor.
        - intros s Ms. eapply map_opt_rt; [|exact Ms]. cbn in Hs. apply Forall_app in Hs. apply Hs.
        - apply IHr. cbn in Hs. apply Forall_app in Hs. apply Hs. }
      cbn [field_entry]. rewrite HA. rewrite fm_get_single. unfold typed_groups. cbn [m_raw].
      destruct (default_action (f_syn f) (f_t f)) eqn:DA; try congruence; rewrite R; cbn; eauto.
    + inversion Hg; subst. cbn [field_entry]. rewrite HD, HA, HV. cbn. eauto.
  - (* Other *)
    destruct v; try discriminate. fv_setup. rewrite T. rewrite Hm. clear Hm Hact Hda.
    cbn [scalars] in Hs. inversion Hs as [|? ? Hx _]; subst.
    unfold field_action in *. destruct (f_action f) as [[]|] eqn:FA; try contradiction.
    + (* explicit Set *)
      destruct (ps (f_t f) v) as [s|] eqn:P; [|discriminate]. inversion Hg; subst; clear Hg.
      cbn [field_entry]. unfold field_action. rewrite FA. rewrite fm_get_single. unfold typed_groups. cbn.
      rewrite (Hx s P). cbn. eauto.
    + (* Count *)
      destruct Hok as [TT HD]. destruct v; try discriminate.
      destruct ((0 <=? z) && (z <=? 255))%Z eqn:R; [|discriminate].
      apply andb_true_iff in R. destruct R as [R1 R2]. apply Z.leb_le in R1, R2.
      destruct (u8_rt z ltac:(lia)) as [_ U].
      destruct (z =? 0)%Z eqn:Z0; inversion Hg; subst; clear Hg; cbn [field_entry]; unfold field_action; rewrite FA.
      * rewrite HD. cbn [action_default_value]. rewrite fm_get_single. unfold typed_groups. cbn [m_raw].
        rewrite TT. apply Z.eqb_eq in Z0. subst z. cbn. eauto.
      * rewrite fm_get_single. unfold typed_groups, count_raw. cbn [m_raw]. rewrite repeat_length.
        rewrite TT. cbn [map_opt parse_scalar]. rewrite U. cbn. eauto.
    + (* inferred action *)
      destruct (default_action (f_syn f) (f_t f)) eqn:DA; try (destruct v; discriminate).
      * destruct (ps (f_t f) v) as [s|] eqn:P; [|discriminate]. inversion Hg; subst; clear Hg.
        cbn [field_entry]. unfold field_action. rewrite FA, DA. rewrite fm_get_single. unfold typed_groups. cbn.
        rewrite (Hx s P). cbn. eauto.
      * destruct (Hok eq_refl) as [TT HD]. destruct v as [b| | |]; try discriminate.
        destruct b; inversion Hg; subst; clear Hg; cbn [field_entry]; unfold field_action; rewrite FA, DA.
        -- rewrite fm_get_single. unfold typed_groups. cbn [m_raw]. rewrite TT. cbn. eauto.
        -- rewrite HD. cbn [action_default_value]. rewrite fm_get_single. unfold typed_groups. cbn [m_raw].
           rewrite TT. cbn. eauto.
      * exfalso. unfold default_action in DA.
        destruct (from_syn_ty (f_syn f)), (f_syn f), (f_t f); discriminate.
Qed.

(** ================================================================ round trip, whole values *)
Lemma fm_get_app {V} (i : id) (a b : list (id * V)) :
  fm_get i (a ++ b) = match fm_get i a with Some x => Some x | None => fm_get i b end.
Proof. induction a as [|[k v] a IH]; cbn; auto. destruct (beq k i); auto. Qed.

Lemma field_entry_keys f g i : i <> f_id f -> fm_get i (field_entry f g) = None.
Proof.
  intros Hne. unfold field_entry.
  assert (B : beq (f_id f) i = false) by (apply beq_neq; congruence).
  destruct g; [cbn; rewrite B; reflexivity|].
  destruct (f_default f); [cbn; rewrite B; reflexivity|].
  destruct (action_default_value (field_action f)); cbn; [rewrite B|]; reflexivity.
Qed.

Lemma group_entry_keys gid ns es i : i <> gid -> fm_get i (group_entry gid ns es) = None.
Proof.
  intros Hne. unfold group_entry. destruct (filter _ es); cbn; auto.
  assert (B : beq gid i = false) by (apply beq_neq; congruence). rewrite B. reflexivity.
Qed.

Lemma print_variants_entries vs : forall vi fs p, print_variants vs vi fs = Some p -> p_entries p = [].
Proof.
  induction vs as [|cname gid body t IH]; intros vi fs p H; cbn in H; [discriminate|].
  destruct vi; [|eauto]. destruct (print_nodes body fs); [|discriminate]. inversion H; subst. reflexivity.
Qed.

Definition keys_in (ids : list id) (sub : bool) (p : printed) : Prop :=
  (forall i, ~ In i ids -> fm_get i (p_entries p) = None) /\ (sub = false -> p_msub p = None).

Lemma keys_cat a b ia ib sa sb :
  keys_in ia sa a -> keys_in ib sb b -> keys_in (ia ++ ib) (sa || sb) (printed_cat a b).
Proof.
  intros [A1 A2] [B1 B2]. split; cbn.
  - intros i Hi. rewrite fm_get_app, A1, B1; auto; intros Hin; apply Hi; apply in_or_app; auto.
  - intros Hs. apply orb_false_iff in Hs. destruct Hs. rewrite A2, B2; auto.
Qed.

Lemma print_keys :
  (forall n, (forall v p, print_node n v = Some p -> keys_in (level_ids_node n) (has_sub_node n) p)
             /\ (forall p, absent_node n = Some p -> keys_in (level_ids_node n) false p))
  /\ (forall ns, (forall vs p, print_nodes ns vs = Some p -> keys_in (level_ids ns) (has_sub_nodes ns) p)
             /\ (forall p, absent_nodes ns = Some p -> keys_in (level_ids ns) false p))
  /\ (forall vs : variants, True).
Proof.
  apply derive_mutind; try (intros; exact I).
  - intros f. split.
    + intros v p H. cbn [print_node] in H. destruct (field_groups f v); [|discriminate]. inversion H; subst.
      split; cbn [p_entries p_msub]; auto. intros i Hi. apply field_entry_keys. intros ->. apply Hi. cbn. auto.
    + intros p H. cbn [absent_node] in H.
      assert (Ep : p = mkPrinted [] [] [] (field_entry f None) None) by congruence. subst p.
      split; cbn [p_entries p_msub]; auto.
      intros i Hi. apply field_entry_keys. intros ->. apply Hi. cbn. auto.
  - intros opt gid body [IH1 IH2]. split.
    + intros v p H. cbn [print_node] in H. cbn [level_ids_node has_sub_node].
      assert (G : forall fs p0, print_nodes body fs = Some p0 ->
                keys_in (gid :: level_ids body) (has_sub_nodes body)
                        (p0 <| p_entries := p_entries p0 ++ group_entry gid body (p_entries p0) |>)).
      { intros fs p0 H0. destruct (IH1 _ _ H0) as [K1 K2]. split; cbn; auto.
        intros i Hi. rewrite fm_get_app, K1, group_entry_keys; auto; intros Hin; apply Hi; cbn; auto. }
      destruct opt.
      * destruct v; try discriminate. destruct o as [fs|].
        -- destruct (print_nodes body fs) as [p0|] eqn:P0; [|discriminate]. inversion H; subst. eapply G; eauto.
        -- destruct (IH2 _ H) as [K1 K2]. split; auto. intros i Hi. apply K1. intros Hin. apply Hi. cbn. auto.
      * destruct v; try discriminate.
        destruct (print_nodes body fs) as [p0|] eqn:P0; [|discriminate]. inversion H; subst. eapply G; eauto.
    + intros p H. cbn [absent_node] in H. destruct (IH2 _ H) as [K1 K2]. split; auto.
      intros i Hi. apply K1. intros Hin. apply Hi. cbn. auto.
  - intros opt vs _. split.
    + intros v p H. cbn [print_node] in H. split; [|discriminate]. intros i _.
      destruct opt; destruct v; try discriminate.
      * destruct o as [[vi fs]|]; [rewrite (print_variants_entries _ _ _ _ H); reflexivity | inversion H; reflexivity].
      * rewrite (print_variants_entries _ _ _ _ H). reflexivity.
    + intros p H. cbn in H. inversion H; subst. split; cbn; auto.
  - split.
    + intros vs p H. cbn in H. destruct vs; [|discriminate]. inversion H; subst. split; cbn; auto.
    + intros p H. cbn in H. inversion H; subst. split; cbn; auto.
  - intros n [IHn1 IHn2] t [IHt1 IHt2]. split.
    + intros vs p H. cbn [print_nodes] in H. destruct vs as [|v vt]; [discriminate|].
      destruct (print_node n v) as [a|] eqn:A; [|discriminate].
      destruct (print_nodes t vt) as [b|] eqn:B; [|discriminate]. inversion H; subst.
      cbn [level_ids has_sub_nodes]. apply keys_cat; eauto.
    + intros p H. cbn [absent_nodes] in H.
      destruct (absent_node n) as [a|] eqn:A; [|discriminate].
      destruct (absent_nodes t) as [b|] eqn:B; [|discriminate]. inversion H; subst.
      cbn [level_ids]. change false with (false || false). apply keys_cat; eauto.
Qed.

(** variant names are distinct, the external-subcommand id "" is not used, group ids are not argument ids *)
Fixpoint wfv_node (n : node) {struct n} : Prop :=
  match n with
  | NArg _ => True
  | NFlatten _ _ body => wfv_nodes body
  | NSub _ vs => wfv_variants vs
  end
with wfv_nodes (ns : nodes) {struct ns} : Prop :=
  match ns with NNil => True | NCons n t => wfv_node n /\ wfv_nodes t end
with wfv_variants (vs : variants) {struct vs} : Prop :=
  match vs with
  | VNil => True
  | VCons cname gid body t =>
      has_subcommand t cname = false /\ ~ In ext_id (level_ids body) /\ gid <> Some ext_id
      /\ (forall g, gid = Some g -> ~ In g (level_ids body))
      /\ wf_nodes body /\ wfv_nodes body /\ wfv_variants t
  end.

(** the value is one the printer is an inverse for: per field [field_ok] and scalars that print and
    parse back; an optional flatten is [Some] only when its group is then present *)
Fixpoint ok_node (n : node) (v : dval) {struct n} : Prop :=
  match n with
  | NArg f => field_ok f /\ Forall (srt (f_t f) (f_icase f)) (scalars v)
  | NFlatten false _ body => match v with DStruct fs => ok_nodes body fs | _ => True end
  | NFlatten true gid body =>
      match v with
      | DOptStruct (Some fs) =>
          ok_nodes body fs /\ forall p, print_nodes body fs = Some p -> group_entry gid body (p_entries p) <> []
      | _ => True
      end
  | NSub _ vs =>
      match v with
      | DEnum vi fs | DOptEnum (Some (vi, fs)) => ok_variants vs vi fs
      | _ => True
      end
  end
with ok_nodes (ns : nodes) (vs : list dval) {struct ns} : Prop :=
  match ns, vs with
  | NCons n t, v :: vt => ok_node n v /\ ok_nodes t vt
  | _, _ => True
  end
with ok_variants (vs : variants) (vi : nat) (fs : list dval) {struct vs} : Prop :=
  match vs, vi with
  | VCons _ _ body _, O => ok_nodes body fs
  | VCons _ _ _ t, S k => ok_variants t k fs
  | VNil, _ => True
  end.

Definition agrees (ids : list id) (sub : bool) (m : matches) (p : printed) : Prop :=
  (forall i, In i ids -> fm_get i (ms_args m) = fm_get i (p_entries p))
  /\ (sub = true -> ms_sub m = p_msub p).

Lemma group_entry_get gid ns es : group_entry gid ns es <> [] -> is_some (fm_get gid (group_entry gid ns es)) = true.
Proof.
  unfold group_entry. destruct (filter _ es); [congruence|]. intros _. cbn. rewrite beq_refl. reflexivity.
Qed.

Lemma has_subcommand_false_beq t cname name : has_subcommand t cname = false -> has_subcommand t name = true -> beq name cname = false.
Proof.
  intros H1 H2. destruct (beq name cname) eqn:E; auto. apply beq_eq in E. subst. congruence.
Qed.

Lemma roundtrip_mut :
  (forall n v p m, wf_node n -> wfv_node n -> ok_node n v -> print_node n v = Some p ->
     agrees (level_ids_node n) (has_sub_node n) m p -> exists m', extract_node n m = XOk (v, m'))
  /\ (forall ns vs p m, wf_nodes ns -> wfv_nodes ns -> ok_nodes ns vs -> print_nodes ns vs = Some p ->
     agrees (level_ids ns) (has_sub_nodes ns) m p -> exists m', extract_nodes ns m = XOk (vs, m'))
  /\ (forall vs k vi fs p, wfv_variants vs -> ok_variants vs vi fs -> print_variants vs vi fs = Some p ->
     exists cname sm, p_msub p = Some (cname, sm) /\ has_subcommand vs cname = true
                      /\ extract_variants vs k cname sm = XOk ((k + vi)%nat, fs)).
Proof.
  apply derive_mutind.
  - (* NArg *)
    intros f v p m _ _ [Hok Hs] H [A _]. cbn in H. destruct (field_groups f v) as [g|] eqn:G; [|discriminate].
    inversion H; subst. cbn in A. cbn [extract_node]. eapply field_roundtrip; eauto.
  - (* NFlatten *)
    intros opt gid body IH v p m [Hg W] WV Hok H [A B]. cbn [print_node extract_node] in *.
    cbn [level_ids_node has_sub_node wfv_node] in *.
    assert (Body : forall fs p0, ok_nodes body fs -> print_nodes body fs = Some p0 ->
               p = (p0 <| p_entries := p_entries p0 ++ group_entry gid body (p_entries p0) |>) ->
               exists m', extract_nodes body m = XOk (fs, m')).
    { intros fs p0 O P0 ->. eapply IH; eauto. split; [|exact B].
      intros i Hi. rewrite A by (cbn; auto). cbn. rewrite fm_get_app.
      destruct (fm_get i (p_entries p0)); auto. apply group_entry_keys. intros ->. contradiction. }
    destruct opt.
    + destruct v; try discriminate. destruct o as [fs|].
      * destruct Hok as [O R]. destruct (print_nodes body fs) as [p0|] eqn:P0; [|discriminate].
        inversion H; subst; clear H.
        assert (C : m_contains gid m = true).
        { rewrite m_contains_get, A by (cbn; auto). cbn. rewrite fm_get_app.
          destruct (proj1 (proj1 (proj2 print_keys) body) _ _ P0) as [K _]. rewrite K by exact Hg.
          apply group_entry_get. apply R. reflexivity. }
        rewrite C. destruct (Body fs p0 O P0 eq_refl) as (m' & E). rewrite E. cbn. eauto.
      * assert (C : m_contains gid m = false).
        { rewrite m_contains_get, A by (cbn; auto).
          destruct (proj2 (proj1 (proj2 print_keys) body) _ H) as [K _]. rewrite K by exact Hg. reflexivity. }
        rewrite C. eauto.
    + destruct v; try discriminate. destruct (print_nodes body fs) as [p0|] eqn:P0; [|discriminate].
      inversion H; subst; clear H. destruct (Body fs p0 Hok P0 eq_refl) as (m' & E). rewrite E. cbn. eauto.
  - (* NSub *)
    intros opt vs IH v p m W WV Hok H [_ B]. cbn [print_node extract_node wfv_node ok_node has_sub_node] in *.
    specialize (B eq_refl).
    assert (Some_case : forall vi fs, ok_variants vs vi fs -> print_variants vs vi fs = Some p ->
              sub_from_matches (extract_variants vs 0) m = XOk (vi, fs, Matches (ms_args m) None)
              /\ match ms_sub m with Some (name, _) => has_subcommand vs name | None => false end = true).
    { intros vi fs O P. destruct (IH 0%nat vi fs p WV O P) as (cname & sm & S & Hh & E).
      unfold sub_from_matches, ms_remove_subcommand. rewrite B, S. rewrite E. cbn. auto. }
    destruct opt; destruct v; try discriminate.
    + destruct o as [[vi fs]|].
      * destruct (Some_case vi fs Hok H) as [E C]. rewrite C, E. cbn. eauto.
      * inversion H; subst. cbn in B. rewrite B. eauto.
    + destruct (Some_case variant fs Hok H) as [E C]. rewrite E. cbn. eauto.
  - (* NNil *)
    intros vs p m _ _ _ H _. cbn in *. destruct vs; [|discriminate]. eauto.
  - (* NCons *)
    intros n IHn t IHt vs p m (W1 & W2 & D & S) [V1 V2] Hok H [A B]. cbn [print_nodes extract_nodes] in *.
    destruct vs as [|v vt]; [discriminate|]. destruct Hok as [O1 O2].
    destruct (print_node n v) as [a|] eqn:Pa; [|discriminate].
    destruct (print_nodes t vt) as [b|] eqn:Pb; [|discriminate]. inversion H; subst; clear H.
    destruct (proj1 (proj1 print_keys n) _ _ Pa) as [Ka Sa].
    destruct (proj1 (proj1 (proj2 print_keys) t) _ _ Pb) as [Kb Sb].
    cbn [level_ids has_sub_nodes] in *.
    assert (Sub_t : has_sub_node n = true -> p_msub b = None).
    { intros Hn. apply Sb. auto. }
    destruct (IHn v a m W1 V1 O1 Pa) as (m1 & E1).
    { split.
      - intros i Hi. rewrite A by (apply in_or_app; auto). cbn. rewrite fm_get_app.
        destruct (fm_get i (p_entries a)); [reflexivity | apply Kb; exact (D i Hi)].
      - intros Hn. rewrite B by (rewrite Hn; reflexivity). cbn. rewrite (Sub_t Hn). destruct (p_msub a); reflexivity. }
    rewrite E1. cbn [xbind fst snd].
    destruct (proj1 extract_frame _ _ _ _ E1) as [F1 F2].
    destruct (IHt vt b m1 W2 V2 O2 Pb) as (m2 & E2).
    { split.
      - intros i Hi. assert (Hn : ~ In i (level_ids_node n)) by (intros Hin; exact (D i Hin Hi)).
        rewrite F1 by exact Hn. rewrite A by (apply in_or_app; auto). cbn. rewrite fm_get_app, Ka by exact Hn. reflexivity.
      - intros Ht. assert (Hn : has_sub_node n = false).
        { destruct (has_sub_node n) eqn:Hn; auto. rewrite (S eq_refl) in Ht. discriminate. }
        rewrite F2 by exact Hn. rewrite B by (rewrite Ht; apply orb_true_r). cbn. rewrite (Sa Hn). reflexivity. }
    rewrite E2. cbn. eauto.
  - (* VNil *)
    intros k vi fs p _ _ H. cbn in H. discriminate.
  - (* VCons *)
    intros cname gid body IHb t IHt k vi fs p (Hd & Hext & Hg0 & Hg & W & WV & WT) Hok H.
    cbn [print_variants extract_variants has_subcommand ok_variants] in *. destruct vi as [|vi].
    + destruct (print_nodes body fs) as [pb|] eqn:Pb; [|discriminate]. inversion H; subst; clear H. cbn [p_msub].
      do 2 eexists. split; [reflexivity|]. rewrite beq_refl. cbn [orb]. split; [reflexivity|].
      destruct (proj1 (proj1 (proj2 print_keys) body) _ _ Pb) as [Kb _].
      set (es := p_entries pb ++ match gid with Some g => group_entry g body (p_entries pb) | None => [] end).
      assert (C : m_contains ext_id (Matches es (p_msub pb)) = false).
      { rewrite m_contains_get. cbn. unfold es. rewrite fm_get_app, Kb by exact Hext.
        destruct gid as [g|]; [|reflexivity]. rewrite group_entry_keys; [reflexivity|]. intros Heq. apply Hg0. rewrite Heq. reflexivity. }
      rewrite C. cbn [negb andb].
      destruct (IHb fs pb (Matches es (p_msub pb)) W WV Hok Pb) as (m' & E).
      { split; [|reflexivity]. intros i Hi. cbn. unfold es. rewrite fm_get_app.
        destruct (fm_get i (p_entries pb)); auto. destruct gid as [g|]; [|reflexivity].
        apply group_entry_keys. intros ->. exact (Hg g eq_refl Hi). }
      rewrite E. cbn. rewrite Nat.add_0_r. reflexivity.
    + destruct (IHt (S k) vi fs p WT Hok H) as (cn & sm & S1 & S2 & S3).
      exists cn, sm. split; [exact S1|]. split; [rewrite S2; apply orb_true_r|].
      rewrite (has_subcommand_false_beq t cname cn Hd S2). cbn [andb].
      rewrite S3. f_equal. f_equal. lia.
Qed.

Theorem roundtrip d vs m :
  wf_nodes (d_nodes d) -> wfv_nodes (d_nodes d) -> ~ In (d_gid d) (level_ids (d_nodes d)) ->
  ok_nodes (d_nodes d) vs ->
  matches_of_print d vs = Some m ->
  extract d m = XOk vs.
Proof.
  intros W WV Hg Hok H. unfold matches_of_print, print_top in H.
  destruct (print_nodes (d_nodes d) vs) as [p|] eqn:P; [|discriminate]. cbn in H. inversion H; subst; clear H.
  unfold extract.
  destruct (proj1 (proj2 roundtrip_mut) (d_nodes d) vs p
              (Matches (p_entries p ++ group_entry (d_gid d) (d_nodes d) (p_entries p)) (p_msub p)) W WV Hok P) as (m' & E).
  { split; [|reflexivity]. intros i Hi. cbn. rewrite fm_get_app.
    destruct (fm_get i (p_entries p)); auto. apply group_entry_keys. intros ->. contradiction. }
  rewrite E. reflexivity.
Qed.

(** the hypotheses of [roundtrip] are satisfiable, and for this instance the printed line, parsed by the
    parser model with the generated command, extracts to the value (the composition the dround stream
    checks on every case) *)
Definition ex_value : list dval := [DOne (SvBool true); DOpt (Some (SvInt 7))].
Example roundtrip_example :
  wf_nodes ex_nodes /\ wfv_nodes ex_nodes /\ ~ In (d_gid ex_input) (level_ids ex_nodes) /\ ok_nodes ex_nodes ex_value
  /\ (exists m, matches_of_print ex_input ex_value = Some m)
  /\ (exists argv, print ex_input ex_value = Some argv
                   /\ derived_parse ex_input (b_prog :: argv) = PValue ex_value).
Proof.
  split; [exact wf_example|]. split; [repeat split|].
  split; [intros [H|[H|[]]]; discriminate H|].
  split.
  - change (ok_node (NArg ex_flag) (DOne (SvBool true)) /\ ok_node (NArg ex_opt) (DOpt (Some (SvInt 7))) /\ True).
    split; [|split; [|exact I]].
    + split; [cbv; auto|]. constructor; [apply srt_bool | constructor].
    + split; [cbv; auto|]. constructor; [apply srt_u8 | constructor].
  - split; [eexists; vm_compute; reflexivity|]. eexists. split; [vm_compute; reflexivity|]. vm_compute. reflexivity.
Qed.

Theorem scalars_roundtrip :
  (forall ic x, srt TBool ic x) /\ (forall ic x, srt TStr ic x) /\ (forall ic x, srt TU8 ic x)
  /\ (forall e ic x, names_disjoint ic e -> Forall (fun v => utf8_valid (pv_name (vv_pv v)) = true) e -> srt (TEnum e) ic x).
Proof. repeat split; [apply srt_bool | apply srt_str | apply srt_u8 | apply srt_enum]. Qed.
